(* Property C05 -- a (re)joining node resynchronises to exactly the primary's data *)
(* Statements only: each theorem restates the proved lemma's statement and is closed by [exact]. *)
From NunDB Require Import Model.Base Model.Pending Model.Parse Model.Node Model.Oplog Model.Cluster Proofs.PendingProofs Proofs.DbProofs Proofs.ClusterProofs Proofs.SyncProofs Proofs.OplogProofs Proofs.IncrSyncProofs Proofs.ConvergeProofs Proofs.FullSyncProofs.
Local Open Scope Z_scope.

(* the LIVE replication line (with its version field) round-trips byte for byte, values with spaces, numeric-first and empty values included *)
Theorem C05_live_replicate_roundtrip :
  forall (db key value : str) (ver : Z),
         no_sp db ->
         no_sp key ->
         no_nl key ->
         no_nl value ->
         no_semi_end value ->
         is_i32 ver -> parse_request (replicate_msg db key value ver) = POk (RqReplicateSet db key value ver).
Proof. exact replicate_roundtrip. Qed.
Print Assumptions C05_live_replicate_roundtrip.

(* a create-db line with token and strategy round-trips *)
Theorem C05_create_db_roundtrip :
  forall (name token : str) (s : strat),
         no_sp name ->
         no_sp token ->
         no_nl token ->
         parse_request ("create-db " +++ name +++ " " +++ token +++ " " +++ strat_to_str s) =
         POk (RqCreateDb token name s).
Proof. exact create_db_roundtrip. Qed.
Print Assumptions C05_create_db_roundtrip.

(* writes accepted during the synchronisation reach the joiner in the primary's order and keep it equal *)
Theorem C05_replay_converges :
  forall ms ms' : list dop,
         same_ops ms ms' ->
         forall d1 d2 : db, dbrel d1 d2 -> dbrel (fold_left db_apply ms d1) (fold_left db_apply ms' d2).
Proof. exact replay_converges. Qed.
Print Assumptions C05_replay_converges.

(* REFUTED (known finding): the catch-up line 'replicate <db> <key> <value>' has no version field and does not round-trip *)
Theorem C05_sync_line_roundtrip_refuted :
  exists db key value : str,
           forall ver : Z,
           parse_request (SyncProofs.sync_line db key value) <> POk (RqReplicateSet db key value ver).
Proof. exact sync_line_roundtrip_refuted. Qed.
Print Assumptions C05_sync_line_roundtrip_refuted.

Theorem C05_catchup_line_not_roundtrip :
  parse_request "replicate d1 k value3" = POk (RqReplicateSet "d1" "k" "" (-1)).
Proof. exact catchup_line_not_roundtrip. Qed.
Print Assumptions C05_catchup_line_not_roundtrip.

Theorem C05_catchup_line_numeric_value :
  parse_request "replicate d1 k 7" = POk (RqReplicateSet "d1" "k" "" 7).
Proof. exact catchup_line_numeric_value. Qed.
Print Assumptions C05_catchup_line_numeric_value.

Theorem C05_sync_line_multi_word :
  parse_request "replicate d1 k a b c" = POk (RqReplicateSet "d1" "k" "b c" (-1)).
Proof. exact sync_line_multi_word. Qed.
Print Assumptions C05_sync_line_multi_word.

Theorem C05_sync_line_numeric_first :
  parse_request "replicate d1 k 12 abc" = POk (RqReplicateSet "d1" "k" "abc" 12).
Proof. exact sync_line_numeric_first. Qed.
Print Assumptions C05_sync_line_numeric_first.

(* UNBOUNDED: for any log the writer can produce and any `since`, the incremental catch-up does not panic and has a line for every key written or removed at or after `since` (replicate with the CURRENT value, or replicate-remove, decided by the key's last record) -- no operation accepted while the node was away is left out (after the marker-id repair) *)
Theorem C05_incr_sync_covers :
  forall (x : cnode) (since : N),
         decodable x ->
         meta_keys (cn_log x) ->
         (N.of_nat (Datatypes.length (cn_keymap x)) < marker_snapshot)%N ->
         exists ls : list str,
           incr_sync_lines x since = Some ls /\
           (forall r : oprec,
            In r (cn_log x) ->
            (since <= r_time r)%N ->
            (r_op r <= 1)%N ->
            exists (dbn k : str) (r' : oprec),
              name_of_id (n_idmap (cn_node x)) (r_db r) = Some dbn /\
              key_of_id (cn_keymap x) (r_key r) = Some k /\
              spec_last (cn_log x) since (r_db r, r_key r) = Some r' /\
              (r_op r' = 0%N /\
               (exists d : db,
                  get_db (cn_node x) dbn = Some d /\
                  In ("replicate " +++ dbn +++ " " +++ k +++ " " +++ fst (get_key_value_new d k)) ls) \/
               r_op r' = 1%N /\ In ("replicate-remove " +++ dbn +++ " " +++ k) ls)).
Proof. exact incr_sync_covers_fixed. Qed.
Print Assumptions C05_incr_sync_covers.

(* the hypotheses of the coverage theorem are an invariant of the replication thread's log writer *)
Theorem C05_decodable_invariant :
  forall (x : cnode) (rq : request) (id : N) (x' : cnode),
         decodable x ->
         logged_request rq ->
         times_le (cn_log x) id ->
         repl_oplog x rq id = (x', Some id) -> decodable x' /\ times_le (cn_log x') id.
Proof. exact repl_oplog_keeps_decodable. Qed.
Print Assumptions C05_decodable_invariant.

Theorem C05_meta_keys_invariant :
  forall (x : cnode) (rq : request) (id : N) (x' : cnode) (o : option N),
         meta_keys (cn_log x) -> repl_oplog x rq id = (x', o) -> meta_keys (cn_log x').
Proof. exact repl_oplog_keeps_meta_keys. Qed.
Print Assumptions C05_meta_keys_invariant.

(* exactness: every line comes from a log record that is the last of its key, at or after `since` (or the single stale record at index 1 the binary search may return when no record carries exactly `since`) *)
Theorem C05_incr_sync_only_touched :
  forall (x : cnode) (since : N) (ls : list str),
         sorted_times (cn_log x) = true ->
         recs_decodable x ->
         incr_sync_lines x since = Some ls ->
         exists sls : list sline,
           ls = map (render (cn_node x)) sls /\
           (forall sl : sline,
            In sl sls ->
            exists (r : oprec) (l1 l2 : list oprec),
              cn_log x = l1 ++ r :: l2 /\
              nokey (kof r) l2 /\
              sline_of x r = Some sl /\
              ((since <= r_time r)%N \/
               nth_error (cn_log x) 1 = Some r /\ (forall r0 : oprec, In r0 (cn_log x) -> r_time r0 <> since))).
Proof. exact incr_sync_only_touched. Qed.
Print Assumptions C05_incr_sync_only_touched.

Theorem C05_incr_sync_only_touched_exact :
  forall (x : cnode) (since : N) (ls : list str),
         sorted_times (cn_log x) = true ->
         recs_decodable x ->
         incr_sync_lines x since = Some ls ->
         (exists r0 : oprec, In r0 (cn_log x) /\ r_time r0 = since) ->
         exists sls : list sline,
           ls = map (render (cn_node x)) sls /\
           (forall sl : sline,
            In sl sls ->
            exists r : oprec,
              In r (cn_log x) /\
              (since <= r_time r)%N /\ spec_last (cn_log x) since (kof r) = Some r /\ sline_of x r = Some sl).
Proof. exact incr_sync_only_touched_exact. Qed.
Print Assumptions C05_incr_sync_only_touched_exact.

Theorem C05_incr_sync_one_line_per_key :
  forall (x : cnode) (since : N) (ls : list str),
         sorted_times (cn_log x) = true ->
         recs_decodable x ->
         decode_inj x ->
         incr_sync_lines x since = Some ls ->
         exists sls : list sline, ls = map (render (cn_node x)) sls /\ NoDup (touched sls).
Proof. exact incr_sync_one_line_per_key. Qed.
Print Assumptions C05_incr_sync_one_line_per_key.

(* lines are in the order of the keys' last records *)
Theorem C05_incr_sync_order :
  forall (x : cnode) (since : N) (ls : list str),
         sorted_times (cn_log x) = true ->
         recs_decodable x ->
         incr_sync_lines x since = Some ls ->
         forall (l1 : list oprec) (ra : oprec) (l2 : list oprec) (rb : oprec) (l3 : list oprec),
         cn_log x = l1 ++ ra :: l2 ++ rb :: l3 ->
         (since <= r_time ra)%N ->
         nokey (kof ra) (l2 ++ rb :: l3) ->
         nokey (kof rb) l3 ->
         exists (sla slb : sline) (p1 p2 p3 : list str),
           sline_of x ra = Some sla /\
           sline_of x rb = Some slb /\ ls = p1 ++ render (cn_node x) sla :: p2 ++ render (cn_node x) slb :: p3.
Proof. exact incr_sync_order. Qed.
Print Assumptions C05_incr_sync_order.

(* non-vacuity and the repaired case: the key with id 2 is covered although a snapshot record follows *)
Theorem C05_covers_example :
  let r := {| r_time := 111; r_key := 2; r_db := 1; r_op := 0 |} in
         In r (cn_log ex) /\
         (110 <= r_time r)%N /\
         (r_op r <= 1)%N /\
         name_of_id (n_idmap (cn_node ex)) (r_db r) = Some "d1" /\
         key_of_id (cn_keymap ex) (r_key r) = Some "k2" /\
         (exists d : db, get_db (cn_node ex) "d1" = Some d /\ fst (get_key_value_new d "k2") = "c") /\
         spec_last (cn_log ex) 110 (r_db r, r_key r) = Some r /\
         (exists ls : list str, incr_sync_lines ex 110 = Some ls /\ In "replicate d1 k2 c" ls).
Proof. exact covers_fixed_example. Qed.
Print Assumptions C05_covers_example.

Theorem C05_create_db_line_kept_example :
  In {| r_time := 104; r_key := marker_create; r_db := 1; r_op := 2 |} (cn_log ex) /\
         create_db_line (cn_node ex) "d1" = "create-db d1 tok" /\
         incr_sync_lines ex 104 =
         Some
           ["create-db d1 tok"; "replicate d1 k2 c"; "replicate-remove d1 k1"; "replicate d1 k0 a2";
            "replicate-snapshot d1"; "replicate d1 k3 d"].
Proof. exact create_db_line_kept_example. Qed.
Print Assumptions C05_create_db_line_kept_example.

(* the redundant stale line (harmless: a value the joiner already has) *)
Theorem C05_stale_line_refuted :
  cn_log ex3 =
         [{| r_time := 104; r_key := marker_create; r_db := 1; r_op := 2 |};
          {| r_time := 107; r_key := 0; r_db := 1; r_op := 0 |};
          {| r_time := 109; r_key := 1; r_db := 1; r_op := 0 |}] /\
         decodable ex3 /\
         incr_sync_lines ex3 108 = Some ["replicate d1 k0 a"; "replicate d1 k1 b"] /\
         spec_last (cn_log ex3) 108 (1%N, 0%N) = None.
Proof. exact only_touched_refuted. Qed.
Print Assumptions C05_stale_line_refuted.

(* UNBOUNDED: the full synchronisation has a line for every entry of every database except the token and the connection counter *)
Theorem C05_full_sync_covers :
  forall (n : node) (dbn : str) (d : db) (k : str) (v : value),
         In (dbn, d) (n_dbs n) ->
         dbn <> "$admin" ->
         In (k, v) (d_map d) ->
         k <> "$$token" ->
         k <> "$connections" -> In ("replicate " +++ dbn +++ " " +++ k +++ " " +++ v_val v) (full_sync_lines n).
Proof. exact full_sync_covers. Qed.
Print Assumptions C05_full_sync_covers.

(* in particular users, permission lists and every other $$ key are sent *)
Theorem C05_full_sync_covers_secure_keys :
  forall (n : node) (dbn : str) (d : db) (k : str) (v : value),
         In (dbn, d) (n_dbs n) ->
         dbn <> "$admin" ->
         In (k, v) (d_map d) ->
         starts_with k "$$" = true ->
         k <> "$$token" -> In ("replicate " +++ dbn +++ " " +++ k +++ " " +++ v_val v) (full_sync_lines n).
Proof. exact full_sync_covers_secure_keys. Qed.
Print Assumptions C05_full_sync_covers_secure_keys.

(* per database: the create-db line, the entries in map order, the snapshot request -- contiguous *)
Theorem C05_full_sync_db_block :
  forall (n : node) (dbn : str) (d : db),
         In (dbn, d) (n_dbs n) ->
         dbn <> "$admin" ->
         exists (pre : list str) (post : list string),
           full_sync_lines n =
           pre ++
           [create_db_line n dbn] ++ entry_lines dbn (d_map d) ++ ["replicate-snapshot " +++ dbn] ++ post.
Proof. exact full_sync_db_block. Qed.
Print Assumptions C05_full_sync_db_block.

(* exactness: nothing else is sent *)
Theorem C05_full_sync_only :
  forall (n : node) (l : str),
         In l (full_sync_lines n) ->
         exists (dbn : str) (d : db),
           In (dbn, d) (n_dbs n) /\
           dbn <> "$admin" /\
           (l = create_db_line n dbn \/
            (exists (k : str) (v : value),
               In (k, v) (d_map d) /\
               k <> "$$token" /\
               k <> "$connections" /\ l = "replicate " +++ dbn +++ " " +++ k +++ " " +++ v_val v) \/
            l = "replicate-snapshot " +++ dbn).
Proof. exact full_sync_only. Qed.
Print Assumptions C05_full_sync_only.

(* the answer does not depend on the administrative database *)
Theorem C05_full_sync_no_admin :
  forall n n' : node,
         non_admin (n_dbs n) = non_admin (n_dbs n') -> full_sync_lines n = full_sync_lines n'.
Proof. exact full_sync_no_admin. Qed.
Print Assumptions C05_full_sync_no_admin.

(* the create-db line carries the database's token *)
Theorem C05_full_sync_token_line :
  forall (n : node) (dbn : str) (d : db) (v : value),
         get_db n dbn = Some d ->
         get_value d "$$token" = Some v -> create_db_line n dbn = "create-db " +++ dbn +++ " " +++ v_val v.
Proof. exact full_sync_token_line. Qed.
Print Assumptions C05_full_sync_token_line.

(* a joiner that processes a database's block ends with the database, the primary's token and EVERY key of the block present (whatever bytes the values hold) *)
Theorem C05_full_sync_joiner_has_keys :
  forall (p j : node) (cs : nat) (dbn : str) (d : db),
         get_db p dbn = Some d ->
         dbn <> "$admin" ->
         simple_tok dbn ->
         simple_tok (fst (get_key_value_new d "$$token")) ->
         (forall (k : str) (v : value),
          In (k, v) (d_map d) -> k <> "$$token" -> k <> "$connections" -> no_sp k /\ no_nl k) ->
         s_auth (get_sess j cs) = true ->
         is_primary j || sess_is_primary (get_sess j cs) = true ->
         has_db j dbn = false ->
         let j' := run j cs (db_block p dbn d) in
         has_db j' dbn = true /\
         s_auth (get_sess j' cs) = true /\
         (exists dj : db,
            get_db j' dbn = Some dj /\
            fst (get_key_value_new dj "$$token") = fst (get_key_value_new d "$$token") /\
            (forall (k : str) (v : value),
             In (k, v) (d_map d) -> k <> "$$token" -> k <> "$connections" -> get_value dj k <> None)).
Proof. exact full_sync_joiner_has_keys. Qed.
Print Assumptions C05_full_sync_joiner_has_keys.

(* kept visible: the hypothesis 'the link is the primary's' is needed (create-db is refused otherwise) *)
Theorem C05_full_sync_joiner_needs_primary_link :
  let
         '(n0, c) := connect (init_node "u" "p" "127.0.0.1:3017" 2 Secondary 500) in
          let j := run n0 c ["auth u p"] in
          s_auth (get_sess j c) = true /\ has_db (run j c (full_sync_lines example_primary)) "d1" = false.
Proof. exact full_sync_joiner_needs_primary_link. Qed.
Print Assumptions C05_full_sync_joiner_needs_primary_link.

(* kept visible (the recorded finding made precise): one-word values arrive EMPTY, because the line has no version field and the word is read as the version *)
Theorem C05_full_sync_joiner_one_word_values_lost :
  forall (p j : node) (cs : nat) (dbn : str) (d : db),
         get_db p dbn = Some d ->
         dbn <> "$admin" ->
         simple_tok dbn ->
         simple_tok (fst (get_key_value_new d "$$token")) ->
         (forall (k : str) (v : value),
          In (k, v) (d_map d) -> k <> "$$token" -> k <> "$connections" -> simple_tok k /\ simple_tok (v_val v)) ->
         s_auth (get_sess j cs) = true ->
         is_primary j || sess_is_primary (get_sess j cs) = true ->
         has_db j dbn = false ->
         exists dj : db,
           get_db (run j cs (db_block p dbn d)) dbn = Some dj /\
           (forall (k : str) (v : value),
            In (k, v) (d_map d) ->
            k <> "$$token" ->
            k <> "$connections" -> exists v' : value, get_value dj k = Some v' /\ v_val v' = "").
Proof. exact full_sync_joiner_one_word_values_lost. Qed.
Print Assumptions C05_full_sync_joiner_one_word_values_lost.

(* non-vacuity: d1 with a key, a user and a permission list *)
Theorem C05_full_sync_example :
  map (fun kv : str * db => (fst kv, map fst (d_map (snd kv)))) (n_dbs example_primary) =
         [("$admin", ["$$token"; "$admin"; "d1"]);
          ("d1", ["$$token"; "$connections"; "a"; "$$user_bob"; "$$permission_$bob"])] /\
         full_sync_lines example_primary =
         ["create-db d1 tok1"; "replicate d1 a 1"; "replicate d1 $$user_bob pw";
          "replicate d1 $$permission_$bob rw a"; "replicate-snapshot d1"].
Proof. exact full_sync_example. Qed.
Print Assumptions C05_full_sync_example.
