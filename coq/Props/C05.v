(* Property C05 -- a (re)joining node resynchronises to exactly the primary's data *)
(* Statements only: each theorem restates the proved lemma's statement and is closed by [exact]. *)
From NunDB Require Import Model.Base Model.Pending Model.Parse Model.Node Model.Oplog Model.Cluster Proofs.PendingProofs Proofs.DbProofs Proofs.ClusterProofs Proofs.SyncProofs.
Local Open Scope Z_scope.

(* the LIVE replication line (with its version field) round-trips byte for byte, values with spaces, numeric-first and empty values included *)
Theorem C05_live_replicate_roundtrip :
  forall (db key value : str) (ver : Z),
         no_sp db ->
         no_sp key ->
         no_nl key ->
         no_nl value ->
         no_semi_end value ->
         is_i32 ver -> parse_request (replicate_msg db key value ver) = POk (RqReplicateSet db key value ver).
Proof. exact replicate_roundtrip. Qed.
Print Assumptions C05_live_replicate_roundtrip.

(* a create-db line with token and strategy round-trips *)
Theorem C05_create_db_roundtrip :
  forall (name token : str) (s : strat),
         no_sp name ->
         no_sp token ->
         no_nl token ->
         parse_request ("create-db " +++ name +++ " " +++ token +++ " " +++ strat_to_str s) =
         POk (RqCreateDb token name s).
Proof. exact create_db_roundtrip. Qed.
Print Assumptions C05_create_db_roundtrip.

(* writes accepted during the synchronisation reach the joiner in the primary's order and keep it equal *)
Theorem C05_replay_converges :
  forall ms ms' : list dop,
         same_ops ms ms' ->
         forall d1 d2 : db, dbrel d1 d2 -> dbrel (fold_left db_apply ms d1) (fold_left db_apply ms' d2).
Proof. exact replay_converges. Qed.
Print Assumptions C05_replay_converges.

(* REFUTED (known finding): the catch-up line 'replicate <db> <key> <value>' has no version field and does not round-trip *)
Theorem C05_sync_line_roundtrip_refuted :
  exists db key value : str,
           forall ver : Z, parse_request (sync_line db key value) <> POk (RqReplicateSet db key value ver).
Proof. exact sync_line_roundtrip_refuted. Qed.
Print Assumptions C05_sync_line_roundtrip_refuted.

Theorem C05_catchup_line_not_roundtrip :
  parse_request "replicate d1 k value3" = POk (RqReplicateSet "d1" "k" "" (-1)).
Proof. exact catchup_line_not_roundtrip. Qed.
Print Assumptions C05_catchup_line_not_roundtrip.

Theorem C05_catchup_line_numeric_value :
  parse_request "replicate d1 k 7" = POk (RqReplicateSet "d1" "k" "" 7).
Proof. exact catchup_line_numeric_value. Qed.
Print Assumptions C05_catchup_line_numeric_value.

Theorem C05_sync_line_multi_word :
  parse_request "replicate d1 k a b c" = POk (RqReplicateSet "d1" "k" "b c" (-1)).
Proof. exact sync_line_multi_word. Qed.
Print Assumptions C05_sync_line_multi_word.

Theorem C05_sync_line_numeric_first :
  parse_request "replicate d1 k 12 abc" = POk (RqReplicateSet "d1" "k" "abc" 12).
Proof. exact sync_line_numeric_first. Qed.
Print Assumptions C05_sync_line_numeric_first.
