(* Property C06 -- snapshot then restart restores exactly the snapshotted state *)
(* Statements only: each theorem restates the proved lemma's statement and is closed by [exact]. *)
From NunDB Require Import Model.Base Model.Parse Model.Node Model.Disk Proofs.DiskProofs.
Local Open Scope list_scope.

(* UNBOUNDED HISTORIES: after any valid history of set / remove / increment / snapshot (any key order, reclaim on or off) / restart that ends in a snapshot, the run is never stuck, memory holds only persisted or deleted entries, and the loader returns exactly the live entries (value, version, addresses), removed keys absent *)
Theorem C06_restore_exact :
  forall (evs : list dev) (reclaim : bool) (order : list str),
         devs_ok dinit (evs ++ [DvSnap reclaim order]) ->
         exists (mem : list (str * value)) (fs : files) (clk : N),
           druns dinit (evs ++ [DvSnap reclaim order]) = Some (mem, fs, clk) /\
           (forall (k : string) (mv : value),
            assoc_get String.eqb k mem = Some mv -> v_st mv = VOk \/ v_st mv = VDeleted) /\
           (forall clk0 : N,
            exists (m : list (str * value)) (clk' : N), load_db fs clk0 = Some (LOk m clk') /\ restored mem m).
Proof. exact C06_restore_exact. Qed.
Print Assumptions C06_restore_exact.

(* the same, stated on the restarted node: restart after the final snapshot yields the restored map and leaves the files unchanged *)
Theorem C06_restart_after_snapshot :
  forall (evs : list dev) (reclaim : bool) (order : list str),
         devs_ok dinit (evs ++ [DvSnap reclaim order]) ->
         exists (mem : list (str * value)) (fs : files) (clk : N) (m : list (str * value)) 
         (clk' : N),
           druns dinit (evs ++ [DvSnap reclaim order]) = Some (mem, fs, clk) /\
           druns dinit (evs ++ [DvSnap reclaim order; DvRestart]) = Some (m, fs, clk') /\ restored mem m.
Proof. exact C06_restart_after_snapshot. Qed.
Print Assumptions C06_restart_after_snapshot.

(* one snapshot from any state satisfying the disk invariant re-establishes it and round-trips through the loader *)
Theorem C06_one_snapshot :
  forall (d : db) (order : list str) (reclaim : bool) (fs : files) (clock : N),
         DiskInv (d_map d) fs ->
         NoDup order ->
         let p := snapshot_plan d order reclaim fs clock in
         let fs' := apply_fops fs (fst (fst p)) in
         let mem' := snd (fst p) in
         (fsize fs' FVals < two64)%N ->
         DiskInv mem' fs' /\
         (forall (k : string) (mv : value),
          assoc_get String.eqb k mem' = Some mv -> v_st mv = VOk \/ v_st mv = VDeleted) /\
         (forall clk : N,
          exists (m : list (str * value)) (clk' : N), load_db fs' clk = Some (LOk m clk') /\ restored mem' m).
Proof. exact C06_one_snapshot. Qed.
Print Assumptions C06_one_snapshot.

(* the disk invariant is preserved by every event of a valid history; the loader never panics on files a valid history produced *)
Theorem C06_history_inv :
  forall (evs : list dev) (s : dstate),
         DiskInv (ds_mem s) (ds_files s) ->
         devs_ok s evs -> exists s' : dstate, druns s evs = Some s' /\ DiskInv (ds_mem s') (ds_files s').
Proof. exact C06_history_inv. Qed.
Print Assumptions C06_history_inv.

(* the metadata file round-trips the database id and conflict strategy *)
Theorem C06_metadata :
  forall (d : db) (order : list str) (reclaim : bool) (fs : files) (clock n : N),
         (d_id d < 2 ^ 64)%N ->
         load_meta (apply_fops fs (fst (fst (snapshot_plan d order reclaim fs clock)))) n = (d_id d, d_strat d).
Proof. exact C06_metadata. Qed.
Print Assumptions C06_metadata.

(* non-vacuity: a concrete history satisfies the side conditions *)
Theorem C06_hyps_satisfiable :
  devs_ok dinit
           [DvSet "a" "1" (-1) 1; DvInc "n" 3 2; DvSnap false ["a"]; DvRemove "a"; 
            DvSnap true ["n"; "a"]; DvRestart].
Proof. exact devs_ok_demo. Qed.
Print Assumptions C06_hyps_satisfiable.

(* why -1 <= version is required: a stored version of -1 reads as deleted (version argument -2 is outside the quantifier) *)
Theorem C06_version_minus_one_lost_refuted :
  option_map ds_mem (druns dinit [DvSet "a" "x" (-2) 0; DvSnap false []]) =
         Some [("a", {| v_val := "x"; v_ver := -1; v_opp := 0; v_st := VOk; v_vaddr := 0; v_kaddr := 0 |})] /\
         option_map ds_mem (druns dinit [DvSet "a" "x" (-2) 0; DvSnap false []; DvRestart]) = Some [].
Proof. exact version_minus_one_lost. Qed.
Print Assumptions C06_version_minus_one_lost_refuted.

(* why NoDup order is required (a HashMap never yields a key twice) *)
Theorem C06_dup_order_needs_nodup :
  option_map ds_mem
           (druns dinit [DvSet "a" "x" (-1) 0; DvSnap false ["a"; "a"]; DvRemove "a"; DvSnap false []]) =
         Some
           [("a",
             {| v_val := "<Empty>"; v_ver := 1; v_opp := 1; v_st := VDeleted; v_vaddr := 13; v_kaddr := 21 |})] /\
         option_map ds_mem
           (druns dinit
              [DvSet "a" "x" (-1) 0; DvSnap false ["a"; "a"]; DvRemove "a"; DvSnap false []; DvRestart]) =
         Some [("a", {| v_val := "x"; v_ver := 0; v_opp := 2; v_st := VOk; v_vaddr := 0; v_kaddr := 0 |})].
Proof. exact dup_order_needs_nodup. Qed.
Print Assumptions C06_dup_order_needs_nodup.
