(* Property C18 -- S3 storage strategies restore what the disk strategy would *)
(* Statements only: each theorem restates the proved lemma's statement and is closed by [exact]. *)
From NunDB Require Import Model.Base Model.Parse Model.Node Model.Disk Model.S3 Proofs.DiskProofs Proofs.S3Proofs.
Local Open Scope list_scope.

(* UNBOUNDED HISTORIES, strategy s3_patition: after any history of set / remove / increment / snapshot (incremental or reclaiming, any iteration orders) from the empty database and store, a snapshot followed by the loader restores exactly the non-deleted keys with their values and versions; removed keys stay removed, untouched keys stay present; one GET fault is absorbed by the retry *)
Theorem C18_part_history_restore :
  forall (retry : nat) (parts : list (str * N)) (dbn : str) (clk0 : N) (evs : list pev) 
           (reclaim : bool) (o0 : list str) (os : list (list str)) (getfault : option N) 
           (clk1 : N),
         parts_ok parts ->
         Forall (pev_ok dbn) evs ->
         NoDup o0 ->
         Forall (NoDup (A:=str)) os ->
         getfault = None \/ (1 <= retry)%nat ->
         let
         '(m, s, clk) := fold_left (prun retry parts dbn) evs ([], stub0, clk0) in
          exists
            (s' : stub) (mem' : list (str * value)) (clk' : N) (os' : list (list str)) 
          (s'' : stub) (m' : list (str * value)) (clk'' : N),
            part_snapshot retry parts (db_of m) dbn o0 reclaim s clk os = (s', mem', clk', os', true) /\
            (forall (k : string) (v : value), get k mem' = Some v -> v_st v = VOk \/ v_st v = VDeleted) /\
            snap_mem (pssel parts (snap_ps parts m o0 reclaim)) m mem' /\
            part_read_db retry (with_getfail s' getfault) dbn clk1 = (s'', PLoaded m' clk'') /\
            live_restored mem' m' /\ live_restored m m'.
Proof. exact part_history_restore. Qed.
Print Assumptions C18_part_history_restore.

(* the invariant behind it (every object decodes, holds only keys of its partition that are in memory, every persisted key is in its partition object with memory's data), preserved by the real set_value / remove_value / inc_value and by snapshots *)
Theorem C18_part_history_inv :
  forall (retry : nat) (parts : list (str * N)) (dbn : str) (clk0 : N) (evs : list pev),
         parts_ok parts ->
         Forall (pev_ok dbn) evs -> PJ parts dbn (fold_left (prun retry parts dbn) evs ([], stub0, clk0)).
Proof. exact part_history_inv. Qed.
Print Assumptions C18_part_history_inv.

Theorem C18_part_snapshot_inv :
  forall (retry : nat) (parts : list (str * N)) (d : db) (dbn : str) (order0 : list str)
           (reclaim : bool) (s : stub) (clock : N) (orders : list (list str)),
         PInv parts dbn (d_map d) (st_objs s) ->
         parts_ok parts ->
         NoDup order0 ->
         Forall (NoDup (A:=str)) orders ->
         st_putfail s = None ->
         exists (s' : stub) (mem' : list (str * value)) (clk' : N) (os' : list (list str)),
           part_snapshot retry parts d dbn order0 reclaim s clock orders = (s', mem', clk', os', true) /\
           PInv parts dbn mem' (st_objs s') /\
           Synced parts dbn mem' (st_objs s') /\
           (forall (k : string) (v : value), get k mem' = Some v -> v_st v = VOk \/ v_st v = VDeleted) /\
           snap_mem (pssel parts (snap_ps parts (d_map d) order0 reclaim)) (d_map d) mem' /\
           st_putfail s' = None /\ st_getfail s' = st_getfail s.
Proof. exact PInv_snapshot. Qed.
Print Assumptions C18_part_snapshot_inv.

Theorem C18_part_roundtrip_reclaim :
  forall (retry : nat) (parts : list (str * N)) (d : db) (dbn : str) (order0 : list str) 
           (s : stub) (clock : N) (orders : list (list str)) (clk0 : N),
         NoDup (map fst (d_map d)) ->
         mem_ok3 (d_map d) ->
         NoDup order0 ->
         Forall (NoDup (A:=str)) orders ->
         parts_ok parts ->
         st_putfail s = None ->
         st_getfail s = None ->
         (forall nm : str,
          In nm (map fst (st_objs s)) ->
          starts_with nm (dbprefix dbn) = true ->
          exists p : N, nm = pname dbn p /\ In p (snap_ps parts (d_map d) order0 true)) ->
         exists
           (s' : stub) (mem' : list (str * value)) (clk' : N) (os' : list (list str)) 
         (s'' : stub) (m : list (str * value)) (clk'' : N),
           part_snapshot retry parts d dbn order0 true s clock orders = (s', mem', clk', os', true) /\
           part_read_db retry s' dbn clk0 = (s'', PLoaded m clk'') /\
           live_restored (d_map d) m /\
           snap_mem (fun _ : str => true) (d_map d) mem' /\ st_objs s'' = st_objs s'.
Proof. exact part_roundtrip_reclaim. Qed.
Print Assumptions C18_part_roundtrip_reclaim.

(* byte level: one partition object decodes to exactly the non-deleted keys of its partition *)
Theorem C18_part_object_roundtrip :
  forall (parts : list (str * N)) (p : N) (dbn : str) (mem : list (string * value)) 
           (s : stub) (clock : N) (fuel : nat) (orders : list (list str)),
         NoDup (map fst mem) ->
         mem_ok3 mem ->
         NoDup (hd [] orders) ->
         st_putfail s = None ->
         exists (s1 : stub) (mem1 : list (str * value)) (clk1 : N) (data : str),
           part_attempts fuel parts p dbn mem s clock orders = (s1, mem1, clk1, tl orders, true) /\
           st_objs s1 = aset (pname dbn p) data (st_objs s) /\
           snap_mem (fun k : str => part_of parts k =? p) mem mem1 /\
           (forall (m0 : list (str * value)) (clk0 : N),
            exists (m' : list (str * value)) (clk' : N),
              part_load_loop (S (len data)) p data (zeros 8) {| pl_pos := 0; pl_map := m0; pl_clock := clk0 |} =
              LOk m' clk' /\
              (forall k : string,
               match get k mem with
               | Some mv =>
                   if negb (dead mv) && (part_of parts k =? p)
                   then
                    exists opp : N,
                      get k m' =
                      Some
                        {|
                          v_val := v_val mv;
                          v_ver := v_ver mv;
                          v_opp := opp;
                          v_st := VOk;
                          v_vaddr := p;
                          v_kaddr := 0
                        |}
                   else get k m' = get k m0
               | None => get k m' = get k m0
               end)).
Proof. exact part_object_roundtrip. Qed.
Print Assumptions C18_part_object_roundtrip.

(* strategy s3 (after the two repairs): a snapshot followed by the loader restores exactly the non-deleted keys with values and versions, and the snapshot does not change what memory answers *)
Theorem C18_s3_roundtrip :
  forall (d : db) (dbn : str) (order : list str) (reclaim : bool) (s : stub) (clock clk0 : N),
         NoDup (map fst (d_map d)) ->
         NoDup order ->
         mem_ok3 (d_map d) ->
         st_putfail s = None ->
         st_getfail s = None ->
         forall (s' : stub) (mem' : list (str * value)) (clk' : N),
         s3_snapshot d dbn order reclaim s clock = (s', mem', clk') ->
         (forall data : str, get (vname dbn) (st_objs s') = Some data -> slen data < 18446744073709551616) ->
         exists (s'' : stub) (m : list (str * value)) (clk'' : N),
           s3_read_db s' dbn clk0 = (s'', LOk m clk'') /\
           live_restored (d_map d) m /\
           snap_mem (fun _ : str => true) (d_map d) mem' /\ st_objs s'' = st_objs s'.
Proof. exact s3_roundtrip. Qed.
Print Assumptions C18_s3_roundtrip.

Theorem C18_s3_snapshot_other_objects :
  forall (d : db) (dbn : str) (order : list str) (reclaim : bool) (s : stub) (clock : N) (nm : str),
         nm <> kname dbn ->
         nm <> vname dbn ->
         get nm (st_objs (fst (fst (s3_snapshot d dbn order reclaim s clock)))) = get nm (st_objs s).
Proof. exact s3_snapshot_other_objects. Qed.
Print Assumptions C18_s3_snapshot_other_objects.

(* an upload that fails on every attempt is reported (panic) and leaves the store unchanged *)
Theorem C18_part_put_fault_reported :
  forall (retry : nat) (parts : list (str * N)) (d : db) (dbn : str) (order0 : list str)
           (reclaim : bool) (s : stub) (clock : N) (orders : list (list str)) (n : N),
         st_putfail s = Some (n, true) ->
         n <= st_puts s + 1 ->
         keys_to_update (d_map d) order0 reclaim <> [] ->
         exists (s' : stub) (mem' : list (str * value)) (clk' : N) (os' : list (list str)),
           part_snapshot retry parts d dbn order0 reclaim s clock orders = (s', mem', clk', os', false) /\
           st_objs s' = st_objs s.
Proof. exact part_put_fault_reported. Qed.
Print Assumptions C18_part_put_fault_reported.

(* an upload that fails once is retried and the snapshot is as good as without the fault *)
Theorem C18_part_put_fault_once_retried :
  forall (retry : nat) (parts : list (str * N)) (d : db) (dbn : str) (order0 : list str)
           (reclaim : bool) (s : stub) (clock : N) (orders : list (list str)) (n : N),
         (1 <= retry)%nat ->
         st_putfail s = Some (n, false) ->
         NoDup (map fst (d_map d)) ->
         mem_ok3 (d_map d) ->
         Forall (NoDup (A:=str)) orders ->
         exists (s' : stub) (mem' : list (str * value)) (clk' : N) (os' : list (list str)),
           part_snapshot retry parts d dbn order0 reclaim s clock orders = (s', mem', clk', os', true) /\
           GoPost parts dbn (snap_ps parts (d_map d) order0 reclaim) (d_map d) (st_objs s) mem' (st_objs s').
Proof. exact part_put_fault_once_retried. Qed.
Print Assumptions C18_part_put_fault_once_retried.

Theorem C18_part_get_fault_once_retried :
  forall (retry : nat) (s : stub) (dbn : str) (clock n : N),
         (1 <= retry)%nat ->
         st_getfail s = Some n ->
         let s0 :=
           {|
             st_objs := st_objs s;
             st_puts := st_puts s;
             st_gets := st_gets s;
             st_putfail := st_putfail s;
             st_getfail := None
           |} in
         snd (part_read_db retry s dbn clock) = snd (part_read_db retry s0 dbn clock) /\
         st_objs (fst (part_read_db retry s dbn clock)) = st_objs s.
Proof. exact part_get_fault_once_retried. Qed.
Print Assumptions C18_part_get_fault_once_retried.

(* non-vacuity *)
Theorem C18_hyps_satisfiable :
  Forall (pev_ok "d") ex_evs.
Proof. exact ex_evs_ok. Qed.
Print Assumptions C18_hyps_satisfiable.

(* REFUTED (known finding): strategy s3 ignores a failed upload *)
Theorem C18_s3_put_fault_silent_refuted :
  let snap :=
           s3_snapshot (ex_db "new" 2 VUpdated) "d" ["a"] false (with_putfail ex_s1 (Some (1, true))) 20 in
         let s2 := fst (fst snap) in
         st_objs s2 = st_objs ex_s1 /\
         snd (fst snap) =
         [("a", {| v_val := "new"; v_ver := 2; v_opp := 20; v_st := VOk; v_vaddr := 0; v_kaddr := 0 |})] /\
         snd (s3_read_db s2 "d" 30) =
         LOk [("a", {| v_val := "old"; v_ver := 1; v_opp := 30; v_st := VOk; v_vaddr := 0; v_kaddr := 21 |})]
           31.
Proof. exact s3_put_fault_silent_refuted. Qed.
Print Assumptions C18_s3_put_fault_silent_refuted.

(* REFUTED (known finding): strategy s3 panics on one failed download *)
Theorem C18_s3_get_fault_panics_refuted :
  snd (s3_read_db (with_getfail ex_s1 (Some 1)) "d" 30) = LPanic /\
         st_objs (fst (s3_read_db (with_getfail ex_s1 (Some 1)) "d" 30)) = st_objs ex_s1 /\
         snd (s3_read_db ex_s1 "d" 30) =
         LOk [("a", {| v_val := "old"; v_ver := 1; v_opp := 30; v_st := VOk; v_vaddr := 0; v_kaddr := 21 |})]
           31.
Proof. exact s3_get_fault_panics_refuted. Qed.
Print Assumptions C18_s3_get_fault_panics_refuted.

(* REFUTED (known finding): id and conflict strategy are not restored *)
Theorem C18_metadata_not_restored_refuted :
  let x := {| sn_node := ex_node; sn_stub := stub0; sn_poisoned := false |} in
         let
         '(x1, ok1) := s3_flush StPart 2 [] x [["a"; "$$token"; "$connections"]] in
          let
          '(x2, ok2) := s3_restart StPart 2 x1 in
           ok1 = true /\
           ok2 = true /\
           db_meta ex_node "d1" = Some (1, SNewer) /\
           db_meta (sn_node x2) "d1" = Some (1, SArbiter) /\
           option_map (fun d : db => map (fun kv : str * value => (fst kv, v_val (snd kv))) (d_map d))
             (get_db (sn_node x2) "d1") = Some [("a", "1"); ("$$token", "tok1"); ("$connections", "1")].
Proof. exact metadata_not_restored_refuted. Qed.
Print Assumptions C18_metadata_not_restored_refuted.

Theorem C18_metadata_not_restored_two_dbs :
  let x := {| sn_node := ex_node2; sn_stub := stub0; sn_poisoned := false |} in
         let
         '(x1, ok1) := s3_flush StPart 2 [] x [[]; []] in
          let
          '(x2, ok2) := s3_restart StPart 2 x1 in
           ok1 = true /\
           ok2 = true /\
           db_meta ex_node2 "d1" = Some (1, SNewer) /\
           db_meta ex_node2 "d2" = Some (2, SNone) /\
           db_meta (sn_node x2) "d1" = Some (1, SArbiter) /\ db_meta (sn_node x2) "d2" = Some (1, SArbiter).
Proof. exact metadata_not_restored_two_dbs. Qed.
Print Assumptions C18_metadata_not_restored_two_dbs.

(* the repaired listing: database d1 loads although d10 has a partition d1 lacks *)
Theorem C18_part_prefix_no_collision_example :
  let d1 :=
           {|
             d_map :=
               [("a", {| v_val := "1"; v_ver := 1; v_opp := 0; v_st := VNew; v_vaddr := 0; v_kaddr := 0 |})];
             d_watch := [];
             d_conn := 0;
             d_id := 1;
             d_strat := SNewer
           |} in
         let d10 :=
           {|
             d_map :=
               [("b", {| v_val := "2"; v_ver := 1; v_opp := 0; v_st := VNew; v_vaddr := 0; v_kaddr := 0 |})];
             d_watch := [];
             d_conn := 0;
             d_id := 2;
             d_strat := SNewer
           |} in
         let parts := [("a", 0); ("b", 5)] in
         let s1 := fst (fst (fst (fst (part_snapshot 2 parts d1 "d1" ["a"] true stub0 10 [["a"]])))) in
         let s2 := fst (fst (fst (fst (part_snapshot 2 parts d10 "d10" ["b"] true s1 20 [["b"]])))) in
         map fst (st_objs s2) = ["nun-db-base/d1/0.nun"; "nun-db-base/d10/5.nun"] /\
         snd (part_read_db 2 s1 "d1" 30) =
         PLoaded [("a", {| v_val := "1"; v_ver := 1; v_opp := 30; v_st := VOk; v_vaddr := 0; v_kaddr := 0 |})]
           31 /\
         snd (part_read_db 2 s2 "d1" 30) =
         PLoaded [("a", {| v_val := "1"; v_ver := 1; v_opp := 30; v_st := VOk; v_vaddr := 0; v_kaddr := 0 |})]
           31 /\
         snd (part_read_db 2 s2 "d10" 30) =
         PLoaded [("b", {| v_val := "2"; v_ver := 1; v_opp := 30; v_st := VOk; v_vaddr := 5; v_kaddr := 0 |})]
           31.
Proof. exact part_prefix_no_collision_example. Qed.
Print Assumptions C18_part_prefix_no_collision_example.

(* objects of other databases (names not under '<prefix>/<db>/') do not influence what a database loads *)
Theorem C18_part_read_db_other_dbs :
  forall (retry : nat) (s1 s2 : stub) (dbn : str) (clk : N),
         gtol retry s1 ->
         gtol retry s2 ->
         db_objs dbn (st_objs s1) = db_objs dbn (st_objs s2) ->
         snd (part_read_db retry s1 dbn clk) = snd (part_read_db retry s2 dbn clk).
Proof. exact part_read_db_other_dbs. Qed.
Print Assumptions C18_part_read_db_other_dbs.
