(* Property C04 -- live replication converges: every node ends equal to the primary *)
(* Statements only: each theorem restates the proved lemma's statement and is closed by [exact]. *)
From NunDB Require Import Model.Base Model.Pending Model.Parse Model.Node Model.Oplog Model.Cluster Proofs.PendingProofs Proofs.DbProofs Proofs.ClusterProofs Proofs.SyncProofs.
Local Open Scope Z_scope.

(* the line a primary broadcasts for a write parses back to exactly that write (any value with spaces, any i32 version) *)
Theorem C04_replicate_roundtrip :
  forall (db key value : str) (ver : Z),
         no_sp db ->
         no_sp key ->
         no_nl key ->
         no_nl value ->
         no_semi_end value ->
         is_i32 ver -> parse_request (replicate_msg db key value ver) = POk (RqReplicateSet db key value ver).
Proof. exact replicate_roundtrip. Qed.
Print Assumptions C04_replicate_roundtrip.

Theorem C04_replicate_remove_roundtrip :
  forall db key : str,
         no_sp db ->
         no_nl key ->
         no_semi_end key ->
         parse_request ("replicate-remove " +++ db +++ " " +++ key) = POk (RqReplicateRemove db key).
Proof. exact replicate_remove_roundtrip. Qed.
Print Assumptions C04_replicate_remove_roundtrip.

Theorem C04_replicate_increment_roundtrip :
  forall (db key : str) (inc : Z),
         no_sp db ->
         no_nl db ->
         no_sp key ->
         is_i32 inc ->
         parse_request ("replicate-increment " +++ db +++ " " +++ key +++ " " +++ Z_to_str inc) =
         POk (RqReplicateIncrement db key inc).
Proof. exact replicate_increment_roundtrip. Qed.
Print Assumptions C04_replicate_increment_roundtrip.

Theorem C04_create_db_roundtrip :
  forall (name token : str) (s : strat),
         no_sp name ->
         no_sp token ->
         no_nl token ->
         parse_request ("create-db " +++ name +++ " " +++ token +++ " " +++ strat_to_str s) =
         POk (RqCreateDb token name s).
Proof. exact create_db_roundtrip. Qed.
Print Assumptions C04_create_db_roundtrip.

Theorem C04_rp_roundtrip :
  forall (id : N) (msg : string),
         (id < 2 ^ 64)%N ->
         msg <> "" ->
         no_semi_end msg ->
         parse_request ("rp " +++ N_to_str id +++ " " +++ msg) = POk (RqReplicateRequest msg id).
Proof. exact rp_roundtrip. Qed.
Print Assumptions C04_rp_roundtrip.

(* the same write applied to two databases that agree (values, versions, persisted / removed status) gives the same reply and databases that agree *)
Theorem C04_set_value_rel :
  forall (d1 d2 : db) (c1 c2 : change),
         dbrel d1 d2 ->
         ch_same c1 c2 ->
         dbrel (fst (fst (set_value d1 c1))) (fst (fst (set_value d2 c2))) /\
         resp_rel (snd (fst (set_value d1 c1))) (snd (fst (set_value d2 c2))).
Proof. exact set_value_rel. Qed.
Print Assumptions C04_set_value_rel.

Theorem C04_remove_value_rel :
  forall (d1 d2 : db) (key : str),
         dbrel d1 d2 ->
         dbrel (fst (fst (remove_value d1 key))) (fst (fst (remove_value d2 key))) /\
         resp_rel (snd (fst (remove_value d1 key))) (snd (fst (remove_value d2 key))).
Proof. exact remove_value_rel. Qed.
Print Assumptions C04_remove_value_rel.

Theorem C04_inc_value_rel :
  forall (d1 d2 : db) (key : str) (inc : Z) (o1 o2 : N),
         dbrel d1 d2 ->
         dbrel (fst (fst (inc_value d1 key inc o1))) (fst (fst (inc_value d2 key inc o2))) /\
         resp_rel (snd (fst (inc_value d1 key inc o1))) (snd (fst (inc_value d2 key inc o2))).
Proof. exact inc_value_rel. Qed.
Print Assumptions C04_inc_value_rel.

(* HEADLINE: a node that applies the primary's sequence of writes in the primary's order (any length; op ids may differ) stays equal to the primary *)
Theorem C04_replay_converges :
  forall ms ms' : list dop,
         same_ops ms ms' ->
         forall d1 d2 : db, dbrel d1 d2 -> dbrel (fold_left db_apply ms d1) (fold_left db_apply ms' d2).
Proof. exact replay_converges. Qed.
Print Assumptions C04_replay_converges.

Theorem C04_replay_same_content :
  forall (ms ms' : list dop) (d1 d2 : db) (k : str),
         same_ops ms ms' ->
         dbrel d1 d2 ->
         live (fold_left db_apply ms d1) k = live (fold_left db_apply ms' d2) k /\
         get_key_value_new (fold_left db_apply ms d1) k = get_key_value_new (fold_left db_apply ms' d2) k.
Proof. exact replay_same_content. Qed.
Print Assumptions C04_replay_same_content.

(* the client command at the primary and the replicated message at a secondary are the same database function *)
Theorem C04_handle_set_effect :
  forall (n : node) (c : nat) (k v : str) (ver : Z) (dbn : str) (d : db),
         guard_safe n c k PWrite = GGo dbn d ->
         d_strat d = SNone ->
         let ch := {| c_key := k; c_val := v; c_ver := ver; c_opp := n_clock n; c_resolve := false |} in
         let res := handle n c (RqSet k v ver) in
         get_db n dbn = Some d /\
         dbs_updated n (fst res) dbn (fst (fst (set_value d ch))) /\
         snd res = snd (fst (set_value d ch)) /\ (is_primary n = true -> n_members (fst res) = n_members n).
Proof. exact handle_set_effect. Qed.
Print Assumptions C04_handle_set_effect.

Theorem C04_handle_replicate_set_effect :
  forall (n : node) (c : nat) (dbn k v : str) (ver : Z) (d : db),
         s_auth (get_sess n c) = true ->
         get_db n dbn = Some d ->
         d_strat d = SNone ->
         let ch := {| c_key := k; c_val := v; c_ver := ver; c_opp := n_clock n; c_resolve := false |} in
         let res := handle n c (RqReplicateSet dbn k v ver) in
         dbs_updated n (fst res) dbn (fst (fst (set_value d ch))) /\
         snd res = snd (fst (set_value d ch)) /\
         n_members (fst res) = n_members n /\ n_pending (fst res) = n_pending n.
Proof. exact handle_replicate_set_effect. Qed.
Print Assumptions C04_handle_replicate_set_effect.

Theorem C04_handle_remove_effect :
  forall (n : node) (c : nat) (k dbn : str) (d : db),
         guard_safe n c k PRemove = GGo dbn d ->
         let res := handle n c (RqRemove k) in
         get_db n dbn = Some d /\
         dbs_updated n (fst res) dbn (fst (fst (remove_value d k))) /\
         snd res = snd (fst (remove_value d k)) /\ (is_primary n = true -> n_members (fst res) = n_members n).
Proof. exact handle_remove_effect. Qed.
Print Assumptions C04_handle_remove_effect.

Theorem C04_handle_replicate_remove_effect :
  forall (n : node) (c : nat) (dbn k : str) (d : db),
         s_auth (get_sess n c) = true ->
         get_db n dbn = Some d ->
         let res := handle n c (RqReplicateRemove dbn k) in
         dbs_updated n (fst res) dbn (fst (fst (remove_value d k))) /\
         snd res = snd (fst (remove_value d k)) /\
         n_members (fst res) = n_members n /\ n_pending (fst res) = n_pending n.
Proof. exact handle_replicate_remove_effect. Qed.
Print Assumptions C04_handle_replicate_remove_effect.

Theorem C04_handle_increment_effect :
  forall (n : node) (c : nat) (k : str) (i : Z) (dbn : str) (d : db),
         is_primary n = true ->
         guard_safe n c k PIncrement = GGo dbn d ->
         let res := handle n c (RqIncrement k i) in
         get_db n dbn = Some d /\
         dbs_updated n (fst res) dbn (fst (fst (inc_value d k i (n_clock n)))) /\
         snd res = snd (fst (inc_value d k i (n_clock n))) /\ n_members (fst res) = n_members n.
Proof. exact handle_increment_effect. Qed.
Print Assumptions C04_handle_increment_effect.

Theorem C04_handle_replicate_increment_effect :
  forall (n : node) (c : nat) (dbn k : str) (i : Z) (d : db),
         s_auth (get_sess n c) = true ->
         get_db n dbn = Some d ->
         let res := handle n c (RqReplicateIncrement dbn k i) in
         dbs_updated n (fst res) dbn (fst (fst (inc_value d k i (n_clock n)))) /\
         snd res = ROk /\ n_members (fst res) = n_members n /\ n_pending (fst res) = n_pending n.
Proof. exact handle_replicate_increment_effect. Qed.
Print Assumptions C04_handle_replicate_increment_effect.

Theorem C04_live_set_converges :
  forall (n1 : node) (c1 : nat) (n2 : node) (c2 : nat) (k v : str) (ver : Z) (dbn : str) (d1 d2 : db),
         guard_safe n1 c1 k PWrite = GGo dbn d1 ->
         d_strat d1 = SNone ->
         s_auth (get_sess n2 c2) = true ->
         get_db n2 dbn = Some d2 ->
         d_strat d2 = SNone ->
         dbrel d1 d2 ->
         exists d1' d2' : db,
           get_db (fst (handle n1 c1 (RqSet k v ver))) dbn = Some d1' /\
           get_db (fst (handle n2 c2 (RqReplicateSet dbn k v ver))) dbn = Some d2' /\
           dbrel d1' d2' /\
           resp_rel (snd (handle n1 c1 (RqSet k v ver))) (snd (handle n2 c2 (RqReplicateSet dbn k v ver))).
Proof. exact live_set_converges. Qed.
Print Assumptions C04_live_set_converges.

Theorem C04_live_remove_converges :
  forall (n1 : node) (c1 : nat) (n2 : node) (c2 : nat) (k dbn : str) (d1 d2 : db),
         guard_safe n1 c1 k PRemove = GGo dbn d1 ->
         s_auth (get_sess n2 c2) = true ->
         get_db n2 dbn = Some d2 ->
         dbrel d1 d2 ->
         exists d1' d2' : db,
           get_db (fst (handle n1 c1 (RqRemove k))) dbn = Some d1' /\
           get_db (fst (handle n2 c2 (RqReplicateRemove dbn k))) dbn = Some d2' /\
           dbrel d1' d2' /\
           resp_rel (snd (handle n1 c1 (RqRemove k))) (snd (handle n2 c2 (RqReplicateRemove dbn k))).
Proof. exact live_remove_converges. Qed.
Print Assumptions C04_live_remove_converges.

Theorem C04_live_increment_converges :
  forall (n1 : node) (c1 : nat) (n2 : node) (c2 : nat) (k : str) (i : Z) (dbn : str) (d1 d2 : db),
         is_primary n1 = true ->
         guard_safe n1 c1 k PIncrement = GGo dbn d1 ->
         s_auth (get_sess n2 c2) = true ->
         get_db n2 dbn = Some d2 ->
         dbrel d1 d2 ->
         exists d1' d2' : db,
           get_db (fst (handle n1 c1 (RqIncrement k i))) dbn = Some d1' /\
           get_db (fst (handle n2 c2 (RqReplicateIncrement dbn k i))) dbn = Some d2' /\ dbrel d1' d2'.
Proof. exact live_increment_converges. Qed.
Print Assumptions C04_live_increment_converges.

(* the replication thread of a primary hands each queued request to fan_out exactly once *)
Theorem C04_leader_repl_one :
  forall (x : cnode) (id : N) (req : string) (rq : request),
         cn_dead x = false ->
         n_role (cn_node x) <> Secondary ->
         (id < 2 ^ 64)%N ->
         req <> "" ->
         no_semi_end req ->
         parse_request req = POk rq ->
         snd (repl_oplog x rq id) <> None ->
         cn_node (repl_one x ("rp " +++ N_to_str id +++ " " +++ req)) =
         fan_out (cn_node x) id req (fan_all (n_role (cn_node x))) /\
         cn_dead (repl_one x ("rp " +++ N_to_str id +++ " " +++ req)) = false.
Proof. exact leader_repl_one. Qed.
Print Assumptions C04_leader_repl_one.

(* kept visible: the order is essential (what the known finding 'secondary applies its own write out of order' violates) *)
Theorem C04_replay_order_matters :
  let d := empty_db 1 SNone in
         live (fold_left db_apply [DSet "k" "a" (-1) 1; DSet "k" "b" (-1) 2] d) "k" = Some "b" /\
         live (fold_left db_apply [DSet "k" "b" (-1) 2; DSet "k" "a" (-1) 1] d) "k" = Some "a".
Proof. exact replay_order_matters. Qed.
Print Assumptions C04_replay_order_matters.
