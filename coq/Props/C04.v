(* Property C04 -- live replication converges: every node ends equal to the primary *)
(* Statements only: each theorem restates the proved lemma's statement and is closed by [exact]. *)
From NunDB Require Import Model.Base Model.Pending Model.Parse Model.Node Model.Oplog Model.Cluster Proofs.PendingProofs Proofs.DbProofs Proofs.ClusterProofs Proofs.SyncProofs Proofs.ConvergeProofs Proofs.ConnProofs Proofs.SnapshotReplProofs.
Local Open Scope Z_scope.

(* the line a primary broadcasts for a write parses back to exactly that write (any value with spaces, any i32 version) *)
Theorem C04_replicate_roundtrip :
  forall (db key value : str) (ver : Z),
         no_sp db ->
         no_sp key ->
         no_nl key ->
         no_nl value ->
         no_semi_end value ->
         is_i32 ver -> parse_request (replicate_msg db key value ver) = POk (RqReplicateSet db key value ver).
Proof. exact replicate_roundtrip. Qed.
Print Assumptions C04_replicate_roundtrip.

Theorem C04_replicate_remove_roundtrip :
  forall db key : str,
         no_sp db ->
         no_nl key ->
         no_semi_end key ->
         parse_request ("replicate-remove " +++ db +++ " " +++ key) = POk (RqReplicateRemove db key).
Proof. exact replicate_remove_roundtrip. Qed.
Print Assumptions C04_replicate_remove_roundtrip.

Theorem C04_replicate_increment_roundtrip :
  forall (db key : str) (inc : Z),
         no_sp db ->
         no_nl db ->
         no_sp key ->
         is_i32 inc ->
         parse_request ("replicate-increment " +++ db +++ " " +++ key +++ " " +++ Z_to_str inc) =
         POk (RqReplicateIncrement db key inc).
Proof. exact replicate_increment_roundtrip. Qed.
Print Assumptions C04_replicate_increment_roundtrip.

Theorem C04_create_db_roundtrip :
  forall (name token : str) (s : strat),
         no_sp name ->
         no_sp token ->
         no_nl token ->
         parse_request ("create-db " +++ name +++ " " +++ token +++ " " +++ strat_to_str s) =
         POk (RqCreateDb token name s).
Proof. exact create_db_roundtrip. Qed.
Print Assumptions C04_create_db_roundtrip.

Theorem C04_rp_roundtrip :
  forall (id : N) (msg : string),
         (id < 2 ^ 64)%N ->
         msg <> "" ->
         no_semi_end msg ->
         parse_request ("rp " +++ N_to_str id +++ " " +++ msg) = POk (RqReplicateRequest msg id).
Proof. exact rp_roundtrip. Qed.
Print Assumptions C04_rp_roundtrip.

(* the same write applied to two databases that agree (values, versions, persisted / removed status) gives the same reply and databases that agree *)
Theorem C04_set_value_rel :
  forall (d1 d2 : db) (c1 c2 : change),
         dbrel d1 d2 ->
         ch_same c1 c2 ->
         dbrel (fst (fst (set_value d1 c1))) (fst (fst (set_value d2 c2))) /\
         resp_rel (snd (fst (set_value d1 c1))) (snd (fst (set_value d2 c2))).
Proof. exact set_value_rel. Qed.
Print Assumptions C04_set_value_rel.

Theorem C04_remove_value_rel :
  forall (d1 d2 : db) (key : str),
         dbrel d1 d2 ->
         dbrel (fst (fst (remove_value d1 key))) (fst (fst (remove_value d2 key))) /\
         resp_rel (snd (fst (remove_value d1 key))) (snd (fst (remove_value d2 key))).
Proof. exact remove_value_rel. Qed.
Print Assumptions C04_remove_value_rel.

Theorem C04_inc_value_rel :
  forall (d1 d2 : db) (key : str) (inc : Z) (o1 o2 : N),
         dbrel d1 d2 ->
         dbrel (fst (fst (inc_value d1 key inc o1))) (fst (fst (inc_value d2 key inc o2))) /\
         resp_rel (snd (fst (inc_value d1 key inc o1))) (snd (fst (inc_value d2 key inc o2))).
Proof. exact inc_value_rel. Qed.
Print Assumptions C04_inc_value_rel.

(* HEADLINE: a node that applies the primary's sequence of writes in the primary's order (any length; op ids may differ) stays equal to the primary *)
Theorem C04_replay_converges :
  forall ms ms' : list dop,
         same_ops ms ms' ->
         forall d1 d2 : db, dbrel d1 d2 -> dbrel (fold_left db_apply ms d1) (fold_left db_apply ms' d2).
Proof. exact replay_converges. Qed.
Print Assumptions C04_replay_converges.

Theorem C04_replay_same_content :
  forall (ms ms' : list dop) (d1 d2 : db) (k : str),
         same_ops ms ms' ->
         dbrel d1 d2 ->
         live (fold_left db_apply ms d1) k = live (fold_left db_apply ms' d2) k /\
         get_key_value_new (fold_left db_apply ms d1) k = get_key_value_new (fold_left db_apply ms' d2) k.
Proof. exact replay_same_content. Qed.
Print Assumptions C04_replay_same_content.

(* the client command at the primary and the replicated message at a secondary are the same database function *)
Theorem C04_handle_set_effect :
  forall (n : node) (c : nat) (k v : str) (ver : Z) (dbn : str) (d : db),
         guard_safe n c k PWrite = GGo dbn d ->
         d_strat d = SNone ->
         let ch := {| c_key := k; c_val := v; c_ver := ver; c_opp := n_clock n; c_resolve := false |} in
         let res := handle n c (RqSet k v ver) in
         get_db n dbn = Some d /\
         dbs_updated n (fst res) dbn (fst (fst (set_value d ch))) /\
         snd res = snd (fst (set_value d ch)) /\ (is_primary n = true -> n_members (fst res) = n_members n).
Proof. exact handle_set_effect. Qed.
Print Assumptions C04_handle_set_effect.

Theorem C04_handle_replicate_set_effect :
  forall (n : node) (c : nat) (dbn k v : str) (ver : Z) (d : db),
         s_auth (get_sess n c) = true ->
         get_db n dbn = Some d ->
         d_strat d = SNone ->
         let ch := {| c_key := k; c_val := v; c_ver := ver; c_opp := n_clock n; c_resolve := false |} in
         let res := handle n c (RqReplicateSet dbn k v ver) in
         dbs_updated n (fst res) dbn (fst (fst (set_value d ch))) /\
         snd res = snd (fst (set_value d ch)) /\
         n_members (fst res) = n_members n /\ n_pending (fst res) = n_pending n.
Proof. exact handle_replicate_set_effect. Qed.
Print Assumptions C04_handle_replicate_set_effect.

Theorem C04_handle_remove_effect :
  forall (n : node) (c : nat) (k dbn : str) (d : db),
         guard_safe n c k PRemove = GGo dbn d ->
         let res := handle n c (RqRemove k) in
         get_db n dbn = Some d /\
         dbs_updated n (fst res) dbn (fst (fst (remove_value d k))) /\
         snd res = snd (fst (remove_value d k)) /\ (is_primary n = true -> n_members (fst res) = n_members n).
Proof. exact handle_remove_effect. Qed.
Print Assumptions C04_handle_remove_effect.

Theorem C04_handle_replicate_remove_effect :
  forall (n : node) (c : nat) (dbn k : str) (d : db),
         s_auth (get_sess n c) = true ->
         get_db n dbn = Some d ->
         let res := handle n c (RqReplicateRemove dbn k) in
         dbs_updated n (fst res) dbn (fst (fst (remove_value d k))) /\
         snd res = snd (fst (remove_value d k)) /\
         n_members (fst res) = n_members n /\ n_pending (fst res) = n_pending n.
Proof. exact handle_replicate_remove_effect. Qed.
Print Assumptions C04_handle_replicate_remove_effect.

Theorem C04_handle_increment_effect :
  forall (n : node) (c : nat) (k : str) (i : Z) (dbn : str) (d : db),
         is_primary n = true ->
         guard_safe n c k PIncrement = GGo dbn d ->
         let res := handle n c (RqIncrement k i) in
         get_db n dbn = Some d /\
         dbs_updated n (fst res) dbn (fst (fst (inc_value d k i (n_clock n)))) /\
         snd res = snd (fst (inc_value d k i (n_clock n))) /\ n_members (fst res) = n_members n.
Proof. exact handle_increment_effect. Qed.
Print Assumptions C04_handle_increment_effect.

Theorem C04_handle_replicate_increment_effect :
  forall (n : node) (c : nat) (dbn k : str) (i : Z) (d : db),
         s_auth (get_sess n c) = true ->
         get_db n dbn = Some d ->
         let res := handle n c (RqReplicateIncrement dbn k i) in
         dbs_updated n (fst res) dbn (fst (fst (inc_value d k i (n_clock n)))) /\
         snd res = ROk /\ n_members (fst res) = n_members n /\ n_pending (fst res) = n_pending n.
Proof. exact handle_replicate_increment_effect. Qed.
Print Assumptions C04_handle_replicate_increment_effect.

Theorem C04_live_set_converges :
  forall (n1 : node) (c1 : nat) (n2 : node) (c2 : nat) (k v : str) (ver : Z) (dbn : str) (d1 d2 : db),
         guard_safe n1 c1 k PWrite = GGo dbn d1 ->
         d_strat d1 = SNone ->
         s_auth (get_sess n2 c2) = true ->
         get_db n2 dbn = Some d2 ->
         d_strat d2 = SNone ->
         dbrel d1 d2 ->
         exists d1' d2' : db,
           get_db (fst (handle n1 c1 (RqSet k v ver))) dbn = Some d1' /\
           get_db (fst (handle n2 c2 (RqReplicateSet dbn k v ver))) dbn = Some d2' /\
           dbrel d1' d2' /\
           resp_rel (snd (handle n1 c1 (RqSet k v ver))) (snd (handle n2 c2 (RqReplicateSet dbn k v ver))).
Proof. exact live_set_converges. Qed.
Print Assumptions C04_live_set_converges.

Theorem C04_live_remove_converges :
  forall (n1 : node) (c1 : nat) (n2 : node) (c2 : nat) (k dbn : str) (d1 d2 : db),
         guard_safe n1 c1 k PRemove = GGo dbn d1 ->
         s_auth (get_sess n2 c2) = true ->
         get_db n2 dbn = Some d2 ->
         dbrel d1 d2 ->
         exists d1' d2' : db,
           get_db (fst (handle n1 c1 (RqRemove k))) dbn = Some d1' /\
           get_db (fst (handle n2 c2 (RqReplicateRemove dbn k))) dbn = Some d2' /\
           dbrel d1' d2' /\
           resp_rel (snd (handle n1 c1 (RqRemove k))) (snd (handle n2 c2 (RqReplicateRemove dbn k))).
Proof. exact live_remove_converges. Qed.
Print Assumptions C04_live_remove_converges.

Theorem C04_live_increment_converges :
  forall (n1 : node) (c1 : nat) (n2 : node) (c2 : nat) (k : str) (i : Z) (dbn : str) (d1 d2 : db),
         is_primary n1 = true ->
         guard_safe n1 c1 k PIncrement = GGo dbn d1 ->
         s_auth (get_sess n2 c2) = true ->
         get_db n2 dbn = Some d2 ->
         dbrel d1 d2 ->
         exists d1' d2' : db,
           get_db (fst (handle n1 c1 (RqIncrement k i))) dbn = Some d1' /\
           get_db (fst (handle n2 c2 (RqReplicateIncrement dbn k i))) dbn = Some d2' /\ dbrel d1' d2'.
Proof. exact live_increment_converges. Qed.
Print Assumptions C04_live_increment_converges.

(* the replication thread of a primary hands each queued request to fan_out exactly once *)
Theorem C04_leader_repl_one :
  forall (x : cnode) (id : N) (req : string) (rq : request),
         cn_dead x = false ->
         n_role (cn_node x) <> Secondary ->
         (id < 2 ^ 64)%N ->
         req <> "" ->
         no_semi_end req ->
         parse_request req = POk rq ->
         snd (repl_oplog x rq id) <> None ->
         cn_node (repl_one x ("rp " +++ N_to_str id +++ " " +++ req)) =
         fan_out (cn_node x) id req (fan_all (n_role (cn_node x))) /\
         cn_dead (repl_one x ("rp " +++ N_to_str id +++ " " +++ req)) = false.
Proof. exact leader_repl_one. Qed.
Print Assumptions C04_leader_repl_one.

(* kept visible: the order is essential (what the known finding 'secondary applies its own write out of order' violates) *)
Theorem C04_replay_order_matters :
  let d := empty_db 1 SNone in
         live (fold_left db_apply [DSet "k" "a" (-1) 1; DSet "k" "b" (-1) 2] d) "k" = Some "b" /\
         live (fold_left db_apply [DSet "k" "b" (-1) 2; DSet "k" "a" (-1) 1] d) "k" = Some "a".
Proof. exact replay_order_matters. Qed.
Print Assumptions C04_replay_order_matters.

(* UNBOUNDED SCHEDULES, cluster level: from a formed cluster (one primary, any number of secondaries, links established), after ANY interleaving of client writes on the primary (set / remove / increment), replication-thread polls, link deliveries, acknowledgement deliveries and secondary polls, whenever nothing is in flight every secondary holds the primary's keys, values, versions and removed/live status *)
Theorem C04_converges :
  forall (P dbn : str) (Ss : list str) (cidx : nat) (lk : str -> nat) (c : cluster) 
           (evs : list cev) (B : N),
         simple_tok dbn ->
         (forall S : str, In S Ss -> simple_tok S) ->
         Formed P dbn Ss cidx lk c ->
         Forall (ConvergeProofs.ev_ok Ss) evs ->
         cl_bound c B ->
         (B + 2 * N.of_nat (Datatypes.length evs) <= 2 ^ 64)%N ->
         quiescent P Ss lk (run P cidx lk c evs) ->
         exists dp : db,
           db_of dbn (run P cidx lk c evs) P = Some dp /\
           (forall S : str,
            In S Ss -> exists ds : db, db_of dbn (run P cidx lk c evs) S = Some ds /\ dbrel dp ds).
Proof. exact C04_converges. Qed.
Print Assumptions C04_converges.

(* the invariant: the primary's database = a secondary's database with the operations in flight towards it applied in order *)
Theorem C04_convergence_invariant :
  forall (P dbn : str) (Ss : list str) (cidx : nat) (lk : str -> nat) (c : cluster) 
           (evs : list cev) (B : N),
         simple_tok dbn ->
         (forall S : str, In S Ss -> simple_tok S) ->
         Formed P dbn Ss cidx lk c ->
         Forall (ConvergeProofs.ev_ok Ss) evs ->
         cl_bound c B ->
         (B + 2 * N.of_nat (Datatypes.length evs) <= 2 ^ 64)%N -> RInv P dbn Ss lk (run P cidx lk c evs).
Proof. exact C04_convergence_invariant. Qed.
Print Assumptions C04_convergence_invariant.

Theorem C04_converges_reads :
  forall (P dbn : str) (Ss : list str) (cidx : nat) (lk : str -> nat) (c : cluster) 
           (evs : list cev) (B : N),
         simple_tok dbn ->
         (forall S : str, In S Ss -> simple_tok S) ->
         Formed P dbn Ss cidx lk c ->
         Forall (ConvergeProofs.ev_ok Ss) evs ->
         cl_bound c B ->
         (B + 2 * N.of_nat (Datatypes.length evs) <= 2 ^ 64)%N ->
         quiescent P Ss lk (run P cidx lk c evs) ->
         exists dp : db,
           db_of dbn (run P cidx lk c evs) P = Some dp /\
           (forall S : str,
            In S Ss ->
            exists ds : db,
              db_of dbn (run P cidx lk c evs) S = Some ds /\
              (forall k : str, live dp k = live ds k /\ get_key_value_new dp k = get_key_value_new ds k)).
Proof. exact C04_converges_reads. Qed.
Print Assumptions C04_converges_reads.

(* an accepted write on the primary puts exactly one line on every link, the same for every secondary, FIFO *)
Theorem C04_primary_write_queues :
  forall (P dbn : str) (Ss : list str) (cidx : nat) (lk : str -> nat) (c : cluster) (w : cop) (B : N),
         simple_tok dbn ->
         (forall S : str, In S Ss -> simple_tok S) ->
         Formed P dbn Ss cidx lk c ->
         cop_ok w ->
         cl_bound c B ->
         (B + 2 <= 2 ^ 64)%N ->
         resp_ok (snd (client_cmd c P cidx (cop_line w))) = true ->
         let c2 := poll_repl_c (fst (client_cmd c P cidx (cop_line w))) P in
         exists (dp : db) (opp id : N),
           db_of dbn c P = Some dp /\
           resp_ok (dop_resp dp (cop_dop w opp)) = true /\
           db_of dbn c2 P = Some (db_apply dp (cop_dop w opp)) /\
           (forall (S : str) (l : link),
            In S Ss ->
            nth_error (c_links c) (lk S) = Some l ->
            exists l2 : link,
              nth_error (c_links c2) (lk S) = Some l2 /\
              l_q l2 = l_q l ++ [rp_line id (op_req dbn (cop_dop w opp))]).
Proof. exact primary_write_queues. Qed.
Print Assumptions C04_primary_write_queues.

(* a replicated line applies the same operation at the secondary, queues nothing there and is answered by exactly 'ack <id> <node>' and 'ok' *)
Theorem C04_replicated_line_applies :
  forall (n : node) (sv : nat) (dbn : str) (d : db) (id : N) (o : dop),
         simple_tok dbn ->
         simple_tok (n_addr n) ->
         op_wf o ->
         (id < 2 ^ 64)%N ->
         s_auth (get_sess n sv) = true ->
         s_db (get_sess n sv) = None ->
         s_inbox (get_sess n sv) = [] ->
         get_db n dbn = Some d ->
         d_strat d = SNone ->
         no_watch d sv ->
         let
         '(n1, r) := step n sv (rp_line id (op_req dbn o)) in
          let status := match r with
                        | RError msg => "error " +++ msg +++ " " +++ nlS
                        | _ => "ok " +++ nlS
                        end in
          let
          '(n3, inbox) := drain (send n1 sv status) sv in
           exists o' : dop,
             same_op o o' /\
             get_db n3 dbn = Some (db_apply d o') /\
             n_members n3 = n_members n /\
             n_pending n3 = n_pending n /\
             n_role n3 = n_role n /\ split_lines inbox = [ack_text id (n_addr n); "ok"].
Proof. exact replicated_line_applies. Qed.
Print Assumptions C04_replicated_line_applies.

(* non-vacuity: a cluster built through the model's own join machinery satisfies the hypotheses *)
Theorem C04_formed_example :
  Formed "p1" "d" ["s1"; "s2"] 0 ex_lk ex_c.
Proof. exact formed_example. Qed.
Print Assumptions C04_formed_example.

Theorem C04_formed_run_converges :
  exists dp : db,
           db_of "d" (run "p1" 0 ex_lk ex_c ex_evs) "p1" = Some dp /\
           (forall S : string,
            In S ["s1"; "s2"] ->
            exists ds : db, db_of "d" (run "p1" 0 ex_lk ex_c ex_evs) S = Some ds /\ dbrel dp ds).
Proof. exact formed_run_converges. Qed.
Print Assumptions C04_formed_run_converges.

(* why convergence is stated up to the per-node operation id stamped on replicated writes *)
Theorem C04_opp_ids_differ :
  match db_of "d" ex_final "p1" with
         | Some a => match db_of "d" ex_final "s1" with
                     | Some b => d_map a <> d_map b
                     | None => False
                     end
         | None => False
         end.
Proof. exact formed_run_opp_differs. Qed.
Print Assumptions C04_opp_ids_differ.

(* the line a primary queues for a snapshot parses back to the same reclaim flag and the same list of names (names without space, line feed or '|') *)
Theorem C04_snapshot_line_roundtrip :
  forall (names : list str) (reclaim : bool),
         names <> [] ->
         Forall snap_tok names ->
         parse_request
           ("replicate-snapshot " +++ join "|" names +++ " " +++ (if reclaim then "true" else "false")) =
         POk (RqReplicateSnapshot reclaim names).
Proof. exact snapshot_line_roundtrip. Qed.
Print Assumptions C04_snapshot_line_roundtrip.

(* a snapshot request registers the NAMED databases (the selected one only when none is named) and queues exactly one line, carrying those same names *)
Theorem C04_snapshot_primary_registers :
  forall (p : node) (c : nat) (line : str) (reclaim : bool) (names : list str),
         s_auth (get_sess p c) = true ->
         parse_request (trim_char nl line) = POk (RqSnapshot reclaim names) ->
         sel_ok p c ->
         (names = [] -> s_db (get_sess p c) <> None) ->
         let names' := snap_targets (s_db (get_sess p c)) names in
         all_dbs p names' ->
         let res := step p c line in
         snd res = ROk /\
         n_snap (fst res) = n_snap p ++ map (fun nm : str => (nm, reclaim)) names' /\
         n_dbs (fst res) = n_dbs p /\
         n_repl (fst res) = n_repl p ++ [rp_line (n_clock p) (snap_req names' reclaim)] /\
         n_clock (fst res) = (n_clock p + 1)%N /\
         n_sess (fst res) = n_sess p /\
         n_role (fst res) = n_role p /\
         n_members (fst res) = n_members p /\
         n_pending (fst res) = n_pending p /\ n_sup (fst res) = n_sup p /\ n_idmap (fst res) = n_idmap p.
Proof. exact snapshot_primary_registers. Qed.
Print Assumptions C04_snapshot_primary_registers.

(* a secondary fed with that line registers the same pairs and acknowledges *)
Theorem C04_snapshot_secondary_registers :
  forall (s : node) (cs : nat) (id : N) (reclaim : bool) (names : list str),
         s_auth (get_sess s cs) = true ->
         sel_ok s cs ->
         (id < 2 ^ 64)%N ->
         names <> [] ->
         Forall snap_tok names ->
         all_dbs s names ->
         let res := step s cs (rp_line id (snap_req names reclaim)) in
         snd res = ROk /\
         n_snap (fst res) = n_snap s ++ map (fun nm : str => (nm, reclaim)) names /\
         n_dbs (fst res) = n_dbs s /\
         n_repl (fst res) = n_repl s ++ [rp_line (n_clock s) (snap_req names reclaim)] /\
         n_clock (fst res) = (n_clock s + 1)%N /\
         s_inbox (get_sess (fst res) cs) = s_inbox (get_sess s cs) ++ [ack_line s id] /\
         n_role (fst res) = n_role s /\
         n_members (fst res) = n_members s /\
         n_pending (fst res) = n_pending s /\ n_sup (fst res) = n_sup s /\ n_idmap (fst res) = n_idmap s.
Proof. exact snapshot_secondary_registers. Qed.
Print Assumptions C04_snapshot_secondary_registers.

(* the pairs added to the pending-snapshot list are the same on the primary and on the secondary, whatever database the requesting session had selected *)
Theorem C04_snapshot_replicas_agree :
  forall (p : node) (c : nat) (line : str) (reclaim : bool) (names : list str) (s : node) (cs : nat),
         s_auth (get_sess p c) = true ->
         parse_request (trim_char nl line) = POk (RqSnapshot reclaim names) ->
         sel_ok p c ->
         (names = [] -> s_db (get_sess p c) <> None) ->
         let names' := snap_targets (s_db (get_sess p c)) names in
         all_dbs p names' ->
         Forall snap_tok names' ->
         (n_clock p < 2 ^ 64)%N ->
         s_auth (get_sess s cs) = true ->
         sel_ok s cs ->
         all_dbs s names' ->
         let p' := fst (step p c line) in
         exists (qline : str) (added : list (str * bool)),
           n_repl p' = n_repl p ++ [qline] /\
           n_snap p' = n_snap p ++ added /\
           n_snap (fst (step s cs qline)) = n_snap s ++ added /\
           added = map (fun nm : str => (nm, reclaim)) names' /\
           qline = rp_line (n_clock p) (snap_req names' reclaim) /\
           snd (step p c line) = ROk /\
           snd (step s cs qline) = ROk /\ n_dbs p' = n_dbs p /\ n_dbs (fst (step s cs qline)) = n_dbs s.
Proof. exact snapshot_replicas_agree. Qed.
Print Assumptions C04_snapshot_replicas_agree.

(* when names are given the selected database is snapshotted only if it is named *)
Theorem C04_snapshot_named_not_selected :
  forall (p : node) (c : nat) (line : str) (reclaim : bool) (names : list str) 
           (dbn : str) (added : list (str * bool)) (b : bool),
         s_auth (get_sess p c) = true ->
         parse_request (trim_char nl line) = POk (RqSnapshot reclaim names) ->
         sel_ok p c ->
         names <> [] ->
         all_dbs p names ->
         s_db (get_sess p c) = Some dbn ->
         n_snap (fst (step p c line)) = n_snap p ++ added -> In (dbn, b) added -> In dbn names.
Proof. exact snapshot_named_not_selected. Qed.
Print Assumptions C04_snapshot_named_not_selected.

(* a request naming a database that does not exist changes nothing and queues nothing *)
Theorem C04_snapshot_missing_db_refused :
  forall (p : node) (c : nat) (line : str) (reclaim : bool) (names : list str) (nm : str),
         parse_request (trim_char nl line) = POk (RqSnapshot reclaim names) ->
         In nm names -> has_db p nm = false -> exists msg : str, step p c line = (p, RError msg).
Proof. exact snapshot_missing_db_refused. Qed.
Print Assumptions C04_snapshot_missing_db_refused.

(* kept visible: the agreement needs the run invariant 'a session's selection names an existing database' (ConnProofs.sel_exists) *)
Theorem C04_snapshot_needs_sel_ok :
  let r := step ex_ghost 0 "snapshot false e0" in
         snd r = RError "Database ghost not found" /\
         n_snap (fst r) = [("e0", false)] /\ n_repl (fst r) = n_repl ex_ghost.
Proof. exact snapshot_needs_sel_ok. Qed.
Print Assumptions C04_snapshot_needs_sel_ok.

(* kept visible: a database whose NAME contains '|' is read as two names by the secondary *)
Theorem C04_snapshot_bar_name_diverges :
  has_db ex_pb "a|b" = true /\
         has_db ex_sb "a|b" = true /\
         (let rp := step ex_pb 0 "snapshot true" in
          snd rp = ROk /\
          n_snap (fst rp) = [("a|b", true)] /\
          n_repl (fst rp) = n_repl ex_pb ++ ["rp 16 replicate-snapshot a|b true"] /\
          (let rs := step ex_sb 0 "rp 16 replicate-snapshot a|b true" in
           snd rs = RError "Error trying to snapshot database: Database b not found" /\ n_snap (fst rs) = [])).
Proof. exact snapshot_bar_name_diverges. Qed.
Print Assumptions C04_snapshot_bar_name_diverges.

(* non-vacuity: d1 selected, `snapshot false e0` *)
Theorem C04_snapshot_replicas_example :
  s_db (get_sess ex_p 0) = Some "d1" /\
         is_primary ex_p = true /\
         n_snap ex_p = [] /\
         n_snap ex_s = [] /\
         (let rp := step ex_p 0 "snapshot false e0" in
          snd rp = ROk /\
          n_snap (fst rp) = [("e0", false)] /\
          n_repl (fst rp) = n_repl ex_p ++ ["rp 19 replicate-snapshot e0 false"] /\
          (let rs := step ex_s 0 "rp 19 replicate-snapshot e0 false" in
           snd rs = ROk /\ n_snap (fst rs) = [("e0", false)] /\ n_dbs (fst rs) = n_dbs ex_s)).
Proof. exact snapshot_replicas_example. Qed.
Print Assumptions C04_snapshot_replicas_example.
