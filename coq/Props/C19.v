(* Property C19 -- newer-strategy databases accept every write; the most recently issued change wins; replicas agree *)
(* Statements only: each theorem restates the proved lemma's statement and is closed by [exact]. *)
From NunDB Require Import Model.Base Model.Pending Model.Parse Model.Node Proofs.DbProofs Model.Sched Proofs.SchedProofs Proofs.ClusterProofs Proofs.NewerReplicaProofs Proofs.NewerRaceProofs.
Local Open Scope Z_scope.

(* no versioned write is refused; the reply names the value now stored; the version never decreases; other keys untouched *)
Theorem C19_newer_never_refused :
  forall (n : node) (dbn : str) (d : db) (ch : change),
         get_db n dbn = Some d ->
         d_strat d = SNewer ->
         c_resolve ch = false ->
         -1 <= c_ver ch ->
         c_ver ch < i32_max ->
         (forall old : value, get_value d (c_key ch) = Some old -> v_ver old <> -2 /\ v_ver old < i32_max) ->
         exists (n' : node) (v : str) (d' : db),
           apply_change n dbn ch = (n', RSet (c_key ch) v) /\
           get_db n' dbn = Some d' /\
           ((forall old : value, get_value d (c_key ch) = Some old -> v_st old <> VDeleted) ->
            live d' (c_key ch) = Some v) /\
           (forall old nw : value,
            get_value d (c_key ch) = Some old -> get_value d' (c_key ch) = Some nw -> v_ver old <= v_ver nw) /\
           (forall k' : str, k' <> c_key ch -> get_value d' k' = get_value d k').
Proof. exact newer_never_refused. Qed.
Print Assumptions C19_newer_never_refused.

(* either the incoming value was stored, or the old value was kept and nothing at all changed (no notification) *)
Theorem C19_newer_reply_value :
  forall (n : node) (dbn : str) (d : db) (ch : change) (n' : node) (v : str),
         get_db n dbn = Some d ->
         d_strat d = SNewer ->
         c_resolve ch = false ->
         -1 <= c_ver ch ->
         c_ver ch < i32_max ->
         (forall old : value, get_value d (c_key ch) = Some old -> v_ver old <> -2 /\ v_ver old < i32_max) ->
         apply_change n dbn ch = (n', RSet (c_key ch) v) ->
         exists d' : db,
           get_db n' dbn = Some d' /\
           (v = c_val ch /\ live d' (c_key ch) = Some v \/
            (exists old : value, get_value d (c_key ch) = Some old /\ v = v_val old /\ d' = d /\ n' = n)).
Proof. exact newer_reply_value. Qed.
Print Assumptions C19_newer_reply_value.

Theorem C19_newer_apply :
  forall (n : node) (dbn : str) (d : db) (ch : change),
         get_db n dbn = Some d ->
         d_strat d = SNewer ->
         c_resolve ch = false ->
         -1 <= c_ver ch ->
         (forall old : value, get_value d (c_key ch) = Some old -> v_ver old <> -2 /\ v_ver old < i32_max) ->
         exists (n' : node) (v : str) (d' : db),
           apply_change n dbn ch = (n', RSet (c_key ch) v) /\
           get_db n' dbn = Some d' /\
           (forall old nw : value,
            get_value d (c_key ch) = Some old -> get_value d' (c_key ch) = Some nw -> v_ver old <= v_ver nw) /\
           (forall k' : str, k' <> c_key ch -> get_value d' k' = get_value d k') /\
           (v = c_val ch /\ live d' (c_key ch) = Some v \/
            (exists old : value, get_value d (c_key ch) = Some old /\ v = v_val old /\ d' = d /\ n' = n)).
Proof. exact newer_apply. Qed.
Print Assumptions C19_newer_apply.

(* kept visible: when the kept old entry is a tombstone the reply names '<Empty>' (needs an op-id inversion, i.e. concurrency) *)
Theorem C19_tombstone_reply_refuted :
  get_db cx_node "d" = Some cx_db /\
         d_strat cx_db = SNewer /\
         c_resolve cx_ch = false /\
         -1 <= c_ver cx_ch /\
         c_ver cx_ch < i32_max /\
         apply_change cx_node "d" cx_ch = (cx_node, RSet "k" "<Empty>") /\ live cx_db "k" = None.
Proof. exact newer_tombstone_cx. Qed.
Print Assumptions C19_tombstone_reply_refuted.

Theorem C19_sched_resolving_set_succeeds :
  forall (d : db) (k v : str) (ver : Z) (id : N),
         (forall old : value, get_value d k = Some old -> v_ver old <> -2 /\ v_ver old < i32_max) ->
         exists (d1 : db) (msgs : list (nat * str)) (nw : value),
           set_value d {| c_key := k; c_val := v; c_ver := ver; c_opp := id; c_resolve := true |} =
           (d1, RSet k v, msgs) /\
           get_value d1 k = Some nw /\
           v_val nw = v /\
           v_opp nw = id /\
           (forall old : value, get_value d k = Some old -> ver <> -2 -> v_ver nw = v_ver old + 1).
Proof. exact resolving_set_succeeds. Qed.
Print Assumptions C19_sched_resolving_set_succeeds.

(* a write release on a newer database ends applied, parked for re-application, or answered Ok -- never refused *)
Theorem C19_sched_newer_set_release :
  forall (n : node) (t : thr) (dbn key value0 : str) (ver : Z) (opp : N) (rs : bool) (orig : Z) (d : db),
         t_pc t = PcSetWrite dbn key value0 ver opp rs orig ->
         get_db n dbn = Some d ->
         d_strat d = SNewer ->
         sel_ok n (t_sid t) = true ->
         let ch := {| c_key := key; c_val := value0; c_ver := ver; c_opp := opp; c_resolve := rs |} in
         let n' := fst (release n t) in
         let t' := snd (release n t) in
         snd (fst (set_value d ch)) = RSet key value0 /\
         n' = put_db n dbn (fst (fst (set_value d ch))) /\
         t_pc t' = PcNotify dbn key value0 (cur_ver (fst (fst (set_value d ch))) key) (RqSet key value0 orig) /\
         t_replies t' = t_replies t \/
         (exists old : value,
            get_value d key = Some old /\
            (v_opp old < opp)%N /\
            n_dbs n' = n_dbs n /\
            t_pc t' = PcSetWrite dbn key value0 (v_ver old) (n_clock n) true orig /\ t_replies t' = t_replies t) \/
         (exists old : value,
            get_value d key = Some old /\
            (opp <= v_opp old)%N /\ n_dbs n' = n_dbs n /\ t_replies t' = t_replies t ++ [ROk] /\ at_boundary t').
Proof. exact newer_set_release. Qed.
Print Assumptions C19_sched_newer_set_release.

Theorem C19_sched_newer_resolving_release :
  forall (n : node) (t : thr) (dbn key value0 : str) (ver : Z) (opp : N) (orig : Z) (d : db),
         t_pc t = PcSetWrite dbn key value0 ver opp true orig ->
         get_db n dbn = Some d ->
         (forall old : value, get_value d key = Some old -> v_ver old <> -2 /\ v_ver old < i32_max) ->
         exists (d1 : db) (nw : value) (nv : Z),
           release n t =
           (put_db n dbn d1, park t (PcNotify dbn key value0 nv (RqSet key value0 orig)) "watchers.read") /\
           d1 = db_apply' d (DSet' key value0 ver opp true) /\
           get_value d1 key = Some nw /\ v_val nw = value0 /\ v_opp nw = opp /\ nv = v_ver nw.
Proof. exact newer_resolving_release. Qed.
Print Assumptions C19_sched_newer_resolving_release.

(* UNBOUNDED INTERLEAVINGS: no release of a set on a newer database records anything but Ok *)
Theorem C19_sched_newer_set_answered :
  forall (n : node) (t : thr) (dbn key value : str) (ver : Z) (opp : N) (rs : bool) (orig : Z) (d : db),
         t_pc t = PcSetWrite dbn key value ver opp rs orig ->
         get_db n dbn = Some d ->
         d_strat d = SNewer ->
         sel_ok n (t_sid t) = true ->
         let t' := snd (release n t) in
         t_replies t' = t_replies t /\
         ((exists nv : Z, t_pc t' = PcNotify dbn key value nv (RqSet key value orig)) \/
          (exists (v : Z) (i : N), t_pc t' = PcSetWrite dbn key value v i true orig)) \/
         t_replies t' = t_replies t ++ [ROk] /\ at_boundary t'.
Proof. exact newer_set_answered. Qed.
Print Assumptions C19_sched_newer_set_answered.

(* versions never go down along any schedule *)
Theorem C19_sched_newer_version_grows :
  forall (n : node) (ts : list thr) (sched : list nat) (dbn : str) (d : db) (k : str) (old : value),
         Forall sched_thr ts ->
         get_db n dbn = Some d ->
         get_value d k = Some old ->
         v_ver old <= i32_max ->
         run_ok' k d (ops_on dbn (data_log n ts sched)) ->
         exists (d' : db) (nw : value),
           get_db (fst (run_schedule n ts sched)) dbn = Some d' /\
           get_value d' k = Some nw /\ v_ver old <= v_ver nw.
Proof. exact newer_version_grows. Qed.
Print Assumptions C19_sched_newer_version_grows.

Theorem C19_sched_newer_version_grows_inv :
  forall (n : node) (ts : list thr) (sched : list nat) (dbn : str) (d : db) (k : str) (old : value),
         Forall sched_thr ts ->
         Forall vers_thr ts ->
         node_vok n ->
         get_db n dbn = Some d ->
         get_value d k = Some old ->
         v_ver old <= i32_max ->
         stays k d (ops_on dbn (data_log n ts sched)) ->
         exists (d' : db) (nw : value),
           get_db (fst (run_schedule n ts sched)) dbn = Some d' /\
           get_value d' k = Some nw /\ v_ver old <= v_ver nw.
Proof. exact newer_version_grows_inv. Qed.
Print Assumptions C19_sched_newer_version_grows_inv.

(* when op ids grow with issue order (every stored op id is below the node's clock) the keep-old branch is never taken: the incoming change is stored, live, with a strictly higher version; other keys untouched; the invariant is kept *)
Theorem C19_newer_incoming_wins :
  forall (n : node) (dbn : str) (d : db) (key value0 : str) (ver : Z) (n' : node) (r : resp),
         get_db n dbn = Some d ->
         d_strat d = SNewer ->
         opps_below n d ->
         ver <> -2 ->
         (forall old : value, get_value d key = Some old -> v_ver old <> -2 /\ v_ver old < i32_max) ->
         set_key_value n dbn key value0 ver = (n', r) ->
         r = RSet key value0 /\
         (exists (d' : db) (nw : value),
            get_db n' dbn = Some d' /\
            live d' key = Some value0 /\
            get_value d' key = Some nw /\
            v_val nw = value0 /\
            v_st nw <> VDeleted /\
            (n_clock n <= v_opp nw < n_clock n')%N /\
            opps_below n' d' /\
            d_strat d' = SNewer /\
            (forall old : value, get_value d key = Some old -> v_ver old < v_ver nw) /\
            (get_value d key = None -> v_ver nw = sat_succ ver /\ v_st nw = VNew) /\
            (forall k' : str, k' <> key -> get_value d' k' = get_value d k')).
Proof. exact newer_incoming_wins. Qed.
Print Assumptions C19_newer_incoming_wins.

(* the clock invariant is kept by every write, whatever the version argument (refusal by saturation included) *)
Theorem C19_newer_opps_below_inv :
  forall (n : node) (dbn : str) (d : db) (key value : str) (ver : Z) (n' : node) (r : resp),
         get_db n dbn = Some d ->
         d_strat d = SNewer ->
         opps_below n d ->
         set_key_value n dbn key value ver = (n', r) ->
         exists d' : db,
           get_db n' dbn = Some d' /\
           d_strat d' = SNewer /\
           opps_below n' d' /\
           (n_clock n < n_clock n')%N /\ (d', r) = newer_db_step d key value ver (n_clock n).
Proof. exact newer_opps_below_inv. Qed.
Print Assumptions C19_newer_opps_below_inv.

(* kept visible: without the clock invariant (an op-id inversion) the old value is kept *)
Theorem C19_newer_keep_old_without_invariant :
  get_db cx_node "d" = Some cx_db /\
         d_strat cx_db = SNewer /\
         ~ opps_below cx_node cx_db /\ snd (set_key_value cx_node "d" "k" "x" 3) = RSet "k" "<Empty>".
Proof. exact newer_keep_old_without_invariant. Qed.
Print Assumptions C19_newer_keep_old_without_invariant.

(* UNBOUNDED: the same writes, in the same order, on two replicas with their own clocks, watchers and sessions leave them with the same value, version and removed/live status for every key, and with related replies -- any number of writes, no condition on versions *)
Theorem C19_newer_replicas_agree :
  forall (ws : list wr) (n1 n2 : node) (dbn : str) (d1 d2 : db),
         get_db n1 dbn = Some d1 ->
         get_db n2 dbn = Some d2 ->
         d_strat d1 = SNewer ->
         d_strat d2 = SNewer ->
         dbrel d1 d2 ->
         opps_below n1 d1 ->
         opps_below n2 d2 ->
         Forall2 resp_rel (snd (run_writes n1 dbn ws)) (snd (run_writes n2 dbn ws)) /\
         (exists d1' d2' : db,
            get_db (fst (run_writes n1 dbn ws)) dbn = Some d1' /\
            get_db (fst (run_writes n2 dbn ws)) dbn = Some d2' /\
            dbrel d1' d2' /\
            d_strat d1' = SNewer /\
            d_strat d2' = SNewer /\
            opps_below (fst (run_writes n1 dbn ws)) d1' /\ opps_below (fst (run_writes n2 dbn ws)) d2').
Proof. exact newer_replicas_agree. Qed.
Print Assumptions C19_newer_replicas_agree.

(* an accepted write gets the same reply on both replicas *)
Theorem C19_newer_replicas_replies :
  forall (ws : list wr) (n1 n2 : node) (dbn : str) (d1 d2 : db),
         get_db n1 dbn = Some d1 ->
         get_db n2 dbn = Some d2 ->
         d_strat d1 = SNewer ->
         d_strat d2 = SNewer ->
         dbrel d1 d2 ->
         opps_below n1 d1 ->
         opps_below n2 d2 ->
         Forall2 (fun r1 r2 : resp => resp_rel r1 r2 /\ (forall k v : str, r1 = RSet k v -> r2 = r1))
           (snd (run_writes n1 dbn ws)) (snd (run_writes n2 dbn ws)).
Proof. exact newer_replicas_replies. Qed.
Print Assumptions C19_newer_replicas_replies.

(* kept visible: a write refused by version saturation is refused on both replicas but the refusals carry each node's own op ids *)
Theorem C19_newer_refused_replies_differ :
  opps_below (sat_node 0) sat_db /\
         opps_below (sat_node 1000) sat_db /\
         snd (set_key_value (sat_node 0) "d" "k" "x" (-1)) <>
         snd (set_key_value (sat_node 1000) "d" "k" "x" (-1)) /\
         resp_rel (snd (set_key_value (sat_node 0) "d" "k" "x" (-1)))
           (snd (set_key_value (sat_node 1000) "d" "k" "x" (-1))) /\
         get_db (fst (set_key_value (sat_node 0) "d" "k" "x" (-1))) "d" = Some sat_db.
Proof. exact newer_refused_replies_differ. Qed.
Print Assumptions C19_newer_refused_replies_differ.

(* after any sequence of writes the last write to a key is the stored value *)
Theorem C19_newer_last_write_wins :
  forall (n : node) (dbn : str) (d : db) (ws : list wr) (k v : str) (ver : Z),
         get_db n dbn = Some d ->
         d_strat d = SNewer ->
         opps_below n d ->
         ver <> -2 ->
         (forall (dm : db) (old : value),
          get_db (fst (run_writes n dbn ws)) dbn = Some dm ->
          get_value dm k = Some old -> v_ver old <> -2 /\ v_ver old < i32_max) ->
         let res := run_writes n dbn (ws ++ [(k, v, ver)]) in
         last (snd res) ROk = RSet k v /\
         (exists (d' : db) (nw : value),
            get_db (fst res) dbn = Some d' /\
            live d' k = Some v /\
            get_value d' k = Some nw /\ v_val nw = v /\ opps_below (fst res) d' /\ d_strat d' = SNewer).
Proof. exact newer_last_write_wins. Qed.
Print Assumptions C19_newer_last_write_wins.

(* the same under a bound on versions that is a condition on the initial state and the arguments only *)
Theorem C19_newer_last_write_wins_bounded :
  forall (n : node) (dbn : str) (d : db) (ws : list wr) (k v : str) (ver B : Z),
         get_db n dbn = Some d ->
         d_strat d = SNewer ->
         opps_below n d ->
         vers_in d B ->
         Forall (fun w : wr => -1 <= wr_ver w < B) ws ->
         B + Z.of_nat (Datatypes.length ws) <= i32_max ->
         ver <> -2 ->
         let res := run_writes n dbn (ws ++ [(k, v, ver)]) in
         last (snd res) ROk = RSet k v /\
         (exists d' : db, get_db (fst res) dbn = Some d' /\ live d' k = Some v).
Proof. exact newer_last_write_wins_bounded. Qed.
Print Assumptions C19_newer_last_write_wins_bounded.

(* on every replica, with equal reply lists *)
Theorem C19_newer_last_write_wins_replicas :
  forall (n1 n2 : node) (dbn : str) (d1 d2 : db) (ws : list wr) (k v : str) (ver B : Z),
         get_db n1 dbn = Some d1 ->
         get_db n2 dbn = Some d2 ->
         d_strat d1 = SNewer ->
         d_strat d2 = SNewer ->
         dbrel d1 d2 ->
         opps_below n1 d1 ->
         opps_below n2 d2 ->
         vers_in d1 B ->
         Forall (fun w : wr => -1 <= wr_ver w < B) ws ->
         B + Z.of_nat (Datatypes.length ws) <= i32_max ->
         ver <> -2 ->
         exists d1' d2' : db,
           get_db (fst (run_writes n1 dbn (ws ++ [(k, v, ver)]))) dbn = Some d1' /\
           get_db (fst (run_writes n2 dbn (ws ++ [(k, v, ver)]))) dbn = Some d2' /\
           live d1' k = Some v /\
           live d2' k = Some v /\
           dbrel d1' d2' /\
           snd (run_writes n1 dbn (ws ++ [(k, v, ver)])) = snd (run_writes n2 dbn (ws ++ [(k, v, ver)])).
Proof. exact newer_last_write_wins_replicas. Qed.
Print Assumptions C19_newer_last_write_wins_replicas.

(* under the version bound no write of the run is refused *)
Theorem C19_newer_run_bounded :
  forall (ws : list wr) (n : node) (dbn : str) (d : db) (B : Z),
         get_db n dbn = Some d ->
         d_strat d = SNewer ->
         opps_below n d ->
         vers_in d B ->
         Forall (fun w : wr => -1 <= wr_ver w < B) ws ->
         B + Z.of_nat (Datatypes.length ws) <= i32_max ->
         snd (run_writes n dbn ws) = map (fun w : str * str * Z => RSet (fst (fst w)) (snd (fst w))) ws /\
         (exists d' : db,
            get_db (fst (run_writes n dbn ws)) dbn = Some d' /\
            d_strat d' = SNewer /\
            opps_below (fst (run_writes n dbn ws)) d' /\ vers_in d' (B + Z.of_nat (Datatypes.length ws))).
Proof. exact newer_run_bounded. Qed.
Print Assumptions C19_newer_run_bounded.

(* the handlers: a client's set line on the primary and the replication line it produces, parsed and applied by a secondary, keep the two databases equal *)
Theorem C19_newer_primary_to_secondary :
  forall (p : node) (c : nat) (s : node) (cs : nat) (line dbn key value : str) (ver : Z) (d1 d2 : db),
         s_db (get_sess p c) = Some dbn ->
         get_db p dbn = Some d1 ->
         has_permission p c key d1 PWrite = true ->
         (starts_with key "$$" = true -> s_auth (get_sess p c) = true) ->
         parse_request (trim_char nl line) = POk (RqSet key value ver) ->
         s_auth (get_sess s cs) = true ->
         get_db s dbn = Some d2 ->
         d_strat d1 = SNewer ->
         d_strat d2 = SNewer ->
         dbrel d1 d2 ->
         opps_below p d1 ->
         opps_below s d2 ->
         no_sp dbn ->
         no_sp key ->
         no_nl key ->
         no_nl value ->
         no_semi_end value ->
         is_i32 ver ->
         let p' := fst (step p c line) in
         let s' := fst (step s cs (replicate_msg dbn key value ver)) in
         exists d1' d2' : db,
           get_db p' dbn = Some d1' /\
           get_db s' dbn = Some d2' /\
           dbrel d1' d2' /\
           d_strat d1' = SNewer /\
           d_strat d2' = SNewer /\
           opps_below p' d1' /\ opps_below s' d2' /\ (forall k : str, live d1' k = live d2' k).
Proof. exact newer_primary_to_secondary. Qed.
Print Assumptions C19_newer_primary_to_secondary.

(* an accepted client write queues exactly the replication line of that write *)
Theorem C19_newer_primary_queues :
  forall (p : node) (c : nat) (line dbn key value0 : str) (ver : Z) (d1 : db),
         s_db (get_sess p c) = Some dbn ->
         get_db p dbn = Some d1 ->
         has_permission p c key d1 PWrite = true ->
         (starts_with key "$$" = true -> s_auth (get_sess p c) = true) ->
         parse_request (trim_char nl line) = POk (RqSet key value0 ver) ->
         d_strat d1 = SNewer ->
         opps_below p d1 ->
         ver <> -2 ->
         (forall old : value, get_value d1 key = Some old -> v_ver old <> -2 /\ v_ver old < i32_max) ->
         exists id : N,
           (n_clock p < id)%N /\
           step p c line = (fst (step p c line), ROk) /\
           n_repl (fst (step p c line)) =
           n_repl p ++ [ConvergeProofs.rp_line id (replicate_msg dbn key value0 ver)].
Proof. exact newer_primary_queues. Qed.
Print Assumptions C19_newer_primary_queues.

(* non-vacuity: two concrete replicas built through the handlers, three writes with versions below, at and above the stored one *)
Theorem C19_newer_replicas_example :
  let n1 := ex_node 0 in
         let n2 := ex_node 1000 in
         let d1 := ex_db 0 in
         let d2 := ex_db 1000 in
         get_db n1 "foo" = Some d1 /\
         get_db n2 "foo" = Some d2 /\
         d_strat d1 = SNewer /\
         d_strat d2 = SNewer /\
         dbrel d1 d2 /\
         opps_below n1 d1 /\
         opps_below n2 d2 /\
         d1 <> d2 /\
         (exists v : value, get_value d1 "k" = Some v /\ v_ver v = 3 /\ v_val v = "a") /\
         snd (run_writes n1 "foo" ex_writes) = [RSet "k" "x"; RSet "k" "y"; RSet "k" "z"] /\
         snd (run_writes n2 "foo" ex_writes) = [RSet "k" "x"; RSet "k" "y"; RSet "k" "z"] /\
         (exists e1 e2 : db,
            get_db (fst (run_writes n1 "foo" ex_writes)) "foo" = Some e1 /\
            get_db (fst (run_writes n2 "foo" ex_writes)) "foo" = Some e2 /\
            live e1 "k" = Some "z" /\
            live e2 "k" = Some "z" /\
            dbrel e1 e2 /\ get_key_value_new e1 "k" = ("z", 8) /\ get_key_value_new e2 "k" = ("z", 8)).
Proof. exact newer_replicas_example. Qed.
Print Assumptions C19_newer_replicas_example.

(* the cause of the known finding: the second critical section of the resolution path stores its value whatever op id the stored entry carries (no hypothesis on op ids or strategy) *)
Theorem C19_resolving_write_unchecked :
  forall (n : node) (t : thr) (dbn key value0 : str) (ver : Z) (opp : N) (orig : Z) (d : db),
         t_pc t = PcSetWrite dbn key value0 ver opp true orig ->
         get_db n dbn = Some d ->
         (forall old : value, get_value d key = Some old -> v_ver old <> -2 /\ v_ver old < i32_max) ->
         exists (d1 : db) (nw : value),
           get_db (fst (release n t)) dbn = Some d1 /\
           get_value d1 key = Some nw /\
           v_val nw = value0 /\
           v_opp nw = opp /\
           (forall k : str, k <> key -> get_value d1 k = get_value d k) /\
           (exists nv : Z, t_pc (snd (release n t)) = PcNotify dbn key value0 nv (RqSet key value0 orig)) /\
           t_replies (snd (release n t)) = t_replies t.
Proof. exact resolving_write_unchecked. Qed.
Print Assumptions C19_resolving_write_unchecked.

(* REFUTED (known finding), witness 1: the change issued first (op id 12 < 14) decides its resolution, the later change is stored, the first is re-applied over it *)
Theorem C19_newer_resolution_overwrites :
  let mid := run_schedule nr_node (nr_ts "a") (firstn 5 sched_overwrite) in
         let mid2 := run_schedule nr_node (nr_ts "a") (firstn 7 sched_overwrite) in
         let fin := run_schedule nr_node (nr_ts "a") sched_overwrite in
         map t_pc (snd (run_schedule nr_node (nr_ts "a") (firstn 2 sched_overwrite))) =
         [PcSetWrite "d1" "a" "x1" 0 12 false 0; PcCmd] /\
         map t_pc (snd mid) = [PcSetWrite "d1" "a" "x1" 1 13 true 0; PcSetWrite "d1" "a" "y1" 0 14 false 0] /\
         (12 < 14)%N /\
         nr_val (fst mid) "a" = Some "i1" /\
         nr_look (fst mid2) "a" =
         Some {| v_val := "y1"; v_ver := 2; v_opp := 15; v_st := VNew; v_vaddr := 0; v_kaddr := 0 |} /\
         map (fun t : thr => pc_resolving (t_pc t)) (snd mid2) = [true; false] /\
         map t_pc (snd fin) = [PcDone; PcDone] /\
         map t_replies (snd fin) = [[ROk]; [ROk]] /\
         nr_look (fst fin) "a" =
         Some {| v_val := "x1"; v_ver := 3; v_opp := 13; v_st := VNew; v_vaddr := 0; v_kaddr := 0 |} /\
         map t_trace (snd fin) =
         [["cmd"; "map.read"; "map.write"; "map.write"; "watchers.read"];
          ["cmd"; "map.read"; "map.write"; "map.write"; "watchers.read"]] /\
         run_par nr_node (nr_ts "a") sched_overwrite = fin.
Proof. exact newer_resolution_overwrites. Qed.
Print Assumptions C19_newer_resolution_overwrites.

(* REFUTED (known finding), witness 2: the resolution re-stamps the first change with a fresh op id (14 > 13), so the change issued later looks stale and is dropped *)
Theorem C19_newer_resolution_restamps :
  let mid := run_schedule nr_node (nr_ts "a") (firstn 4 sched_restamp) in
         let mid2 := run_schedule nr_node (nr_ts "a") (firstn 7 sched_restamp) in
         let mid3 := run_schedule nr_node (nr_ts "a") (firstn 8 sched_restamp) in
         let fin := run_schedule nr_node (nr_ts "a") sched_restamp in
         map t_pc (snd mid) = [PcSetWrite "d1" "a" "x1" 0 12 false 0; PcSetWrite "d1" "a" "y1" 0 13 false 0] /\
         (12 < 13)%N /\
         map t_pc (snd mid2) = [PcDone; PcSetWrite "d1" "a" "y1" 0 13 false 0] /\
         nr_look (fst mid2) "a" =
         Some {| v_val := "x1"; v_ver := 2; v_opp := 14; v_st := VNew; v_vaddr := 0; v_kaddr := 0 |} /\
         (13 < 14)%N /\
         map t_pc (snd mid3) = [PcDone; PcDone] /\
         fin = mid3 /\
         map t_replies (snd fin) = [[ROk]; [ROk]] /\
         nr_look (fst fin) "a" =
         Some {| v_val := "x1"; v_ver := 2; v_opp := 14; v_st := VNew; v_vaddr := 0; v_kaddr := 0 |} /\
         map t_trace (snd fin) =
         [["cmd"; "map.read"; "map.write"; "map.write"; "watchers.read"]; ["cmd"; "map.read"; "map.write"]] /\
         run_par nr_node (nr_ts "a") sched_restamp = fin.
Proof. exact newer_resolution_restamps. Qed.
Print Assumptions C19_newer_resolution_restamps.

(* BOUNDED (this program, all 252 interleavings of 5+5 releases): on a key that does not exist yet the change issued last is always the one stored *)
Theorem C19_newer_new_key_all_schedules :
  Datatypes.length all_schedules = 252%nat /\
         (forall s : list nat, In s all_schedules -> sched_outcome "b" s true).
Proof. exact newer_new_key_all_schedules. Qed.
Print Assumptions C19_newer_new_key_all_schedules.

(* BOUNDED (same program on an existing key): 84 of the 252 interleavings store the change issued first, both witnesses among them *)
Theorem C19_newer_existing_key_count :
  Datatypes.length (filter (first_issued_stored "a") all_schedules) = 84%nat /\
         Datatypes.length (filter (last_issued_stored "a") all_schedules) = 168%nat /\
         In sched_overwrite (filter (first_issued_stored "a") all_schedules) /\
         In sched_restamp (filter (first_issued_stored "a") all_schedules) /\
         Datatypes.length (filter (first_issued_stored "b") all_schedules) = 0%nat.
Proof. exact newer_existing_key_count. Qed.
Print Assumptions C19_newer_existing_key_count.

(* BOUNDED: on the existing key every interleaving still ends with both writes answered Ok and one of the two values stored *)
Theorem C19_newer_existing_key_all_schedules :
  forall s : list nat, In s all_schedules -> sched_outcome "a" s (negb (first_issued_stored "a" s)).
Proof. exact newer_existing_key_all_schedules. Qed.
Print Assumptions C19_newer_existing_key_all_schedules.
