(* Property C19 -- newer-strategy databases accept every write (sequential part) *)
(* Statements only: each theorem restates the proved lemma's statement and is closed by [exact]. *)
From NunDB Require Import Model.Base Model.Pending Model.Parse Model.Node Proofs.DbProofs Model.Sched Proofs.SchedProofs.
Local Open Scope Z_scope.

(* no versioned write is refused; the reply names the value now stored; the version never decreases; other keys untouched *)
Theorem C19_newer_never_refused :
  forall (n : node) (dbn : str) (d : db) (ch : change),
         get_db n dbn = Some d ->
         d_strat d = SNewer ->
         c_resolve ch = false ->
         -1 <= c_ver ch ->
         c_ver ch < i32_max ->
         (forall old : value, get_value d (c_key ch) = Some old -> v_ver old <> -2 /\ v_ver old < i32_max) ->
         exists (n' : node) (v : str) (d' : db),
           apply_change n dbn ch = (n', RSet (c_key ch) v) /\
           get_db n' dbn = Some d' /\
           ((forall old : value, get_value d (c_key ch) = Some old -> v_st old <> VDeleted) ->
            live d' (c_key ch) = Some v) /\
           (forall old nw : value,
            get_value d (c_key ch) = Some old -> get_value d' (c_key ch) = Some nw -> v_ver old <= v_ver nw) /\
           (forall k' : str, k' <> c_key ch -> get_value d' k' = get_value d k').
Proof. exact newer_never_refused. Qed.
Print Assumptions C19_newer_never_refused.

(* either the incoming value was stored, or the old value was kept and nothing at all changed (no notification) *)
Theorem C19_newer_reply_value :
  forall (n : node) (dbn : str) (d : db) (ch : change) (n' : node) (v : str),
         get_db n dbn = Some d ->
         d_strat d = SNewer ->
         c_resolve ch = false ->
         -1 <= c_ver ch ->
         c_ver ch < i32_max ->
         (forall old : value, get_value d (c_key ch) = Some old -> v_ver old <> -2 /\ v_ver old < i32_max) ->
         apply_change n dbn ch = (n', RSet (c_key ch) v) ->
         exists d' : db,
           get_db n' dbn = Some d' /\
           (v = c_val ch /\ live d' (c_key ch) = Some v \/
            (exists old : value, get_value d (c_key ch) = Some old /\ v = v_val old /\ d' = d /\ n' = n)).
Proof. exact newer_reply_value. Qed.
Print Assumptions C19_newer_reply_value.

Theorem C19_newer_apply :
  forall (n : node) (dbn : str) (d : db) (ch : change),
         get_db n dbn = Some d ->
         d_strat d = SNewer ->
         c_resolve ch = false ->
         -1 <= c_ver ch ->
         (forall old : value, get_value d (c_key ch) = Some old -> v_ver old <> -2 /\ v_ver old < i32_max) ->
         exists (n' : node) (v : str) (d' : db),
           apply_change n dbn ch = (n', RSet (c_key ch) v) /\
           get_db n' dbn = Some d' /\
           (forall old nw : value,
            get_value d (c_key ch) = Some old -> get_value d' (c_key ch) = Some nw -> v_ver old <= v_ver nw) /\
           (forall k' : str, k' <> c_key ch -> get_value d' k' = get_value d k') /\
           (v = c_val ch /\ live d' (c_key ch) = Some v \/
            (exists old : value, get_value d (c_key ch) = Some old /\ v = v_val old /\ d' = d /\ n' = n)).
Proof. exact newer_apply. Qed.
Print Assumptions C19_newer_apply.

(* kept visible: when the kept old entry is a tombstone the reply names '<Empty>' (needs an op-id inversion, i.e. concurrency) *)
Theorem C19_tombstone_reply_refuted :
  get_db cx_node "d" = Some cx_db /\
         d_strat cx_db = SNewer /\
         c_resolve cx_ch = false /\
         -1 <= c_ver cx_ch /\
         c_ver cx_ch < i32_max /\
         apply_change cx_node "d" cx_ch = (cx_node, RSet "k" "<Empty>") /\ live cx_db "k" = None.
Proof. exact newer_tombstone_cx. Qed.
Print Assumptions C19_tombstone_reply_refuted.

Theorem C19_sched_resolving_set_succeeds :
  forall (d : db) (k v : str) (ver : Z) (id : N),
         (forall old : value, get_value d k = Some old -> v_ver old <> -2 /\ v_ver old < i32_max) ->
         exists (d1 : db) (msgs : list (nat * str)) (nw : value),
           set_value d {| c_key := k; c_val := v; c_ver := ver; c_opp := id; c_resolve := true |} =
           (d1, RSet k v, msgs) /\
           get_value d1 k = Some nw /\
           v_val nw = v /\
           v_opp nw = id /\
           (forall old : value, get_value d k = Some old -> ver <> -2 -> v_ver nw = v_ver old + 1).
Proof. exact resolving_set_succeeds. Qed.
Print Assumptions C19_sched_resolving_set_succeeds.

(* a write release on a newer database ends applied, parked for re-application, or answered Ok -- never refused *)
Theorem C19_sched_newer_set_release :
  forall (n : node) (t : thr) (dbn key value0 : str) (ver : Z) (opp : N) (rs : bool) (orig : Z) (d : db),
         t_pc t = PcSetWrite dbn key value0 ver opp rs orig ->
         get_db n dbn = Some d ->
         d_strat d = SNewer ->
         sel_ok n (t_sid t) = true ->
         let ch := {| c_key := key; c_val := value0; c_ver := ver; c_opp := opp; c_resolve := rs |} in
         let n' := fst (release n t) in
         let t' := snd (release n t) in
         snd (fst (set_value d ch)) = RSet key value0 /\
         n' = put_db n dbn (fst (fst (set_value d ch))) /\
         t_pc t' = PcNotify dbn key value0 (cur_ver (fst (fst (set_value d ch))) key) (RqSet key value0 orig) /\
         t_replies t' = t_replies t \/
         (exists old : value,
            get_value d key = Some old /\
            (v_opp old < opp)%N /\
            n_dbs n' = n_dbs n /\
            t_pc t' = PcSetWrite dbn key value0 (v_ver old) (n_clock n) true orig /\ t_replies t' = t_replies t) \/
         (exists old : value,
            get_value d key = Some old /\
            (opp <= v_opp old)%N /\ n_dbs n' = n_dbs n /\ t_replies t' = t_replies t ++ [ROk] /\ at_boundary t').
Proof. exact newer_set_release. Qed.
Print Assumptions C19_sched_newer_set_release.

Theorem C19_sched_newer_resolving_release :
  forall (n : node) (t : thr) (dbn key value0 : str) (ver : Z) (opp : N) (orig : Z) (d : db),
         t_pc t = PcSetWrite dbn key value0 ver opp true orig ->
         get_db n dbn = Some d ->
         (forall old : value, get_value d key = Some old -> v_ver old <> -2 /\ v_ver old < i32_max) ->
         exists (d1 : db) (nw : value) (nv : Z),
           release n t =
           (put_db n dbn d1, park t (PcNotify dbn key value0 nv (RqSet key value0 orig)) "watchers.read") /\
           d1 = db_apply' d (DSet' key value0 ver opp true) /\
           get_value d1 key = Some nw /\ v_val nw = value0 /\ v_opp nw = opp /\ nv = v_ver nw.
Proof. exact newer_resolving_release. Qed.
Print Assumptions C19_sched_newer_resolving_release.

(* UNBOUNDED INTERLEAVINGS: no release of a set on a newer database records anything but Ok *)
Theorem C19_sched_newer_set_answered :
  forall (n : node) (t : thr) (dbn key value : str) (ver : Z) (opp : N) (rs : bool) (orig : Z) (d : db),
         t_pc t = PcSetWrite dbn key value ver opp rs orig ->
         get_db n dbn = Some d ->
         d_strat d = SNewer ->
         sel_ok n (t_sid t) = true ->
         let t' := snd (release n t) in
         t_replies t' = t_replies t /\
         ((exists nv : Z, t_pc t' = PcNotify dbn key value nv (RqSet key value orig)) \/
          (exists (v : Z) (i : N), t_pc t' = PcSetWrite dbn key value v i true orig)) \/
         t_replies t' = t_replies t ++ [ROk] /\ at_boundary t'.
Proof. exact newer_set_answered. Qed.
Print Assumptions C19_sched_newer_set_answered.

(* versions never go down along any schedule *)
Theorem C19_sched_newer_version_grows :
  forall (n : node) (ts : list thr) (sched : list nat) (dbn : str) (d : db) (k : str) (old : value),
         Forall sched_thr ts ->
         get_db n dbn = Some d ->
         get_value d k = Some old ->
         v_ver old <= i32_max ->
         run_ok' k d (ops_on dbn (data_log n ts sched)) ->
         exists (d' : db) (nw : value),
           get_db (fst (run_schedule n ts sched)) dbn = Some d' /\
           get_value d' k = Some nw /\ v_ver old <= v_ver nw.
Proof. exact newer_version_grows. Qed.
Print Assumptions C19_sched_newer_version_grows.

Theorem C19_sched_newer_version_grows_inv :
  forall (n : node) (ts : list thr) (sched : list nat) (dbn : str) (d : db) (k : str) (old : value),
         Forall sched_thr ts ->
         Forall vers_thr ts ->
         node_vok n ->
         get_db n dbn = Some d ->
         get_value d k = Some old ->
         v_ver old <= i32_max ->
         stays k d (ops_on dbn (data_log n ts sched)) ->
         exists (d' : db) (nw : value),
           get_db (fst (run_schedule n ts sched)) dbn = Some d' /\
           get_value d' k = Some nw /\ v_ver old <= v_ver nw.
Proof. exact newer_version_grows_inv. Qed.
Print Assumptions C19_sched_newer_version_grows_inv.
