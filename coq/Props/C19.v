(* Property C19 -- newer-strategy databases accept every write (sequential part) *)
(* Statements only: each theorem restates the proved lemma's statement and is closed by [exact]. *)
From NunDB Require Import Model.Base Model.Pending Model.Parse Model.Node Proofs.DbProofs.
Local Open Scope Z_scope.

(* no versioned write is refused; the reply names the value now stored; the version never decreases; other keys untouched *)
Theorem C19_newer_never_refused :
  forall (n : node) (dbn : str) (d : db) (ch : change),
         get_db n dbn = Some d ->
         d_strat d = SNewer ->
         c_resolve ch = false ->
         -1 <= c_ver ch ->
         c_ver ch < i32_max ->
         (forall old : value, get_value d (c_key ch) = Some old -> v_ver old <> -2 /\ v_ver old < i32_max) ->
         exists (n' : node) (v : str) (d' : db),
           apply_change n dbn ch = (n', RSet (c_key ch) v) /\
           get_db n' dbn = Some d' /\
           ((forall old : value, get_value d (c_key ch) = Some old -> v_st old <> VDeleted) ->
            live d' (c_key ch) = Some v) /\
           (forall old nw : value,
            get_value d (c_key ch) = Some old -> get_value d' (c_key ch) = Some nw -> v_ver old <= v_ver nw) /\
           (forall k' : str, k' <> c_key ch -> get_value d' k' = get_value d k').
Proof. exact newer_never_refused. Qed.
Print Assumptions C19_newer_never_refused.

(* either the incoming value was stored, or the old value was kept and nothing at all changed (no notification) *)
Theorem C19_newer_reply_value :
  forall (n : node) (dbn : str) (d : db) (ch : change) (n' : node) (v : str),
         get_db n dbn = Some d ->
         d_strat d = SNewer ->
         c_resolve ch = false ->
         -1 <= c_ver ch ->
         c_ver ch < i32_max ->
         (forall old : value, get_value d (c_key ch) = Some old -> v_ver old <> -2 /\ v_ver old < i32_max) ->
         apply_change n dbn ch = (n', RSet (c_key ch) v) ->
         exists d' : db,
           get_db n' dbn = Some d' /\
           (v = c_val ch /\ live d' (c_key ch) = Some v \/
            (exists old : value, get_value d (c_key ch) = Some old /\ v = v_val old /\ d' = d /\ n' = n)).
Proof. exact newer_reply_value. Qed.
Print Assumptions C19_newer_reply_value.

Theorem C19_newer_apply :
  forall (n : node) (dbn : str) (d : db) (ch : change),
         get_db n dbn = Some d ->
         d_strat d = SNewer ->
         c_resolve ch = false ->
         -1 <= c_ver ch ->
         (forall old : value, get_value d (c_key ch) = Some old -> v_ver old <> -2 /\ v_ver old < i32_max) ->
         exists (n' : node) (v : str) (d' : db),
           apply_change n dbn ch = (n', RSet (c_key ch) v) /\
           get_db n' dbn = Some d' /\
           (forall old nw : value,
            get_value d (c_key ch) = Some old -> get_value d' (c_key ch) = Some nw -> v_ver old <= v_ver nw) /\
           (forall k' : str, k' <> c_key ch -> get_value d' k' = get_value d k') /\
           (v = c_val ch /\ live d' (c_key ch) = Some v \/
            (exists old : value, get_value d (c_key ch) = Some old /\ v = v_val old /\ d' = d /\ n' = n)).
Proof. exact newer_apply. Qed.
Print Assumptions C19_newer_apply.

(* kept visible: when the kept old entry is a tombstone the reply names '<Empty>' (needs an op-id inversion, i.e. concurrency) *)
Theorem C19_tombstone_reply_refuted :
  get_db cx_node "d" = Some cx_db /\
         d_strat cx_db = SNewer /\
         c_resolve cx_ch = false /\
         -1 <= c_ver cx_ch /\
         c_ver cx_ch < i32_max /\
         apply_change cx_node "d" cx_ch = (cx_node, RSet "k" "<Empty>") /\ live cx_db "k" = None.
Proof. exact newer_tombstone_cx. Qed.
Print Assumptions C19_tombstone_reply_refuted.
