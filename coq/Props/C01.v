(* Property C01 -- reads return the latest successful write (single-node key-value semantics) *)
(* Statements only: each theorem restates the proved lemma's statement and is closed by [exact]. *)
From NunDB Require Import Model.Base Model.Pending Model.Parse Model.Node Proofs.DbProofs Proofs.PatternProofs.
Local Open Scope Z_scope.

(* an accepted write stores exactly that value under that key and touches no other key *)
Theorem C01_set_value_ok :
  forall (d : db) (ch : change) (d' : db) (k v : str) (msgs : list (nat * str)),
         set_value d ch = (d', RSet k v, msgs) ->
         k = c_key ch /\
         v = c_val ch /\
         live d' (c_key ch) = Some (c_val ch) /\
         (forall k' : str, k' <> c_key ch -> get_value d' k' = get_value d k').
Proof. exact set_value_ok. Qed.
Print Assumptions C01_set_value_ok.

(* a refused write changes nothing *)
Theorem C01_set_value_refused :
  forall (d : db) (ch : change) (d' : db) (r : resp) (msgs : list (nat * str)),
         set_value d ch = (d', r, msgs) ->
         (forall k v : str, r <> RSet k v) ->
         d' = d /\
         msgs = [] /\
         (exists old : value,
            get_value d (c_key ch) = Some old /\
            r = RVersionError (c_key ch) (v_ver old) (c_ver ch) old ch (upd_state old)).
Proof. exact set_value_refused. Qed.
Print Assumptions C01_set_value_refused.

Theorem C01_remove_value_spec :
  forall (d : db) (key : string) (d' : db) (r : resp) (msgs : list (nat * str)),
         key <> "$$token" ->
         remove_value d key = (d', r, msgs) ->
         r = ROk /\ live d' key = None /\ (forall k' : string, k' <> key -> get_value d' k' = get_value d k').
Proof. exact remove_value_spec. Qed.
Print Assumptions C01_remove_value_spec.

Theorem C01_remove_token_refused :
  forall d : db, remove_value d "$$token" = (d, RError "$$token key cannot be removed", []).
Proof. exact remove_token_refused. Qed.
Print Assumptions C01_remove_token_refused.

(* increment adds exactly its argument to an integer (absent or removed = 0) value and refuses anything else without changing it *)
Theorem C01_inc_value_spec :
  forall (d : db) (k : str) (inc : Z) (opp : N),
         let cur := match live d k with
                    | Some s => s
                    | None => "0"
                    end in
         (forall c : Z,
          parse_i32 cur = Some c ->
          -2147483648 <= c + inc <= 2147483647 ->
          exists (d' : db) (msgs : list (nat * str)),
            inc_value d k inc opp = (d', ROk, msgs) /\
            live d' k = Some (Z_to_str (c + inc)) /\
            (forall k' : str, k' <> k -> get_value d' k' = get_value d k')) /\
         (parse_i32 cur = None \/
          (exists c : Z, parse_i32 cur = Some c /\ ~ -2147483648 <= c + inc <= 2147483647) ->
          inc_value d k inc opp = (d, RError "Key is not numeric", [])).
Proof. exact inc_value_spec. Qed.
Print Assumptions C01_inc_value_spec.

(* get returns the live value or <Empty> *)
Theorem C01_get_spec :
  forall (d : db) (k : str),
         wf_db d -> fst (get_key_value_new d k) = match live d k with
                                                  | Some s => s
                                                  | None => "<Empty>"
                                                  end.
Proof. exact get_spec. Qed.
Print Assumptions C01_get_spec.

(* keys lists exactly the live keys matching the pattern, hiding $$ keys unless system *)
Theorem C01_list_keys_spec :
  forall (d : db) (p : str) (sys : bool) (k : str),
         wf_db d ->
         In k (list_keys d p sys) <->
         live d k <> None /\ pattern_match k p = true /\ (sys = true \/ starts_with k "$$" = false).
Proof. exact list_keys_spec. Qed.
Print Assumptions C01_list_keys_spec.

Theorem C01_list_keys_sorted :
  forall (d : db) (p : str) (sys : bool),
         wf_db d ->
         Sorted.StronglySorted (fun a b : str => str_leb a b = true) (list_keys d p sys) /\
         NoDup (list_keys d p sys).
Proof. exact list_keys_sorted. Qed.
Print Assumptions C01_list_keys_sorted.

(* HEADLINE: for every history of mutations, gets and key listings (any length) the outputs are those of a plain map and the live content equals the plain map's *)
Theorem C01_refines :
  forall (ops : list qop) (d : db),
         wf_db d ->
         spec_run (live d) ops (snd (impl_run d ops)) /\
         (forall k : str, live (fst (impl_run d ops)) k = spec_final (live d) ops (snd (impl_run d ops)) k).
Proof. exact C01_refines. Qed.
Print Assumptions C01_refines.

Theorem C01_refines_empty :
  forall (ops : list qop) (id : N) (s : strat),
         spec_run (fun _ : str => None) ops (snd (impl_run (empty_db id s) ops)) /\
         (forall k : str,
          live (fst (impl_run (empty_db id s) ops)) k =
          spec_final (fun _ : str => None) ops (snd (impl_run (empty_db id s) ops)) k).
Proof. exact C01_refines_empty. Qed.
Print Assumptions C01_refines_empty.

Theorem C01_refused_changes_nothing :
  forall (d : db) (o : dop), resp_ok (dop_resp d o) = false -> db_apply d o = d.
Proof. exact refused_changes_nothing. Qed.
Print Assumptions C01_refused_changes_nothing.

(* the well-formedness hypothesis holds initially and is preserved *)
Theorem C01_wf_db_empty :
  forall (id : N) (s : strat), wf_db (empty_db id s).
Proof. exact wf_db_empty. Qed.
Print Assumptions C01_wf_db_empty.

Theorem C01_set_value_wf :
  forall (d : db) (ch : change), wf_db d -> wf_db (fst (fst (set_value d ch))).
Proof. exact set_value_wf. Qed.
Print Assumptions C01_set_value_wf.

Theorem C01_remove_value_wf :
  forall (d : db) (key : str), wf_db d -> wf_db (fst (fst (remove_value d key))).
Proof. exact remove_value_wf. Qed.
Print Assumptions C01_remove_value_wf.

Theorem C01_inc_value_wf :
  forall (d : db) (key : str) (inc : Z) (opp : N),
         wf_db d -> wf_db (fst (fst (inc_value d key inc opp))).
Proof. exact inc_value_wf. Qed.
Print Assumptions C01_inc_value_wf.

(* the three matchers mean what their names say *)
Theorem C01_starts_with_spec :
  forall k p : str, starts_with k p = true <-> (exists r : string, k = p +++ r).
Proof. exact starts_with_spec. Qed.
Print Assumptions C01_starts_with_spec.

Theorem C01_ends_with_spec :
  forall k p : str, ends_with k p = true <-> (exists l : string, k = l +++ p).
Proof. exact ends_with_spec. Qed.
Print Assumptions C01_ends_with_spec.

Theorem C01_contains_spec :
  forall k p : str, contains k p = true <-> (exists l r : string, k = l +++ p +++ r).
Proof. exact contains_spec. Qed.
Print Assumptions C01_contains_spec.

(* `p*` matches exactly the keys that start with p *)
Theorem C01_pattern_prefix_spec :
  forall k p : str,
         S3Proofs.nochar "*" p = true ->
         pattern_match k (p +++ "*") = true <-> (exists r : string, k = p +++ r).
Proof. exact pattern_prefix_spec. Qed.
Print Assumptions C01_pattern_prefix_spec.

(* `*p` matches exactly the keys that end with p *)
Theorem C01_pattern_suffix_spec :
  forall k p : str,
         S3Proofs.nochar "*" p = true ->
         pattern_match k ("*" +++ p) = true <-> (exists l : string, k = l +++ p).
Proof. exact pattern_suffix_spec_gen. Qed.
Print Assumptions C01_pattern_suffix_spec.

(* a pattern without star matches exactly the keys that contain it *)
Theorem C01_pattern_contains_spec :
  forall k p : str,
         S3Proofs.nochar "*" p = true -> pattern_match k p = true <-> (exists l r : string, k = l +++ p +++ r).
Proof. exact pattern_contains_spec. Qed.
Print Assumptions C01_pattern_contains_spec.

(* every pattern is one of the three, with ALL its stars removed (`*a*` is a prefix pattern, `a*b` a literal substring) *)
Theorem C01_pattern_match_classify :
  forall (k : str) (pat : string),
         (exists q : string,
            pat = q +++ "*" /\
            (pattern_match k pat = true <-> (exists r : string, k = remove_char "*" q +++ r))) \/
         ends_with pat "*" = false /\
         (exists q : string,
            pat = "*" +++ q /\
            (pattern_match k pat = true <-> (exists l : string, k = l +++ remove_char "*" q))) \/
         ends_with pat "*" = false /\
         starts_with pat "*" = false /\
         (pattern_match k pat = true <-> (exists l r : string, k = l +++ pat +++ r)).
Proof. exact pattern_match_classify. Qed.
Print Assumptions C01_pattern_match_classify.

(* kept visible: `*p*` is a prefix pattern, not a substring pattern *)
Theorem C01_pattern_star_both_prefix :
  forall k p : str,
         S3Proofs.nochar "*" p = true ->
         pattern_match k ("*" +++ p +++ "*") = true <-> (exists r : string, k = p +++ r).
Proof. exact pattern_star_both_prefix. Qed.
Print Assumptions C01_pattern_star_both_prefix.

(* keys p* lists exactly the live visible keys that start with p *)
Theorem C01_list_keys_prefix_spec :
  forall (d : db) (p : str) (sys : bool) (k : str),
         wf_db d ->
         S3Proofs.nochar "*" p = true ->
         In k (list_keys d (p +++ "*") sys) <->
         live d k <> None /\ (exists r : string, k = p +++ r) /\ (sys = true \/ starts_with k "$$" = false).
Proof. exact list_keys_prefix_spec. Qed.
Print Assumptions C01_list_keys_prefix_spec.

Theorem C01_list_keys_suffix_spec :
  forall (d : db) (p : str) (sys : bool) (k : str),
         wf_db d ->
         S3Proofs.nochar "*" p = true ->
         In k (list_keys d ("*" +++ p) sys) <->
         live d k <> None /\ (exists l : string, k = l +++ p) /\ (sys = true \/ starts_with k "$$" = false).
Proof. exact list_keys_suffix_spec. Qed.
Print Assumptions C01_list_keys_suffix_spec.

Theorem C01_list_keys_contains_spec :
  forall (d : db) (p : str) (sys : bool) (k : str),
         wf_db d ->
         S3Proofs.nochar "*" p = true ->
         In k (list_keys d p sys) <->
         live d k <> None /\
         (exists l r : string, k = l +++ p +++ r) /\ (sys = true \/ starts_with k "$$" = false).
Proof. exact list_keys_contains_spec. Qed.
Print Assumptions C01_list_keys_contains_spec.

(* `*` and the empty pattern list every live visible key *)
Theorem C01_list_keys_all_spec :
  forall (d : db) (sys : bool) (k : str),
         wf_db d ->
         (In k (list_keys d "*" sys) <-> live d k <> None /\ (sys = true \/ starts_with k "$$" = false)) /\
         (In k (list_keys d "" sys) <-> live d k <> None /\ (sys = true \/ starts_with k "$$" = false)).
Proof. exact list_keys_all_spec. Qed.
Print Assumptions C01_list_keys_all_spec.

(* non-vacuity: ab, aba, bab under ab*, *ab, ab *)
Theorem C01_pattern_examples :
  filter (fun k : str => pattern_match k "ab*") ["ab"; "aba"; "bab"] = ["ab"; "aba"] /\
         filter (fun k : str => pattern_match k "*ab") ["ab"; "aba"; "bab"] = ["ab"; "bab"] /\
         filter (fun k : str => pattern_match k "ab") ["ab"; "aba"; "bab"] = ["ab"; "aba"; "bab"] /\
         list_keys pp_db "ab*" false = ["ab"; "aba"] /\
         list_keys pp_db "*ab" false = ["ab"; "bab"] /\
         list_keys pp_db "ab" false = ["ab"; "aba"; "bab"] /\
         list_keys pp_db "*" false = ["ab"; "aba"; "bab"] /\
         list_keys pp_db "" true = ["$$token"; "ab"; "aba"; "bab"] /\ list_keys pp_db "gone" true = [].
Proof. exact pattern_examples. Qed.
Print Assumptions C01_pattern_examples.
