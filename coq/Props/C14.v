(* Property C14 -- every operation causes a bounded message burst, then silence *)
(* Statements only: each theorem restates the proved lemma's statement and is closed by [exact]. *)
From NunDB Require Import Model.Base Model.Pending Model.Parse Model.Node Model.Oplog Model.Cluster Proofs.PendingProofs Proofs.DbProofs Proofs.ClusterProofs Proofs.SyncProofs.
Local Open Scope Z_scope.

(* the replication thread of a secondary queues nothing for any member and registers nothing *)
Theorem C14_secondary_never_fans_out :
  forall (x : cnode) (msg : str),
         n_role (cn_node x) = Secondary ->
         let x' := repl_one x msg in
         n_members (cn_node x') = n_members (cn_node x) /\ n_pending (cn_node x') = n_pending (cn_node x).
Proof. exact secondary_never_fans_out. Qed.
Print Assumptions C14_secondary_never_fans_out.

Theorem C14_secondary_repl_one_node :
  forall (x : cnode) (msg : str), n_role (cn_node x) = Secondary -> cn_node (repl_one x msg) = cn_node x.
Proof. exact secondary_repl_one_node. Qed.
Print Assumptions C14_secondary_repl_one_node.

Theorem C14_secondary_poll_never_fans_out :
  forall x : cnode,
         n_role (cn_node x) = Secondary ->
         let x' := poll_repl x in
         n_members (cn_node x') = n_members (cn_node x) /\
         n_pending (cn_node x') = n_pending (cn_node x) /\
         n_dbs (cn_node x') = n_dbs (cn_node x) /\ n_repl (cn_node x') = [].
Proof. exact secondary_poll_never_fans_out. Qed.
Print Assumptions C14_secondary_poll_never_fans_out.

(* a primary puts exactly one line on the link of every secondary member (never itself) per replicated request *)
Theorem C14_fan_out_spec :
  forall (n : node) (id : N) (req : str) (all : bool),
         NoDup (map fst (n_members n)) ->
         let n' := fan_out n id req all in
         let line := message_to_replicate id (reg_text (n_pending n) id req) in
         (forall name : string,
          match assoc_get String.eqb name (n_members n) with
          | Some (r, q) =>
              assoc_get String.eqb name (n_members n') =
              Some
                (r,
                 if negb (name =? n_addr n)%string && (all || role_eqb r Secondary)
                 then if is_nosender q then q else q ++ [line]
                 else q)
          | None => assoc_get String.eqb name (n_members n') = None
          end) /\
         map fst (n_members n') = map fst (n_members n) /\
         n_pending n' =
         fold_left (fun (p : pstate) (m : str) => fst (register p id req m)) (targets n all) (n_pending n) /\
         (forall name : str,
          In name (targets n all) <->
          (exists (r : role) (q : list str),
             assoc_get String.eqb name (n_members n) = Some (r, q) /\
             name <> n_addr n /\ (all = true \/ r = Secondary))) /\
         n_dbs n' = n_dbs n /\
         n_sess n' = n_sess n /\
         n_role n' = n_role n /\
         n_clock n' = n_clock n /\
         n_addr n' = n_addr n /\
         n_repl n' = n_repl n /\ n_sup n' = n_sup n /\ n_snap n' = n_snap n /\ n_idmap n' = n_idmap n.
Proof. exact fan_out_spec. Qed.
Print Assumptions C14_fan_out_spec.

Theorem C14_fan_out_exact :
  forall (n : node) (id : N) (req : str) (all : bool),
         NoDup (map fst (n_members n)) ->
         fan_out n id req all =
         n_set_members (n_set_pending n (reg_all (n_pending n) id req (targets n all)))
           (map (push_line (n_addr n) all (message_to_replicate id (reg_text (n_pending n) id req)))
              (n_members n)).
Proof. exact fan_out_exact. Qed.
Print Assumptions C14_fan_out_exact.

Theorem C14_leader_repl_one :
  forall (x : cnode) (id : N) (req : string) (rq : request),
         cn_dead x = false ->
         n_role (cn_node x) <> Secondary ->
         (id < 2 ^ 64)%N ->
         req <> "" ->
         no_semi_end req ->
         parse_request req = POk rq ->
         snd (repl_oplog x rq id) <> None ->
         cn_node (repl_one x ("rp " +++ N_to_str id +++ " " +++ req)) =
         fan_out (cn_node x) id req (fan_all (n_role (cn_node x))) /\
         cn_dead (repl_one x ("rp " +++ N_to_str id +++ " " +++ req)) = false.
Proof. exact leader_repl_one. Qed.
Print Assumptions C14_leader_repl_one.
