(* Property C14 -- every operation causes a bounded message burst, then silence *)
(* Statements only: each theorem restates the proved lemma's statement and is closed by [exact]. *)
From NunDB Require Import Model.Base Model.Pending Model.Parse Model.Node Model.Oplog Model.Cluster Proofs.PendingProofs Proofs.DbProofs Proofs.ClusterProofs Proofs.SyncProofs Proofs.ConvergeProofs Proofs.BurstProofs.
Local Open Scope Z_scope.

(* the replication thread of a secondary queues nothing for any member and registers nothing *)
Theorem C14_secondary_never_fans_out :
  forall (x : cnode) (msg : str),
         n_role (cn_node x) = Secondary ->
         let x' := repl_one x msg in
         n_members (cn_node x') = n_members (cn_node x) /\ n_pending (cn_node x') = n_pending (cn_node x).
Proof. exact secondary_never_fans_out. Qed.
Print Assumptions C14_secondary_never_fans_out.

Theorem C14_secondary_repl_one_node :
  forall (x : cnode) (msg : str), n_role (cn_node x) = Secondary -> cn_node (repl_one x msg) = cn_node x.
Proof. exact secondary_repl_one_node. Qed.
Print Assumptions C14_secondary_repl_one_node.

Theorem C14_secondary_poll_never_fans_out :
  forall x : cnode,
         n_role (cn_node x) = Secondary ->
         let x' := poll_repl x in
         n_members (cn_node x') = n_members (cn_node x) /\
         n_pending (cn_node x') = n_pending (cn_node x) /\
         n_dbs (cn_node x') = n_dbs (cn_node x) /\ n_repl (cn_node x') = [].
Proof. exact secondary_poll_never_fans_out. Qed.
Print Assumptions C14_secondary_poll_never_fans_out.

(* a primary puts exactly one line on the link of every secondary member (never itself) per replicated request *)
Theorem C14_fan_out_spec :
  forall (n : node) (id : N) (req : str) (all : bool),
         NoDup (map fst (n_members n)) ->
         let n' := fan_out n id req all in
         let line := message_to_replicate id (reg_text (n_pending n) id req) in
         (forall name : string,
          match assoc_get String.eqb name (n_members n) with
          | Some (r, q) =>
              assoc_get String.eqb name (n_members n') =
              Some
                (r,
                 if negb (name =? n_addr n)%string && (all || role_eqb r Secondary)
                 then if is_nosender q then q else q ++ [line]
                 else q)
          | None => assoc_get String.eqb name (n_members n') = None
          end) /\
         map fst (n_members n') = map fst (n_members n) /\
         n_pending n' =
         fold_left (fun (p : pstate) (m : str) => fst (register p id req m)) (targets n all) (n_pending n) /\
         (forall name : str,
          In name (targets n all) <->
          (exists (r : role) (q : list str),
             assoc_get String.eqb name (n_members n) = Some (r, q) /\
             name <> n_addr n /\ (all = true \/ r = Secondary))) /\
         n_dbs n' = n_dbs n /\
         n_sess n' = n_sess n /\
         n_role n' = n_role n /\
         n_clock n' = n_clock n /\
         n_addr n' = n_addr n /\
         n_repl n' = n_repl n /\ n_sup n' = n_sup n /\ n_snap n' = n_snap n /\ n_idmap n' = n_idmap n.
Proof. exact fan_out_spec. Qed.
Print Assumptions C14_fan_out_spec.

Theorem C14_fan_out_exact :
  forall (n : node) (id : N) (req : str) (all : bool),
         NoDup (map fst (n_members n)) ->
         fan_out n id req all =
         n_set_members (n_set_pending n (reg_all (n_pending n) id req (targets n all)))
           (map (push_line (n_addr n) all (message_to_replicate id (reg_text (n_pending n) id req)))
              (n_members n)).
Proof. exact fan_out_exact. Qed.
Print Assumptions C14_fan_out_exact.

Theorem C14_leader_repl_one :
  forall (x : cnode) (id : N) (req : string) (rq : request),
         cn_dead x = false ->
         n_role (cn_node x) <> Secondary ->
         (id < 2 ^ 64)%N ->
         req <> "" ->
         no_semi_end req ->
         parse_request req = POk rq ->
         snd (repl_oplog x rq id) <> None ->
         cn_node (repl_one x ("rp " +++ N_to_str id +++ " " +++ req)) =
         fan_out (cn_node x) id req (fan_all (n_role (cn_node x))) /\
         cn_dead (repl_one x ("rp " +++ N_to_str id +++ " " +++ req)) = false.
Proof. exact leader_repl_one. Qed.
Print Assumptions C14_leader_repl_one.

(* cluster level: one accepted write on the primary = exactly one line per secondary (the burst is bounded by the fan-out) *)
Theorem C14_primary_write_queues :
  forall (P dbn : str) (Ss : list str) (cidx : nat) (lk : str -> nat) (c : cluster) (w : cop) (B : N),
         simple_tok dbn ->
         (forall S : str, In S Ss -> simple_tok S) ->
         Formed P dbn Ss cidx lk c ->
         cop_ok w ->
         cl_bound c B ->
         (B + 2 <= 2 ^ 64)%N ->
         resp_ok (snd (client_cmd c P cidx (cop_line w))) = true ->
         let c2 := poll_repl_c (fst (client_cmd c P cidx (cop_line w))) P in
         exists (dp : db) (opp id : N),
           db_of dbn c P = Some dp /\
           resp_ok (dop_resp dp (cop_dop w opp)) = true /\
           db_of dbn c2 P = Some (db_apply dp (cop_dop w opp)) /\
           (forall (S : str) (l : link),
            In S Ss ->
            nth_error (c_links c) (lk S) = Some l ->
            exists l2 : link,
              nth_error (c_links c2) (lk S) = Some l2 /\
              l_q l2 = l_q l ++ [rp_line id (op_req dbn (cop_dop w opp))]).
Proof. exact primary_write_queues. Qed.
Print Assumptions C14_primary_write_queues.

(* a secondary answers a replicated line with one ack and 'ok' and sends nothing else: then silence *)
Theorem C14_replicated_line_applies :
  forall (n : node) (sv : nat) (dbn : str) (d : db) (id : N) (o : dop),
         simple_tok dbn ->
         simple_tok (n_addr n) ->
         op_wf o ->
         (id < 2 ^ 64)%N ->
         s_auth (get_sess n sv) = true ->
         s_db (get_sess n sv) = None ->
         s_inbox (get_sess n sv) = [] ->
         get_db n dbn = Some d ->
         d_strat d = SNone ->
         no_watch d sv ->
         let
         '(n1, r) := step n sv (rp_line id (op_req dbn o)) in
          let status := match r with
                        | RError msg => "error " +++ msg +++ " " +++ nlS
                        | _ => "ok " +++ nlS
                        end in
          let
          '(n3, inbox) := drain (send n1 sv status) sv in
           exists o' : dop,
             same_op o o' /\
             get_db n3 dbn = Some (db_apply d o') /\
             n_members n3 = n_members n /\
             n_pending n3 = n_pending n /\
             n_role n3 = n_role n /\ split_lines inbox = [ack_text id (n_addr n); "ok"].
Proof. exact replicated_line_applies. Qed.
Print Assumptions C14_replicated_line_applies.

(* one accepted client write on the primary, then any schedule of polls, deliveries and replies: at silence exactly 2 messages per secondary have crossed (the line and its ack) *)
Theorem C14_burst_exact_cluster :
  forall (P dbn : str) (Ss : list str) (cidx : nat) (lk : str -> nat) (c : cluster) 
           (w : cop) (B : N) (evs : list cev),
         simple_tok dbn ->
         (forall S : str, In S Ss -> simple_tok S) ->
         NoDup Ss ->
         Formed P dbn Ss cidx lk c ->
         cop_ok w ->
         cl_bound c B ->
         (B + 2 <= 2 ^ 64)%N ->
         resp_ok (snd (client_cmd c P cidx (cop_line w))) = true ->
         Forall (bev_ok Ss) evs ->
         let final := run P cidx lk (fst (client_cmd c P cidx (cop_line w))) evs in
         silent P Ss lk final -> c_cross final = (c_cross c + 2 * N.of_nat (Datatypes.length Ss))%N.
Proof. exact C14_burst_exact. Qed.
Print Assumptions C14_burst_exact_cluster.

(* crossed + 2*(lines in flight) + (acks waiting) is constant along every schedule *)
Theorem C14_burst_potential_invariant :
  forall (P dbn : str) (Ss : list str) (cidx : nat) (lk : str -> nat) (c : cluster) 
           (w : cop) (B : N) (evs : list cev),
         simple_tok dbn ->
         (forall S : str, In S Ss -> simple_tok S) ->
         NoDup Ss ->
         Formed P dbn Ss cidx lk c ->
         cop_ok w ->
         cl_bound c B ->
         (B + 2 <= 2 ^ 64)%N ->
         resp_ok (snd (client_cmd c P cidx (cop_line w))) = true ->
         Forall (bev_ok Ss) evs ->
         Phi P Ss lk (run P cidx lk (fst (client_cmd c P cidx (cop_line w))) evs) =
         (c_cross c + 2 * N.of_nat (Datatypes.length Ss))%N.
Proof. exact C14_potential_invariant. Qed.
Print Assumptions C14_burst_potential_invariant.

(* the bound holds at every moment, not only at silence *)
Theorem C14_burst_bounded_anytime_cluster :
  forall (P dbn : str) (Ss : list str) (cidx : nat) (lk : str -> nat) (c : cluster) 
           (w : cop) (B : N) (evs : list cev),
         simple_tok dbn ->
         (forall S : str, In S Ss -> simple_tok S) ->
         NoDup Ss ->
         Formed P dbn Ss cidx lk c ->
         cop_ok w ->
         cl_bound c B ->
         (B + 2 <= 2 ^ 64)%N ->
         resp_ok (snd (client_cmd c P cidx (cop_line w))) = true ->
         Forall (bev_ok Ss) evs ->
         (c_cross (run P cidx lk (fst (client_cmd c P cidx (cop_line w))) evs) <=
          c_cross c + 2 * N.of_nat (Datatypes.length Ss))%N.
Proof. exact C14_burst_bounded_anytime. Qed.
Print Assumptions C14_burst_bounded_anytime_cluster.

Theorem C14_burst_bounded_cluster :
  forall (P dbn : str) (Ss : list str) (cidx : nat) (lk : str -> nat) (c : cluster) 
           (w : cop) (B : N) (evs : list cev),
         simple_tok dbn ->
         (forall S : str, In S Ss -> simple_tok S) ->
         NoDup Ss ->
         Formed P dbn Ss cidx lk c ->
         cop_ok w ->
         cl_bound c B ->
         (B + 2 <= 2 ^ 64)%N ->
         resp_ok (snd (client_cmd c P cidx (cop_line w))) = true ->
         Forall (bev_ok Ss) evs ->
         let final := run P cidx lk (fst (client_cmd c P cidx (cop_line w))) evs in
         silent P Ss lk final -> (c_cross final - c_cross c <= 1 + 2 * N.of_nat (Datatypes.length Ss))%N.
Proof. exact C14_burst_bounded. Qed.
Print Assumptions C14_burst_bounded_cluster.

(* after the burst nothing is deliverable and no further event moves a message *)
Theorem C14_then_silence_cluster :
  forall (P dbn : str) (Ss : list str) (cidx : nat) (lk : str -> nat) (c : cluster) 
           (w : cop) (B : N) (evs : list cev),
         simple_tok dbn ->
         (forall S : str, In S Ss -> simple_tok S) ->
         NoDup Ss ->
         Formed P dbn Ss cidx lk c ->
         cop_ok w ->
         cl_bound c B ->
         (B + 2 <= 2 ^ 64)%N ->
         resp_ok (snd (client_cmd c P cidx (cop_line w))) = true ->
         Forall (bev_ok Ss) evs ->
         let final := run P cidx lk (fst (client_cmd c P cidx (cop_line w))) evs in
         silent P Ss lk final ->
         (forall S : str, In S Ss -> deliver final (lk S) = None /\ reply final (lk S) = None) /\
         (forall e : cev, bev_ok Ss e -> c_cross (cstep P cidx lk final e) = c_cross final) /\
         (forall evs' : list cev,
          Forall (bev_ok Ss) evs' ->
          silent P Ss lk (run P cidx lk final evs') /\ c_cross (run P cidx lk final evs') = c_cross final).
Proof. exact C14_then_silence. Qed.
Print Assumptions C14_then_silence_cluster.

(* the pending-operation table is back to what it was *)
Theorem C14_pending_cleared_cluster :
  forall (P dbn : str) (Ss : list str) (cidx : nat) (lk : str -> nat) (c : cluster) 
           (w : cop) (B : N) (evs : list cev),
         simple_tok dbn ->
         (forall S : str, In S Ss -> simple_tok S) ->
         NoDup Ss ->
         Formed P dbn Ss cidx lk c ->
         cop_ok w ->
         cl_bound c B ->
         (B + 2 <= 2 ^ 64)%N ->
         resp_ok (snd (client_cmd c P cidx (cop_line w))) = true ->
         Forall (bev_ok Ss) evs ->
         Closed P Ss lk c ->
         let final := run P cidx lk (fst (client_cmd c P cidx (cop_line w))) evs in
         silent P Ss lk final -> pending_of P final = pending_of P c.
Proof. exact C14_pending_cleared. Qed.
Print Assumptions C14_pending_cleared_cluster.

(* a refused write sends nothing at all *)
Theorem C14_refused_write_sends_nothing_cluster :
  forall (P dbn : str) (Ss : list str) (cidx : nat) (lk : str -> nat) (c : cluster) 
           (w : cop) (evs : list cev),
         simple_tok dbn ->
         (forall S : str, In S Ss -> simple_tok S) ->
         Formed P dbn Ss cidx lk c ->
         cop_ok w ->
         resp_ok (snd (client_cmd c P cidx (cop_line w))) = false ->
         Forall (bev_ok Ss) evs ->
         let final := run P cidx lk (fst (client_cmd c P cidx (cop_line w))) evs in
         c_cross final = c_cross c /\
         silent P Ss lk final /\
         (forall (S : str) (l : link), In S Ss -> link_of lk final S = Some l -> l_q l = [] /\ l_replies l = []).
Proof. exact C14_refused_write_sends_nothing. Qed.
Print Assumptions C14_refused_write_sends_nothing_cluster.

(* the hypothesis 'no secondary listed twice' cannot be dropped *)
Theorem C14_burst_needs_nodup :
  let Ss := ["s1"; "s1"] in
         let sched := [EvPollRepl; EvDeliver "s1"; EvReply "s1"; EvReply "s1"; EvPollS "s1"] in
         let final := run "p1" 0 ex_lk (fst (client_cmd ex_c "p1" 0 (cop_line bx_w))) sched in
         Formed "p1" "d" Ss 0 ex_lk ex_c /\
         Forall (bev_ok Ss) sched /\
         silent "p1" Ss ex_lk final /\
         c_cross final = (c_cross ex_c + 2)%N /\
         c_cross final <> (c_cross ex_c + 2 * N.of_nat (Datatypes.length Ss))%N.
Proof. exact burst_needs_nodup. Qed.
Print Assumptions C14_burst_needs_nodup.

(* the hypothesis Closed cannot be dropped *)
Theorem C14_pending_needs_closed :
  let Ss := ["s1"] in
         let sched := [EvPollRepl; EvDeliver "s1"; EvReply "s1"; EvReply "s1"; EvPollS "s1"] in
         let final := run "p1" 0 ex_lk (fst (client_cmd ex_c "p1" 0 (cop_line bx_w))) sched in
         Formed "p1" "d" Ss 0 ex_lk ex_c /\
         Forall (bev_ok Ss) sched /\
         silent "p1" Ss ex_lk final /\
         c_cross final = (c_cross ex_c + 2 * N.of_nat (Datatypes.length Ss))%N /\
         pending_of "p1" ex_c = [] /\
         is_pending (pending_of "p1" final) 25 = true /\ ~ Closed "p1" Ss ex_lk ex_c.
Proof. exact pending_needs_closed. Qed.
Print Assumptions C14_pending_needs_closed.

(* the hypotheses are satisfiable: a concrete 3-node cluster *)
Theorem C14_burst_example_exact :
  c_cross (run "p1" 0 ex_lk (fst (client_cmd ex_c "p1" 0 (cop_line bx_w))) bx_sched) =
         (c_cross ex_c + 2 * N.of_nat (Datatypes.length ["s1"; "s2"]))%N.
Proof. exact burst_example_exact. Qed.
Print Assumptions C14_burst_example_exact.
