(* Property C11 -- a crash during a snapshot never damages previously persisted data (false of the faithful model at the recorded sites; the characterisation of the crash states and the witnesses are proved) *)
(* Statements only: each theorem restates the proved lemma's statement and is closed by [exact]. *)
From NunDB Require Import Model.Base Model.Parse Model.Node Model.Disk Proofs.CrashProofs.
Local Open Scope list_scope.

(* a kill leaves a prefix of the snapshot's file operations applied *)
Theorem C11_crash_state_is_plan_prefix :
  forall (s : sysc) (ops : list fop) (i : nat),
         exists rest : list fop, ops = take_before s i ops ++ rest.
Proof. exact take_before_prefix. Qed.
Print Assumptions C11_crash_state_is_plan_prefix.

(* a process making fewer than i calls of the injected kind completes its plan *)
Theorem C11_no_kill_means_complete :
  forall (s : sysc) (ops : list fop) (i : nat), count_sc s ops < i -> take_before s i ops = ops.
Proof. exact take_before_complete. Qed.
Print Assumptions C11_no_kill_means_complete.

(* the kill lands exactly in front of the i-th call of the kind: i-1 calls of that kind completed *)
Theorem C11_kill_stops_before_ith_call :
  forall (s : sysc) (ops : list fop) (i : nat),
         1 <= i ->
         i <= count_sc s ops ->
         exists (o : fop) (rest : list fop),
           ops = take_before s i ops ++ o :: rest /\
           is_sc s o = true /\ count_sc s (take_before s i ops) = i - 1.
Proof. exact take_before_stops. Qed.
Print Assumptions C11_kill_stops_before_ith_call.

(* files of the database being snapshotted after the kill = plan prefix applied to its files before; other databases untouched *)
Theorem C11_crash_files_one_db :
  forall (x : dnode) (dbn : str) (reclaim : bool) (d : db) (order : list str) (s : sysc) (i : nat),
         get_db (dn_node x) dbn = Some d ->
         let ops := fst (fst (snapshot_plan d order reclaim (files_of x dbn) (n_clock (dn_node x)))) in
         i <= count_sc s ops ->
         dflush_crash_go x [(dbn, reclaim)] [order] s i =
         assoc_set String.eqb dbn (apply_fops (files_of x dbn) (take_before s i ops)) (dn_files x).
Proof. exact crash_one_db. Qed.
Print Assumptions C11_crash_files_one_db.

(* non-vacuity: the witness state's completed snapshot loads a=1@0, b=2@0 *)
Theorem C11_before_image_loads :
  w_get (drestart w_before ["d1"]) "a" = Some (Some ("1", 0%Z)) /\
         w_get (drestart w_before ["d1"]) "b" = Some (Some ("2", 0%Z)).
Proof. exact w_before_loads. Qed.
Print Assumptions C11_before_image_loads.

Theorem C11_after_image_loads :
  w_get (w_crash w_incr ["a"; "$connections"] ScPwrite 99) "a" = Some (Some ("22", 1%Z)).
Proof. exact w_complete_loads. Qed.
Print Assumptions C11_after_image_loads.

Theorem C11_first_site_harmless :
  w_get (w_crash w_incr ["a"; "$connections"] ScPwrite 1) "a" = Some (Some ("1", 0%Z)) /\
         w_get (w_crash w_recl ["a"; "b"; "$connections"; "$$token"] ScRename 1) "b" = Some (Some ("2", 0%Z)).
Proof. exact C11_first_site_harmless. Qed.
Print Assumptions C11_first_site_harmless.

(* REFUTED (known finding): new version on the old value -- a pair never stored *)
Theorem C11_torn_inplace_update_refuted :
  w_get (w_crash w_incr ["a"; "$connections"] ScPwrite 2) "a" = Some (Some ("1", 1%Z)).
Proof. exact C11_torn_inplace_update_refuted. Qed.
Print Assumptions C11_torn_inplace_update_refuted.

(* REFUTED (known finding): key entry ahead of its buffered value -- fabricated value *)
Theorem C11_value_not_yet_written_refuted :
  exists v : str,
           w_get (w_crash w_incr ["a"; "$connections"] ScPwrite 3) "a" = Some (Some (v, 1%Z)) /\
           v <> "1" /\ v <> "22".
Proof. exact C11_value_not_yet_written_refuted. Qed.
Print Assumptions C11_value_not_yet_written_refuted.

(* REFUTED (known finding): reclaiming snapshot loses untouched persisted keys *)
Theorem C11_reclaim_window_refuted :
  w_get (w_crash w_recl ["a"; "b"; "$connections"; "$$token"] ScWrite 2) "b" = Some None /\
         w_get (w_crash w_recl ["a"; "b"; "$connections"; "$$token"] ScRename 2) "b" = Some None.
Proof. exact C11_reclaim_window_refuted. Qed.
Print Assumptions C11_reclaim_window_refuted.

(* REFUTED (known finding): next start panics *)
Theorem C11_start_panics_refuted :
  w_crash w_recl ["a"; "b"; "$connections"; "$$token"] ScUnlink 1 = RStartPanic.
Proof. exact C11_start_panics_refuted. Qed.
Print Assumptions C11_start_panics_refuted.
