(* Property C11 -- a crash during a snapshot never damages previously persisted data (false of the faithful model at the recorded sites; the characterisation of the crash states and the witnesses are proved) *)
(* Statements only: each theorem restates the proved lemma's statement and is closed by [exact]. *)
From NunDB Require Import Model.Base Model.Parse Model.Node Model.Disk Proofs.DiskProofs Proofs.CrashProofs Proofs.CrashFrame.
Local Open Scope list_scope.

(* a kill leaves a prefix of the snapshot's file operations applied *)
Theorem C11_crash_state_is_plan_prefix :
  forall (s : sysc) (ops : list fop) (i : nat),
         exists rest : list fop, ops = take_before s i ops ++ rest.
Proof. exact take_before_prefix. Qed.
Print Assumptions C11_crash_state_is_plan_prefix.

(* a process making fewer than i calls of the injected kind completes its plan *)
Theorem C11_no_kill_means_complete :
  forall (s : sysc) (ops : list fop) (i : nat), count_sc s ops < i -> take_before s i ops = ops.
Proof. exact take_before_complete. Qed.
Print Assumptions C11_no_kill_means_complete.

(* the kill lands exactly in front of the i-th call of the kind: i-1 calls of that kind completed *)
Theorem C11_kill_stops_before_ith_call :
  forall (s : sysc) (ops : list fop) (i : nat),
         1 <= i ->
         i <= count_sc s ops ->
         exists (o : fop) (rest : list fop),
           ops = take_before s i ops ++ o :: rest /\
           is_sc s o = true /\ count_sc s (take_before s i ops) = i - 1.
Proof. exact take_before_stops. Qed.
Print Assumptions C11_kill_stops_before_ith_call.

(* files of the database being snapshotted after the kill = plan prefix applied to its files before; other databases untouched *)
Theorem C11_crash_files_one_db :
  forall (x : dnode) (dbn : str) (reclaim : bool) (d : db) (order : list str) (s : sysc) (i : nat),
         get_db (dn_node x) dbn = Some d ->
         let ops := fst (fst (snapshot_plan d order reclaim (files_of x dbn) (n_clock (dn_node x)))) in
         i <= count_sc s ops ->
         dflush_crash_go x [(dbn, reclaim)] [order] s i =
         assoc_set String.eqb dbn (apply_fops (files_of x dbn) (take_before s i ops)) (dn_files x).
Proof. exact crash_one_db. Qed.
Print Assumptions C11_crash_files_one_db.

(* non-vacuity: the witness state's completed snapshot loads a=1@0, b=2@0 *)
Theorem C11_before_image_loads :
  w_get (drestart w_before ["d1"]) "a" = Some (Some ("1", 0%Z)) /\
         w_get (drestart w_before ["d1"]) "b" = Some (Some ("2", 0%Z)).
Proof. exact w_before_loads. Qed.
Print Assumptions C11_before_image_loads.

Theorem C11_after_image_loads :
  w_get (w_crash w_incr ["a"; "$connections"] ScPwrite 99) "a" = Some (Some ("22", 1%Z)).
Proof. exact w_complete_loads. Qed.
Print Assumptions C11_after_image_loads.

Theorem C11_first_site_harmless :
  w_get (w_crash w_incr ["a"; "$connections"] ScPwrite 1) "a" = Some (Some ("1", 0%Z)) /\
         w_get (w_crash w_recl ["a"; "b"; "$connections"; "$$token"] ScRename 1) "b" = Some (Some ("2", 0%Z)).
Proof. exact C11_first_site_harmless. Qed.
Print Assumptions C11_first_site_harmless.

(* REFUTED (known finding): new version on the old value -- a pair never stored *)
Theorem C11_torn_inplace_update_refuted :
  w_get (w_crash w_incr ["a"; "$connections"] ScPwrite 2) "a" = Some (Some ("1", 1%Z)).
Proof. exact C11_torn_inplace_update_refuted. Qed.
Print Assumptions C11_torn_inplace_update_refuted.

(* REFUTED (known finding): key entry ahead of its buffered value -- fabricated value *)
Theorem C11_value_not_yet_written_refuted :
  exists v : str,
           w_get (w_crash w_incr ["a"; "$connections"] ScPwrite 3) "a" = Some (Some (v, 1%Z)) /\
           v <> "1" /\ v <> "22".
Proof. exact C11_value_not_yet_written_refuted. Qed.
Print Assumptions C11_value_not_yet_written_refuted.

(* REFUTED (known finding): reclaiming snapshot loses untouched persisted keys *)
Theorem C11_reclaim_window_refuted :
  w_get (w_crash w_recl ["a"; "b"; "$connections"; "$$token"] ScWrite 2) "b" = Some None /\
         w_get (w_crash w_recl ["a"; "b"; "$connections"; "$$token"] ScRename 2) "b" = Some None.
Proof. exact C11_reclaim_window_refuted. Qed.
Print Assumptions C11_reclaim_window_refuted.

(* REFUTED (known finding): next start panics *)
Theorem C11_start_panics_refuted :
  w_crash w_recl ["a"; "b"; "$connections"; "$$token"] ScUnlink 1 = RStartPanic.
Proof. exact C11_start_panics_refuted. Qed.
Print Assumptions C11_start_panics_refuted.

(* UNBOUNDED, FRAME THEOREM: at EVERY crash point of an incremental snapshot (any prefix of its file operations) the next start does not panic and every key the snapshot does not touch loads with its persisted value, version and addresses (key names that are runs of NUL bytes excluded, see the next theorem) *)
Theorem C11_incr_untouched_keys_survive_total :
  forall (d : db) (order : list str) (fs : files) (clock : N) (p : list fop) 
           (clk : N) (k : string) (mv : value),
         DiskInv (d_map d) fs ->
         lprefix p (incr_plan d order fs clock) ->
         (fsize (apply_fops fs (incr_plan d order fs clock)) FVals < two64)%N ->
         fget fs FKeys <> None ->
         assoc_get String.eqb k (d_map d) = Some mv ->
         v_st mv = VOk ->
         not_nul_run k ->
         exists (m : list (str * value)) (clk' : N) (mv' : value),
           load_db (apply_fops fs p) clk = Some (LOk m clk') /\
           assoc_get String.eqb k m = Some mv' /\ same_entry mv mv'.
Proof. exact C11_incr_untouched_keys_survive_total. Qed.
Print Assumptions C11_incr_untouched_keys_survive_total.

Theorem C11_incr_untouched_keys_survive :
  forall (d : db) (order : list str) (fs : files) (clock : N) (p : list fop) 
           (clk : N) (m : list (str * value)) (clk' : N) (k : string) (mv : value),
         DiskInv (d_map d) fs ->
         lprefix p (incr_plan d order fs clock) ->
         load_db (apply_fops fs p) clk = Some (LOk m clk') ->
         assoc_get String.eqb k (d_map d) = Some mv ->
         v_st mv = VOk ->
         not_nul_run k -> exists mv' : value, assoc_get String.eqb k m = Some mv' /\ same_entry mv mv'.
Proof. exact C11_incr_untouched_keys_survive. Qed.
Print Assumptions C11_incr_untouched_keys_survive.

(* the same for the harness's crash points (kill on entering the i-th call of a kind) *)
Theorem C11_incr_untouched_keys_survive_kill :
  forall (d : db) (order : list str) (fs : files) (clock : N) (s : sysc) (i : nat) 
           (clk : N) (m : list (str * value)) (clk' : N) (k : string) (mv : value),
         DiskInv (d_map d) fs ->
         load_db (apply_fops fs (take_before s i (incr_plan d order fs clock))) clk = Some (LOk m clk') ->
         assoc_get String.eqb k (d_map d) = Some mv ->
         v_st mv = VOk ->
         not_nul_run k -> exists mv' : value, assoc_get String.eqb k m = Some mv' /\ same_entry mv mv'.
Proof. exact C11_incr_untouched_keys_survive_kill. Qed.
Print Assumptions C11_incr_untouched_keys_survive_kill.

(* no crash point of an incremental snapshot makes the next start panic (values file exists, sizes below 2^64) *)
Theorem C11_incr_no_panic :
  forall (d : db) (order : list str) (fs : files) (clock : N) (p : list fop) (clk : N),
         DiskInv (d_map d) fs ->
         lprefix p (incr_plan d order fs clock) ->
         (fsize (apply_fops fs (incr_plan d order fs clock)) FVals < two64)%N ->
         (fget (apply_fops fs p) FKeys <> None -> fget (apply_fops fs p) FVals <> None) ->
         load_db (apply_fops fs p) clk <> Some LPanic.
Proof. exact C11_incr_no_panic. Qed.
Print Assumptions C11_incr_no_panic.

(* every crash state: values file append-only; keys file changed only inside the 12-byte fields of touched keys and by appended bytes *)
Theorem C11_incr_prefix_files :
  forall (d : db) (order : list str) (fs : files) (clock : N) (p : list fop),
         DiskInv (d_map d) fs ->
         lprefix p (incr_plan d order fs clock) ->
         exists (recs recs' : list arec) (A B : string) (VS : list str),
           fcontent fs FKeys = kcat recs /\
           fcontent (apply_fops fs p) FVals = fcontent fs FVals +++ B /\
           fcontent (apply_fops fs p) FKeys = kcat recs' +++ A /\
           Forall2 (frame1 (d_map d) (fcontent fs FVals) VS) recs recs'.
Proof. exact incr_prefix_files. Qed.
Print Assumptions C11_incr_prefix_files.

Theorem C11_incr_plan_shape :
  forall (d : db) (order : list str) (fs : files) (clock : N),
         DiskInv (d_map d) fs ->
         exists (recs : list arec) (body : list fop),
           fcontent fs FKeys = kcat recs /\
           incr_plan d order fs clock = plan_open4 d ++ body ++ close_tail fs /\
           Forall (incr_body_op (d_map d) recs) body.
Proof. exact incr_plan_shape. Qed.
Print Assumptions C11_incr_plan_shape.

(* non-vacuity: a database with an updated, an untouched and a new 300-byte key; all 11 cuts load and keep the untouched key *)
Theorem C11_frame_demo :
  forall (i : nat) (m : list (str * value)) (c : N),
         load_db (apply_fops demo_fs (firstn i demo_plan)) 7 = Some (LOk m c) ->
         exists mv' : value, assoc_get String.eqb "b" m = Some mv' /\ v_val mv' = "2" /\ v_ver mv' = 0%Z.
Proof. exact C11_frame_demo. Qed.
Print Assumptions C11_frame_demo.

(* REFUTED corner: an untouched key made only of NUL bytes can be overwritten by a torn record of the same length (the loader's zeroed buffer); outside the quantifier's key alphabet, recorded as an observation *)
Theorem C11_nul_key_overwritten_refuted :
  DiskInv (ds_mem nul_state) (ds_files nul_state) /\
         option_map (fun v : value => (v_val v, v_st v)) (assoc_get String.eqb nul_key (ds_mem nul_state)) =
         Some ("1", VOk) /\
         (exists (m : list (str * value)) (c : N),
            load_db (apply_fops (ds_files nul_state) (firstn 5 nul_plan)) 7 = Some (LOk m c) /\
            option_map v_val (assoc_get String.eqb nul_key m) = Some "2").
Proof. exact C11_nul_key_overwritten. Qed.
Print Assumptions C11_nul_key_overwritten_refuted.

(* a brand-new database between the creation of its keys and values files would panic at start, but no crash point of the harness (kill on entering a write/rename/unlink) lands there *)
Theorem C11_fresh_db_create_window :
  let d :=
           db_of [("a", {| v_val := "1"; v_ver := 0; v_opp := 0; v_st := VNew; v_vaddr := 0; v_kaddr := 0 |})]
           in
         DiskInv (d_map d) [] /\
         load_db (apply_fops [] (firstn 3 (incr_plan d ["a"] [] 5))) 9 = Some LPanic /\
         (forall (s : sysc) (i : nat),
          load_db (apply_fops [] (take_before s i (incr_plan d ["a"] [] 5))) 9 <> Some LPanic).
Proof. exact C11_fresh_db_create_window_panics. Qed.
Print Assumptions C11_fresh_db_create_window.
