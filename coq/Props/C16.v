(* Property C16 -- after any restart the oplog is either discarded or still decodes correctly (key ids: proved for every history and crash point; database ids of databases lost at a restart: refuted, known findings) *)
(* Statements only: each theorem restates the proved lemma's statement and is closed by [exact]. *)
From NunDB Require Import Model.Base Model.Pending Model.Oplog Model.Parse Model.Node Model.Disk Model.Cluster Model.Meta Proofs.MetaProofs.
Local Open Scope list_scope.

(* UNBOUNDED: from files satisfying the invariant, a process that starts, runs any list of events (commands, replication-thread polls, snapshots, shutdown) and is killed on entering its i-th system call of any kind leaves files satisfying the invariant w.r.t. its own key map: the key map file decodes, and when the flag reads valid every logged key id decodes on disk exactly as in the writer's memory *)
Theorem C16_key_ids_crash_safe :
  forall (f0 : mfiles) (km0 : list (str * N)) (lo : list str) (clock : N) (x0 : mnode) 
           (v0 : bool) (evs : list mevent) (s : sysc) (i : nat),
         KInv f0 km0 ->
         mstart f0 lo clock true = MStarted x0 v0 ->
         run_ok x0 evs -> let x := mrun x0 evs in KInv (mcrash f0 x s i) (cn_keymap (mn_cn x)).
Proof. exact C16_key_ids_crash_safe. Qed.
Print Assumptions C16_key_ids_crash_safe.

(* the next start on those files does not panic on the key map, and either discards the log (flag invalid) or keeps it unchanged and decodes every logged key id to the key the writer's map gave it *)
Theorem C16_restart_decodes_or_discards :
  forall (f0 : mfiles) (km0 : list (str * N)) (lo : list str) (clock : N) (x0 : mnode) 
           (v0 : bool) (evs : list mevent) (s : sysc) (i : nat) (lo' : list str) (clock' : N) 
           (poll' : bool),
         KInv f0 km0 ->
         mstart f0 lo clock true = MStarted x0 v0 ->
         run_ok x0 evs ->
         let x := mrun x0 evs in
         let fc := mcrash f0 x s i in
         (exists dk : list (str * N),
            match mf_keys fc with
            | Some b => decode_keymap b
            | None => Some []
            end = Some dk) /\
         (forall (x' : mnode) (v' : bool),
          mstart fc lo' clock' poll' = MStarted x' v' ->
          v' = false /\ flog (mn_files x') = [] /\ cn_log (mn_cn x') = [] \/
          v' = true /\
          cn_log (mn_cn x') = flog fc /\
          flog (mn_files x') = flog fc /\
          (forall r : oprec,
           In r (flog fc) ->
           r_op r <= 1 ->
           exists k : str,
             key_of_id (cn_keymap (mn_cn x')) (r_key r) = Some k /\
             key_of_id (cn_keymap (mn_cn x)) (r_key r) = Some k)).
Proof. exact C16_restart_decodes_or_discards. Qed.
Print Assumptions C16_restart_decodes_or_discards.

(* the invariant holds of the empty directory, so the two theorems chain over any number of lifetimes *)
Theorem C16_initial_files_ok :
  KInv mf_empty [].
Proof. exact KInv_empty. Qed.
Print Assumptions C16_initial_files_ok.

(* the record appended for a set / increment / remove of a key carries an id the writer's map decodes to that key, now and after any growth of the map *)
Theorem C16_written_for :
  forall (x : cnode) (rq : request) (id : N) (dbn key : str) (d : N),
         WFkm (cn_keymap x) ->
         (exists (v : str) (ver : Z), rq = RqReplicateSet dbn key v ver) \/
         (exists inc : Z, rq = RqReplicateIncrement dbn key inc) \/ rq = RqReplicateRemove dbn key ->
         db_id_of (cn_node x) dbn = Some d ->
         let x1 := fst (repl_oplog x rq id) in
         exists r : oprec,
           cn_log x1 = cn_log x ++ [r] /\
           r_op r <= 1 /\ (forall ext : list (str * N), key_of_id (cn_keymap x1 ++ ext) (r_key r) = Some key).
Proof. exact C16_written_for. Qed.
Print Assumptions C16_written_for.

(* the bincode key map file round-trips *)
Theorem C16_keymap_roundtrip :
  forall order : list (str * N),
         Forall entry_ok order ->
         N.of_nat (Datatypes.length order) < 2 ^ 64 -> decode_keymap (keymap_bytes order) = Some order.
Proof. exact keymap_roundtrip. Qed.
Print Assumptions C16_keymap_roundtrip.

(* every prefix of snapshot_keys leaves the key map file old or new (temporary file + rename), and the flag turns valid only after the new map is in place *)
Theorem C16_keys_file_atomic :
  forall (f : mfiles) (order : list (str * N)) (p rest : list mop),
         snapshot_keys_ops order = p ++ rest ->
         let f' := apply_mops f p in
         (mf_keys f' = mf_keys f \/ mf_keys f' = Some (keymap_bytes order)) /\
         (mf_flag f' <> mf_flag f -> mf_keys f' = Some (keymap_bytes order)) /\
         (flag_valid (mf_flag f') <> flag_valid (mf_flag f) -> rest = []) /\
         (rest = [] -> mf_keys f' = Some (keymap_bytes order) /\ flag_valid (mf_flag f') = true) /\
         mf_log f' = mf_log f /\ mf_db f' = mf_db f.
Proof. exact keys_file_atomic. Qed.
Print Assumptions C16_keys_file_atomic.

Theorem C16_kinv_repl :
  forall (x : mnode) (msg : str),
         KInv (mn_files x) (cn_keymap (mn_cn x)) ->
         MemInv x ->
         let x' := mrepl_one x msg in
         (forall p rest : list mop,
          skipn (Datatypes.length (mn_trace x)) (mn_trace x') = p ++ rest ->
          KInv (apply_mops (mn_files x) p) (cn_keymap (mn_cn x'))) /\
         mn_files x' = apply_mops (mn_files x) (skipn (Datatypes.length (mn_trace x)) (mn_trace x')) /\
         MemInv x'.
Proof. exact kinv_repl. Qed.
Print Assumptions C16_kinv_repl.

Theorem C16_kinv_snapshot_keys :
  forall (x : mnode) (order : list (str * N)),
         KInv (mn_files x) (cn_keymap (mn_cn x)) ->
         MemInv x ->
         (mn_valid x = false -> good_order order (cn_keymap (mn_cn x))) ->
         let x' := msnapshot_keys x order in
         (forall p rest : list mop,
          skipn (Datatypes.length (mn_trace x)) (mn_trace x') = p ++ rest ->
          KInv (apply_mops (mn_files x) p) (cn_keymap (mn_cn x'))) /\
         mn_files x' = apply_mops (mn_files x) (skipn (Datatypes.length (mn_trace x)) (mn_trace x')) /\
         mn_valid x' = true /\
         MemInv x' /\
         (exists dk : list (str * N),
            disk_entries (mn_files x') = Some dk /\
            (forall id : N, key_of_id (keymap_of_entries dk) id = key_of_id (cn_keymap (mn_cn x')) id)).
Proof. exact kinv_snapshot_keys. Qed.
Print Assumptions C16_kinv_snapshot_keys.

(* start-up, including the kill between 'remove the log' and 'remove the flag' *)
Theorem C16_kinv_start :
  forall (f : mfiles) (km : list (str * N)) (lo : list str) (clock : N) (poll : bool),
         KInv f km ->
         exists dk : list (str * N),
           match mf_keys f with
           | Some b => decode_keymap b
           | None => Some []
           end = Some dk /\
           (forall (x : mnode) (v : bool),
            mstart f lo clock poll = MStarted x v ->
            v = flag_valid (mf_flag f) /\
            mn_valid x = v /\
            cn_keymap (mn_cn x) = keymap_of_entries dk /\
            mn_files x = apply_mops f (mn_trace x) /\
            cn_log (mn_cn x) = flog (mn_files x) /\
            (v = true ->
             flog (mn_files x) = flog f /\
             (forall r : oprec,
              In r (flog f) ->
              r_op r <= 1 ->
              key_of_id (cn_keymap (mn_cn x)) (r_key r) = key_of_id km (r_key r) /\
              key_of_id km (r_key r) <> None)) /\
            (v = false -> flog (mn_files x) = []) /\
            (poll = true \/ v = true -> MemInv x) /\ AllPre f (mn_trace x) (fun g : mfiles => KInv g km)).
Proof. exact kinv_start. Qed.
Print Assumptions C16_kinv_start.

Theorem C16_crash_state_is_trace_prefix :
  forall (s : sysc) (ops : list mop) (i : nat),
         exists rest : list mop, ops = mtake_before s i ops ++ rest.
Proof. exact mtake_before_prefix. Qed.
Print Assumptions C16_crash_state_is_trace_prefix.

Theorem C16_kill_stops_before_ith_call :
  forall (s : sysc) (ops : list mop) (i : nat),
         (1 <= i)%nat ->
         (i <= mcount s ops)%nat ->
         exists (o : mop) (rest : list mop),
           ops = mtake_before s i ops ++ o :: rest /\
           is_msc s o = true /\ mcount s (mtake_before s i ops) = (i - 1)%nat.
Proof. exact mtake_before_stops. Qed.
Print Assumptions C16_kill_stops_before_ith_call.

(* non-vacuity: a concrete history; one kill whose restart discards the log, one whose restart keeps and decodes it *)
Theorem C16_nonvacuous :
  mcount ScWrite (mn_trace w_run) = 8%nat /\
         (let r := mstart (mcrash mf_empty w_run ScWrite 3) [] w_clk true in
          w_valid r = Some false /\ cn_log (mn_cn (w_started r)) = []) /\
         (let r := mstart (mcrash mf_empty w_run ScWrite 8) [] w_clk true in
          w_valid r = Some false /\ cn_log (mn_cn (w_started r)) = []) /\
         (let r := mstart (mcrash mf_empty w_run ScWrite 9) [] w_clk true in
          w_valid r = Some true /\ w_decoded (w_started r) = [(None, Some "-"); (None, Some "a")]) /\
         (forall (s : sysc) (i : nat), KInv (mcrash mf_empty w_run s i) (cn_keymap (mn_cn w_run))).
Proof. exact C16_nonvacuous. Qed.
Print Assumptions C16_nonvacuous.

(* REFUTED (known finding): the record of a database that was never snapshotted is undecodable after the restart *)
Theorem C16_lost_database_refuted :
  w_valid w_lost_restart = Some true /\
         w_decoded (w_started w_lost_restart) = [(None, Some "-"); (None, Some "a")].
Proof. exact C16_lost_database_refuted. Qed.
Print Assumptions C16_lost_database_refuted.

(* REFUTED (known finding): the id of a lost database is given to a later one; its records decode to the new database *)
Theorem C16_lost_database_id_reused_refuted :
  w_valid w_reuse_restart = Some true /\
         nth_error (map (decode_rec w_reuse) (cn_log (mn_cn w_reuse))) 3 = Some (Some "d2", Some "b") /\
         nth_error (w_decoded (w_started w_reuse_restart)) 3 = Some (None, Some "b") /\
         nth_error (w_decoded w_reuse_after) 3 = Some (Some "d3", Some "b").
Proof. exact C16_lost_database_id_reused_refuted. Qed.
Print Assumptions C16_lost_database_id_reused_refuted.

(* why the replication thread's first poll matters (the repaired defect H16.1 shown on the model with poll = false) *)
Theorem C16_start_without_first_poll_refuted :
  KInv w_nopoll_f0 [] /\
         (let r := mstart (mn_files w_nopoll_run) [] w_clk true in
          w_valid r = Some true /\ w_decoded (w_started r) = [(None, Some "-"); (None, None)]).
Proof. exact C16_start_without_first_poll_refuted. Qed.
Print Assumptions C16_start_without_first_poll_refuted.

(* why the invariant demands a well-formed key map on disk (ids = positions); maps built by the code from empty always are *)
Theorem C16_illformed_initial_keymap_refuted :
  disk_entries w_bad_f0 = Some [("a", 1)] /\
         flog w_bad_f0 = [] /\
         cn_keymap (mn_cn w_bad_run) = [("a", 1); ("b", 1)] /\
         (let r := mstart (mn_files w_bad_run) [] w_clk true in
          w_valid r = Some true /\
          map (fun r0 : oprec => key_of_id (cn_keymap (mn_cn w_bad_run)) (r_key r0))
            (filter (fun r0 : oprec => r_op r0 <=? 1) (cn_log (mn_cn (w_started r)))) = [
          Some "a"] /\
          map (fun r0 : oprec => key_of_id (cn_keymap (mn_cn (w_started r))) (r_key r0))
            (filter (fun r0 : oprec => r_op r0 <=? 1) (cn_log (mn_cn (w_started r)))) = [
          Some "b"]).
Proof. exact C16_illformed_initial_keymap_refuted. Qed.
Print Assumptions C16_illformed_initial_keymap_refuted.
