(* Property C09 -- every command acts only with the credential it requires *)
(* Statements only: each theorem restates the proved lemma's statement and is closed by [exact]. *)
From NunDB Require Import Model.Base Model.Pending Model.Parse Model.Node Proofs.GuardProofs Proofs.RevokeProofs.
Local Open Scope Z_scope.

(* administrative and cluster requests from an unauthenticated session: nothing changes, the reply is 'Not auth' *)
Theorem C09_admin_rq_inert :
  forall (n : node) (c : nat) (rq : request),
         s_auth (get_sess n c) = false -> is_admin_rq rq = true -> handle n c rq = (n, RError "Not auth").
Proof. exact admin_rq_inert. Qed.
Print Assumptions C09_admin_rq_inert.

(* the same at the protocol level, rp wrapper included: the whole node (databases, queues, sessions, inboxes) is unchanged *)
Theorem C09_admin_line_inert :
  forall (n : node) (c : nat) (line : str) (rq : request),
         s_auth (get_sess n c) = false ->
         parse_request (trim_char nl line) = POk rq ->
         is_admin_rq rq = true \/ (exists (s : str) (i : N), rq = RqReplicateRequest s i) ->
         step n c line = (n, RError "Not auth").
Proof. exact admin_line_inert. Qed.
Print Assumptions C09_admin_line_inert.

Theorem C09_secure_user_cmds_inert :
  forall (n : node) (c : nat) (rq : request),
         s_auth (get_sess n c) = false ->
         (exists t u : str, rq = RqCreateUser t u) \/
         (exists (u : str) (ps : list permission), rq = RqSetPermissions u ps) ->
         handle n c rq = (n, RError "To read security keys you must auth as an admin!").
Proof. exact secure_user_cmds_inert. Qed.
Print Assumptions C09_secure_user_cmds_inert.

(* data commands without a selected database change no database and queue nothing *)
Theorem C09_data_needs_db :
  forall (n : node) (c : nat) (rq : request),
         s_db (get_sess n c) = None ->
         s_auth (get_sess n c) = false ->
         is_data_rq rq = true ->
         exists (n' : node) (r : resp),
           handle n c rq = (n', r) /\
           n_dbs n' = n_dbs n /\
           n_repl n' = n_repl n /\
           n_sup n' = n_sup n /\
           (n' = n /\ r = RError "To read security keys you must auth as an admin!" \/
            n' = send n c no_db_msg /\ r = RError no_db_msg).
Proof. exact data_needs_db. Qed.
Print Assumptions C09_data_needs_db.

Theorem C09_failed_usedb_keeps_selection :
  forall (n : node) (c : nat) (token name : str) (user : option str) (n' : node) (msg : str),
         handle n c (RqUseDb token name user) = (n', RError msg) -> n' = n.
Proof. exact failed_usedb_keeps_selection. Qed.
Print Assumptions C09_failed_usedb_keeps_selection.

(* allowed iff a stored permission entry grants that kind for a pattern matching the key; no list => only the user literally named all *)
Theorem C09_has_permission_spec :
  forall (n : node) (c : nat) (k : str) (d : db) (req : perm_kind) (u : str),
         starts_with k "$$" = false ->
         s_user (get_sess n c) = Some u ->
         has_permission n c k d req = true <->
         (exists (pv : value) (p : permission) (pat : str),
            get_value d ("$$permission_$" +++ u) = Some pv /\
            In p (permissions_from_str (v_val pv)) /\
            (exists kd : perm_kind, In kd (pm_kinds p) /\ perm_kind_eqb req kd = true) /\
            In pat (pm_keys p) /\ pattern_match k pat = true) \/
         get_value d ("$$permission_$" +++ u) = None /\ u = "all".
Proof. exact has_permission_spec. Qed.
Print Assumptions C09_has_permission_spec.

(* without the permission the request is refused and nothing but the refusal message changes (get/get-safe/watch/set/set-safe/increment/remove/resolve/arbiter) *)
Theorem C09_user_denied :
  forall (n : node) (c : nat) (dbn : str) (d : db) (rq : request) (k : str) (kind : perm_kind),
         s_auth (get_sess n c) = false ->
         s_db (get_sess n c) = Some dbn ->
         get_db n dbn = Some d ->
         rq_key_kind rq = Some (k, kind) ->
         starts_with k "$$" = false ->
         has_permission n c k d kind = false -> handle n c rq = (send n c denied_msg, RError denied_msg).
Proof. exact user_denied. Qed.
Print Assumptions C09_user_denied.

Theorem C09_get_served :
  forall (n : node) (c : nat) (dbn : str) (d : db) (k : str),
         s_db (get_sess n c) = Some dbn ->
         get_db n dbn = Some d ->
         starts_with k "$$" = false ->
         has_permission n c k d PRead = true ->
         handle n c (RqGet k) =
         (send n c ("value " +++ fst (get_key_value_new d k) +++ nlS),
          RValue k (fst (get_key_value_new d k)) (snd (get_key_value_new d k))).
Proof. exact get_served. Qed.
Print Assumptions C09_get_served.

(* a user without a permission list reaches no value; listing key names is still allowed *)
Theorem C09_no_list_no_value :
  forall (n : node) (c : nat) (u dbn : str) (d : db),
         s_auth (get_sess n c) = false ->
         s_user (get_sess n c) = Some u ->
         u <> "all" ->
         s_db (get_sess n c) = Some dbn ->
         get_db n dbn = Some d ->
         get_value d ("$$permission_$" +++ u) = None ->
         (forall k : str,
          handle n c (RqGet k) = (n, RError "To read security keys you must auth as an admin!") \/
          handle n c (RqGet k) = (send n c denied_msg, RError denied_msg)) /\
         (forall p : str,
          handle n c (RqKeys p) =
          (send n c ("keys " +++ keys_fold (list_keys d p false) +++ nlS),
           RValue "keys" (keys_fold (list_keys d p false)) (-1))).
Proof. exact no_list_no_value. Qed.
Print Assumptions C09_no_list_no_value.

(* the tombstone text of a removed value, read as a permission statement, grants nothing *)
Theorem C09_empty_text_grants_nothing :
  forall (key : str) (kind : perm_kind), list_grants (permissions_from_str "<Empty>") key kind = false.
Proof. exact empty_text_grants_nothing. Qed.
Print Assumptions C09_empty_text_grants_nothing.

(* a user whose list is a tombstone is denied every key, every kind *)
Theorem C09_tombstone_list_denies :
  forall (n : node) (c : nat) (u : str) (d : db) (v : value) (key : str) (kind : perm_kind),
         s_user (get_sess n c) = Some u ->
         starts_with key "$$" = false ->
         get_value d (perm_key u) = Some v -> v_val v = "<Empty>" -> has_permission n c key d kind = false.
Proof. exact tombstone_list_denies. Qed.
Print Assumptions C09_tombstone_list_denies.

(* a user (other than the open-access name `all`) without a list is denied *)
Theorem C09_absent_list_denies :
  forall (n : node) (c : nat) (u : str) (d : db) (key : str) (kind : perm_kind),
         s_user (get_sess n c) = Some u ->
         u <> "all" ->
         starts_with key "$$" = false ->
         get_value d (perm_key u) = None -> has_permission n c key d kind = false.
Proof. exact absent_list_denies. Qed.
Print Assumptions C09_absent_list_denies.

(* removing the list revokes, whatever the persisted state of the entry (dropped, or tombstone) *)
Theorem C09_remove_list_revokes :
  forall (n' : node) (c : nat) (u : str) (d : db) (key : str) (kind : perm_kind),
         s_user (get_sess n' c) = Some u ->
         u <> "all" ->
         starts_with key "$$" = false -> has_permission n' c key (rm_db d (perm_key u)) kind = false.
Proof. exact remove_list_revokes. Qed.
Print Assumptions C09_remove_list_revokes.

(* for an entry that reached the disk this holds for every user name *)
Theorem C09_remove_list_revokes_persisted :
  forall (n' : node) (c : nat) (u : str) (d : db) (v : value) (key : str) (kind : perm_kind),
         s_user (get_sess n' c) = Some u ->
         starts_with key "$$" = false ->
         get_value d (perm_key u) = Some v ->
         v_st v <> VNew -> has_permission n' c key (rm_db d (perm_key u)) kind = false.
Proof. exact remove_list_revokes_persisted. Qed.
Print Assumptions C09_remove_list_revokes_persisted.

(* the administrator's `remove $$permission_$<u>` takes effect on the very next request of the user's open session: every keyed request is refused and changes nothing but the refusal message *)
Theorem C09_revocation_immediate :
  forall (n : node) (a c : nat) (dbn : str) (d : db) (u : str),
         s_auth (get_sess n a) = true ->
         s_db (get_sess n a) = Some dbn ->
         get_db n dbn = Some d ->
         ConvergeProofs.simple_tok u ->
         u <> "all" ->
         s_auth (get_sess n c) = false ->
         s_user (get_sess n c) = Some u ->
         s_db (get_sess n c) = Some dbn ->
         let n' := fst (step n a ("remove $$permission_$" +++ u)) in
         snd (step n a ("remove $$permission_$" +++ u)) = ROk /\
         get_db n' dbn = Some (rm_db d (perm_key u)) /\
         list_revoked (rm_db d (perm_key u)) u /\
         (forall (rq : request) (k : str) (kind : perm_kind),
          rq_key_kind rq = Some (k, kind) ->
          starts_with k "$$" = false -> handle n' c rq = (send n' c denied_msg, RError denied_msg)) /\
         (forall (line : str) (rq : request) (k : str) (kind : perm_kind),
          parse_request (trim_char nl line) = POk rq ->
          rq_key_kind rq = Some (k, kind) ->
          starts_with k "$$" = false -> step n' c line = (send n' c denied_msg, RError denied_msg)).
Proof. exact revocation_immediate. Qed.
Print Assumptions C09_revocation_immediate.

(* kept visible: for the open-access name `all` a dropped list means open access ... *)
Theorem C09_all_remove_new_opens :
  has_permission all_node 0 "b" (rm_db (all_db VNew) (perm_key "all")) PWrite = true.
Proof. exact all_remove_new_opens. Qed.
Print Assumptions C09_all_remove_new_opens.

(* ... while a tombstoned list denies everything: the effect of the removal depends on whether a snapshot happened in between *)
Theorem C09_all_remove_persisted_closes :
  has_permission all_node 0 "b" (rm_db (all_db VOk) (perm_key "all")) PWrite = false /\
         has_permission all_node 0 "a" (rm_db (all_db VOk) (perm_key "all")) PRead = false.
Proof. exact all_remove_persisted_closes. Qed.
Print Assumptions C09_all_remove_persisted_closes.

(* non-vacuity: both variants (dropped, tombstone) through the handlers *)
Theorem C09_revoke_example :
  bob_list rx2 = Some ("rw a*", VNew) /\
         snd (step rx2 1 "get a") = RValue "a" "1" 0 /\
         bob_list rxA = None /\
         snd (step rxA 1 "get a") = RError denied_msg /\
         snd (step rxA 1 "set a 2") = RError denied_msg /\
         fst (step rxA 1 "get a") = send rxA 1 denied_msg /\
         bob_list rxB0 = Some ("rw a*", VOk) /\
         snd (step rxB0 1 "get a") = RValue "a" "1" 0 /\
         bob_list rxB = Some ("<Empty>", VDeleted) /\
         snd (step rxB 1 "get a") = RError denied_msg /\
         snd (step rxB 1 "set a 2") = RError denied_msg /\
         snd (step rxB 1 "increment a 1") = RError denied_msg /\
         snd (step rxB 1 "remove a") = RError denied_msg /\
         snd (step rxB 1 "watch a") = RError denied_msg /\ fst (step rxB 1 "get a") = send rxB 1 denied_msg.
Proof. exact revoke_example. Qed.
Print Assumptions C09_revoke_example.
