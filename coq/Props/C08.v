(* Property C08 -- secure ($$) keys are invisible and immutable to non-administrators *)
(* Statements only: each theorem restates the proved lemma's statement and is closed by [exact]. *)
From NunDB Require Import Model.Base Model.Pending Model.Parse Model.Node Proofs.SecureProofs.
Local Open Scope Z_scope.

(* two nodes that differ only in the TEXT of secret $$ keys: any line from a non-administrator gets the same reply, leaves the same inboxes (sessions are part of low_eq) and low-equivalent states *)
Theorem C08_step_unwinding :
  forall (n1 n2 : node) (c : nat) (line : str),
         low_eq n1 n2 ->
         s_auth (get_sess n1 c) = false ->
         let '(n1', r1) := step n1 c line in let '(n2', r2) := step n2 c line in r1 = r2 /\ low_eq n1' n2'.
Proof. exact step_unwinding. Qed.
Print Assumptions C08_step_unwinding.

(* stronger: not even the existence, version or state of a secret key can be observed *)
Theorem C08_step_unwinding_strong :
  forall (n1 n2 : node) (c : nat) (line : str),
         vis_eq n1 n2 ->
         s_auth (get_sess n1 c) = false ->
         let '(n1', r1) := step n1 c line in let '(n2', r2) := step n2 c line in r1 = r2 /\ vis_eq n1' n2'.
Proof. exact step_unwinding_strong. Qed.
Print Assumptions C08_step_unwinding_strong.

(* a non-administrator changes no $$ key at all (tokens and permission lists included) *)
Theorem C08_step_secrets_unchanged :
  forall (n : node) (c : nat) (line : str),
         s_auth (get_sess n c) = false ->
         forall (dbn : str) (d d' : db) (k : str),
         get_db n dbn = Some d ->
         get_db (fst (step n c line)) dbn = Some d' ->
         starts_with k "$$" = true -> get_value d' k = get_value d k.
Proof. exact step_secrets_unchanged. Qed.
Print Assumptions C08_step_secrets_unchanged.

Theorem C08_step_same_databases :
  forall (n : node) (c : nat) (line dbn : str),
         s_auth (get_sess n c) = false -> get_db (fst (step n c line)) dbn = None <-> get_db n dbn = None.
Proof. exact step_same_databases. Qed.
Print Assumptions C08_step_same_databases.

(* HEADLINE: for every history of connects, command lines from non-administrator sessions and disconnects: equal reply lists, low-equivalent final states, every $$ key unchanged *)
Theorem C08_noninterference :
  forall (n1 n2 : node) (evs : list nev),
         low_eq n1 n2 ->
         nonadmin_run n1 evs = true ->
         nouts n1 evs = nouts n2 evs /\
         low_eq (fold_left nstep evs n1) (fold_left nstep evs n2) /\
         (forall (dbn : str) (d d' : db) (k : str),
          get_db n1 dbn = Some d ->
          get_db (fold_left nstep evs n1) dbn = Some d' ->
          starts_with k "$$" = true -> get_value d' k = get_value d k).
Proof. exact noninterference. Qed.
Print Assumptions C08_noninterference.

Theorem C08_noninterference_all_nonadmin :
  forall (n1 n2 : node) (evs : list nev),
         low_eq n1 n2 ->
         all_nonadmin n1 ->
         forallb no_auth_cmd evs = true ->
         nouts n1 evs = nouts n2 evs /\
         low_eq (fold_left nstep evs n1) (fold_left nstep evs n2) /\
         (forall (dbn : str) (d d' : db) (k : str),
          get_db n1 dbn = Some d ->
          get_db (fold_left nstep evs n1) dbn = Some d' ->
          starts_with k "$$" = true -> get_value d' k = get_value d k).
Proof. exact noninterference_all_nonadmin. Qed.
Print Assumptions C08_noninterference_all_nonadmin.

Theorem C08_noninterference_strong :
  forall (n1 n2 : node) (evs : list nev),
         vis_eq n1 n2 ->
         nonadmin_run n1 evs = true ->
         nouts n1 evs = nouts n2 evs /\ vis_eq (fold_left nstep evs n1) (fold_left nstep evs n2).
Proof. exact noninterference_strong. Qed.
Print Assumptions C08_noninterference_strong.

(* $$token cannot be removed by anyone *)
Theorem C08_token_unremovable :
  forall d : db, remove_value d "$$token" = (d, RError "$$token key cannot be removed", []).
Proof. exact token_unremovable. Qed.
Print Assumptions C08_token_unremovable.

Theorem C08_token_survives_remove_value :
  forall (n : node) (c : nat) (rq : request),
         rq = RqRemove "$$token" \/ (exists dbn : str, rq = RqReplicateRemove dbn "$$token") ->
         forall (x : str) (d d' : db),
         get_db n x = Some d ->
         get_db (fst (handle n c rq)) x = Some d' -> get_value d' "$$token" = get_value d "$$token".
Proof. exact token_survives_remove_value. Qed.
Print Assumptions C08_token_survives_remove_value.

Theorem C08_low_eq_mask :
  forall n1 n2 : node, low_eq n1 n2 <-> mask_node n1 = mask_node n2.
Proof. exact low_eq_mask. Qed.
Print Assumptions C08_low_eq_mask.
