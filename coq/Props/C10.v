(* Property C10 -- no client input can crash a handler or wedge the node *)
(* Statements only: each theorem restates the proved lemma's statement and is closed by [exact]. *)
From NunDB Require Import Model.Base Model.Pending Model.Parse Model.Node Proofs.GuardProofs.
Local Open Scope Z_scope.

(* the parser never reaches a panicking path, for every byte string *)
Theorem C10_parse_total :
  forall s : str, parse_request s <> PPanic.
Proof. exact parse_total. Qed.
Print Assumptions C10_parse_total.

(* AdminInv (the $admin database exists) holds initially and is preserved by every step *)
Theorem C10_init_inv :
  forall (u p a : str) (pid : N) (r : role) (c0 : N), AdminInv (init_node u p a pid r c0).
Proof. exact init_inv. Qed.
Print Assumptions C10_init_inv.

Theorem C10_step_inv :
  forall (n : node) (c : nat) (line : str), AdminInv n -> AdminInv (fst (step n c line)).
Proof. exact step_inv. Qed.
Print Assumptions C10_step_inv.

(* no line, from any session in any state, makes process_request panic (including unbounded rp nesting: the fuel S(length line) always suffices) *)
Theorem C10_step_no_panic :
  forall (n : node) (c : nat) (line : str), AdminInv n -> snd (step n c line) <> RPanic.
Proof. exact step_no_panic. Qed.
Print Assumptions C10_step_no_panic.

(* after any sequence of connects, lines and disconnects from any sessions, the next command still does not panic *)
Theorem C10_run_no_panic :
  forall n : node,
         AdminInv n ->
         forall (evs : list nev) (c : nat) (line : str), snd (step (fold_left nstep evs n) c line) <> RPanic.
Proof. exact run_no_panic. Qed.
Print Assumptions C10_run_no_panic.

(* the node keeps serving: a probe set/get from a token session gets its normal reply *)
Theorem C10_probe_served :
  forall (n : node) (c : nat) (dbn : str) (d : db) (k v : str),
         AdminInv n ->
         is_primary n = true ->
         s_db (get_sess n c) = Some dbn ->
         s_user (get_sess n c) = None ->
         get_db n dbn = Some d ->
         d_strat d = SNone ->
         get_value d "$$permission_$all" = None ->
         starts_with k "$$" = false ->
         get_value d k = None ->
         exists n1 : node,
           handle n c (RqSet k v (-1)) = (n1, RSet k v) /\
           (exists n2 : node, handle n1 c (RqGet k) = (n2, RValue k v 0)).
Proof. exact probe_served. Qed.
Print Assumptions C10_probe_served.

(* no HTTP body kills the worker *)
Theorem C10_http_worker_survives :
  forall (n : node) (body : str), AdminInv n -> snd (http_request n body) <> None.
Proof. exact http_request_worker_survives. Qed.
Print Assumptions C10_http_worker_survives.

(* AdminInv cannot be dropped: on a node without the $admin database (never reachable) create-db would panic *)
Theorem C10_admin_inv_needed :
  snd (step no_admin_node 0 "create-db x t") = RPanic.
Proof. exact no_admin_panics. Qed.
Print Assumptions C10_admin_inv_needed.
