(* Property C10 -- no client input can crash a handler or wedge the node *)
(* Statements only: each theorem restates the proved lemma's statement and is closed by [exact]. *)
From NunDB Require Import Model.Base Model.Pending Model.Parse Model.Node Proofs.GuardProofs Model.Cluster Model.Net Proofs.NetProofs.
Local Open Scope Z_scope.

(* the parser never reaches a panicking path, for every byte string *)
Theorem C10_parse_total :
  forall s : str, parse_request s <> PPanic.
Proof. exact parse_total. Qed.
Print Assumptions C10_parse_total.

(* AdminInv (the $admin database exists) holds initially and is preserved by every step *)
Theorem C10_init_inv :
  forall (u p a : str) (pid : N) (r : role) (c0 : N), AdminInv (init_node u p a pid r c0).
Proof. exact init_inv. Qed.
Print Assumptions C10_init_inv.

Theorem C10_step_inv :
  forall (n : node) (c : nat) (line : str), AdminInv n -> AdminInv (fst (step n c line)).
Proof. exact step_inv. Qed.
Print Assumptions C10_step_inv.

(* no line, from any session in any state, makes process_request panic (including unbounded rp nesting: the fuel S(length line) always suffices) *)
Theorem C10_step_no_panic :
  forall (n : node) (c : nat) (line : str), AdminInv n -> snd (step n c line) <> RPanic.
Proof. exact step_no_panic. Qed.
Print Assumptions C10_step_no_panic.

(* after any sequence of connects, lines and disconnects from any sessions, the next command still does not panic *)
Theorem C10_run_no_panic :
  forall n : node,
         AdminInv n ->
         forall (evs : list nev) (c : nat) (line : str), snd (step (fold_left nstep evs n) c line) <> RPanic.
Proof. exact run_no_panic. Qed.
Print Assumptions C10_run_no_panic.

(* the node keeps serving: a probe set/get from a token session gets its normal reply *)
Theorem C10_probe_served :
  forall (n : node) (c : nat) (dbn : str) (d : db) (k v : str),
         AdminInv n ->
         is_primary n = true ->
         s_db (get_sess n c) = Some dbn ->
         s_user (get_sess n c) = None ->
         get_db n dbn = Some d ->
         d_strat d = SNone ->
         get_value d "$$permission_$all" = None ->
         starts_with k "$$" = false ->
         get_value d k = None ->
         exists n1 : node,
           handle n c (RqSet k v (-1)) = (n1, RSet k v) /\
           (exists n2 : node, handle n1 c (RqGet k) = (n2, RValue k v 0)).
Proof. exact probe_served. Qed.
Print Assumptions C10_probe_served.

(* no HTTP body kills the worker *)
Theorem C10_http_worker_survives :
  forall (n : node) (body : str), AdminInv n -> snd (http_request n body) <> None.
Proof. exact http_request_worker_survives. Qed.
Print Assumptions C10_http_worker_survives.

(* AdminInv cannot be dropped: on a node without the $admin database (never reachable) create-db would panic *)
Theorem C10_admin_inv_needed :
  snd (step no_admin_node 0 "create-db x t") = RPanic.
Proof. exact no_admin_panics. Qed.
Print Assumptions C10_admin_inv_needed.

(* no line read by the TCP loop, whatever its bytes, ends the connection's thread *)
Theorem C10_tcp_line_serving :
  forall (n : node) (c : nat) (line : str), AdminInv n -> snd (tcp_line n c line) = Serving.
Proof. exact tcp_line_serving. Qed.
Print Assumptions C10_tcp_line_serving.

(* a TCP line that is not UTF-8 is dropped: the node does not change *)
Theorem C10_tcp_line_invalid :
  forall (n : node) (c : nat) (line : str), utf8_valid line = false -> tcp_line n c line = (n, Serving).
Proof. exact tcp_line_invalid. Qed.
Print Assumptions C10_tcp_line_invalid.

(* no WebSocket frame (text or binary, any bytes, any number of ';') ends the WebSocket event loop *)
Theorem C10_ws_frame_serving :
  forall (n : node) (c : nat) (payload : str), AdminInv n -> snd (ws_frame n c payload) = Serving.
Proof. exact ws_frame_serving. Qed.
Print Assumptions C10_ws_frame_serving.

(* a binary frame that is not UTF-8 is answered with one error (it used to end the listener for every client) *)
Theorem C10_ws_frame_invalid :
  forall (n : node) (c : nat) (payload : str),
         utf8_valid payload = false ->
         ws_frame n c payload = (send n c ("error Invalid message " +++ nlS), Serving).
Proof. exact ws_frame_invalid. Qed.
Print Assumptions C10_ws_frame_invalid.

(* no HTTP body, UTF-8 or not, ends an HTTP worker *)
Theorem C10_http_bytes_worker_survives :
  forall (n : node) (body : str), AdminInv n -> snd (http_bytes n body) <> None.
Proof. exact http_bytes_worker_survives. Qed.
Print Assumptions C10_http_bytes_worker_survives.

(* whatever arrives over the three transports, in any order, on any connections: every service thread is alive afterwards *)
Theorem C10_net_run_from_init :
  forall (u p a : str) (pid : N) (r : role) (c0 : N) (evs : list net_ev),
         snd (net_run (init_node u p a pid r c0) evs) = true.
Proof. exact net_run_from_init. Qed.
Print Assumptions C10_net_run_from_init.

(* and the next command from any connection is answered *)
Theorem C10_net_run_then_step :
  forall (u p a : str) (pid : N) (r : role) (c0 : N) (evs : list net_ev) (c : nat) (line : str),
         snd (step (fst (net_run (init_node u p a pid r c0) evs)) c line) <> RPanic.
Proof. exact net_run_then_step. Qed.
Print Assumptions C10_net_run_then_step.

(* the replication thread survives every queued line (it used to panic on lines it could not parse or log) *)
Theorem C10_repl_one_survives :
  forall (x : cnode) (msg : str), cn_dead x = false -> cn_dead (repl_one x msg) = false.
Proof. exact repl_one_survives. Qed.
Print Assumptions C10_repl_one_survives.

Theorem C10_poll_repl_survives :
  forall x : cnode, cn_dead x = false -> cn_dead (poll_repl x) = false.
Proof. exact poll_repl_survives. Qed.
Print Assumptions C10_poll_repl_survives.
