(* Property C15 -- pending-operation accounting is exact; acks are idempotent.
   This file holds only statements, closed by [exact], with Print Assumptions. *)
From NunDB Require Import Model.Base Model.Pending Proofs.PendingProofs.
Local Open Scope N_scope.

(* (a) for EVERY event list (duplicates, early, foreign, unknown acks included):
   every op still pending has ack_count < replicate_count, and the number of nodes
   that still owe an ack is accounted for; in particular the count never "goes
   negative" (ack_count <= replicate_count). *)
Theorem C15_counts_inv : forall evs id m,
  assoc_get N.eqb id (prun evs) = Some m ->
  p_ack m <= p_rep m /\ p_ack m < p_rep m /\ p_ack m + nfalse (p_reps m) <= p_rep m.
Proof. exact counts_inv. Qed.
Print Assumptions C15_counts_inv.

(* (b) unknown / duplicate / foreign acknowledgements change nothing observable *)
Theorem C15_ack_unknown_noop : forall s id node,
  assoc_get N.eqb id s = None -> acknowledge s id node = (s, false).
Proof. exact ack_unknown_noop. Qed.
Print Assumptions C15_ack_unknown_noop.

Theorem C15_ack_duplicate_noop : forall s id node m,
  assoc_get N.eqb id s = Some m ->
  assoc_get String.eqb node (p_reps m) = Some true ->
  acknowledge s id node = (s, false).
Proof. exact ack_duplicate_noop. Qed.
Print Assumptions C15_ack_duplicate_noop.

Theorem C15_ack_foreign_noop : forall s id node m,
  assoc_get N.eqb id s = Some m ->
  assoc_get String.eqb node (p_reps m) = None ->
  snd (acknowledge s id node) = false /\
  counters (fst (acknowledge s id node)) = counters s.
Proof. exact ack_foreign_noop. Qed.
Print Assumptions C15_ack_foreign_noop.

(* (c) for well-formed histories (no (op,node) registered again while outstanding)
   the table refines the spec "op -> set of nodes that still owe an ack": an op is
   pending iff some targeted node has not acknowledged, the pending count is the
   number of such ops, each ack reply equals the spec's, and when nothing is owed
   the table is empty. *)
Theorem C15_pending_iff : forall evs id, wf evs = true ->
  is_pending (prun evs) id = negb (is_nil (outstanding (srun evs) id)).
Proof. exact pending_iff. Qed.
Print Assumptions C15_pending_iff.

Theorem C15_pending_count : forall evs, wf evs = true ->
  pending_count (prun evs) = List.length (srun evs).
Proof. exact pending_count_spec. Qed.
Print Assumptions C15_pending_count.

Theorem C15_outputs_refine : forall evs e, wf (evs ++ [e]) = true ->
  out_ok (srun evs) e (snd (pstep (prun evs) e)).
Proof. exact outputs_refine. Qed.
Print Assumptions C15_outputs_refine.

Theorem C15_drained : forall evs, wf evs = true ->
  (forall id, outstanding (srun evs) id = []) -> prun evs = [].
Proof. exact drained. Qed.
Print Assumptions C15_drained.

(* the spec itself: register adds exactly (op,node); ack removes exactly (op,node) *)
Theorem C15_spec_reg : forall t id node id' n,
  mem_str n (outstanding (sreg t id node) id') =
  mem_str n (outstanding t id') || (N.eqb id' id && String.eqb n node).
Proof. exact spec_reg. Qed.
Theorem C15_spec_ack : forall t id node id' n,
  mem_str n (outstanding (fst (sack t id node)) id') =
  mem_str n (outstanding t id') && negb (N.eqb id' id && String.eqb n node).
Proof. exact spec_ack. Qed.
Print Assumptions C15_spec_ack.

(* non-vacuity: a non-trivial well-formed history with duplicates, an early ack, a
   foreign ack and an unknown op *)
Definition ex_hist : list pev :=
  [Ack 7 "b"; Reg 7 "set k v" "a"; Reg 7 "ignored" "b"; Ack 9 "a"; Ack 7 "zz";
   Ack 7 "a"; Ack 7 "a"; Reg 8 "x" "a"; Ack 7 "b"].
Example C15_example_wf : wf ex_hist = true /\ pending_count (prun ex_hist) = 1%nat
  /\ is_pending (prun ex_hist) 7 = false /\ is_pending (prun ex_hist) 8 = true.
Proof. vm_compute. repeat split. Qed.

(* the well-formedness hypothesis is necessary: the same (op,node) registered twice
   while outstanding (what happens when two replicate-snapshot messages share op id 0)
   leaves the op pending although its only target has acknowledged. *)
Example C15_double_register_sticks :
  let h := [Reg 0 "replicate-snapshot a" "n1"; Reg 0 "replicate-snapshot b" "n1"; Ack 0 "n1"; Ack 0 "n1"] in
  wf h = false /\ is_pending (prun h) 0 = true /\ srun h = [].
Proof. vm_compute. repeat split. Qed.

(* ---- end to end: the replication thread's fan-out (Model/Cluster.v) ---- *)
From NunDB Require Import Model.Base Model.Pending Model.Parse Model.Node Model.Oplog Model.Cluster Proofs.PendingProofs Proofs.DbProofs Proofs.ClusterProofs.
Local Open Scope Z_scope.
(* end to end: the registrations a primary's fan-out performs for a fresh op id form a well-formed history, whatever else is pending *)
Theorem C15_fan_out_wf :
  forall (n : node) (id : N) (req : str) (all : bool) (acks : list str),
         NoDup (map fst (n_members n)) ->
         is_pending (n_pending n) id = false ->
         let evs := reg_evs id req (targets n all) ++ ack_evs id acks in
         wf evs = true /\
         only id (ack_all (n_pending (fan_out n id req all)) id acks) = prun evs /\
         (forall x : str,
          mem_str x (outstanding (srun evs) id) = mem_str x (targets n all) && negb (mem_str x acks)).
Proof. exact fan_out_wf. Qed.
Print Assumptions C15_fan_out_wf.

(* after fan-out and ANY list of acknowledgements (any order, duplicates, strangers) the op is pending iff some targeted member has not acknowledged *)
Theorem C15_fan_out_pending_iff :
  forall (n : node) (id : N) (req : str) (all : bool) (acks : list str),
         NoDup (map fst (n_members n)) ->
         is_pending (n_pending n) id = false ->
         is_pending (ack_all (n_pending (fan_out n id req all)) id acks) id = true <->
         (exists m : str, In m (targets n all) /\ ~ In m acks).
Proof. exact fan_out_pending_iff. Qed.
Print Assumptions C15_fan_out_pending_iff.

(* once every targeted member has acknowledged the op is no longer pending *)
Theorem C15_fan_out_all_acked :
  forall (n : node) (id : N) (req : str) (all : bool) (acks : list str),
         NoDup (map fst (n_members n)) ->
         is_pending (n_pending n) id = false ->
         Permutation.Permutation acks (targets n all) ->
         is_pending
           (fold_left (fun (p : pstate) (m : str) => fst (acknowledge p id m)) acks
              (n_pending (fan_out n id req all))) id = false.
Proof. exact fan_out_all_acked. Qed.
Print Assumptions C15_fan_out_all_acked.

(* kept visible: fan-out under an op id that is still pending re-sends the OLD text (what happened to replicate-snapshot before the fix) *)
Theorem C15_fan_out_reused_id_sends_old_text :
  let n0 := init_node "u" "p" "a" 1 Primary 0 in
         let n1 := n_set_members n0 [("a", (Primary, [])); ("b", (Secondary, []))] in
         let n2 := fan_out n1 7 "set k old" false in
         let n3 := fan_out n2 7 "set k new" false in
         assoc_get String.eqb "b" (n_members n3) = Some (Secondary, ["rp 7 set k old"; "rp 7 set k old"]).
Proof. exact fan_out_reused_id_sends_old_text. Qed.
Print Assumptions C15_fan_out_reused_id_sends_old_text.
