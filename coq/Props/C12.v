(* Property C12 -- the operation-log query never misses an operation.
   Statements only; proofs are in Proofs/OplogProofs.v. *)
From NunDB Require Import Model.Base Model.Oplog Proofs.OplogProofs.
Local Open Scope N_scope.

(* the code computes in bytes (25 per record); the model in records *)
Theorem C12_units_ok : forall d, (25 * d / 2) / 25 = d / 2.
Proof. exact units_ok. Qed.
Print Assumptions C12_units_ok.

(* the search loop terminates within its fuel and never underflows a u64, for every
   log with non-decreasing timestamps (any length) and every [since] *)
Theorem C12_search_total : forall f since, sorted_times f = true ->
  (exists sp, search f since = Found sp) \/ search f since = NotFound.
Proof. exact search_total. Qed.
Print Assumptions C12_search_total.

(* everything before the scan start is older than [since]; NotFound means nothing is
   at or after [since] *)
Theorem C12_search_found_complete : forall f since sp, sorted_times f = true ->
  search f since = Found sp ->
  forall i r, nth_error f i = Some r -> (N.of_nat i < scan_start f since sp) -> r_time r < since.
Proof. exact search_found_complete. Qed.
Theorem C12_search_notfound_complete : forall f since, sorted_times f = true ->
  search f since = NotFound -> forall r, In r f -> r_time r < since.
Proof. exact search_notfound_complete. Qed.
Print Assumptions C12_search_found_complete.

(* one file: every (db,key) with a record at or after [since] is returned, labelled
   with its most recent record; other keys keep their entry or get a genuine record
   of that key *)
Theorem C12_query_file_complete : forall f since m, sorted_times f = true ->
  exists m', query_file f since m = Some m' /\
    (forall k r, spec_last f since k = Some r ->
        exists h, assoc_get okey_eqb k m' = Some h /\ h_rec h = r) /\
    (forall k, spec_last f since k = None ->
        assoc_get okey_eqb k m' = assoc_get okey_eqb k m \/
        (exists h, assoc_get okey_eqb k m' = Some h /\ In (h_rec h) f /\ (r_db (h_rec h), r_key (h_rec h)) = k)).
Proof. exact query_file_complete. Qed.
Print Assumptions C12_query_file_complete.

(* any number of rotated files plus the current one *)
Theorem C12_query_all_complete : forall rotated current since,
  sorted_times (all_records rotated current) = true ->
  exists m, query_all rotated current since = Some m /\
    forall k r, spec_last (all_records rotated current) since k = Some r ->
      exists h, assoc_get okey_eqb k m = Some h /\ h_rec h = r.
Proof. exact query_all_complete. Qed.
Print Assumptions C12_query_all_complete.

(* last-operation time = time of the newest record of the current file, 0 if empty *)
Theorem C12_last_op_time : last_op_time [] = 0 /\ forall f r, last_op_time (f ++ [r]) = r_time r.
Proof. split; [exact last_op_time_nil | exact last_op_time_snoc]. Qed.
Print Assumptions C12_last_op_time.

(* writing, rotation and retention only ever append (possibly duplicating the record
   that triggered a rotation) and drop a prefix: what is retained is a suffix *)
Theorem C12_append_suffix : forall single l r,
  all_records (l_rotated (oplog_append single l r)) (l_current (oplog_append single l r))
    = all_records (l_rotated l) (l_current l) ++ [r] \/
  all_records (l_rotated (oplog_append single l r)) (l_current (oplog_append single l r))
    = all_records (l_rotated l) (l_current l) ++ [r; r].
Proof. exact append_records. Qed.
Theorem C12_reopen_keeps : forall single l,
  all_records (l_rotated (reopen single l)) (l_current (reopen single l)) = all_records (l_rotated l) (l_current l).
Proof. exact reopen_records. Qed.
Theorem C12_declutter_suffix : forall l, exists dropped,
  all_records (l_rotated l) (l_current l) = dropped ++ all_records (l_rotated (declutter l)) (l_current (declutter l)).
Proof. exact declutter_suffix. Qed.
Print Assumptions C12_declutter_suffix.

(* non-vacuity: a sorted three-file log with equal timestamps; the query at the
   repeated timestamp returns all three keys with their latest kinds *)
Definition ex_rot : list ofile :=
  [[mkRec 10 5 1 0; mkRec 10 6 1 0]; [mkRec 10 7 1 0; mkRec 12 5 1 1]].
Definition ex_cur : ofile := [mkRec 12 5 1 1; mkRec 15 6 1 0].
Example C12_example :
  sorted_times (all_records ex_rot ex_cur) = true /\
  option_map (map (fun kh => (fst kh, r_time (h_rec (snd kh)), r_op (h_rec (snd kh)))))
             (query_all ex_rot ex_cur 10)
  = Some [((1, 5), 12, 1); ((1, 6), 15, 0); ((1, 7), 10, 0)].
Proof. vm_compute. split; reflexivity. Qed.

(* known finding kept visible: with the current file rotated away at a restart the
   reported last-operation time is 0 although records exist *)
Example C12_last_op_time_after_boundary_reopen_refuted :
  let l := reopen 50 (mkLog [] [mkRec 10 5 1 0; mkRec 11 5 1 0]) in
  last_op_time (l_current l) = 0 /\ all_records (l_rotated l) (l_current l) <> [].
Proof. vm_compute. split; [reflexivity | discriminate]. Qed.

(* known finding kept visible: retention below the configured size (10 x single) *)
Example C12_retention_refuted :
  let single := 1000 in
  let recs := map (fun i => mkRec (N.of_nat i) 1 1 0) (seq 1 460) in
  let l := declutter (fold_left (oplog_append single) recs (mkLog [] [])) in
  (fold_left N.add (map file_bytes (l_current l :: l_rotated l)) 0 <? 10 * single) = true.
Proof. vm_compute. reflexivity. Qed.
