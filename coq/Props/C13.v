(* Property C13 -- arbiter databases never apply or lose a conflicting write silently (single node) *)
(* Statements only: each theorem restates the proved lemma's statement and is closed by [exact]. *)
From NunDB Require Import Model.Base Model.Pending Model.Parse Model.Node Proofs.ArbiterHttpProofs.
Local Open Scope Z_scope.

(* a conflicting versioned write is either refused with nothing changed (no arbiter registered) or held: value kept, key marked in conflict, record stored, notice delivered to every registered arbiter *)
Theorem C13_arbiter_never_silent :
  forall (n : node) (dbn : str) (d : db) (ch : change) (d0 : db) (key : str) 
           (ov ver : Z) (old : value) (st : vstate) (msgs0 : list (nat * str)),
         get_db n dbn = Some d ->
         d_strat d = SArbiter ->
         set_value d ch = (d0, RVersionError key ov ver old ch st, msgs0) ->
         has_arbiter d = false /\
         apply_change n dbn ch =
         (n, RError "An conflitct happend and there is no arbiter client not connected") \/
         has_arbiter d = true /\
         (exists (n' : node) (d' : db),
            apply_change n dbn ch = (n', RError ("$$conflitct unresolved " +++ conflict_key ch)) /\
            get_db n' dbn = Some d' /\
            (exists kv : value, get_value d' (c_key ch) = Some kv /\ v_val kv = v_val old /\ v_ver kv = -2) /\
            (let rmsg := conflict_notice dbn d ch old in
             starts_with rmsg "resolve " = true /\
             (rec_writable d (conflict_key ch) ->
              exists rec : value, get_value d' (conflict_key ch) = Some rec /\ v_val rec = rmsg) /\
             (forall a : nat,
              In a (watchers_of d "$conflicts") ->
              (a < Datatypes.length (n_sess n))%nat -> In rmsg (s_inbox (get_sess n' a))))).
Proof. exact arbiter_never_silent. Qed.
Print Assumptions C13_arbiter_never_silent.

(* the notice names the previous pending conflict of the key (the write queues behind it) with the version arithmetic of the code *)
Theorem C13_conflict_notice_text :
  forall (dbn : str) (d : db) (ch : change) (old : value),
         exists (prev : string) (cver : Z),
           conflict_notice dbn d ch old =
           "resolve " +++
           N_to_str (c_opp ch) +++
           " " +++ dbn +++ " " +++ Z_to_str cver +++ " " +++ c_key ch +++ " " +++ prev +++ " " +++ c_val ch /\
           (let pend := list_conflicts_keys (mark_conflict d (c_key ch) old) (c_key ch) in
            (v_ver old <> -2 -> prev = v_val old /\ cver = v_ver old) /\
            (v_ver old = -2 ->
             pend <> [] -> prev = last pend "" /\ cver = c_ver ch + Z.of_nat (Datatypes.length pend)) /\
            (v_ver old = -2 -> pend = [] -> prev = v_val old /\ cver = v_ver old)).
Proof. exact conflict_notice_text. Qed.
Print Assumptions C13_conflict_notice_text.

Theorem C13_conflict_key_neq :
  forall ch : change, conflict_key ch <> c_key ch.
Proof. exact conflict_key_neq. Qed.
Print Assumptions C13_conflict_key_neq.

(* every later write to a key in conflict is a conflict again (never applied directly) *)
Theorem C13_later_writes_queue :
  forall (d : db) (k : str) (old : value) (ch : change),
         get_value d k = Some old ->
         v_ver old = -2 ->
         c_ver ch <> -2 ->
         c_resolve ch = false ->
         c_key ch = k -> set_value d ch = (d, RVersionError k (-2) (c_ver ch) old ch (upd_state old), []).
Proof. exact later_writes_queue. Qed.
Print Assumptions C13_later_writes_queue.

(* resolving the last pending conflict leaves the resolution value, version+1, writable again, record marked resolved *)
Theorem C13_resolve_last :
  forall (n : node) (dbn : str) (d : db) (k v : str) (ver : Z) (opp : N) (old : value),
         get_db n dbn = Some d ->
         get_value d k = Some old ->
         v_ver old = -2 ->
         -1 <= ver < i32_max ->
         let ch := {| c_key := k; c_val := v; c_ver := ver; c_opp := opp; c_resolve := true |} in
         let d1 := fst (fst (set_value d (resolve_reg n k v opp))) in
         has_pending_conflict d1 k = false ->
         exists (n' : node) (d2 : db),
           resolve_conflict n dbn ch = (n', RSet k v) /\
           get_db n' dbn = Some d2 /\
           (exists kv : value, get_value d2 k = Some kv /\ v_val kv = v /\ v_ver kv = ver + 1 /\ v_ver kv <> -2) /\
           (rec_writable d (conflict_key ch) ->
            exists rec : value, get_value d2 (conflict_key ch) = Some rec /\ v_val rec = "resolved " +++ v).
Proof. exact resolve_last. Qed.
Print Assumptions C13_resolve_last.

(* while other conflicts are pending the key stays in conflict holding the resolved value *)
Theorem C13_resolve_pending :
  forall (n : node) (dbn : str) (d : db) (k v : str) (ver : Z) (opp : N) (old : value),
         get_db n dbn = Some d ->
         get_value d k = Some old ->
         let ch := {| c_key := k; c_val := v; c_ver := ver; c_opp := opp; c_resolve := true |} in
         let d1 := fst (fst (set_value d (resolve_reg n k v opp))) in
         has_pending_conflict d1 k = true ->
         exists (n' : node) (d2 : db),
           resolve_conflict n dbn ch = (n', RSet k v) /\
           get_db n' dbn = Some d2 /\
           (exists kv : value, get_value d2 k = Some kv /\ v_val kv = v /\ v_ver kv = -2) /\
           (rec_writable d (conflict_key ch) ->
            exists rec : value, get_value d2 (conflict_key ch) = Some rec /\ v_val rec = "resolved " +++ v).
Proof. exact resolve_pending. Qed.
Print Assumptions C13_resolve_pending.

(* a newly registered arbiter is sent exactly the unresolved records, in order; resolved records are dropped; nothing else changes *)
Theorem C13_register_arbiter_resends :
  forall (n : node) (dbn : str) (d : db) (c : nat),
         get_db n dbn = Some d ->
         NoDup (map fst (d_map d)) ->
         (c < Datatypes.length (n_sess n))%nat ->
         ~ In c (watchers_of d "$conflicts") ->
         (forall k : str, In k (list_conflicts_keys d "") -> ~ In c (watchers_of d k)) ->
         let n' := register_arbiter n dbn c in
         let L := list_conflicts_keys d "" in
         exists d' : db,
           get_db n' dbn = Some d' /\
           In c (watchers_of d' "$conflicts") /\
           (forall (k : str) (v : value),
            In k L ->
            get_value d k = Some v ->
            starts_with (v_val v) "resolved" = true ->
            match get_value d' k with
            | Some v' => v_st v' = VDeleted
            | None => True
            end) /\
           (forall (k : str) (v : value),
            In k L ->
            get_value d k = Some v -> starts_with (v_val v) "resolved" = false -> get_value d' k = Some v) /\
           (forall k : str, ~ In k L -> get_value d' k = get_value d k) /\
           s_inbox (get_sess n' c) = s_inbox (get_sess n c) ++ pending_texts d L.
Proof. exact register_arbiter_resends. Qed.
Print Assumptions C13_register_arbiter_resends.

(* side condition of the record clause is necessary (a client that itself wrote the $conflicts_ record key at version -2) *)
Theorem C13_record_needs_writable_key :
  snd (fst (set_value bad_db bad_ch)) =
         RVersionError "k" 5 3
           {| v_val := "old"; v_ver := 5; v_opp := 1; v_st := VOk; v_vaddr := 0; v_kaddr := 0 |} bad_ch
           VUpdated /\
         has_arbiter bad_db = true /\
         (let
          '(n', r) := apply_change bad_node "d" bad_ch in
           r = RError "$$conflitct unresolved $conflicts_k_7" /\
           option_map (fun d : db => option_map v_val (get_value d "$conflicts_k_7")) (get_db n' "d") =
           Some (Some "junk") /\ s_inbox (get_sess n' 0) = ["resolve 7 d 5 k old new"]).
Proof. exact record_not_stored_when_not_writable. Qed.
Print Assumptions C13_record_needs_writable_key.

(* non-vacuity: two queued conflicts resolved in order end with the last resolution, nothing pending, a new arbiter receives nothing *)
Theorem C13_arbiter_scenario :
  snd sc1 =
         [ROk; ROk; ROk; ROk; ROk; ROk; RError "$$conflitct unresolved $conflicts_k_110";
          RError "$$conflitct unresolved $conflicts_k_113"] /\
         s_inbox (get_sess (fst sc1) 0) =
         ["valid auth" +++ nlS; "create-db success" +++ nlS; "resolve 110 d3 1 k b c";
          "resolve 113 d3 1 k $conflicts_k_110 d"] /\
         key_state (fst sc1) "d3" "k" = Some ("b", -2) /\
         pending_of (fst sc1) "d3" "k" = Some true /\
         key_state (fst sc2) "d3" "k" = Some ("X", -2) /\
         key_state (fst sc2) "d3" "$conflicts_k_110" = Some ("resolved X", 1) /\
         pending_of (fst sc2) "d3" "k" = Some true /\
         key_state (fst sc3) "d3" "k" = Some ("Y", 2) /\
         key_state (fst sc3) "d3" "$conflicts_k_113" = Some ("resolved Y", 1) /\
         pending_of (fst sc3) "d3" "k" = Some false /\
         snd sc4 = [ROk; ROk] /\
         s_inbox (get_sess (fst sc4) 1) = [] /\
         key_state (fst sc4) "d3" "$conflicts_k_110" = None /\
         key_state (fst sc4) "d3" "$conflicts_k_113" = None /\
         option_map (fun d : db => watchers_of d "$conflicts") (get_db (fst sc4) "d3") = Some [0%nat; 1%nat].
Proof. exact arbiter_scenario. Qed.
Print Assumptions C13_arbiter_scenario.
