(* Property C13 -- arbiter databases never apply or lose a conflicting write silently (single node) *)
(* Statements only: each theorem restates the proved lemma's statement and is closed by [exact]. *)
From NunDB Require Import Model.Base Model.Pending Model.Parse Model.Node Proofs.ArbiterHttpProofs Model.Cluster Proofs.ConvergeProofs Proofs.ArbiterClusterProofs.
Local Open Scope Z_scope.

(* a conflicting versioned write is either refused with nothing changed (no arbiter registered) or held: value kept, key marked in conflict, record stored, notice delivered to every registered arbiter *)
Theorem C13_arbiter_never_silent :
  forall (n : node) (dbn : str) (d : db) (ch : change) (d0 : db) (key : str) 
           (ov ver : Z) (old : value) (st : vstate) (msgs0 : list (nat * str)),
         get_db n dbn = Some d ->
         d_strat d = SArbiter ->
         set_value d ch = (d0, RVersionError key ov ver old ch st, msgs0) ->
         has_arbiter d = false /\
         apply_change n dbn ch =
         (n, RError "An conflitct happend and there is no arbiter client not connected") \/
         has_arbiter d = true /\
         (exists (n' : node) (d' : db),
            apply_change n dbn ch = (n', RError ("$$conflitct unresolved " +++ conflict_key ch)) /\
            get_db n' dbn = Some d' /\
            (exists kv : value, get_value d' (c_key ch) = Some kv /\ v_val kv = v_val old /\ v_ver kv = -2) /\
            (let rmsg := conflict_notice dbn d ch old in
             starts_with rmsg "resolve " = true /\
             (rec_writable d (conflict_key ch) ->
              exists rec : value, get_value d' (conflict_key ch) = Some rec /\ v_val rec = rmsg) /\
             (forall a : nat,
              In a (watchers_of d "$conflicts") ->
              (a < Datatypes.length (n_sess n))%nat -> In rmsg (s_inbox (get_sess n' a))))).
Proof. exact arbiter_never_silent. Qed.
Print Assumptions C13_arbiter_never_silent.

(* the notice names the previous pending conflict of the key (the write queues behind it) with the version arithmetic of the code *)
Theorem C13_conflict_notice_text :
  forall (dbn : str) (d : db) (ch : change) (old : value),
         exists (prev : string) (cver : Z),
           conflict_notice dbn d ch old =
           "resolve " +++
           N_to_str (c_opp ch) +++
           " " +++ dbn +++ " " +++ Z_to_str cver +++ " " +++ c_key ch +++ " " +++ prev +++ " " +++ c_val ch /\
           (let pend := list_conflicts_keys (mark_conflict d (c_key ch) old) (c_key ch) in
            (v_ver old <> -2 -> prev = v_val old /\ cver = v_ver old) /\
            (v_ver old = -2 ->
             pend <> [] -> prev = last pend "" /\ cver = c_ver ch + Z.of_nat (Datatypes.length pend)) /\
            (v_ver old = -2 -> pend = [] -> prev = v_val old /\ cver = v_ver old)).
Proof. exact conflict_notice_text. Qed.
Print Assumptions C13_conflict_notice_text.

Theorem C13_conflict_key_neq :
  forall ch : change, conflict_key ch <> c_key ch.
Proof. exact conflict_key_neq. Qed.
Print Assumptions C13_conflict_key_neq.

(* every later write to a key in conflict is a conflict again (never applied directly) *)
Theorem C13_later_writes_queue :
  forall (d : db) (k : str) (old : value) (ch : change),
         get_value d k = Some old ->
         v_ver old = -2 ->
         c_ver ch <> -2 ->
         c_resolve ch = false ->
         c_key ch = k -> set_value d ch = (d, RVersionError k (-2) (c_ver ch) old ch (upd_state old), []).
Proof. exact later_writes_queue. Qed.
Print Assumptions C13_later_writes_queue.

(* resolving the last pending conflict leaves the resolution value, version+1, writable again, record marked resolved *)
Theorem C13_resolve_last :
  forall (n : node) (dbn : str) (d : db) (k v : str) (ver : Z) (opp : N) (old : value),
         get_db n dbn = Some d ->
         get_value d k = Some old ->
         v_ver old = -2 ->
         -1 <= ver < i32_max ->
         let ch := {| c_key := k; c_val := v; c_ver := ver; c_opp := opp; c_resolve := true |} in
         let d1 := fst (fst (set_value d (resolve_reg n k v opp))) in
         has_pending_conflict d1 k = false ->
         exists (n' : node) (d2 : db),
           resolve_conflict n dbn ch = (n', RSet k v) /\
           get_db n' dbn = Some d2 /\
           (exists kv : value, get_value d2 k = Some kv /\ v_val kv = v /\ v_ver kv = ver + 1 /\ v_ver kv <> -2) /\
           (rec_writable d (conflict_key ch) ->
            exists rec : value, get_value d2 (conflict_key ch) = Some rec /\ v_val rec = "resolved " +++ v).
Proof. exact resolve_last. Qed.
Print Assumptions C13_resolve_last.

(* while other conflicts are pending the key stays in conflict holding the resolved value *)
Theorem C13_resolve_pending :
  forall (n : node) (dbn : str) (d : db) (k v : str) (ver : Z) (opp : N) (old : value),
         get_db n dbn = Some d ->
         get_value d k = Some old ->
         let ch := {| c_key := k; c_val := v; c_ver := ver; c_opp := opp; c_resolve := true |} in
         let d1 := fst (fst (set_value d (resolve_reg n k v opp))) in
         has_pending_conflict d1 k = true ->
         exists (n' : node) (d2 : db),
           resolve_conflict n dbn ch = (n', RSet k v) /\
           get_db n' dbn = Some d2 /\
           (exists kv : value, get_value d2 k = Some kv /\ v_val kv = v /\ v_ver kv = -2) /\
           (rec_writable d (conflict_key ch) ->
            exists rec : value, get_value d2 (conflict_key ch) = Some rec /\ v_val rec = "resolved " +++ v).
Proof. exact resolve_pending. Qed.
Print Assumptions C13_resolve_pending.

(* a newly registered arbiter is sent exactly the unresolved records, in order; resolved records are dropped; nothing else changes *)
Theorem C13_register_arbiter_resends :
  forall (n : node) (dbn : str) (d : db) (c : nat),
         get_db n dbn = Some d ->
         NoDup (map fst (d_map d)) ->
         (c < Datatypes.length (n_sess n))%nat ->
         ~ In c (watchers_of d "$conflicts") ->
         (forall k : str, In k (list_conflicts_keys d "") -> ~ In c (watchers_of d k)) ->
         let n' := register_arbiter n dbn c in
         let L := list_conflicts_keys d "" in
         exists d' : db,
           get_db n' dbn = Some d' /\
           In c (watchers_of d' "$conflicts") /\
           (forall (k : str) (v : value),
            In k L ->
            get_value d k = Some v ->
            starts_with (v_val v) "resolved" = true ->
            match get_value d' k with
            | Some v' => v_st v' = VDeleted
            | None => True
            end) /\
           (forall (k : str) (v : value),
            In k L ->
            get_value d k = Some v -> starts_with (v_val v) "resolved" = false -> get_value d' k = Some v) /\
           (forall k : str, ~ In k L -> get_value d' k = get_value d k) /\
           s_inbox (get_sess n' c) = s_inbox (get_sess n c) ++ pending_texts d L.
Proof. exact register_arbiter_resends. Qed.
Print Assumptions C13_register_arbiter_resends.

(* side condition of the record clause is necessary (a client that itself wrote the $conflicts_ record key at version -2) *)
Theorem C13_record_needs_writable_key :
  snd (fst (set_value bad_db bad_ch)) =
         RVersionError "k" 5 3
           {| v_val := "old"; v_ver := 5; v_opp := 1; v_st := VOk; v_vaddr := 0; v_kaddr := 0 |} bad_ch
           VUpdated /\
         has_arbiter bad_db = true /\
         (let
          '(n', r) := apply_change bad_node "d" bad_ch in
           r = RError "$$conflitct unresolved $conflicts_k_7" /\
           option_map (fun d : db => option_map v_val (get_value d "$conflicts_k_7")) (get_db n' "d") =
           Some (Some "junk") /\ s_inbox (get_sess n' 0) = ["resolve 7 d 5 k old new"]).
Proof. exact record_not_stored_when_not_writable. Qed.
Print Assumptions C13_record_needs_writable_key.

(* non-vacuity: two queued conflicts resolved in order end with the last resolution, nothing pending, a new arbiter receives nothing *)
Theorem C13_arbiter_scenario :
  snd sc1 =
         [ROk; ROk; ROk; ROk; ROk; ROk; RError "$$conflitct unresolved $conflicts_k_110";
          RError "$$conflitct unresolved $conflicts_k_113"] /\
         s_inbox (get_sess (fst sc1) 0) =
         ["valid auth" +++ nlS; "create-db success" +++ nlS; "resolve 110 d3 1 k b c";
          "resolve 113 d3 1 k $conflicts_k_110 d"] /\
         key_state (fst sc1) "d3" "k" = Some ("b", -2) /\
         pending_of (fst sc1) "d3" "k" = Some true /\
         key_state (fst sc2) "d3" "k" = Some ("X", -2) /\
         key_state (fst sc2) "d3" "$conflicts_k_110" = Some ("resolved X", 1) /\
         pending_of (fst sc2) "d3" "k" = Some true /\
         key_state (fst sc3) "d3" "k" = Some ("Y", 2) /\
         key_state (fst sc3) "d3" "$conflicts_k_113" = Some ("resolved Y", 1) /\
         pending_of (fst sc3) "d3" "k" = Some false /\
         snd sc4 = [ROk; ROk] /\
         s_inbox (get_sess (fst sc4) 1) = [] /\
         key_state (fst sc4) "d3" "$conflicts_k_110" = None /\
         key_state (fst sc4) "d3" "$conflicts_k_113" = None /\
         option_map (fun d : db => watchers_of d "$conflicts") (get_db (fst sc4) "d3") = Some [0%nat; 1%nat].
Proof. exact arbiter_scenario. Qed.
Print Assumptions C13_arbiter_scenario.

(* cluster part. On the primary an accepted resolve queues exactly two lines for replication (the record turned 'resolved', then the resolve itself) and changes the database as db_resolve says *)
Theorem C13_resolve_queues_lines :
  forall (n : node) (c : nat) (opid : N) (dbn key value : str) (ver : Z) (d : db),
         is_primary n = true ->
         s_db (get_sess n c) = Some dbn ->
         get_db n dbn = Some d ->
         snd (handle n c (RqResolve opid dbn key value ver)) = ROk ->
         let res := exec n c (RqResolve opid dbn key value ver) in
         snd res = ROk /\
         n_repl (fst res) =
         n_repl n ++
         [rp_line (n_clock n + 1) (rec_text dbn key opid ("resolved " +++ value));
          rp_line (n_clock n + 2) (resolve_text opid dbn key ver value)] /\
         get_db (fst res) dbn = Some (db_resolve d key value ver opid (n_clock n)) /\
         n_clock (fst res) = (n_clock n + 3)%N /\ frame n (fst res).
Proof. exact resolve_queues_lines. Qed.
Print Assumptions C13_resolve_queues_lines.

(* what db_resolve does: record -> 'resolved <value>', key -> the value, writable again exactly when nothing else is pending *)
Theorem C13_db_resolve_effect :
  forall (d : db) (key value0 : str) (ver : Z) (opid clk : N) (old : value),
         nodup_db d ->
         rec_writable d (rec_key key opid) ->
         get_value d key = Some old ->
         -2 <= ver ->
         (v_ver old <> -2 -> v_ver old < i32_max) ->
         let d' := db_resolve d key value0 ver opid clk in
         kval d' (rec_key key opid) = Some ("resolved " +++ value0) /\
         kstate d' key = Some (value0, res_ver (has_pending_conflict d' key) (v_ver old) ver) /\
         (forall k : str, k <> key -> k <> rec_key key opid -> get_value d' k = get_value d k).
Proof. exact db_resolve_effect. Qed.
Print Assumptions C13_db_resolve_effect.

(* a conflicting write on the primary queues one line (the record); the key keeps its value, marked in conflict *)
Theorem C13_conflict_queues_lines :
  forall (n : node) (c : nat) (key value0 : str) (ver : Z) (dbn : str) (d : db) (old : value),
         is_primary n = true ->
         guard_safe n c key PWrite = GGo dbn d ->
         d_strat d = SArbiter ->
         has_arbiter d = true ->
         get_value d key = Some old ->
         ver_refused {| c_key := key; c_val := value0; c_ver := ver; c_opp := n_clock n; c_resolve := false |}
           old = true ->
         let rmsg :=
           conflict_notice dbn d
             {| c_key := key; c_val := value0; c_ver := ver; c_opp := n_clock n; c_resolve := false |} old in
         let res := exec n c (RqSet key value0 ver) in
         snd res = RError ("$$conflitct unresolved " +++ rec_key key (n_clock n)) /\
         n_repl (fst res) = n_repl n ++ [rp_line (n_clock n + 2) (rec_text dbn key (n_clock n) rmsg)] /\
         get_db (fst res) dbn = Some (db_conflict d key old (rec_key key (n_clock n)) rmsg (n_clock n + 1)) /\
         n_clock (fst res) = (n_clock n + 3)%N /\ frame n (fst res).
Proof. exact conflict_queues_lines. Qed.
Print Assumptions C13_conflict_queues_lines.

(* a replica in agreement before executes the two queued lines and is in agreement after: same value, same version, still in conflict exactly when the primary is *)
Theorem C13_resolve_lines_apply_on_secondary :
  forall (s : node) (l : nat) (opid : N) (dbn key value : str) (ver : Z) (dp ds : db) (cp : N),
         (opid < 2 ^ 64)%N ->
         simple_tok dbn ->
         simple_tok key ->
         ClusterProofs.no_nl value ->
         ClusterProofs.no_semi_end value ->
         ClusterProofs.is_i32 ver ->
         s_auth (get_sess s l) = true ->
         sess_is_primary (get_sess s l) = true ->
         get_db s dbn = Some ds ->
         nodup_db dp ->
         nodup_db ds ->
         rec_writable dp (rec_key key opid) ->
         rec_writable ds (rec_key key opid) ->
         agree key dp ds ->
         let s' :=
           run_reqs s l [rec_text dbn key opid ("resolved " +++ value); resolve_text opid dbn key ver value] in
         exists ds' : db,
           get_db s' dbn = Some ds' /\
           nodup_db ds' /\
           agree key (db_resolve dp key value ver opid cp) ds' /\
           has_pending_conflict ds' key = has_pending_conflict (db_resolve dp key value ver opid cp) key /\
           same_sess s s' /\ n_role s' = n_role s.
Proof. exact resolve_lines_apply_on_secondary. Qed.
Print Assumptions C13_resolve_lines_apply_on_secondary.

(* the same through the link (rp envelope, acknowledgement) *)
Theorem C13_resolve_lines_delivered :
  forall (s : node) (l : nat) (id1 id2 opid : N) (dbn key value : str) (ver : Z) (dp ds : db) (cp : N),
         (id1 < 2 ^ 64)%N ->
         (id2 < 2 ^ 64)%N ->
         (opid < 2 ^ 64)%N ->
         simple_tok dbn ->
         simple_tok key ->
         ClusterProofs.no_nl value ->
         ClusterProofs.no_semi_end value ->
         ClusterProofs.is_i32 ver ->
         s_auth (get_sess s l) = true ->
         sess_is_primary (get_sess s l) = true ->
         get_db s dbn = Some ds ->
         nodup_db dp ->
         nodup_db ds ->
         rec_writable dp (rec_key key opid) ->
         rec_writable ds (rec_key key opid) ->
         agree key dp ds ->
         let s1 := deliver_node s l (rp_line id1 (rec_text dbn key opid ("resolved " +++ value))) in
         let s2 := deliver_node s1 l (rp_line id2 (resolve_text opid dbn key ver value)) in
         exists ds' : db,
           get_db s2 dbn = Some ds' /\
           nodup_db ds' /\
           agree key (db_resolve dp key value ver opid cp) ds' /\
           has_pending_conflict ds' key = has_pending_conflict (db_resolve dp key value ver opid cp) key /\
           same_sess s s2.
Proof. exact resolve_lines_delivered. Qed.
Print Assumptions C13_resolve_lines_delivered.

(* the replica stores the record of a conflict with the same text; its key is NOT marked (see the refutation below): values and pending records agree *)
Theorem C13_conflict_lines_apply_on_secondary :
  forall (s : node) (l : nat) (dbn key : str) (opid : N) (rmsg : str) (dp ds : db) 
           (old : value) (cp : N),
         simple_tok dbn ->
         simple_tok key ->
         ClusterProofs.no_nl rmsg ->
         ClusterProofs.no_semi_end rmsg ->
         s_auth (get_sess s l) = true ->
         get_db s dbn = Some ds ->
         nodup_db dp ->
         nodup_db ds ->
         vagree key dp ds ->
         get_value dp key = Some old ->
         rec_writable dp (rec_key key opid) ->
         rec_writable ds (rec_key key opid) ->
         let s' := run_reqs s l [rec_text dbn key opid rmsg] in
         let dp' := db_conflict dp key old (rec_key key opid) rmsg cp in
         exists ds' : db,
           get_db s' dbn = Some ds' /\
           nodup_db ds' /\
           nodup_db dp' /\
           kstate dp' key = Some (v_val old, -2) /\
           kstate ds' key = kstate ds key /\
           kval dp' (rec_key key opid) = Some rmsg /\
           kval ds' (rec_key key opid) = Some rmsg /\
           vagree key dp' ds' /\ same_sess s s' /\ n_role s' = n_role s.
Proof. exact conflict_lines_apply_on_secondary. Qed.
Print Assumptions C13_conflict_lines_apply_on_secondary.

(* refutation of the stronger reading: after a conflict the primary holds k at version -2, the replica still at its old version *)
Theorem C13_replica_key_not_marked_refuted :
  n_repl (fst ex_st1) = n_repl ex_p0 ++ ["rp 22 replicate d $conflicts_k_20 -1 resolve 20 d 1 k b c"] /\
         option_map (fun d : db => kstate d "k") (get_db (fst ex_st1) "d") = Some (Some ("b", -2)) /\
         option_map (fun d : db => kstate d "k") (get_db (snd ex_st1) "d") = Some (Some ("b", 1)).
Proof. exact replica_key_not_marked. Qed.
Print Assumptions C13_replica_key_not_marked_refuted.

(* any sequence of conflicts and resolutions of a key executed on the primary, each followed by its queued lines on the replica: both hold the same value, the value of the last resolution, and the same pending records *)
Theorem C13_replica_holds_resolution :
  forall (c l : nat) (dbn key : str),
         simple_tok dbn ->
         simple_tok key ->
         forall (B : Z) (n s : node) (evs : list aev),
         PInv c l dbn key B n s ->
         ok_run c l dbn key B (n, s) evs ->
         B + 2 * Z.of_nat (Datatypes.length evs) < i32_max ->
         let ns' := run c l dbn key (n, s) evs in
         exists dp' ds' : db,
           get_db (fst ns') dbn = Some dp' /\
           get_db (snd ns') dbn = Some ds' /\
           kval ds' key = kval dp' key /\
           kval dp' key = last_res evs (kval_n dbn key n) /\
           has_pending_conflict ds' key = has_pending_conflict dp' key /\
           (forall ck : str, pend_text ds' key ck = pend_text dp' key ck).
Proof. exact C13_replica_holds_resolution. Qed.
Print Assumptions C13_replica_holds_resolution.

Theorem C13_replica_after_resolve :
  forall (c l : nat) (dbn key : str),
         simple_tok dbn ->
         simple_tok key ->
         forall (B : Z) (n s : node) (evs : list aev) (opid : N) (v : str) (ver : Z),
         PInv c l dbn key B n s ->
         ok_run c l dbn key B (n, s) (evs ++ [AResolve opid v ver]) ->
         B + 2 * Z.of_nat (Datatypes.length (evs ++ [AResolve opid v ver])) < i32_max ->
         let ns' := run c l dbn key (n, s) (evs ++ [AResolve opid v ver]) in
         exists dp' ds' : db,
           get_db (fst ns') dbn = Some dp' /\
           get_db (snd ns') dbn = Some ds' /\
           kval dp' key = Some v /\
           kval ds' key = Some v /\ has_pending_conflict ds' key = has_pending_conflict dp' key.
Proof. exact C13_replica_after_resolve. Qed.
Print Assumptions C13_replica_after_resolve.

(* with an arbiter that answers the version it was quoted, the replica's version equals the primary's whenever the key is free *)
Theorem C13_replica_version :
  forall (c l : nat) (dbn key : str),
         simple_tok dbn ->
         simple_tok key ->
         forall (B : Z) (n s : node) (evs : list aev),
         PInv c l dbn key B n s ->
         ok_run c l dbn key B (n, s) evs ->
         faithful_run c l dbn key (n, s) evs ->
         B + 2 * Z.of_nat (Datatypes.length evs) < i32_max ->
         vcoupled dbn key n s ->
         let ns' := run c l dbn key (n, s) evs in
         forall dp' ds' : db,
         get_db (fst ns') dbn = Some dp' ->
         get_db (snd ns') dbn = Some ds' -> kver dp' key <> Some (-2) -> kstate ds' key = kstate dp' key.
Proof. exact C13_replica_version. Qed.
Print Assumptions C13_replica_version.

(* an arbiter answering another version: same value, different versions (primary 8, replica 2) *)
Theorem C13_replica_version_differs :
  aev_ok 0 "d" "k" 7 (fst ex_st1) (AResolve 20 "X" 7) /\
         option_map (fun d : db => kstate d "k") (get_db (fst ex_st2_bad) "d") = Some (Some ("X", 8)) /\
         option_map (fun d : db => kstate d "k") (get_db (snd ex_st2_bad) "d") = Some (Some ("X", 2)).
Proof. exact replica_version_differs. Qed.
Print Assumptions C13_replica_version_differs.

(* the resolved record is written twice on a replica: record versions differ (1 vs 2) *)
Theorem C13_record_versions_differ :
  option_map (fun d : db => kstate d "$conflicts_k_20") (get_db (fst ex_st2_good) "d") =
         Some (Some ("resolved X", 1)) /\
         option_map (fun d : db => kstate d "$conflicts_k_20") (get_db (snd ex_st2_good) "d") =
         Some (Some ("resolved X", 2)).
Proof. exact record_versions_differ. Qed.
Print Assumptions C13_record_versions_differ.

(* the records of a key are exactly the live keys starting with $conflicts_<key>_, whatever characters the key contains (fix: keys containing '*') *)
Theorem C13_list_conflicts_keys_iff :
  forall (d : db) (key k : str),
         nodup_db d ->
         In k (list_conflicts_keys d key) <->
         (exists v : value,
            get_value d k = Some v /\
            vstate_eqb (v_st v) VDeleted = false /\ starts_with k (rec_prefix key) = true).
Proof. exact list_conflicts_keys_iff. Qed.
Print Assumptions C13_list_conflicts_keys_iff.

(* key a*b: two queued conflicts stay pending until both are resolved *)
Theorem C13_star_key_conflicts_queue :
  option_map
           (fun d : db =>
            (kstate d "a*b", kval d "$conflicts_a*b_24", kval d "$conflicts_a*b_27",
             list_conflicts_keys d "a*b", has_pending_conflict d "a*b")) (get_db ex_star1 "d") =
         Some
           (Some ("X", -2), Some "resolved X", Some "resolve 27 d 1 a*b $conflicts_a*b_24 e",
            ["$conflicts_a*b_24"; "$conflicts_a*b_27"], true) /\
         option_map (fun d : db => (kstate d "a*b", kval d "$conflicts_a*b_27", has_pending_conflict d "a*b"))
           (get_db ex_star2 "d") = Some (Some ("Y", 2), Some "resolved Y", false).
Proof. exact star_key_conflicts_queue. Qed.
Print Assumptions C13_star_key_conflicts_queue.

(* the hypotheses of the run theorem are satisfiable (concrete pair of nodes) *)
Theorem C13_run_example :
  exists dp' ds' : db,
           get_db (fst (run 0 0 "d" "k" (ex_p0, ex_s0) ex_evs)) "d" = Some dp' /\
           get_db (snd (run 0 0 "d" "k" (ex_p0, ex_s0) ex_evs)) "d" = Some ds' /\
           kval dp' "k" = Some "Y" /\
           kval ds' "k" = Some "Y" /\ has_pending_conflict ds' "k" = has_pending_conflict dp' "k".
Proof. exact ex_run_theorem. Qed.
Print Assumptions C13_run_example.
