(* Property C20 -- HTTP replies line up, entry by entry, with the commands that caused them *)
(* Statements only: each theorem restates the proved lemma's statement and is closed by [exact]. *)
From NunDB Require Import Model.Base Model.Pending Model.Parse Model.Node Proofs.ArbiterHttpProofs.
Local Open Scope Z_scope.

(* every command of the HTTP set queues at most one line for the issuing (fresh) session and leaves it watching nothing *)
Theorem C20_one_message :
  forall (n : node) (c : nat) (line : str) (rq : request),
         quiet n c ->
         in_http_set rq = true ->
         parse_request (trim_char nl line) = POk rq ->
         let
         '(n', _) := step n c line in
          (Datatypes.length (s_inbox (get_sess n' c)) <= 1)%nat /\
          (forall (dbn : str) (d : db) (k : str), get_db n' dbn = Some d -> ~ In c (watchers_of d k)).
Proof. exact one_message. Qed.
Print Assumptions C20_one_message.

(* the HTTP reply equals the reference that runs each statement on an emptied inbox and takes its own entry: one entry per non-blank statement, in order, each produced by its own command *)
Theorem C20_http_aligned :
  forall (n : node) (c : nat) (cmds acc : list str),
         quiet n c ->
         Forall (fun cmd : str => stmt_ok (trim cmd)) cmds ->
         let (n2, o) := http_ref n c cmds in
         match o with
         | Some es =>
             http_commands n c cmds acc = (fst (drain n2 c), Some (acc ++ es)) /\
             Datatypes.length es = nonblank cmds
         | None => http_commands n c cmds acc = (n2, None)
         end.
Proof. exact http_aligned. Qed.
Print Assumptions C20_http_aligned.

Theorem C20_http_length :
  forall (n : node) (c : nat) (cmds acc : list str) (n' : node) (out : list str),
         quiet n c ->
         Forall (fun cmd : str => stmt_ok (trim cmd)) cmds ->
         http_commands n c cmds acc = (n', Some out) ->
         Datatypes.length out = (Datatypes.length acc + nonblank cmds)%nat.
Proof. exact http_length. Qed.
Print Assumptions C20_http_length.

(* after the request the HTTP session watches nothing and every connection counter is back to its previous value *)
Theorem C20_http_released :
  forall (n : node) (body : str),
         let c := Datatypes.length (n_sess n) in
         (forall (dbn : str) (d : db) (k : str), get_db n dbn = Some d -> ~ In c (watchers_of d k)) ->
         Forall (fun cmd : str => stmt_ok (trim cmd)) (split_char ";" body) ->
         let n' := fst (http_request n body) in
         (forall (dbn : str) (d : db) (k : str), get_db n' dbn = Some d -> ~ In c (watchers_of d k)) /\
         (forall (x : str) (d : db),
          get_db n x = Some d -> exists d' : db, get_db n' x = Some d' /\ d_conn d' = d_conn d) /\
         (forall x : str, conn_of n' x = conn_of n x).
Proof. exact http_released. Qed.
Print Assumptions C20_http_released.

Theorem C20_example :
  Forall (fun cmd : str => stmt_ok (trim cmd)) (split_char ";" ex_body) /\
         nowatch ex_node (Datatypes.length (n_sess ex_node)) /\
         snd (http_request ex_node ex_body) =
         Some
           ["valid auth" +++ nlS; "create-db success" +++ nlS; "empty"; "empty"; "value v" +++ nlS;
            "unknown command: bogus"; "empty"; "empty"; "empty"; "keys ,$$token,$connections,i" +++ nlS;
            "value-version 1 2" +++ nlS] /\
         nonblank (split_char ";" ex_body) = 11%nat /\
         map (conn_of (fst (http_request ex_node ex_body))) ["$admin"; "d1"] = [0; 0].
Proof. exact http_example. Qed.
Print Assumptions C20_example.
