(* Property C20 -- HTTP replies line up, entry by entry, with the commands that caused them *)
(* Statements only: each theorem restates the proved lemma's statement and is closed by [exact]. *)
From NunDB Require Import Model.Base Model.Pending Model.Parse Model.Node Proofs.ArbiterHttpProofs Model.Net Proofs.GuardProofs Proofs.NetProofs Proofs.NetProofs2.
Local Open Scope Z_scope.

(* every command of the HTTP set queues at most one line for the issuing (fresh) session and leaves it watching nothing *)
Theorem C20_one_message :
  forall (n : node) (c : nat) (line : str) (rq : request),
         quiet n c ->
         in_http_set rq = true ->
         parse_request (trim_char nl line) = POk rq ->
         let
         '(n', _) := step n c line in
          (Datatypes.length (s_inbox (get_sess n' c)) <= 1)%nat /\
          (forall (dbn : str) (d : db) (k : str), get_db n' dbn = Some d -> ~ In c (watchers_of d k)).
Proof. exact one_message. Qed.
Print Assumptions C20_one_message.

(* the HTTP reply equals the reference that runs each statement on an emptied inbox and takes its own entry: one entry per non-blank statement, in order, each produced by its own command *)
Theorem C20_http_aligned :
  forall (n : node) (c : nat) (cmds acc : list str),
         quiet n c ->
         Forall (fun cmd : str => stmt_ok (trim cmd)) cmds ->
         let (n2, o) := http_ref n c cmds in
         match o with
         | Some es =>
             http_commands n c cmds acc = (fst (drain n2 c), Some (acc ++ es)) /\
             Datatypes.length es = nonblank cmds
         | None => http_commands n c cmds acc = (n2, None)
         end.
Proof. exact http_aligned. Qed.
Print Assumptions C20_http_aligned.

Theorem C20_http_length :
  forall (n : node) (c : nat) (cmds acc : list str) (n' : node) (out : list str),
         quiet n c ->
         Forall (fun cmd : str => stmt_ok (trim cmd)) cmds ->
         http_commands n c cmds acc = (n', Some out) ->
         Datatypes.length out = (Datatypes.length acc + nonblank cmds)%nat.
Proof. exact http_length. Qed.
Print Assumptions C20_http_length.

(* after the request the HTTP session watches nothing and every connection counter is back to its previous value *)
Theorem C20_http_released :
  forall (n : node) (body : str),
         let c := Datatypes.length (n_sess n) in
         (forall (dbn : str) (d : db) (k : str), get_db n dbn = Some d -> ~ In c (watchers_of d k)) ->
         Forall (fun cmd : str => stmt_ok (trim cmd)) (split_char ";" body) ->
         let n' := fst (http_request n body) in
         (forall (dbn : str) (d : db) (k : str), get_db n' dbn = Some d -> ~ In c (watchers_of d k)) /\
         (forall (x : str) (d : db),
          get_db n x = Some d -> exists d' : db, get_db n' x = Some d' /\ d_conn d' = d_conn d) /\
         (forall x : str, conn_of n' x = conn_of n x).
Proof. exact http_released. Qed.
Print Assumptions C20_http_released.

Theorem C20_example :
  Forall (fun cmd : str => stmt_ok (trim cmd)) (split_char ";" ex_body) /\
         nowatch ArbiterHttpProofs.ex_node (Datatypes.length (n_sess ArbiterHttpProofs.ex_node)) /\
         snd (http_request ArbiterHttpProofs.ex_node ex_body) =
         Some
           ["valid auth" +++ nlS; "create-db success" +++ nlS; "empty"; "empty"; "value v" +++ nlS;
            "unknown command: bogus"; "empty"; "empty"; "empty"; "keys ,$$token,$connections,i" +++ nlS;
            "value-version 1 2" +++ nlS] /\
         nonblank (split_char ";" ex_body) = 11%nat /\
         map (conn_of (fst (http_request ArbiterHttpProofs.ex_node ex_body))) ["$admin"; "d1"] = [0; 0].
Proof. exact http_example. Qed.
Print Assumptions C20_example.

(* one WebSocket frame 'a;b' is frame a followed by frame b: executed once each, in order, each answered by its own terminator *)
Theorem C20_ws_frame_seq :
  forall (n : node) (c : nat) (a b : str),
         utf8_valid a = true ->
         utf8_valid b = true ->
         ws_frame n c (a +++ ";" +++ b) =
         match ws_frame n c a with
         | (n1, Serving) => ws_frame n1 c b
         | (n1, ThreadDied) => (n1, ThreadDied)
         end.
Proof. exact ws_frame_seq. Qed.
Print Assumptions C20_ws_frame_seq.

(* a frame without ';' is one command and one terminator *)
Theorem C20_ws_frame_single :
  forall (n : node) (c : nat) (p : str),
         AdminInv n ->
         utf8_valid p = true ->
         (forall i : nat, get i p <> Some ";"%char) ->
         ws_frame n c p = (send (fst (step n c p)) c (term_ws (snd (step n c p))), Serving).
Proof. exact ws_frame_single. Qed.
Print Assumptions C20_ws_frame_single.

(* n commands in one frame = the n commands one after the other *)
Theorem C20_ws_frame_cmds :
  forall (cmds : list str) (n : node) (c : nat),
         AdminInv n ->
         cmds <> [] ->
         Forall cmd_ok cmds -> ws_frame n c (join ";" cmds) = (fold_left (ws_one c) cmds n, Serving).
Proof. exact ws_frame_cmds. Qed.
Print Assumptions C20_ws_frame_cmds.

(* a concrete frame of five commands: the inbox holds each command's own messages and terminator in order *)
Theorem C20_ws_frame_five_commands :
  snd (connect (init_node "u" "p" "a" 1 Primary 0)) = 0%nat /\
         ex_frame = join ";" ex_cmds /\
         snd (ws_frame ex_node 0 ex_frame) = Serving /\
         s_inbox (get_sess (fst (ws_frame ex_node 0 ex_frame)) 0) =
         ["valid auth" +++ nlS; okT; "create-db success" +++ nlS; okT; okT; okT; "value v" +++ nlS; okT] /\
         own_outputs ex_node 0 ex_cmds =
         [["valid auth" +++ nlS; okT]; ["create-db success" +++ nlS; okT]; [okT]; [okT];
          ["value v" +++ nlS; okT]] /\
         s_inbox (get_sess (fst (ws_frame ex_node 0 ex_frame)) 0) = concat (own_outputs ex_node 0 ex_cmds) /\
         fst (ws_frame ex_node 0 ex_frame) =
         fold_left (fun (n : node) (p : str) => fst (ws_frame n 0 p)) ex_cmds ex_node.
Proof. exact ws_frame_five_commands. Qed.
Print Assumptions C20_ws_frame_five_commands.

(* a valid frame cut at ';' gives valid commands *)
Theorem C20_utf8_valid_app_inv :
  forall a b : string, utf8_valid (a +++ ";" +++ b) = true -> utf8_valid a = true /\ utf8_valid b = true.
Proof. exact utf8_valid_app_inv. Qed.
Print Assumptions C20_utf8_valid_app_inv.
