(* Property C17 -- $connections equals the number of open sessions on the database *)
(* Statements only: each theorem restates the proved lemma's statement and is closed by [exact]. *)
From NunDB Require Import Model.Base Model.Pending Model.Parse Model.Node Proofs.ConnProofs Model.Net Proofs.NetProofs Proofs.NetProofs2 Model.Sched Proofs.SchedProofs Proofs.ConnSchedProofs.
Local Open Scope Z_scope.

(* ConnInv: for every database the counter equals the number of OPEN sessions that selected it (and every selection names an existing database) *)
Theorem C17_conn_init :
  forall (u p a : str) (pid : N) (r : role) (c0 : N), ConnInv (init_node u p a pid r c0, []).
Proof. exact conn_init. Qed.
Print Assumptions C17_conn_init.

(* preserved by connect, ANY command line from an open session (rp-wrapped ones included) and disconnect *)
Theorem C17_conn_step :
  forall (st : node * list nat) (e : nev), ConnInv st -> ev_ok (snd st) e = true -> ConnInv (nstep st e).
Proof. exact conn_step. Qed.
Print Assumptions C17_conn_step.

(* HEADLINE: holds after every history, any number of sessions and databases *)
Theorem C17_conn_run :
  forall (evs : list nev) (st : node * list nat),
         ConnInv st -> run_ok st evs = true -> ConnInv (fold_left nstep evs st).
Proof. exact conn_run. Qed.
Print Assumptions C17_conn_run.

(* the counter never underflows *)
Theorem C17_conn_never_negative :
  forall (st : node * list nat) (evs : list nev),
         ConnInv st ->
         run_ok st evs = true ->
         forall (dbn : str) (d : db), get_db (fst (fold_left nstep evs st)) dbn = Some d -> 0 <= d_conn d.
Proof. exact conn_never_negative. Qed.
Print Assumptions C17_conn_never_negative.

(* after any burst of sessions has gone the counters are back at their previous values *)
Theorem C17_conn_back_to_previous :
  forall (st : node * list nat) (evs : list nev),
         ConnInv st ->
         run_ok st evs = true ->
         let final := fold_left nstep evs st in
         snd final = snd st ->
         (forall c : nat, In c (snd st) -> s_db (get_sess (fst final) c) = s_db (get_sess (fst st) c)) ->
         forall (dbn : str) (d : db),
         get_db (fst st) dbn = Some d ->
         exists d' : db, get_db (fst final) dbn = Some d' /\ d_conn d' = d_conn d.
Proof. exact conn_back_to_previous. Qed.
Print Assumptions C17_conn_back_to_previous.

Theorem C17_usedb_wrong_token_noop :
  forall (n : node) (c : nat) (token name : str) (user : option str) (n' : node) (msg : str),
         handle n c (RqUseDb token name user) = (n', RError msg) -> n' = n.
Proof. exact usedb_wrong_token_noop. Qed.
Print Assumptions C17_usedb_wrong_token_noop.

(* the $connections data key shows the counter after connection-management histories (version budget hypothesis: the key's version must not reach i32::MAX) *)
Theorem C17_conn_key_run :
  forall (st : node * list nat) (evs : list nev) (B : Z),
         conn_key_ok (fst st) ->
         VerInv B (fst st) ->
         0 <= B ->
         B + 2 * Z.of_nat (Datatypes.length evs) <= i32_max ->
         Forall conn_cmd evs -> conn_key_ok (fst (fold_left nstep evs st)).
Proof. exact conn_key_run. Qed.
Print Assumptions C17_conn_key_run.

Theorem C17_conn_key_run_from_init :
  forall (u p a : str) (pid : N) (r : role) (c0 : N) (evs : list nev),
         2 * Z.of_nat (Datatypes.length evs) <= i32_max ->
         Forall conn_cmd evs -> conn_key_ok (fst (fold_left nstep evs (init_node u p a pid r c0, []))).
Proof. exact conn_key_run_from_init. Qed.
Print Assumptions C17_conn_key_run_from_init.

(* watchers of $connections see each change *)
Theorem C17_conn_watchers_notified :
  forall (n : node) (c : nat) (t name : str) (u : option str) (n' : node),
         handle n c (RqUseDb t name u) = (n', ROk) ->
         forall d1 : db,
         get_db (release_previous n c) name = Some d1 ->
         writable d1 ->
         let ver := match get_value d1 ckey with
                    | Some v => v_ver v + 1
                    | None => 0
                    end in
         forall s : nat,
         (s < Datatypes.length (n_sess n))%nat ->
         s_inbox (get_sess n' s) =
         s_inbox (get_sess (release_previous n c) s) ++
         concat
           (repeat (notify_lines ckey (Z_to_str (d_conn d1 + 1)) ver)
              (count_occ Nat.eq_dec (watchers_of d1 ckey) s)).
Proof. exact conn_watchers_notified. Qed.
Print Assumptions C17_conn_watchers_notified.

Theorem C17_conn_full_run :
  forall (u p a : str) (pid : N) (r : role) (c0 : N) (evs : list nev),
         let st := (init_node u p a pid r c0, []) in
         run_ok st evs = true ->
         Forall conn_cmd evs ->
         2 * Z.of_nat (Datatypes.length evs) <= i32_max ->
         ConnInv (fold_left nstep evs st) /\ conn_key_ok (fst (fold_left nstep evs st)).
Proof. exact conn_full_run. Qed.
Print Assumptions C17_conn_full_run.

(* kept visible: a client that writes $connections itself with version 2147483646 freezes the key (outside the quantifier: clients do not write the key) *)
Theorem C17_key_stuck_at_saturated_version_refuted :
  conn_key_ok (fst kx_sat) /\
         Forall conn_cmd kx_run /\
         run_ok kx_sat kx_run = true /\ ~ conn_key_ok (fst (fold_left nstep kx_run kx_sat)).
Proof. exact conn_key_stuck_at_saturated_version. Qed.
Print Assumptions C17_key_stuck_at_saturated_version_refuted.

Theorem C17_inv_needs_sel_exists :
  ConnInv0 (cex_node, [0%nat]) /\
         ev_ok [0%nat] (ECmd 0 "create-db foo tok") = true /\
         ~ ConnInv0 (nstep (cex_node, [0%nat]) (ECmd 0 "create-db foo tok")).
Proof. exact conn_inv_needs_sel_exists. Qed.
Print Assumptions C17_inv_needs_sel_exists.

(* the counter invariant over the transports: a TCP line, a WebSocket frame, an HTTP request (any bytes), the end of a connection *)
Theorem C17_net_conn_step :
  forall (st : node * list nat) (e : net_ev),
         ConnInv st -> net_ev_ok (snd st) e = true -> ConnInv (net_nstep st e).
Proof. exact net_conn_step. Qed.
Print Assumptions C17_net_conn_step.

Theorem C17_net_conn_run :
  forall (evs : list net_ev) (st : node * list nat),
         ConnInv st -> net_run_ok st evs = true -> ConnInv (fold_left net_nstep evs st).
Proof. exact net_conn_run. Qed.
Print Assumptions C17_net_conn_run.

(* from a fresh node, after any sequence of transport events, every database's counter equals the number of open connections that selected it *)
Theorem C17_net_conn_run_from_init :
  forall (u p a : str) (pid : N) (r : role) (c0 : N) (evs : list net_ev),
         net_run_ok (init_node u p a pid r c0, []) evs = true ->
         ConnInv (fold_left net_nstep evs (init_node u p a pid r c0, [])).
Proof. exact net_conn_run_from_init. Qed.
Print Assumptions C17_net_conn_run_from_init.

(* every interleaving at lock granularity: sessions that select (and so leave) databases at the same time, any number of them, any schedule: when every command has finished, the $connections key of every database says what its counter says *)
Theorem C17_sched_key_agrees :
  forall (n : node) (ts : list thr) (sched : list nat) (B : Z),
         Forall usedb_thr ts ->
         VerInv B n ->
         0 <= B ->
         B + Z.of_nat (Datatypes.length sched) <= i32_max ->
         PubInv n ts ->
         all_done (snd (run_schedule n ts sched)) ->
         forall (D : str) (d : db), get_db (fst (run_schedule n ts sched)) D = Some d -> key_agrees d.
Proof. exact C17_sched_key_agrees. Qed.
Print Assumptions C17_sched_key_agrees.

(* and the counter equals the number of sessions that selected the database (invariant along the schedule: minus the sessions that were counted out but still carry the old selection) *)
Theorem C17_sched_counter_agrees :
  forall (n : node) (ts : list thr) (sched : list nat) (B : Z) (op : list nat),
         Forall usedb_thr ts ->
         VerInv B n ->
         0 <= B ->
         B + Z.of_nat (Datatypes.length sched) <= i32_max ->
         PubInv n ts ->
         CntInv n ts op ->
         let n' := fst (run_schedule n ts sched) in
         let ts' := snd (run_schedule n ts sched) in
         CntInv n' ts' op /\
         (all_done ts' ->
          forall (D : str) (d : db),
          get_db n' D = Some d -> d_conn d = Z.of_nat (Datatypes.length (selected n' op D))).
Proof. exact C17_sched_counter_agrees. Qed.
Print Assumptions C17_sched_counter_agrees.

(* with termination: run_par finishes every use-db thread (every publish loop ends) and both equalities hold at the end *)
Theorem C17_sched_run_par :
  forall (n : node) (ts : list thr) (sched : list nat) (B : Z) (op : list nat),
         Forall usedb_thr ts ->
         VerInv B n ->
         0 <= B ->
         B + Z.of_nat (Datatypes.length sched + thread_fuel ts + 64) <= i32_max ->
         PubInv n ts ->
         CntInv n ts op ->
         (3 * Datatypes.length ts <= 64)%nat ->
         let n' := fst (run_par n ts sched) in
         let ts' := snd (run_par n ts sched) in
         all_done ts' /\
         (forall (D : str) (d : db),
          get_db n' D = Some d -> key_agrees d /\ d_conn d = Z.of_nat (Datatypes.length (selected n' op D))).
Proof. exact C17_run_par. Qed.
Print Assumptions C17_sched_run_par.

(* a use-db released alone does exactly what the sequential handler does, in 1 / 2 / 4 / 6 releases *)
Theorem C17_sched_usedb_sequential :
  forall (n : node) (t : thr) (line : str) (rest : list str) (tok name : str) 
           (user : option str) (B : Z),
         let c := t_sid t in
         t_pc t = PcCmd ->
         t_prog t = line :: rest ->
         parse_request (trim_char nl line) = POk (RqUseDb tok name user) ->
         VerInv B n ->
         0 <= B ->
         B + 1 < i32_max ->
         (c < Datatypes.length (n_sess n))%nat ->
         (forall p : str, s_db (get_sess n c) = Some p -> get_db n p <> None) ->
         exists (k : nat) (t' : thr),
           (k <= 6)%nat /\
           run_alone k n t = (fst (step n c line), t') /\
           t_replies t' = t_replies t ++ [snd (step n c line)] /\
           t_prog t' = rest /\
           at_boundary t' /\
           t_sid t' = c /\
           t_hints t' = t_hints t /\
           k =
           match get_db n name with
           | Some d =>
               if
                match get_value d match user with
                                  | Some u => "$$user_" +++ u
                                  | None => "$$token"
                                  end with
                | Some v => (v_val v =? tok)%string
                | None => false
                end
               then match s_db (get_sess n c) with
                    | Some _ => 6%nat
                    | None => 4%nat
                    end
               else 2%nat
           | None => 1%nat
           end.
Proof. exact usedb_sequential. Qed.
Print Assumptions C17_sched_usedb_sequential.

(* every release of a use-db thread is one of five steps (idle, count out, count in, write, restart) *)
Theorem C17_sched_release_ustep :
  forall (B : Z) (n : node) (t : thr),
         usedb_thr t -> VerInv B n -> 0 <= B < i32_max -> ustep n t (fst (release n t)) (snd (release n t)).
Proof. exact release_ustep. Qed.
Print Assumptions C17_sched_release_ustep.

(* the repaired race: thread 1 reads the counter, thread 2 arrives and publishes 3, thread 1 writes its stale 2 -- and, because of the re-check, publishes again: 3 *)
Theorem C17_race_without_recheck :
  rx_look rx_node = Some (Some "1", 1) /\
         map t_pc (snd (run_schedule rx_node rx_ts [0%nat; 0%nat])) =
         [PcPub "d" 2 6 (KFinish (RqUseDb "t1" "d" None) ROk); PcCmd] /\
         rx_look (fst (run_schedule rx_node rx_ts [0%nat; 0%nat; 1%nat; 1%nat; 1%nat; 1%nat])) =
         Some (Some "3", 3) /\
         map is_done (snd (run_schedule rx_node rx_ts [0%nat; 0%nat; 1%nat; 1%nat; 1%nat; 1%nat])) =
         [false; true] /\
         rx_look (fst (run_schedule rx_node rx_ts [0%nat; 0%nat; 1%nat; 1%nat; 1%nat; 1%nat; 0%nat])) =
         Some (Some "2", 3) /\
         map t_pc (snd (run_schedule rx_node rx_ts [0%nat; 0%nat; 1%nat; 1%nat; 1%nat; 1%nat; 0%nat])) =
         [PcPubNotify "d" 2 2 (KFinish (RqUseDb "t1" "d" None) ROk); PcDone] /\
         rx_look
           (fst
              (run_schedule rx_node rx_ts
                 [0%nat; 0%nat; 1%nat; 1%nat; 1%nat; 1%nat; 0%nat; 0%nat; 0%nat; 0%nat])) = 
         Some (Some "3", 3) /\
         map (fun t : thr => (t_pc t, t_trace t, t_replies t))
           (snd
              (run_schedule rx_node rx_ts
                 [0%nat; 0%nat; 1%nat; 1%nat; 1%nat; 1%nat; 0%nat; 0%nat; 0%nat; 0%nat])) =
         [(PcDone, ["cmd"; "map.read"; "map.write"; "watchers.read"; "map.write"; "watchers.read"], [ROk]);
          (PcDone, ["cmd"; "map.read"; "map.write"; "watchers.read"], [ROk])] /\
         rx_look (fst (run_par rx_node rx_ts [0%nat; 0%nat; 1%nat; 1%nat; 1%nat; 1%nat])) = Some (Some "3", 3).
Proof. exact C17_race_without_recheck. Qed.
Print Assumptions C17_race_without_recheck.

(* the version budget cannot be dropped: at version i32::MAX the write of the key is refused and the key stays behind (the recorded saturation finding) *)
Theorem C17_sched_key_stuck_saturated :
  Forall usedb_thr sx_ts /\
         PubInv sx_node sx_ts /\
         all_done (snd (run_schedule sx_node sx_ts [0%nat; 0%nat; 0%nat; 0%nat])) /\
         option_map (fun d : db => (key_of_db d, d_conn d, option_map v_ver (get_value d ckey)))
           (get_db (fst (run_schedule sx_node sx_ts [0%nat; 0%nat; 0%nat; 0%nat])) "$admin") =
         Some (Some "1", 2, Some i32_max).
Proof. exact C17_sched_key_stuck_saturated. Qed.
Print Assumptions C17_sched_key_stuck_saturated.

(* the hypotheses are satisfiable: two sessions on a concrete node, every schedule *)
Theorem C17_two_sessions_any_schedule :
  forall sched : list nat,
         Z.of_nat (Datatypes.length sched) <= 2000000000 ->
         let n' := fst (run_par rx_node rx_ts sched) in
         all_done (snd (run_par rx_node rx_ts sched)) /\
         (forall (D : str) (d : db),
          get_db n' D = Some d ->
          key_agrees d /\ d_conn d = Z.of_nat (Datatypes.length (selected n' [0%nat; 1%nat; 2%nat] D))).
Proof. exact C17_two_sessions_any_schedule. Qed.
Print Assumptions C17_two_sessions_any_schedule.
