(* Property C17 -- $connections equals the number of open sessions on the database *)
(* Statements only: each theorem restates the proved lemma's statement and is closed by [exact]. *)
From NunDB Require Import Model.Base Model.Pending Model.Parse Model.Node Proofs.ConnProofs Model.Net Proofs.NetProofs Proofs.NetProofs2.
Local Open Scope Z_scope.

(* ConnInv: for every database the counter equals the number of OPEN sessions that selected it (and every selection names an existing database) *)
Theorem C17_conn_init :
  forall (u p a : str) (pid : N) (r : role) (c0 : N), ConnInv (init_node u p a pid r c0, []).
Proof. exact conn_init. Qed.
Print Assumptions C17_conn_init.

(* preserved by connect, ANY command line from an open session (rp-wrapped ones included) and disconnect *)
Theorem C17_conn_step :
  forall (st : node * list nat) (e : nev), ConnInv st -> ev_ok (snd st) e = true -> ConnInv (nstep st e).
Proof. exact conn_step. Qed.
Print Assumptions C17_conn_step.

(* HEADLINE: holds after every history, any number of sessions and databases *)
Theorem C17_conn_run :
  forall (evs : list nev) (st : node * list nat),
         ConnInv st -> run_ok st evs = true -> ConnInv (fold_left nstep evs st).
Proof. exact conn_run. Qed.
Print Assumptions C17_conn_run.

(* the counter never underflows *)
Theorem C17_conn_never_negative :
  forall (st : node * list nat) (evs : list nev),
         ConnInv st ->
         run_ok st evs = true ->
         forall (dbn : str) (d : db), get_db (fst (fold_left nstep evs st)) dbn = Some d -> 0 <= d_conn d.
Proof. exact conn_never_negative. Qed.
Print Assumptions C17_conn_never_negative.

(* after any burst of sessions has gone the counters are back at their previous values *)
Theorem C17_conn_back_to_previous :
  forall (st : node * list nat) (evs : list nev),
         ConnInv st ->
         run_ok st evs = true ->
         let final := fold_left nstep evs st in
         snd final = snd st ->
         (forall c : nat, In c (snd st) -> s_db (get_sess (fst final) c) = s_db (get_sess (fst st) c)) ->
         forall (dbn : str) (d : db),
         get_db (fst st) dbn = Some d ->
         exists d' : db, get_db (fst final) dbn = Some d' /\ d_conn d' = d_conn d.
Proof. exact conn_back_to_previous. Qed.
Print Assumptions C17_conn_back_to_previous.

Theorem C17_usedb_wrong_token_noop :
  forall (n : node) (c : nat) (token name : str) (user : option str) (n' : node) (msg : str),
         handle n c (RqUseDb token name user) = (n', RError msg) -> n' = n.
Proof. exact usedb_wrong_token_noop. Qed.
Print Assumptions C17_usedb_wrong_token_noop.

(* the $connections data key shows the counter after connection-management histories (version budget hypothesis: the key's version must not reach i32::MAX) *)
Theorem C17_conn_key_run :
  forall (st : node * list nat) (evs : list nev) (B : Z),
         conn_key_ok (fst st) ->
         VerInv B (fst st) ->
         0 <= B ->
         B + 2 * Z.of_nat (Datatypes.length evs) <= i32_max ->
         Forall conn_cmd evs -> conn_key_ok (fst (fold_left nstep evs st)).
Proof. exact conn_key_run. Qed.
Print Assumptions C17_conn_key_run.

Theorem C17_conn_key_run_from_init :
  forall (u p a : str) (pid : N) (r : role) (c0 : N) (evs : list nev),
         2 * Z.of_nat (Datatypes.length evs) <= i32_max ->
         Forall conn_cmd evs -> conn_key_ok (fst (fold_left nstep evs (init_node u p a pid r c0, []))).
Proof. exact conn_key_run_from_init. Qed.
Print Assumptions C17_conn_key_run_from_init.

(* watchers of $connections see each change *)
Theorem C17_conn_watchers_notified :
  forall (n : node) (c : nat) (t name : str) (u : option str) (n' : node),
         handle n c (RqUseDb t name u) = (n', ROk) ->
         forall d1 : db,
         get_db (release_previous n c) name = Some d1 ->
         writable d1 ->
         let ver := match get_value d1 ckey with
                    | Some v => v_ver v + 1
                    | None => 0
                    end in
         forall s : nat,
         (s < Datatypes.length (n_sess n))%nat ->
         s_inbox (get_sess n' s) =
         s_inbox (get_sess (release_previous n c) s) ++
         concat
           (repeat (notify_lines ckey (Z_to_str (d_conn d1 + 1)) ver)
              (count_occ Nat.eq_dec (watchers_of d1 ckey) s)).
Proof. exact conn_watchers_notified. Qed.
Print Assumptions C17_conn_watchers_notified.

Theorem C17_conn_full_run :
  forall (u p a : str) (pid : N) (r : role) (c0 : N) (evs : list nev),
         let st := (init_node u p a pid r c0, []) in
         run_ok st evs = true ->
         Forall conn_cmd evs ->
         2 * Z.of_nat (Datatypes.length evs) <= i32_max ->
         ConnInv (fold_left nstep evs st) /\ conn_key_ok (fst (fold_left nstep evs st)).
Proof. exact conn_full_run. Qed.
Print Assumptions C17_conn_full_run.

(* kept visible: a client that writes $connections itself with version 2147483646 freezes the key (outside the quantifier: clients do not write the key) *)
Theorem C17_key_stuck_at_saturated_version_refuted :
  conn_key_ok (fst kx_sat) /\
         Forall conn_cmd kx_run /\
         run_ok kx_sat kx_run = true /\ ~ conn_key_ok (fst (fold_left nstep kx_run kx_sat)).
Proof. exact conn_key_stuck_at_saturated_version. Qed.
Print Assumptions C17_key_stuck_at_saturated_version_refuted.

Theorem C17_inv_needs_sel_exists :
  ConnInv0 (cex_node, [0%nat]) /\
         ev_ok [0%nat] (ECmd 0 "create-db foo tok") = true /\
         ~ ConnInv0 (nstep (cex_node, [0%nat]) (ECmd 0 "create-db foo tok")).
Proof. exact conn_inv_needs_sel_exists. Qed.
Print Assumptions C17_inv_needs_sel_exists.

(* the counter invariant over the transports: a TCP line, a WebSocket frame, an HTTP request (any bytes), the end of a connection *)
Theorem C17_net_conn_step :
  forall (st : node * list nat) (e : net_ev),
         ConnInv st -> net_ev_ok (snd st) e = true -> ConnInv (net_nstep st e).
Proof. exact net_conn_step. Qed.
Print Assumptions C17_net_conn_step.

Theorem C17_net_conn_run :
  forall (evs : list net_ev) (st : node * list nat),
         ConnInv st -> net_run_ok st evs = true -> ConnInv (fold_left net_nstep evs st).
Proof. exact net_conn_run. Qed.
Print Assumptions C17_net_conn_run.

(* from a fresh node, after any sequence of transport events, every database's counter equals the number of open connections that selected it *)
Theorem C17_net_conn_run_from_init :
  forall (u p a : str) (pid : N) (r : role) (c0 : N) (evs : list net_ev),
         net_run_ok (init_node u p a pid r c0, []) evs = true ->
         ConnInv (fold_left net_nstep evs (init_node u p a pid r c0, [])).
Proof. exact net_conn_run_from_init. Qed.
Print Assumptions C17_net_conn_run_from_init.
