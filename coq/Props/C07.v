(* Property C07 -- elections end with exactly one primary, the oldest node, and all agree (false of nun-db: proved refuted by witnesses; what does hold of the wait loops is proved) *)
(* Statements only: each theorem restates the proved lemma's statement and is closed by [exact]. *)
From NunDB Require Import Model.Base Model.Pending Model.Oplog Model.Parse Model.Node Model.Cluster Model.Election Proofs.ElectionProofs Proofs.TwoNodeProofs.
Local Open Scope list_scope.

(* UNBOUNDED: every blocked election call returns after at most its measure of wake-ups, whatever the other threads do to the node in between *)
Theorem C07_frame_terminates :
  forall (timeout : N) (ns : list node) (f : frame),
         (Datatypes.length ns > fmeasure timeout f)%nat -> exists n' : node, wakes timeout ns f = FDone n'.
Proof. exact frame_terminates. Qed.
Print Assumptions C07_frame_terminates.

(* explicit bound: timeout + 2 wake-ups (tight at timeout 20) *)
Theorem C07_frame_terminates_bound :
  forall (timeout : N) (ns : list node) (f : frame),
         (Datatypes.length ns >= N.to_nat timeout + 2)%nat -> exists n' : node, wakes timeout ns f = FDone n'.
Proof. exact frame_terminates_bound. Qed.
Print Assumptions C07_frame_terminates_bound.

Theorem C07_frame_wake_progress :
  forall (timeout : N) (n : node) (f f' : frame),
         frame_wake timeout n f = FSleep f' ->
         (fmeasure timeout f' < fmeasure timeout f)%nat /\ f_t f' <= timeout + 2 /\ same_call f f'.
Proof. exact frame_wake_progress. Qed.
Print Assumptions C07_frame_wake_progress.

(* a scheduler tick never increases the total remaining wake-ups of the blocked calls *)
Theorem C07_tick_frames_progress :
  forall e : ecl,
         keys_nodup (e_frames e) ->
         e_timeout (tick_frames e) = e_timeout e /\
         keys_nodup (e_frames (tick_frames e)) /\
         (weight (e_timeout e) (e_frames (tick_frames e)) <= weight (e_timeout e) (e_frames e))%nat /\
         (forall (f : frame) (r : list frame),
          e_frames e = f :: r ->
          node_of (e_c e) (f_node f) <> None ->
          (weight (e_timeout e) (e_frames (tick_frames e)) < weight (e_timeout e) (e_frames e))%nat).
Proof. exact tick_frames_progress. Qed.
Print Assumptions C07_tick_frames_progress.

(* a blocked call ends either unchanged or by election_win (role Primary, 'election-win self' queued) *)
Theorem C07_frame_done_role :
  forall (timeout : N) (n : node) (f : frame) (n' : node),
         frame_wake timeout n f = FDone n' \/ frame_start timeout n f = FDone n' ->
         n' = n \/ n' = election_win n /\ n_role n' = Primary /\ n_sup n' = n_sup n ++ ["election-win self"].
Proof. exact frame_done_role. Qed.
Print Assumptions C07_frame_done_role.

(* the mechanism of the second primary: a node that is no longer StartingUp still claims the primacy exactly when one of its two wait loops times out *)
Theorem C07_claims_without_eligibility :
  forall (timeout : N) (n : node) (f : frame),
         frame_wake timeout n f = FDone (election_win n) /\ is_eligible n = false <->
         is_eligible n = false /\
         (f_phase f = PRegister /\ pending_get n (f_id f) = None /\ timeout <= f_t f + 2 \/
          f_phase f = PAcks /\ timeout < f_t f + 2).
Proof. exact claims_without_eligibility. Qed.
Print Assumptions C07_claims_without_eligibility.

(* the decision on a candidate message; an older node runs start_election without becoming StartingUp *)
Theorem C07_election_eval_rule :
  forall (n : node) (cand : N),
         (cand = n_pid n -> election_eval n cand = n) /\
         (n_pid n < cand ->
          election_eval n cand = start_election n /\
          ((1 < Datatypes.length (n_members n))%nat ->
           n_role (election_eval n cand) = n_role n /\
           n_repl (election_eval n cand) = n_repl n ++ [stamped n (candidate_msg n)] /\
           n_sup (election_eval n cand) = n_sup n /\ n_members (election_eval n cand) = n_members n)) /\
         (cand < n_pid n ->
          n_role (election_eval n cand) = Secondary /\
          n_repl (election_eval n cand) = n_repl n ++ [stamped n ("election alive " +++ n_addr n)] /\
          n_sup (election_eval n cand) = n_sup n /\ n_members (election_eval n cand) = n_members n).
Proof. exact election_eval_rule. Qed.
Print Assumptions C07_election_eval_rule.

(* a Secondary's replication thread sends nothing: its own candidate message never leaves (H7.1) *)
Theorem C07_secondary_no_fanout :
  forall (x : cnode) (msg : str),
         n_role (cn_node x) = Secondary ->
         n_members (cn_node (repl_one x msg)) = n_members (cn_node x) /\
         n_pending (cn_node (repl_one x msg)) = n_pending (cn_node x).
Proof. exact secondary_no_fanout. Qed.
Print Assumptions C07_secondary_no_fanout.

Theorem C07_single_node_wins_at_once :
  forall n : node, (Datatypes.length (n_members n) <= 1)%nat -> start_election n = election_win n.
Proof. exact single_node_wins_at_once. Qed.
Print Assumptions C07_single_node_wins_at_once.

(* non-vacuity: a 2-node cluster formed by one join ends with the joined-to node primary and both tables agreeing *)
Theorem C07_sequential_formation_ok :
  let r := esettle 200 (cmd two_nodes "n1" 0 "join n2") in
         snd r = true /\
         roles (fst r) = [("n1", Primary); ("n2", Secondary)] /\
         member_tables (fst r) =
         [("n1", [("n2", Secondary); ("n1", Primary)]); ("n2", [("n1", Primary); ("n2", Secondary)])].
Proof. exact C07_sequential_formation_ok. Qed.
Print Assumptions C07_sequential_formation_ok.

Theorem C07_formed3_ok :
  roles formed3 = [("n1", Primary); ("n2", Secondary); ("n3", Secondary)] /\
         e_frames formed3 = [] /\
         member_tables formed3 =
         [("n1", [("n2", Secondary); ("n1", Primary); ("n3", Secondary)]);
          ("n2", [("n1", Primary); ("n2", Secondary); ("n3", Secondary)]);
          ("n3", [("n1", Primary); ("n2", Secondary); ("n3", Secondary)])].
Proof. exact C07_formed3_ok. Qed.
Print Assumptions C07_formed3_ok.

(* REFUTED (known finding): the node that is asked to join first wins, whatever its age *)
Theorem C07_younger_node_wins_refuted :
  pids two_nodes = [("n1", 100); ("n2", 200)] /\
         (let r := esettle 3000 (cmd two_nodes "n2" 0 "join n1") in
          snd r = true /\
          roles (fst r) = [("n1", Secondary); ("n2", Primary)] /\
          member_tables (fst r) =
          [("n1", [("n2", Primary); ("n1", Secondary)]); ("n2", [("n1", Secondary); ("n2", Primary)])]) /\
         (let r := esettle 3000 (cmd (fst (esettle 200 (cmd two_nodes "n2" 0 "join n1"))) "n1" 0 "join n2") in
          snd r = true /\ roles (fst r) = [("n1", Secondary); ("n2", Primary)]).
Proof. exact C07_younger_node_wins_refuted. Qed.
Print Assumptions C07_younger_node_wins_refuted.

(* REFUTED (known finding): a quiescent 3-node cluster with two primaries *)
Theorem C07_two_primaries_refuted :
  let e := cmd (cmd (cmd three_nodes_b "n1" 0 "join n2") "n1" 0 "join n3") "n3" 1 "debug force-election"
           in
         let r := esettle 3000 e in
         snd r = true /\
         e_frames (fst r) = [] /\
         roles (fst r) = [("n1", Primary); ("n2", Secondary); ("n3", Primary)] /\
         member_tables (fst r) =
         [("n1", [("n2", Secondary); ("n1", Primary); ("n3", Secondary)]);
          ("n2", [("n1", Secondary); ("n2", Secondary); ("n3", Primary)]);
          ("n3", [("n3", Primary); ("n2", Secondary)])].
Proof. exact C07_two_primaries_refuted. Qed.
Print Assumptions C07_two_primaries_refuted.

(* REFUTED (known finding), bounded evidence: a forced election in a formed 3-node cluster is not quiescent after 3000 scheduler rounds (150 election timeouts); by C07_tick_frames_progress no call blocks forever, new elections keep starting *)
Theorem C07_no_quiescence_refuted :
  let r := esettle 3000 (cmd formed3 "n3" 1 "debug force-election") in
         snd r = false /\ e_frames (fst r) <> [].
Proof. exact C07_no_quiescence_refuted. Qed.
Print Assumptions C07_no_quiescence_refuted.

Theorem C07_no_quiescence_frames :
  let e := fst (esettle 600 (cmd formed3 "n3" 1 "debug force-election")) in
         keys_nodup (e_frames e) /\
         Datatypes.length (e_frames e) = 2%nat /\ (weight (e_timeout e) (e_frames e) <= 2 * (20 + 2))%nat.
Proof. exact C07_no_quiescence_frames. Qed.
Print Assumptions C07_no_quiescence_frames.

(* two nodes, ALL process ids and timeouts: a join sent to n1 ends (3 scheduler rounds) at a quiescent state with no blocked call, exactly one primary (n1), n2 secondary, and both member tables saying so *)
Theorem C07_two_nodes_form :
  forall pa pb timeout : N,
         pa <> pb ->
         0 < timeout ->
         pa < 2 ^ 64 ->
         pb < 2 ^ 64 ->
         let e0 := two pa pb timeout in
         exists F : nat,
           forall fuel : nat,
           (F <= fuel)%nat ->
           let r := esettle fuel (cmd e0 "n1" 0 "join n2") in
           let e1 := fst r in
           snd r = true /\
           quiescent e1 /\
           esettle_round e1 = (e1, false) /\
           e_frames e1 = [] /\
           roles e1 = [("n1", Primary); ("n2", Secondary)] /\
           member_tables e1 =
           [("n1", [("n2", Secondary); ("n1", Primary)]); ("n2", [("n1", Primary); ("n2", Secondary)])].
Proof. exact C07_two_nodes_form. Qed.
Print Assumptions C07_two_nodes_form.

(* the same with no hypothesis on pids or timeout at all *)
Theorem C07_two_nodes_form_any :
  forall pa pb timeout : N,
         let e0 := two pa pb timeout in
         exists F : nat,
           forall fuel : nat,
           (F <= fuel)%nat ->
           let r := esettle fuel (cmd e0 "n1" 0 "join n2") in
           let e1 := fst r in
           snd r = true /\
           quiescent e1 /\
           esettle_round e1 = (e1, false) /\
           e_frames e1 = [] /\
           roles e1 = [("n1", Primary); ("n2", Secondary)] /\
           member_tables e1 =
           [("n1", [("n2", Secondary); ("n1", Primary)]); ("n2", [("n1", Primary); ("n2", Secondary)])].
Proof. exact C07_two_nodes_form_any. Qed.
Print Assumptions C07_two_nodes_form_any.

(* every member table names exactly the primaries that exist *)
Theorem C07_two_nodes_agree :
  forall pa pb timeout : N,
         exists F : nat,
           forall fuel : nat,
           (F <= fuel)%nat ->
           let e1 := fst (esettle fuel (cmd (two pa pb timeout) "n1" 0 "join n2")) in
           primaries e1 = ["n1"] /\
           map fst (member_tables e1) = ["n1"; "n2"] /\
           (forall (nm : str) (t : list (str * role)),
            In (nm, t) (member_tables e1) -> table_primaries t = primaries e1).
Proof. exact C07_two_nodes_agree. Qed.
Print Assumptions C07_two_nodes_agree.

(* the node that was asked wins whatever its age: the primary is the oldest node iff pa < pb (the recorded finding 'primary-is-not-the-oldest' for all pids) *)
Theorem C07_two_nodes_oldest_iff :
  forall pa pb timeout : N,
         pa <> pb ->
         exists F : nat,
           forall fuel : nat,
           (F <= fuel)%nat ->
           let e1 := fst (esettle fuel (cmd (two pa pb timeout) "n1" 0 "join n2")) in
           primaries e1 = ["n1"] /\
           (forall nm : str, In nm (primaries e1) -> is_oldest e1 nm <-> older pa pb) /\
           (older pb pa -> is_oldest e1 "n2" /\ In ("n2", Secondary) (roles e1) /\ ~ is_oldest e1 "n1").
Proof. exact C07_two_nodes_oldest_iff. Qed.
Print Assumptions C07_two_nodes_oldest_iff.

(* the mirror image: asking n2 makes n2 the primary *)
Theorem C07_two_nodes_form_asked_n2 :
  forall pa pb timeout : N,
         exists F : nat,
           forall fuel : nat,
           (F <= fuel)%nat ->
           let r := esettle fuel (cmd (two pa pb timeout) "n2" 0 "join n1") in
           let e1 := fst r in
           snd r = true /\
           quiescent e1 /\
           e_frames e1 = [] /\
           roles e1 = [("n1", Secondary); ("n2", Primary)] /\
           member_tables e1 =
           [("n1", [("n2", Primary); ("n1", Secondary)]); ("n2", [("n1", Secondary); ("n2", Primary)])].
Proof. exact C07_two_nodes_form_asked_n2. Qed.
Print Assumptions C07_two_nodes_form_asked_n2.

(* apart from the pid and timeout fields the final state is one fixed state *)
Theorem C07_two_nodes_pid_independent :
  forall pa pb timeout : N, erase_pids (formed pa pb timeout) = erase_pids (formed 100 200 20).
Proof. exact C07_two_nodes_pid_independent. Qed.
Print Assumptions C07_two_nodes_pid_independent.

(* at a quiescent state no link can move a line *)
Theorem C07_quiescent_no_link_step :
  forall (e : ecl) (i : nat), quiescent e -> edeliver e i = None /\ ereply e i = None.
Proof. exact quiescent_no_link_step. Qed.
Print Assumptions C07_quiescent_no_link_step.

(* instance with the younger node asked *)
Theorem C07_two_nodes_form_200_100 :
  let r := esettle 200 (cmd (mk_ecl [("n1", 200, K1); ("n2", 100, K2)]) "n1" 0 "join n2") in
         snd r = true /\
         e_frames (fst r) = [] /\
         roles (fst r) = [("n1", Primary); ("n2", Secondary)] /\ pids (fst r) = [("n1", 200); ("n2", 100)].
Proof. exact C07_two_nodes_form_200_100. Qed.
Print Assumptions C07_two_nodes_form_200_100.
