(* Property C02 -- set-safe is compare-and-set; versions only grow (sequential part) *)
(* Statements only: each theorem restates the proved lemma's statement and is closed by [exact]. *)
From NunDB Require Import Model.Base Model.Pending Model.Parse Model.Node Proofs.DbProofs.
Local Open Scope Z_scope.

(* a versioned write to an existing key succeeds exactly when its version is -1 (plain set) or not older than the stored one *)
Theorem C02_cas_iff :
  forall (d : db) (k : str) (old : value) (ch : change),
         get_value d k = Some old ->
         v_ver old <> -2 ->
         v_ver old < i32_max ->
         c_key ch = k ->
         c_resolve ch = false ->
         -1 <= c_ver ch ->
         (exists (d' : db) (msgs : list (nat * str)), set_value d ch = (d', RSet k (c_val ch), msgs)) <->
         c_ver ch = -1 \/ v_ver old <= c_ver ch.
Proof. exact cas_iff. Qed.
Print Assumptions C02_cas_iff.

(* and leaves a strictly higher version *)
Theorem C02_cas_version :
  forall (d : db) (k : str) (old : value) (ch : change) (d' : db) (v : str) (msgs : list (nat * str)),
         get_value d k = Some old ->
         v_ver old <> -2 ->
         v_ver old < i32_max ->
         c_key ch = k ->
         c_resolve ch = false ->
         -1 <= c_ver ch ->
         set_value d ch = (d', RSet k v, msgs) ->
         exists nv : value,
           get_value d' k = Some nv /\
           v_ver nv = (if c_ver ch =? -1 then v_ver old + 1 else sat_succ (c_ver ch)) /\ v_ver old < v_ver nv.
Proof. exact cas_version. Qed.
Print Assumptions C02_cas_version.

(* to an absent key it always succeeds *)
Theorem C02_absent_succeeds :
  forall (d : db) (ch : change),
         get_value d (c_key ch) = None ->
         exists (d' : db) (msgs : list (nat * str)),
           set_value d ch = (d', RSet (c_key ch) (c_val ch), msgs) /\
           (exists nv : value, get_value d' (c_key ch) = Some nv /\ v_ver nv = sat_succ (c_ver ch)).
Proof. exact absent_succeeds. Qed.
Print Assumptions C02_absent_succeeds.

(* no operation lowers a key's version; a successful mutation of the key raises it *)
Theorem C02_version_step :
  forall (d : db) (k : str) (old : value) (o : dop) (nw : value),
         dop_ver_ok o ->
         get_value d k = Some old ->
         get_value (db_apply d o) k = Some nw ->
         v_ver old <= i32_max ->
         v_ver old <= v_ver nw /\
         (v_ver old < i32_max -> resp_ok (dop_resp d o) = true -> dop_key o = k -> v_ver old < v_ver nw).
Proof. exact version_step. Qed.
Print Assumptions C02_version_step.

(* over any history during which the key stays in existence *)
Theorem C02_versions_monotone_seq :
  forall (k : str) (ops : list dop) (d : db) (old : value),
         run_ok k d ops ->
         get_value d k = Some old ->
         v_ver old <= i32_max ->
         exists nw : value, get_value (fold_left db_apply ops d) k = Some nw /\ v_ver old <= v_ver nw.
Proof. exact versions_monotone_seq. Qed.
Print Assumptions C02_versions_monotone_seq.

(* the version grows by at least the number of successful mutations *)
Theorem C02_versions_strict_seq :
  forall (k : str) (ops : list dop) (d : db) (old : value),
         run_strict k d ops ->
         get_value d k = Some old ->
         exists nw : value,
           get_value (fold_left db_apply ops d) k = Some nw /\ v_ver old + successes k d ops <= v_ver nw.
Proof. exact versions_strict_seq. Qed.
Print Assumptions C02_versions_strict_seq.

Theorem C02_run_okb_ok :
  forall (k : str) (ops : list dop) (d : db), run_okb k d ops = true -> run_ok k d ops.
Proof. exact run_okb_ok. Qed.
Print Assumptions C02_run_okb_ok.

(* kept visible: the internal marker -2 as a client version is accepted and lowers the version (outside the quantifier) *)
Theorem C02_minus2_lowers_version_refuted :
  let d :=
           fst
             (fst
                (set_value (empty_db 0 SNone)
                   {| c_key := "k"; c_val := "a"; c_ver := 5; c_opp := 1; c_resolve := false |})) in
         let d' := db_apply d (DSet "k" "b" (-2) 2) in
         option_map v_ver (get_value d "k") = Some 6 /\ option_map v_ver (get_value d' "k") = Some (-2).
Proof. exact set_minus2_lowers_version. Qed.
Print Assumptions C02_minus2_lowers_version_refuted.
