(* Property C02 -- set-safe is compare-and-set; versions only grow (sequential part) *)
(* Statements only: each theorem restates the proved lemma's statement and is closed by [exact]. *)
From NunDB Require Import Model.Base Model.Pending Model.Parse Model.Node Proofs.DbProofs Model.Sched Proofs.SchedProofs.
Local Open Scope Z_scope.

(* a versioned write to an existing key succeeds exactly when its version is -1 (plain set) or not older than the stored one *)
Theorem C02_cas_iff :
  forall (d : db) (k : str) (old : value) (ch : change),
         get_value d k = Some old ->
         v_ver old <> -2 ->
         v_ver old < i32_max ->
         c_key ch = k ->
         c_resolve ch = false ->
         -1 <= c_ver ch ->
         (exists (d' : db) (msgs : list (nat * str)), set_value d ch = (d', RSet k (c_val ch), msgs)) <->
         c_ver ch = -1 \/ v_ver old <= c_ver ch.
Proof. exact cas_iff. Qed.
Print Assumptions C02_cas_iff.

(* and leaves a strictly higher version *)
Theorem C02_cas_version :
  forall (d : db) (k : str) (old : value) (ch : change) (d' : db) (v : str) (msgs : list (nat * str)),
         get_value d k = Some old ->
         v_ver old <> -2 ->
         v_ver old < i32_max ->
         c_key ch = k ->
         c_resolve ch = false ->
         -1 <= c_ver ch ->
         set_value d ch = (d', RSet k v, msgs) ->
         exists nv : value,
           get_value d' k = Some nv /\
           v_ver nv = (if c_ver ch =? -1 then v_ver old + 1 else sat_succ (c_ver ch)) /\ v_ver old < v_ver nv.
Proof. exact cas_version. Qed.
Print Assumptions C02_cas_version.

(* to an absent key it always succeeds *)
Theorem C02_absent_succeeds :
  forall (d : db) (ch : change),
         get_value d (c_key ch) = None ->
         exists (d' : db) (msgs : list (nat * str)),
           set_value d ch = (d', RSet (c_key ch) (c_val ch), msgs) /\
           (exists nv : value, get_value d' (c_key ch) = Some nv /\ v_ver nv = sat_succ (c_ver ch)).
Proof. exact absent_succeeds. Qed.
Print Assumptions C02_absent_succeeds.

(* no operation lowers a key's version; a successful mutation of the key raises it *)
Theorem C02_version_step :
  forall (d : db) (k : str) (old : value) (o : dop) (nw : value),
         dop_ver_ok o ->
         get_value d k = Some old ->
         get_value (db_apply d o) k = Some nw ->
         v_ver old <= i32_max ->
         v_ver old <= v_ver nw /\
         (v_ver old < i32_max -> resp_ok (dop_resp d o) = true -> dop_key o = k -> v_ver old < v_ver nw).
Proof. exact version_step. Qed.
Print Assumptions C02_version_step.

(* over any history during which the key stays in existence *)
Theorem C02_versions_monotone_seq :
  forall (k : str) (ops : list dop) (d : db) (old : value),
         run_ok k d ops ->
         get_value d k = Some old ->
         v_ver old <= i32_max ->
         exists nw : value, get_value (fold_left db_apply ops d) k = Some nw /\ v_ver old <= v_ver nw.
Proof. exact versions_monotone_seq. Qed.
Print Assumptions C02_versions_monotone_seq.

(* the version grows by at least the number of successful mutations *)
Theorem C02_versions_strict_seq :
  forall (k : str) (ops : list dop) (d : db) (old : value),
         run_strict k d ops ->
         get_value d k = Some old ->
         exists nw : value,
           get_value (fold_left db_apply ops d) k = Some nw /\ v_ver old + successes k d ops <= v_ver nw.
Proof. exact versions_strict_seq. Qed.
Print Assumptions C02_versions_strict_seq.

Theorem C02_run_okb_ok :
  forall (k : str) (ops : list dop) (d : db), run_okb k d ops = true -> run_ok k d ops.
Proof. exact run_okb_ok. Qed.
Print Assumptions C02_run_okb_ok.

(* kept visible: the internal marker -2 as a client version is accepted and lowers the version (outside the quantifier) *)
Theorem C02_minus2_lowers_version_refuted :
  let d :=
           fst
             (fst
                (set_value (empty_db 0 SNone)
                   {| c_key := "k"; c_val := "a"; c_ver := 5; c_opp := 1; c_resolve := false |})) in
         let d' := db_apply d (DSet "k" "b" (-2) 2) in
         option_map v_ver (get_value d "k") = Some 6 /\ option_map v_ver (get_value d' "k") = Some (-2).
Proof. exact set_minus2_lowers_version. Qed.
Print Assumptions C02_minus2_lowers_version_refuted.

(* one released step of a scheduled thread changes the database by exactly its data operation (or nothing): the atomic step of the interleaving model *)
Theorem C02_sched_release_data :
  forall (n : node) (t : thr),
         sched_thr t ->
         (forall (dbn : str) (o : dop') (d : db),
          data_op n t = Some (dbn, o) ->
          get_db n dbn = Some d ->
          (exists d' : db,
             get_db (fst (release n t)) dbn = Some d' /\
             d' = db_apply' d o /\ d_map d' = d_map (db_apply' d o) /\ d_watch d' = d_watch d) /\
          (forall x : str, x <> dbn -> get_db (fst (release n t)) x = get_db n x)) /\
         (forall (dbn : str) (o : dop'),
          data_op n t = Some (dbn, o) ->
          get_db n dbn = None -> forall x : str, get_db (fst (release n t)) x = get_db n x) /\
         (data_op n t = None ->
          forall x : str, option_map d_map (get_db (fst (release n t)) x) = option_map d_map (get_db n x)).
Proof. exact release_data. Qed.
Print Assumptions C02_sched_release_data.

(* UNBOUNDED INTERLEAVINGS: after any schedule of any number of threads the database content is the sequential replay of the data log in release order (linearizability of the map) *)
Theorem C02_sched_schedule_data :
  forall (n : node) (ts : list thr) (sched : list nat) (dbn : str),
         Forall sched_thr ts ->
         option_map d_map (get_db (fst (run_schedule n ts sched)) dbn) =
         option_map d_map
           (option_map (fun d : db => fold_left db_apply' (ops_on dbn (data_log n ts sched)) d) (get_db n dbn)).
Proof. exact schedule_data. Qed.
Print Assumptions C02_sched_schedule_data.

Theorem C02_sched_par_data :
  forall (n : node) (ts : list thr) (sched : list nat) (dbn : str),
         Forall sched_thr ts ->
         option_map d_map (get_db (fst (run_par n ts sched)) dbn) =
         option_map d_map
           (option_map (fun d : db => fold_left db_apply' (ops_on dbn (par_data_log n ts sched)) d)
              (get_db n dbn)).
Proof. exact par_data. Qed.
Print Assumptions C02_sched_par_data.

(* two compare-and-set writes against the same version under any release order: exactly one wins, the other gets the VersionError of the winner's version *)
Theorem C02_sched_two_cas_one_winner :
  forall (n : node) (t1 t2 : thr) (dbn : str) (d : db) (k v1 v2 : str) (ver : Z) 
           (opp1 opp2 : N) (o1 o2 : Z) (old : value),
         t_pc t1 = PcSetWrite dbn k v1 ver opp1 false o1 ->
         t_pc t2 = PcSetWrite dbn k v2 ver opp2 false o2 ->
         get_db n dbn = Some d ->
         d_strat d = SNone ->
         get_value d k = Some old ->
         v_ver old = ver ->
         0 <= ver ->
         ver < i32_max ->
         exists nw : value,
           let d1 := db_apply' d (DSet' k v1 ver opp1 false) in
           release n t1 =
           (put_db n dbn d1, park t1 (PcNotify dbn k v1 (ver + 1) (RqSet k v1 o1)) "watchers.read") /\
           get_value d1 k = Some nw /\
           v_val nw = v1 /\
           v_ver nw = ver + 1 /\
           (forall (n2 : node) (d2 : db),
            get_db n2 dbn = Some d2 ->
            d_strat d2 = SNone ->
            get_value d2 k = Some nw ->
            release n2 t2 =
            (n2,
             finish t2
               (RVersionError k (ver + 1) ver nw
                  {| c_key := k; c_val := v2; c_ver := ver; c_opp := opp2; c_resolve := false |} 
                  (upd_state nw)))).
Proof. exact two_cas_one_winner. Qed.
Print Assumptions C02_sched_two_cas_one_winner.

Theorem C02_sched_two_cas_schedule :
  forall (n : node) (ts : list thr) (i j : nat) (mid : list nat) (t1 t2 : thr) 
           (dbn : str) (d : db) (k v1 v2 : str) (ver : Z) (opp1 opp2 : N) (o1 o2 : Z) 
           (old : value),
         Forall sched_thr ts ->
         nth_error ts i = Some t1 ->
         nth_error ts j = Some t2 ->
         i <> j ->
         ~ In j mid ->
         t_pc t1 = PcSetWrite dbn k v1 ver opp1 false o1 ->
         t_pc t2 = PcSetWrite dbn k v2 ver opp2 false o2 ->
         get_db n dbn = Some d ->
         d_strat d = SNone ->
         get_value d k = Some old ->
         v_ver old = ver ->
         0 <= ver ->
         ver < i32_max ->
         Forall (fun l : lop => ~ lop_touches k l)
           (ops_on dbn (full_log (fst (release_nth n ts i)) (snd (release_nth n ts i)) mid)) ->
         exists (nw : value) (d2 : db),
           let n2 := fst (run_schedule n ts (i :: mid)) in
           let ts2 := snd (run_schedule n ts (i :: mid)) in
           let r :=
             RVersionError k (ver + 1) ver nw
               {| c_key := k; c_val := v2; c_ver := ver; c_opp := opp2; c_resolve := false |} 
               (upd_state nw) in
           v_val nw = v1 /\
           v_ver nw = ver + 1 /\
           get_db n2 dbn = Some d2 /\
           get_value d2 k = Some nw /\
           (In i mid \/ (exists t1' : thr, nth_error ts2 i = Some t1' /\ t_replies t1' = t_replies t1)) /\
           run_schedule n ts (i :: mid ++ [j]) = (n2, list_update ts2 j (finish t2 r)).
Proof. exact two_cas_schedule. Qed.
Print Assumptions C02_sched_two_cas_schedule.

(* an accepted write stays visible for the rest of any schedule that does not write the key *)
Theorem C02_sched_no_lost_update :
  forall (n : node) (ts : list thr) (i : nat) (rest : list nat) (t : thr) (dbn key value0 : str)
           (ver : Z) (opp : N) (rs : bool) (orig : Z) (d : db),
         Forall sched_thr ts ->
         nth_error ts i = Some t ->
         t_pc t = PcSetWrite dbn key value0 ver opp rs orig ->
         get_db n dbn = Some d ->
         snd
           (fst (set_value d {| c_key := key; c_val := value0; c_ver := ver; c_opp := opp; c_resolve := rs |})) =
         RSet key value0 ->
         let n1 := fst (release_nth n ts i) in
         let ts1 := snd (release_nth n ts i) in
         exists (d1 : db) (v : value),
           get_db n1 dbn = Some d1 /\
           get_value d1 key = Some v /\
           v_val v = value0 /\
           v_opp v = opp /\
           (Forall (fun o : dop' => dop_key' o <> key) (ops_on dbn (data_log n1 ts1 rest)) ->
            exists d2 : db, get_db (fst (run_schedule n1 ts1 rest)) dbn = Some d2 /\ get_value d2 key = Some v).
Proof. exact no_lost_update. Qed.
Print Assumptions C02_sched_no_lost_update.
