(* Property C03 -- watchers get every committed change, only committed changes, and end up current *)
(* Statements only: each theorem restates the proved lemma's statement and is closed by [exact]. *)
From NunDB Require Import Model.Base Model.Pending Model.Parse Model.Node Proofs.DbProofs Proofs.WatchProofs Model.Sched Proofs.SchedProofs Model.Net Proofs.GuardProofs Proofs.NetProofs Proofs.NetProofs2 Proofs.NetWatchProofs.
Local Open Scope Z_scope.

(* an accepted write sends every subscription of the key exactly one changed / changed-version pair carrying the stored value and version; subscriptions are untouched *)
Theorem C03_set_value_notifies :
  forall (d : db) (ch : change) (d' : db) (k v : str) (msgs : list (nat * str)),
         set_value d ch = (d', RSet k v, msgs) ->
         d_watch d' = d_watch d /\
         (exists nv : value,
            get_value d' (c_key ch) = Some nv /\
            v_val nv = c_val ch /\
            (forall s : nat,
             proj s msgs =
             concat (repeat (change_lines (c_key ch) (c_val ch) (v_ver nv)) (nsubs d (c_key ch) s)))).
Proof. exact set_value_notifies. Qed.
Print Assumptions C03_set_value_notifies.

(* a refused write sends nothing and changes nothing *)
Theorem C03_set_value_refused_silent :
  forall (d : db) (ch : change) (d' : db) (key : str) (ov ver : Z) (old : value) 
           (ch0 : change) (st : vstate) (msgs : list (nat * str)),
         set_value d ch = (d', RVersionError key ov ver old ch0 st, msgs) -> msgs = [] /\ d' = d.
Proof. exact set_value_refused_silent. Qed.
Print Assumptions C03_set_value_refused_silent.

Theorem C03_remove_value_notifies :
  forall (d : db) (key : string) (d' : db) (msgs : list (nat * str)),
         key <> "$$token" ->
         remove_value d key = (d', ROk, msgs) ->
         d_watch d' = d_watch d /\ (forall s : nat, proj s msgs = repeat (removed_line key) (nsubs d key s)).
Proof. exact remove_value_notifies. Qed.
Print Assumptions C03_remove_value_notifies.

Theorem C03_inc_value_notifies :
  forall (d : db) (key : str) (inc : Z) (opp : N) (d' : db) (msgs : list (nat * str)),
         inc_value d key inc opp = (d', ROk, msgs) ->
         d_watch d' = d_watch d /\
         (exists nv : value,
            get_value d' key = Some nv /\
            (forall s : nat, proj s msgs = concat (repeat (change_lines key (v_val nv) (-1)) (nsubs d key s)))).
Proof. exact inc_value_notifies. Qed.
Print Assumptions C03_inc_value_notifies.

Theorem C03_inc_value_refused_silent :
  forall (d : db) (key : str) (inc : Z) (opp : N) (d' : db) (m : str) (msgs : list (nat * str)),
         inc_value d key inc opp = (d', RError m, msgs) -> msgs = [] /\ d' = d.
Proof. exact inc_value_refused_silent. Qed.
Print Assumptions C03_inc_value_refused_silent.

(* watch / unwatch / unwatch-all change only the issuing session's subscriptions *)
Theorem C03_nsubs_watch_key :
  forall (d : db) (k : str) (c : nat) (k' : str) (s : nat),
         nsubs (watch_key d k c) k' s = (nsubs d k' s + (if (k =? k')%string && (s =? c) then 1 else 0))%nat.
Proof. exact nsubs_watch_key. Qed.
Print Assumptions C03_nsubs_watch_key.

Theorem C03_nsubs_unwatch_key :
  forall (d : db) (k : str) (c : nat) (k' : str) (s : nat),
         nsubs (unwatch_key d k c) k' s = (if (k =? k')%string && (s =? c)%nat then 0%nat else nsubs d k' s).
Proof. exact nsubs_unwatch_key. Qed.
Print Assumptions C03_nsubs_unwatch_key.

Theorem C03_nsubs_unwatch_all :
  forall (d : db) (c : nat) (k : str) (s : nat),
         nsubs (unwatch_all d c) k s = (if (s =? c)%nat then 0%nat else nsubs d k s).
Proof. exact nsubs_unwatch_all. Qed.
Print Assumptions C03_nsubs_unwatch_all.

Theorem C03_inbox_sends :
  forall (msgs : list (nat * str)) (n : node) (s : nat),
         (s < Datatypes.length (n_sess n))%nat ->
         s_inbox (get_sess (sends n msgs) s) = s_inbox (get_sess n s) ++ proj s msgs.
Proof. exact inbox_sends. Qed.
Print Assumptions C03_inbox_sends.

(* handler level: what every session's inbox gains from a set / set-safe (accepted or refused) *)
Theorem C03_handle_set_notifies :
  forall (n : node) (c : nat) (key value : str) (ver : Z) (dbn : str) (d : db) (n' : node) (r : resp),
         guard_safe n c key PWrite = GGo dbn d ->
         d_strat d = SNone ->
         is_primary n = true ->
         handle n c (RqSet key value ver) = (n', r) -> set_outcome n n' dbn d key value r.
Proof. exact handle_set_notifies. Qed.
Print Assumptions C03_handle_set_notifies.

Theorem C03_handle_replicate_set_notifies :
  forall (n : node) (c : nat) (dbn key value : str) (ver : Z) (d : db) (n' : node) (r : resp),
         s_auth (get_sess n c) = true ->
         get_db n dbn = Some d ->
         d_strat d = SNone ->
         handle n c (RqReplicateSet dbn key value ver) = (n', r) -> set_outcome n n' dbn d key value r.
Proof. exact handle_replicate_set_notifies. Qed.
Print Assumptions C03_handle_replicate_set_notifies.

Theorem C03_handle_remove_notifies :
  forall (n : node) (c : nat) (key dbn : str) (d : db) (n' : node) (r : resp),
         guard_safe n c key PRemove = GGo dbn d ->
         is_primary n = true -> handle n c (RqRemove key) = (n', r) -> remove_outcome n n' dbn d key r.
Proof. exact handle_remove_notifies. Qed.
Print Assumptions C03_handle_remove_notifies.

Theorem C03_handle_increment_notifies :
  forall (n : node) (c : nat) (key : str) (inc : Z) (dbn : str) (d : db) (n' : node) (r : resp),
         guard_safe n c key PIncrement = GGo dbn d ->
         is_primary n = true -> handle n c (RqIncrement key inc) = (n', r) -> inc_outcome n n' dbn d key r.
Proof. exact handle_increment_notifies. Qed.
Print Assumptions C03_handle_increment_notifies.

Theorem C03_handle_watch_isolated :
  forall (n : node) (c : nat) (k : str) (n' : node) (r : resp),
         handle n c (RqWatch k) = (n', r) ->
         isolated_to c n n' /\
         (r = ROk ->
          exists dbn : str,
            s_db (get_sess n c) = Some dbn /\
            n_sess n' = n_sess n /\
            (forall x k' : str,
             nsubs_n n' x k' c =
             (nsubs_n n x k' c + (if (x =? dbn)%string && (k =? k')%string then 1 else 0))%nat)).
Proof. exact handle_watch_isolated. Qed.
Print Assumptions C03_handle_watch_isolated.

Theorem C03_handle_unwatch_isolated :
  forall (n : node) (c : nat) (k : str) (n' : node) (r : resp),
         handle n c (RqUnWatch k) = (n', r) ->
         isolated_to c n n' /\
         (forall dbn : str, s_db (get_sess n c) = Some dbn -> nsubs_n n' dbn k c = 0%nat) /\
         (r = ROk ->
          exists dbn : str,
            s_db (get_sess n c) = Some dbn /\
            n_sess n' = n_sess n /\
            (forall x k' : str,
             nsubs_n n' x k' c = (if (x =? dbn)%string && (k =? k')%string then 0%nat else nsubs_n n x k' c))).
Proof. exact handle_unwatch_isolated. Qed.
Print Assumptions C03_handle_unwatch_isolated.

Theorem C03_handle_unwatch_all_isolated :
  forall (n : node) (c : nat) (n' : node) (r : resp),
         handle n c RqUnWatchAll = (n', r) ->
         isolated_to c n n' /\
         (forall dbn : str, s_db (get_sess n c) = Some dbn -> forall k : str, nsubs_n n' dbn k c = 0%nat) /\
         (r = ROk ->
          exists dbn : str,
            s_db (get_sess n c) = Some dbn /\
            n_sess n' = n_sess n /\
            (forall x k : str, nsubs_n n' x k c = (if (x =? dbn)%string then 0%nat else nsubs_n n x k c))).
Proof. exact handle_unwatch_all_isolated. Qed.
Print Assumptions C03_handle_unwatch_all_isolated.

(* another client's disconnect never touches a subscription; the leaving client holds none on its selected database afterwards *)
Theorem C03_disconnect_subs :
  forall (n : node) (c : nat),
         (forall (x k : str) (s : nat), s <> c -> nsubs_n (disconnect n c) x k s = nsubs_n n x k s) /\
         (forall dbn : str,
          s_db (get_sess n c) = Some dbn -> forall k : str, nsubs_n (disconnect n c) dbn k c = 0%nat) /\
         (forall x k : str,
          nsubs_n (disconnect n c) x k c =
          (if match s_db (get_sess n c) with
              | Some dbn => (x =? dbn)%string
              | None => false
              end
           then 0%nat
           else nsubs_n n x k c)).
Proof. exact disconnect_subs. Qed.
Print Assumptions C03_disconnect_subs.

Theorem C03_disconnect_quiet :
  forall (n : node) (c : nat) (dbn : str) (d : db) (s : nat),
         s <> c ->
         s_db (get_sess n c) = Some dbn ->
         get_db n dbn = Some d -> quiet d s -> get_sess (disconnect n c) s = get_sess n s.
Proof. exact disconnect_quiet. Qed.
Print Assumptions C03_disconnect_quiet.

(* once writes stop, the last (and highest-versioned) notification a continuous subscriber holds carries the current value *)
Theorem C03_final_view_last :
  forall (k : str) (s : nat) (d : db) (chs : list change) (acc : list str),
         hist_ok k d chs ->
         chs <> [] ->
         (1 <= nsubs d k s)%nat ->
         let d' := fold_left set_db chs d in
         exists (nv : value) (pre : list str),
           get_value d' k = Some nv /\
           live d' k = Some (v_val nv) /\
           snd (fold_left (view_step s) chs (d, acc)) = acc ++ pre ++ change_lines k (v_val nv) (v_ver nv) /\
           last (snd (fold_left (view_step s) chs (d, acc))) "" =
           "changed-version " +++ k +++ " " +++ Z_to_str (v_ver nv) +++ " " +++ v_val nv +++ nlS.
Proof. exact final_view_last. Qed.
Print Assumptions C03_final_view_last.

Theorem C03_final_view_highest :
  forall (k : str) (s : nat) (d : db) (chs : list change) (acc : list str),
         hist_ok k d chs ->
         chs <> [] ->
         exists (nv : value) (notes : list (str * Z)),
           snd (fold_left (view_step s) chs (d, acc)) = acc ++ render k (nsubs d k s) notes /\
           get_value (fold_left set_db chs d) k = Some nv /\
           Forall (fun p : str * Z => snd p <= v_ver nv) notes /\
           (exists earlier : list (str * Z),
              notes = earlier ++ [(v_val nv, v_ver nv)] /\ Forall (fun p : str * Z => snd p < v_ver nv) earlier).
Proof. exact final_view_highest. Qed.
Print Assumptions C03_final_view_highest.

(* kept visible (outside the quantifier: one database): unwatch-all / disconnect only cover the database selected at that moment *)
Theorem C03_stale_subscription_after_db_switch :
  let n := disconnect (ex_run ex_n0 [(1%nat, "use-db b tb")]) 1 in
         nsubs_n n "a" "k" 1 = 2%nat /\
         s_inbox (get_sess n 1) = [] /\
         s_inbox (get_sess (ex_run n [(0%nat, "set k v9")]) 1) = concat (repeat (change_lines "k" "v9" 0) 2).
Proof. exact stale_subscription_after_db_switch. Qed.
Print Assumptions C03_stale_subscription_after_db_switch.

Theorem C03_sched_watch_release :
  forall (n : node) (t : thr) (dbn key : str) (d : db),
         sched_thr t ->
         t_pc t = PcWatch dbn key ->
         get_db n dbn = Some d ->
         let n' := fst (release n t) in
         exists d' : db,
           get_db n' dbn = Some d' /\
           watchers_of d' key = watchers_of d key ++ [t_sid t] /\
           (forall k' : str, k' <> key -> watchers_of d' k' = watchers_of d k') /\
           d_map d' = d_map d /\ (forall x : str, x <> dbn -> get_db n' x = get_db n x).
Proof. exact watch_release. Qed.
Print Assumptions C03_sched_watch_release.

Theorem C03_sched_unwatch_release :
  forall (n : node) (t : thr) (dbn key : str) (d : db),
         sched_thr t ->
         t_pc t = PcUnwatch dbn key ->
         get_db n dbn = Some d ->
         let n' := fst (release n t) in
         exists d' : db,
           get_db n' dbn = Some d' /\
           watchers_of d' key = filter (fun x : nat => negb (x =? t_sid t)%nat) (watchers_of d key) /\
           (forall k' : str, k' <> key -> watchers_of d' k' = watchers_of d k') /\
           d_map d' = d_map d /\ (forall x : str, x <> dbn -> get_db n' x = get_db n x).
Proof. exact unwatch_release. Qed.
Print Assumptions C03_sched_unwatch_release.

Theorem C03_sched_other_release_keeps_watch :
  forall (n : node) (t : thr),
         sched_thr t ->
         match step_op n t with
         | Some (_, LWatch _ _) | Some (_, LUnwatch _ _) => False
         | _ => True
         end ->
         forall x : str, option_map d_watch (get_db (fst (release n t)) x) = option_map d_watch (get_db n x).
Proof. exact other_release_keeps_watch. Qed.
Print Assumptions C03_sched_other_release_keeps_watch.

(* other sessions' releases never change a session's subscription count *)
Theorem C03_sched_other_session_release :
  forall (n : node) (t : thr) (s : nat),
         sched_thr t ->
         t_sid t <> s ->
         forall (dbn : str) (d : db) (k : str),
         get_db n dbn = Some d ->
         exists d' : db,
           get_db (fst (release n t)) dbn = Some d' /\
           count_occ Nat.eq_dec (watchers_of d' k) s = count_occ Nat.eq_dec (watchers_of d k) s.
Proof. exact other_session_release. Qed.
Print Assumptions C03_sched_other_session_release.

(* UNBOUNDED INTERLEAVINGS: a session's subscription count after any schedule is the replay of the log (watch +1, own unwatch resets) *)
Theorem C03_sched_no_lost_subscription :
  forall (n : node) (ts : list thr) (sched : list nat) (dbn : str) (d : db) (k : str) (s : nat),
         Forall sched_thr ts ->
         get_db n dbn = Some d ->
         exists d' : db,
           get_db (fst (run_schedule n ts sched)) dbn = Some d' /\
           count_occ Nat.eq_dec (watchers_of d' k) s =
           fold_left (sub_step s k) (ops_on dbn (full_log n ts sched))
             (count_occ Nat.eq_dec (watchers_of d k) s).
Proof. exact no_lost_subscription. Qed.
Print Assumptions C03_sched_no_lost_subscription.

Theorem C03_sched_no_lost_subscription_closed :
  forall (n : node) (ts : list thr) (sched : list nat) (dbn : str) (d : db) (k : str) (s : nat),
         Forall sched_thr ts ->
         get_db n dbn = Some d ->
         let ops := ops_on dbn (full_log n ts sched) in
         exists d' : db,
           get_db (fst (run_schedule n ts sched)) dbn = Some d' /\
           ((forall l : lop, In l ops -> is_unwatch_of s k l = false) ->
            count_occ Nat.eq_dec (watchers_of d' k) s =
            (count_occ Nat.eq_dec (watchers_of d k) s + watch_count s k ops)%nat) /\
           (forall (a : list lop) (l : lop) (b : list lop),
            ops = a ++ l :: b ->
            is_unwatch_of s k l = true ->
            (forall x : lop, In x b -> is_unwatch_of s k x = false) ->
            count_occ Nat.eq_dec (watchers_of d' k) s = watch_count s k b).
Proof. exact no_lost_subscription_closed. Qed.
Print Assumptions C03_sched_no_lost_subscription_closed.

(* map and watcher table after any schedule = sequential replay of the full log *)
Theorem C03_sched_schedule_full :
  forall (sched : list nat) (n : node) (ts : list thr) (dbn : str),
         Forall sched_thr ts ->
         get_db (fst (run_schedule n ts sched)) dbn =
         option_map (fun d : db => fold_left lop_apply (ops_on dbn (full_log n ts sched)) d) (get_db n dbn).
Proof. exact schedule_full. Qed.
Print Assumptions C03_sched_schedule_full.

(* what TCP clients read after an accepted set: every other session gets its notification lines once per subscription, the writer its own notifications and then the terminator, last *)
Theorem C03_tcp_set_stream :
  forall (n : node) (w : nat) (line k v : str) (ver : Z) (dbn : str) (d : db),
         utf8_valid line = true ->
         parse_request (trim_char nl (line +++ nlS)) = POk (RqSet k v ver) ->
         guard_safe n w k PWrite = GGo dbn d ->
         d_strat d = SNone ->
         snd (step n w (line +++ nlS)) = ROk ->
         snd (tcp_line n w line) = Serving /\
         set_stream n (fst (tcp_line n w line)) w dbn d k v ("ok " +++ nlS).
Proof. exact tcp_set_stream. Qed.
Print Assumptions C03_tcp_set_stream.

(* the same for a WebSocket frame *)
Theorem C03_ws_frame_set_stream :
  forall (n : node) (w : nat) (p k v : str) (ver : Z) (dbn : str) (d : db),
         AdminInv n ->
         utf8_valid p = true ->
         (forall i : nat, get i p <> Some ";"%char) ->
         parse_request (trim_char nl p) = POk (RqSet k v ver) ->
         guard_safe n w k PWrite = GGo dbn d ->
         d_strat d = SNone ->
         snd (step n w p) = ROk ->
         snd (ws_frame n w p) = Serving /\ set_stream n (fst (ws_frame n w p)) w dbn d k v ("ok " +++ nlS).
Proof. exact ws_frame_set_stream. Qed.
Print Assumptions C03_ws_frame_set_stream.

(* a refused write reaches nobody but the writer (databases without an arbiter) *)
Theorem C03_tcp_refused_stream :
  forall (n : node) (w : nat) (line k v : str) (ver : Z),
         utf8_valid line = true ->
         parse_request (trim_char nl (line +++ nlS)) = POk (RqSet k v ver) ->
         (forall (dbn : str) (d : db), guard_safe n w k PWrite = GGo dbn d -> d_strat d <> SArbiter) ->
         refused (snd (step n w (line +++ nlS))) ->
         snd (tcp_line n w line) = Serving /\
         refused_stream n (fst (tcp_line n w line)) w (snd (step n w (line +++ nlS)))
           (term_tcp (snd (step n w (line +++ nlS)))).
Proof. exact tcp_refused_stream. Qed.
Print Assumptions C03_tcp_refused_stream.

(* on an arbiter database the refusal is a conflict notice to the arbiter: the hypothesis cannot be dropped *)
Theorem C03_arbiter_refusal_reaches_the_arbiter :
  let n1 :=
           fst
             (net_run nw0
                [NConnect; NConnect; NTcpLine 0 "auth u p"; NTcpLine 0 "create-db a ta arbiter";
                 NTcpLine 0 "use-db a ta"; NTcpLine 1 "use-db a ta"; NTcpLine 1 "arbiter";
                 NTcpLine 0 "set k v1"; NTcpLine 0 "set k v2"]) in
         let n2 := fst (tcp_line n1 0 "set-safe k 0 v0") in
         snd (step n1 0 ("set-safe k 0 v0" +++ nlS)) = RError "$$conflitct unresolved $conflicts_k_11" /\
         s_inbox (get_sess n1 1) = [okT; okT] /\
         s_inbox (get_sess n2 1) = [okT; okT; "resolve 11 a 1 k v2 v0"] /\
         s_inbox (get_sess n2 0) =
         s_inbox (get_sess n1 0) ++ ["error $$conflitct unresolved $conflicts_k_11 " +++ nlS].
Proof. exact arbiter_refusal_reaches_the_arbiter. Qed.
Print Assumptions C03_arbiter_refusal_reaches_the_arbiter.

(* a refused version is answered ok over TCP ... *)
Theorem C03_term_tcp_version_error :
  forall (key : str) (ov ver : Z) (old : value) (ch : change) (st : vstate),
         term_tcp (RVersionError key ov ver old ch st) = "ok " +++ nlS.
Proof. exact term_tcp_version_error. Qed.
Print Assumptions C03_term_tcp_version_error.

(* ... and with an error over WebSocket *)
Theorem C03_term_ws_version_error :
  forall (key : str) (ov ver : Z) (old : value) (ch : change) (st : vstate),
         term_ws (RVersionError key ov ver old ch st) = "error Invalid version! " +++ nlS.
Proof. exact term_ws_version_error. Qed.
Print Assumptions C03_term_ws_version_error.

(* the end of a connection: every other session's subscriptions unchanged, the closing session's removed, nobody is sent anything except the watchers of $connections *)
Theorem C03_conn_closed_keeps_others :
  forall (n : node) (c : nat),
         (forall (x k : str) (s : nat), s <> c -> nsubs_n (conn_closed n c) x k s = nsubs_n n x k s) /\
         (forall dbn : str,
          s_db (get_sess n c) = Some dbn -> forall k : str, nsubs_n (conn_closed n c) dbn k c = 0%nat) /\
         (forall (dbn : str) (d : db) (s : nat),
          s <> c ->
          s_db (get_sess n c) = Some dbn ->
          get_db n dbn = Some d -> quiet d s -> get_sess (conn_closed n c) s = get_sess n s) /\
         (forall (dbn : str) (d : db),
          s_db (get_sess n c) = Some dbn ->
          get_db n dbn = Some d ->
          d_strat d = SNone ->
          (exists ver : Z,
             forall s : nat,
             (s < Datatypes.length (n_sess n))%nat ->
             s_inbox (get_sess (conn_closed n c) s) =
             s_inbox (get_sess n s) ++
             concat
               (repeat (change_lines "$connections" (Z_to_str (d_conn d - 1)) ver)
                  (if (s =? c)%nat then 0%nat else nsubs d "$connections" s))) \/
          n_sess (conn_closed n c) = n_sess n) /\
         (s_db (get_sess n c) = None \/
          (exists dbn : str, s_db (get_sess n c) = Some dbn /\ get_db n dbn = None) ->
          conn_closed n c = send n c no_db_msg).
Proof. exact conn_closed_keeps_others. Qed.
Print Assumptions C03_conn_closed_keeps_others.

(* along any sequence of transport events not issued by session s (TCP lines, WebSocket frames, HTTP requests, connections opening and closing) the subscriptions of s are unchanged *)
Theorem C03_net_run_subscription_stable :
  forall (evs : list net_ev) (n : node) (s : nat),
         (s < Datatypes.length (n_sess n))%nat ->
         Forall (ev_not_by s) evs ->
         (s < Datatypes.length (n_sess (fst (net_run n evs))))%nat /\
         (forall x k : str, nsubs_n (fst (net_run n evs)) x k s = nsubs_n n x k s).
Proof. exact net_run_subscription_stable. Qed.
Print Assumptions C03_net_run_subscription_stable.

(* two TCP sessions, one watches k, the other sets it: the exact inboxes *)
Theorem C03_tcp_watch_set_example :
  let n := fst (tcp_line nw1 0 "set k v1") in
         s_inbox (get_sess nw1 0) = inbox0 /\
         s_inbox (get_sess nw1 1) = inbox1 /\
         s_inbox (get_sess n 0) = inbox0 ++ [okT] /\
         s_inbox (get_sess n 1) = inbox1 ++ ["changed k v1" +++ nlS; "changed-version k 0 v1" +++ nlS] /\
         s_inbox (get_sess n 1) = inbox1 ++ change_lines "k" "v1" 0.
Proof. exact tcp_watch_set_example. Qed.
Print Assumptions C03_tcp_watch_set_example.
