(* Oplog.v -- model of the operation log (src/lib/disk_ops.rs):
   write_op_log / try_write_op_log / get_log_file_append_mode (rotation),
   last_op_time, read_operations_since_from_file (binary search + linear scan),
   read_operations_since (all files), remove_old_db_files (retention).

   A log file is a list of whole 25-byte records; positions are counted in records.
   The code computes in bytes with OP_RECORD_SIZE = 25; every seek position it
   produces is a multiple of 25 and its one non-trivial division
   ((25*d)/2)/25 equals d/2 (lemma [units_ok] in Proofs/OplogProofs.v), so record
   units are exact. *)
From NunDB Require Import Model.Base.
Local Open Scope N_scope.

Record oprec := mkRec { r_time : N; r_key : N; r_db : N; r_op : N }.
Definition ofile := list oprec.

Definition nth_time (f : ofile) (i : N) : option N :=
  option_map r_time (nth_error f (N.to_nat i)).

(* result of one file query: the per-(db,key) map with the last matching record
   and its insertion counter (opp_count / opp_position) *)
Definition okey := (N * N)%type.   (* db, key *)
Definition okey_eqb (a b : okey) : bool := N.eqb (fst a) (fst b) && N.eqb (snd a) (snd b).
Record ohit := mkHit { h_rec : oprec; h_pos : N }.
Definition omap := list (okey * ohit).

(* linear scan from record index [i]: insert every record, counting from [cnt]+1 *)
Fixpoint scan (recs : list oprec) (cnt : N) (m : omap) : omap :=
  match recs with
  | [] => m
  | r :: rest =>
      let cnt' := cnt + 1 in
      scan rest cnt' (assoc_set okey_eqb (r_db r, r_key r) (mkHit r cnt') m)
  end.

Inductive sres := Found (start : N) | NotFound | OutOfFuel | Underflow.

(* state of the search loop *)
Record sst := mkS { s_min : N; s_max : N; s_seek : N; s_last : N }.

(* one iteration of `while let Ok(i) = f.read(&mut time_buffer)`:
   inl = loop again with new state, inr = finished *)
Definition search_step (f : ofile) (since : N) (st : sst) : sst + sres :=
  let n := N.of_nat (List.length f) in
  let mn := s_min st in let mx := s_max st in let sp := s_seek st in
  let '(full, t) := match nth_time f sp with
                    | Some t => (true, t)
                    | None => (false, s_last st)     (* 0 bytes read: buffer keeps its content *)
                    end in
  if N.ltb mx mn then inr Underflow else               (* u64 subtraction max - min *)
  let possible := mx - mn in
  let read_all := N.eqb possible 1 && N.eqb sp 1 in
  let no_more_smaller := N.leb possible 1 && N.ltb since t in
  if N.eqb t since || no_more_smaller || read_all then inr (Found sp)
  else
    if N.ltb t since then
      let nrec := N.max ((N.max mx sp - sp) / 2) 1 in
      if full then inl (mkS sp mx (sp + nrec) t) else inr NotFound
    else (* t > since *)
      let nrec := N.max ((sp - mn) / 2) 1 in
      if N.ltb sp mn || N.ltb sp nrec then inr Underflow              (* u64 subtraction would overflow *)
      else if full then inl (mkS mn sp (sp - nrec) t) else inr NotFound.

Fixpoint search_loop (fuel : nat) (f : ofile) (since : N) (st : sst) : sres :=
  match fuel with
  | O => OutOfFuel
  | S k => match search_step f since st with
           | inl st' => search_loop k f since st'
           | inr r => r
           end
  end.

Definition search_fuel (f : ofile) : nat := (2 * List.length f + 8)%nat.

Definition search (f : ofile) (since : N) : sres :=
  let n := N.of_nat (List.length f) in
  search_loop (search_fuel f) f since (mkS 0 n (n / 2) 0).

(* fix H12.1: on an exact hit, walk back to the first record carrying that timestamp *)
Fixpoint walk_back (f : ofile) (since : N) (i : nat) : nat :=
  match i with
  | O => O
  | S j => match nth_error f j with
           | Some r => if N.eqb (r_time r) since then walk_back f since j else i
           | None => i
           end
  end.

Definition scan_start (f : ofile) (since : N) (sp : N) : N :=
  match nth_time f sp with
  | Some t => if N.eqb t since then N.of_nat (walk_back f since (N.to_nat sp)) else sp
  | None => sp
  end.

(* read_operations_since_from_file: merges into [m]; None = the Rust would panic
   or loop (excluded by the theorems for well-formed logs) *)
Definition query_file (f : ofile) (since : N) (m : omap) : option omap :=
  match search f since with
  | Found sp => Some (scan (skipn (N.to_nat (scan_start f since sp)) f) 0 m)
  | NotFound => Some m
  | OutOfFuel | Underflow => None
  end.

(* all files: [rotated] is oldest-first; the code reads oldest rotated file first and
   the current file last (after fix H12.2), every later insert overwriting *)
Fixpoint query_files (fs : list ofile) (since : N) (m : omap) : option omap :=
  match fs with
  | [] => Some m
  | f :: rest => match query_file f since m with
                 | Some m' => query_files rest since m'
                 | None => None
                 end
  end.

Definition query_all (rotated : list ofile) (current : ofile) (since : N) : option omap :=
  query_files (rotated ++ [current]) since [].

(* Oplog::last_op_time on the current file *)
Definition last_op_time (current : ofile) : N :=
  match rev current with
  | [] => 0
  | r :: _ => r_time r
  end.

(* ---- writing and rotation ---------------------------------------------- *)
(* single_op_log_file_size() = NUN_MAX_OP_LOG_SIZE / 10, in bytes *)
Record olog := mkLog { l_rotated : list ofile; l_current : ofile }.

Definition file_bytes (f : ofile) : N := 25 * N.of_nat (List.length f).

(* get_log_file_append_mode: rotate when the current file is at least [single] bytes *)
Definition reopen (single : N) (l : olog) : olog :=
  if N.leb single (file_bytes (l_current l))
  then mkLog (l_rotated l ++ [l_current l]) []
  else l.

(* try_write_op_log on an already open stream: write; if the position is now beyond
   [single], reopen (rotating) and write the record again *)
Definition oplog_append (single : N) (l : olog) (r : oprec) : olog :=
  let l1 := mkLog (l_rotated l) (l_current l ++ [r]) in
  if N.ltb single (file_bytes (l_current l1))
  then let l2 := reopen single l1 in mkLog (l_rotated l2) (l_current l2 ++ [r])
  else l1.

(* result of try_write_op_log: Err only when the record does not fit an empty file *)
Definition append_ok (single : N) (l : olog) (r : oprec) : bool :=
  negb (N.ltb single (file_bytes (l_current l ++ [r]))) ||
  negb (N.ltb single (file_bytes (l_current (oplog_append single l r)))).

(* remove_old_db_files: fewer than 10 rotated files: keep all; otherwise keep the 9
   newest *)
Definition declutter (l : olog) : olog :=
  let k := List.length (l_rotated l) in
  if Nat.ltb k 10 then l
  else mkLog (skipn (k - 9) (l_rotated l)) (l_current l).

(* ---- specification: plain linear scan over the concatenated history ------ *)
Definition all_records (rotated : list ofile) (current : ofile) : list oprec :=
  concat rotated ++ current.

(* the last record for (db,key) among those with time >= since *)
Definition spec_last (recs : list oprec) (since : N) (k : okey) : option oprec :=
  fold_left (fun acc r => if N.leb since (r_time r) && okey_eqb (r_db r, r_key r) k
                          then Some r else acc) recs None.

Fixpoint sorted_times (f : list oprec) : bool :=
  match f with
  | [] => true
  | r :: rest => match rest with
                 | [] => true
                 | r' :: _ => N.leb (r_time r) (r_time r') && sorted_times rest
                 end
  end.
