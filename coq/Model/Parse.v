(* Parse.v -- model of Request::parse and every parse_* function
   (src/lib/parse_request.rs), plus Permission parsing/printing (src/lib/bo.rs). *)
From NunDB Require Import Model.Base.

Inductive perm_kind := PRead | PWrite | PIncrement | PRemove.
Definition perm_kind_eqb (a b : perm_kind) : bool :=
  match a, b with
  | PRead, PRead | PWrite, PWrite | PIncrement, PIncrement | PRemove, PRemove => true
  | _, _ => false
  end.
Record permission := mkPerm { pm_kinds : list perm_kind; pm_keys : list str }.

Inductive strat := SNone | SNewer | SArbiter.

Inductive request :=
| RqSetPermissions (user : str) (perms : list permission)
| RqGet (key : str)
| RqGetSafe (key : str)
| RqRemove (key : str)
| RqReplicateRemove (db key : str)
| RqSet (key value : str) (version : Z)
| RqIncrement (key : str) (inc : Z)
| RqReplicateIncrement (db key : str) (inc : Z)
| RqReplicateSet (db key value : str) (version : Z)
| RqWatch (key : str)
| RqUnWatch (key : str)
| RqUnWatchAll
| RqAuth (user password : str)
| RqCreateDb (token name : str) (strategy : strat)
| RqCreateUser (token user_name : str)
| RqUseDb (token name : str) (user_name : option str)
| RqSnapshot (reclaim : bool) (db_names : list str)
| RqReplicateSnapshot (reclaim : bool) (db_names : list str)
| RqLeave (name : str)
| RqReplicateLeave (name : str)
| RqJoin (name : str)
| RqReplicateJoin (name : str)
| RqSetPrimary (name : str)
| RqSetSecondary (name : str)
| RqReplicateSince (node_name : str) (start_at : N)
| RqClusterState
| RqMetricsState
| RqElectionWin
| RqElection (id : N) (node_name : str)
| RqElectionActive (node_name : str)
| RqKeys (pattern : str)
| RqReplicateRequest (request_str : str) (opp_id : N)
| RqAcknowledge (opp_id : N) (server_name : str)
| RqDebug (command : str)
| RqListCommands
| RqArbiter
| RqResolve (opp_id : N) (db_name key value : str) (version : Z).

Inductive presult := POk (r : request) | PErr (msg : str) | PPanic.

(* ---- Permission ---- *)
Definition perm_kind_of_ascii (a : ascii) : perm_kind :=
  if Ascii.eqb a "r" then PRead else if Ascii.eqb a "w" then PWrite
  else if Ascii.eqb a "i" then PIncrement else if Ascii.eqb a "x" then PRemove else PRead.
Definition perm_kind_to_str (k : perm_kind) : str :=
  match k with PRead => "r" | PWrite => "w" | PIncrement => "i" | PRemove => "x" end.

Definition permission_from (s : str) : permission :=
  match splitn 2 sp s with
  | kinds :: rest =>
      (* kind.chars(): one entry per UTF-8 character, i.e. continuation bytes 10xxxxxx are skipped *)
      mkPerm (map perm_kind_of_ascii
                  (filter (fun a => let n := N_of_ascii a in negb (N.leb 128 n && N.ltb n 192))
                          (list_ascii_of_string kinds)))
             (match rest with keys :: _ => split_char "," keys | [] => [] end)
  | [] => mkPerm [PRead] []
  end.
Definition permissions_from_str (s : str) : list permission :=
  map permission_from (split_char "|" s).
Definition permission_to_str (p : permission) : str :=
  String.concat "" (map perm_kind_to_str (pm_kinds p)) +++ " " +++ join "," (pm_keys p).
Definition permissions_to_str_value (ps : list permission) : str :=
  join "|" (map permission_to_str ps).

Definition strat_of_str (s : str) : strat :=
  if String.eqb s "arbiter" then SArbiter else if String.eqb s "newer" then SNewer else SNone.
Definition strat_to_str (s : strat) : str :=
  match s with SNone => "none" | SNewer => "newer" | SArbiter => "arbiter" end.

(* i32 argument with a default when missing or unparsable *)
Definition i32_or (d : Z) (o : option str) : Z :=
  match o with
  | Some v => match parse_i32 (strip_nl v) with Some n => n | None => d end
  | None => d
  end.

Definition hd_opt {A} (l : list A) : option A := match l with x :: _ => Some x | [] => None end.
Definition or_empty (o : option str) : str := match o with Some s => s | None => "" end.

(* one-argument commands of the shape: name = next().replace("\n","") or Err *)
Definition parse_name (args : list str) (err : str) (k : str -> request) : presult :=
  match args with
  | a :: _ => POk (k (strip_nl a))
  | [] => PErr err
  end.

(* [args] are the remaining pieces of input.splitn(3," ") after the command word *)
Definition parse_cmd (cmd : str) (args : list str) : option presult :=
  let a1 := hd_opt args in
  let a2 := hd_opt (tl args) in
  if String.eqb cmd "ack" then Some (
    match a1 with
    | Some ids => match parse_u64 ids with
                  | Some id => let sn := or_empty a2 in
                               if String.eqb sn "" then PErr "Invalid server name"
                               else POk (RqAcknowledge id sn)
                  | None => PErr "Invalid request Id"
                  end
    | None => PErr "Invalid request Id"
    end)
  else if String.eqb cmd "arbiter" then Some (POk RqArbiter)
  else if String.eqb cmd "auth" then Some (POk (RqAuth (or_empty a1) (strip_nl (or_empty a2))))
  else if String.eqb cmd "cluster-state" then Some (POk RqClusterState)
  else if String.eqb cmd "create-db" then Some (
    match a2 with
    | Some rest =>
        let ps := splitn 2 sp rest in
        let token := strip_nl (or_empty (hd_opt ps)) in
        let strategy := match hd_opt (tl ps) with Some s => strip_nl s | None => "none" end in
        POk (RqCreateDb token (or_empty a1) (strat_of_str strategy))
    | None => PErr "create-db must be followed by a token"
    end)
  else if String.eqb cmd "create-user" then
    Some (POk (RqCreateUser (strip_nl (or_empty a2)) (or_empty a1)))
  else if String.eqb cmd "debug" then Some (
    match a1 with Some c => POk (RqDebug c) | None => PErr "command is mandatory" end)
  else if String.eqb cmd "election" then Some (
    match a1 with
    | Some "win" => POk RqElectionWin
    | Some "candidate" =>
        match a2 with
        | None => PErr "candidate must contain process id and server name"
        | Some rest =>
            let ps := splitn 2 sp rest in
            match parse_u128 (or_empty (hd_opt ps)) with
            | None => PErr "Invalid process id"          (* was: unwrap() panic, fix H10.1 *)
            | Some id =>
                POk (RqElection id (match hd_opt (tl ps) with
                                    | Some s => strip_nl s | None => "no-server" end))
            end
        end
    | _ => POk (RqElectionActive (match a2 with Some s => s | None => "no-server" end))
    end)
  else if String.eqb cmd "get" then Some (parse_name args "get must contain a key" RqGet)
  else if String.eqb cmd "get-safe" then Some (parse_name args "get-safe must contain a key" RqGetSafe)
  else if String.eqb cmd "increment" then Some (POk (RqIncrement (or_empty a1) (i32_or 1 a2)))
  else if String.eqb cmd "join" then Some (parse_name args "join must contain a name" RqJoin)
  else if String.eqb cmd "keys" || String.eqb cmd "ls" then
    Some (POk (RqKeys (strip_nl (or_empty a1))))
  else if String.eqb cmd "leave" then Some (parse_name args "leave must contain a name" RqLeave)
  else if String.eqb cmd "metrics-state" then Some (POk RqMetricsState)
  else if String.eqb cmd "remove" then Some (POk (RqRemove (or_empty a1)))
  else if String.eqb cmd "replicate" then Some (
    match a2 with
    | Some cv =>
        let ps := splitn 3 sp cv in
        let name := strip_nl (or_empty (hd_opt ps)) in
        let version := i32_or (-1) (hd_opt (tl ps)) in
        let value := strip_nl (or_empty (hd_opt (tl (tl ps)))) in
        POk (RqReplicateSet (or_empty a1) name value version)
    | None => PErr "no command sent"
    end)
  else if String.eqb cmd "replicate-increment" then Some (
    match a1 with
    | None => PErr "replicate-snapshot must contain a db name"
    | Some dbn =>
        match a2 with
        | None => PErr "replicate-increment must be followed by a key"
        | Some rest =>
            let ps := splitn 2 sp rest in
            POk (RqReplicateIncrement (strip_nl dbn) (or_empty (hd_opt ps)) (i32_or 1 (hd_opt (tl ps))))
        end
    end)
  else if String.eqb cmd "replicate-join" then Some (parse_name args "join must contain a name" RqReplicateJoin)
  else if String.eqb cmd "replicate-leave" then Some (parse_name args "leave must contain a name" RqReplicateLeave)
  else if String.eqb cmd "replicate-remove" then
    Some (POk (RqReplicateRemove (or_empty a1) (strip_nl (or_empty a2))))
  else if String.eqb cmd "replicate-since" then Some (
    match a1 with
    | None => PErr "replicate-since must contain a node name"
    | Some nn =>
        match a2 with
        | None => PErr "replicate-since must contain a start at"
        | Some st => match parse_u64 (strip_nl st) with
                     | Some v => POk (RqReplicateSince (strip_nl nn) v)
                     | None => PErr "replicate-since start_at must be a u64"
                     end
        end
    end)
  else if String.eqb cmd "replicate-snapshot" then Some (
    match a1 with
    | None => PErr "replicate-snapshot must contain a db name"
    | Some dbn =>
        let reclaim := match a2 with Some r => String.eqb (strip_nl r) "true" | None => false end in
        POk (RqReplicateSnapshot reclaim (split_char "|" (strip_nl dbn)))
    end)
  else if String.eqb cmd "resolve" then Some (
    match a1 with
    | None => PErr "opp id mandatory"
    | Some ids =>
        match parse_u64 ids with
        | None => PErr "Invalid opp_id"
        | Some id =>
            match a2 with
            | None => PErr "resoved must be followed by db_name, key version and value"
            | Some rest =>
                let ps := splitn 4 sp rest in
                match ps with
                | dbn :: key :: more =>
                    let version := i32_or (-1) (hd_opt more) in
                    match hd_opt (tl more) with
                    | Some v => POk (RqResolve id (strip_nl dbn) (strip_nl key) (strip_nl v) version)
                    | None => PErr "set-safe must be followed by a key"
                    end
                | [_] => PErr "key must be provided"
                | [] => PErr "db_name must be provided"
                end
            end
        end
    end)
  else if String.eqb cmd "rp" then Some (
    match a1 with
    | None => PErr "Invalid request Id"
    | Some ids =>
        match parse_u64 ids with
        | None => PErr "Invalid request Id"
        | Some id => let rs := or_empty a2 in
                     if String.eqb rs "" then PErr "Invalid replication request str"
                     else POk (RqReplicateRequest rs id)
        end
    end)
  else if String.eqb cmd "set" then Some (POk (RqSet (or_empty a1) (strip_nl (or_empty a2)) (-1)))
  else if String.eqb cmd "set-primary" then Some (parse_name args "set-primary must contain a name" RqSetPrimary)
  else if String.eqb cmd "set-safe" then Some (
    match a2 with
    | None => PErr "set-safe must be followed by a version and key"
    | Some rest =>
        let ps := splitn 2 sp rest in
        let version := i32_or (-1) (hd_opt ps) in
        match hd_opt (tl ps) with
        | Some v => POk (RqSet (or_empty a1) (strip_nl v) version)
        | None => PErr "set-safe must be followed by a key"
        end
    end)
  else if String.eqb cmd "set-secoundary" then
    Some (parse_name args "set-secoundary must contain a name" RqSetSecondary)
  else if String.eqb cmd "snapshot" then
    Some (POk (RqSnapshot (String.eqb (match a1 with Some r => r | None => "false" end) "true")
                          (filter (fun s => negb (String.eqb s "")) (split_char "|" (or_empty a2)))))
  else if String.eqb cmd "unwatch" then Some (parse_name args "unwatch must contain a key" RqUnWatch)
  else if String.eqb cmd "unwatch-all" then Some (POk RqUnWatchAll)
  else if String.eqb cmd "use" || String.eqb cmd "use-db" then Some (
    match a2 with
    | None => PErr "set-safe must be followed by a version and key"
    | Some rest =>
        let ps := splitn 2 sp rest in
        let tu := strip_nl (or_empty (hd_opt ps)) in
        match hd_opt (tl ps) with
        | Some token => POk (RqUseDb token (or_empty a1) (Some tu))
        | None => POk (RqUseDb tu (or_empty a1) None)
        end
    end)
  else if String.eqb cmd "watch" then Some (parse_name args "watch must contain a key" RqWatch)
  else if String.eqb cmd "list-commands" then Some (POk RqListCommands)
  else if String.eqb cmd "set-permissions" then Some (
    match a1 with
    | None => PErr "user is mandatory"
    | Some user => match a2 with
                   | None => PErr "permission list is mandatory"
                   | Some rest => POk (RqSetPermissions user (permissions_from_str rest))
                   end
    end)
  else None.

(* Request::parse *)
Definition parse_request (input : str) : presult :=
  match splitn 3 sp (trim_end_char ";" input) with
  | [] => PErr "empty command"
  | cmd :: args =>
      if String.eqb cmd "" then PErr "empty command"
      else match parse_cmd cmd args with
           | Some r => r
           | None => PErr ("unknown command: " +++ cmd)
           end
  end.

Definition command_words : list str :=
  ["ack"; "arbiter"; "auth"; "cluster-state"; "create-db"; "create-user"; "debug"; "election";
   "get"; "get-safe"; "increment"; "join"; "keys"; "leave"; "ls"; "metrics-state"; "remove";
   "replicate"; "replicate-increment"; "replicate-join"; "replicate-leave"; "replicate-remove";
   "replicate-since"; "replicate-snapshot"; "resolve"; "rp"; "set"; "set-primary"; "set-safe";
   "set-secoundary"; "snapshot"; "unwatch"; "unwatch-all"; "use"; "use-db"; "watch";
   "list-commands"; "set-permissions"].
