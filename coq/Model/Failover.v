(* A node dies (C07 "primary disconnect", C14 fail-over): every connection it had opened
   sees end-of-file at the other side (network/tcp_ops.rs::handle_client: unwatch-all, then
   "leave <name>" when the connection was the primary's, "replicate-leave <name>" otherwise,
   through a fake authenticated client, then Client::left), and the link threads that other
   nodes had opened towards it end (add_secondary_to_primary then removes the member).
   The scheduler of Election.v is repeated here with the dead nodes left out. *)
From NunDB Require Import Model.Base Model.Pending Model.Oplog Model.Parse Model.Node Model.Cluster Model.Election.
Require Import String List NArith ZArith Bool. Import ListNotations.
Open Scope string_scope.
Open Scope list_scope.
Open Scope N_scope.

Record kcl := mkK {
  k_e : ecl;
  k_plinks : list nat;     (* links opened by add_secondary_to_primary (handshake "set-primary") *)
  k_dead : list str }.

Definition is_dead (k : kcl) (name : str) : bool := existsb (String.eqb name) (k_dead k).

(* links created since [nold]: those whose handshake says "set-primary" *)
Definition new_plinks (c : cluster) (nold : nat) : list nat :=
  filter (fun i => match nth_error (c_links c) i with
                   | Some l => existsb (fun h => starts_with h "set-primary ") (l_hs l)
                   | None => false
                   end)
         (seq nold (List.length (c_links c) - nold)).

Definition kpoll_sup (k : kcl) (name : str) : kcl :=
  if is_dead k name then k else
  let c := e_c (k_e k) in
  let c' := poll_sup c name in
  mkK (with_c (k_e k) c') (k_plinks k ++ new_plinks c' (List.length (c_links c))) (k_dead k).

Definition kpoll_repl (k : kcl) (name : str) : kcl :=
  if is_dead k name then k else mkK (with_c (k_e k) (poll_repl_c (e_c (k_e k)) name)) (k_plinks k) (k_dead k).

Definition with_e (k : kcl) (e : ecl) : kcl := mkK e (k_plinks k) (k_dead k).

Definition ksettle_round (k : kcl) : kcl * bool :=
  let names := map fst (c_nodes (e_c (k_e k))) in
  let k1 := fold_left kpoll_sup names k in
  let k2 := fold_left kpoll_repl names k1 in
  let '(e3, moved) :=
    fold_left (fun acc i =>
        let '(e0, mv) := acc in
        let '(e1, mv1) := edrain_link 2000 e0 i mv in
        edrain_replies 2000 e1 i mv1) (link_order (e_c (k_e k2))) (k_e k2, false) in
  (with_e k2 e3, moved).

Fixpoint ksettle (rounds : nat) (k : kcl) : kcl * bool :=
  match rounds with
  | O => (k, false)
  | S r => let '(k1, moved) := ksettle_round k in
           if moved then ksettle r k1
           else match e_frames (k_e k1) with
                | [] => (k1, true)
                | _ => ksettle r (with_e k1 (tick_frames (k_e k1)))
                end
  end.

Definition close_link_m (c : cluster) (i : nat) : cluster :=
  match nth_error (c_links c) i with
  | Some l => set_link c i (mkLink (l_from l) (l_to l) (l_hs l) (l_q l) (l_server l) (l_reader l) (l_replies l) false (l_sent l) (l_back l))
  | None => c
  end.

(* end-of-file on the connection of link i at its target *)
Definition eof_link (e : ecl) (i : nat) : ecl :=
  match nth_error (c_links (e_c e)) i with
  | None => e
  | Some l =>
      match get_cn (sync_clocks (e_c e)) (l_to l) with
      | None => e
      | Some x =>
          let c0 := sync_clocks (e_c e) in
          let sv := l_server l in
          let '(n1, _) := step (cn_node x) sv "unwatch-all" in
          let '(n1', _) := drain n1 sv in
          let member := s_member (get_sess n1' sv) in
          let x1 := cn_set_node x n1' in
          let e1 :=
            match member with
            | None => with_c e (flush_outboxes (put_cn c0 (l_to l) x1) (l_to l))
            | Some (name, r) =>
                let line := (match r with Primary => "leave " | _ => "replicate-leave " end) +++ name in
                let '(x2, fake) := new_session x1 (mkSess true None None None []) in
                let before := n_repl (cn_node x2) in
                let '(n3, _) := step (cn_node x2) fake line in
                let c3 := flush_outboxes (put_cn c0 (l_to l) (cn_set_node x2 n3)) (l_to l) in
                fst (after_step (with_c e c3) c3 (l_to l) line before None None [])
            end in
          (* Client::left of the connection's client, then the link is gone *)
          let c4 := e_c e1 in
          let c5 := match get_cn c4 (l_to l) with
                    | Some y => put_cn c4 (l_to l) (cn_set_node y (client_left (cn_node y) sv))
                    | None => c4
                    end in
          with_c e1 (close_link_m c5 i)
      end
  end.

Definition kkill (k : kcl) (name : str) : kcl :=
  let c := e_c (k_e k) in
  let idx := seq 0 (List.length (c_links c)) in
  let from_x := filter (fun i => match nth_error (c_links c) i with Some l => l_open l && String.eqb (l_from l) name | None => false end) idx in
  let e1 := fold_left eof_link from_x (k_e k) in
  (* the link threads of the others towards the dead node end *)
  let c1 := e_c e1 in
  let to_x := filter (fun i => match nth_error (c_links c1) i with Some l => l_open l && String.eqb (l_to l) name | None => false end) idx in
  let c2 := fold_left (fun c0 i =>
      match nth_error (c_links c0) i with
      | Some l =>
          let c' := close_link_m c0 i in
          if existsb (Nat.eqb i) (k_plinks k) then
            match get_cn c' (l_from l) with
            | Some y => put_cn c' (l_from l) (cn_set_node y (remove_member (cn_node y) name))
            | None => c'
            end
          else c'
      | None => c0
      end) to_x c1 in
  mkK (with_c e1 c2) (k_plinks k) (k_dead k ++ [name]).
