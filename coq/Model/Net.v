(* The three transports around process_request (network/tcp_ops.rs, ws_ops.rs, http_ops.rs):
   what they do with the bytes a client sends, which terminator they queue after each
   command, and what the end of a connection does.  The node itself is Model/Node.v. *)
From Coq Require Import List String Ascii ZArith NArith Bool Lia.
From NunDB Require Import Base Parse Node.
Import ListNotations.
Open Scope string_scope.

Inductive tkind := KTcp | KWs.

(* ---- UTF-8 validity (std::str::from_utf8): what read_line / Message::as_text accept -- *)
Definition byte_of (a : ascii) : N := N_of_ascii a.
Definition is_cont (a : ascii) : bool := let b := byte_of a in (128 <=? b)%N && (b <=? 191)%N.
Definition in_range (a : ascii) (lo hi : N) : bool := let b := byte_of a in (lo <=? b)%N && (b <=? hi)%N.

Fixpoint utf8_valid (s : str) : bool :=
  match s with
  | EmptyString => true
  | String a r =>
      let b := byte_of a in
      if (b <=? 127)%N then utf8_valid r
      else if in_range a 194 223 then
        match r with String c1 r1 => is_cont c1 && utf8_valid r1 | _ => false end
      else if (b =? 224)%N then
        match r with String c1 (String c2 r2) => in_range c1 160 191 && is_cont c2 && utf8_valid r2 | _ => false end
      else if in_range a 225 236 || in_range a 238 239 then
        match r with String c1 (String c2 r2) => is_cont c1 && is_cont c2 && utf8_valid r2 | _ => false end
      else if (b =? 237)%N then
        match r with String c1 (String c2 r2) => in_range c1 128 159 && is_cont c2 && utf8_valid r2 | _ => false end
      else if (b =? 240)%N then
        match r with String c1 (String c2 (String c3 r3)) => in_range c1 144 191 && is_cont c2 && is_cont c3 && utf8_valid r3 | _ => false end
      else if in_range a 241 243 then
        match r with String c1 (String c2 (String c3 r3)) => is_cont c1 && is_cont c2 && is_cont c3 && utf8_valid r3 | _ => false end
      else if (b =? 244)%N then
        match r with String c1 (String c2 (String c3 r3)) => in_range c1 128 143 && is_cont c2 && is_cont c3 && utf8_valid r3 | _ => false end
      else false
  end.

(* ---- terminators ------------------------------------------------------------------ *)
(* tcp_ops::handle_client: an Error answer => "error <msg> \n", anything else (a refused
   version included) => "ok \n" *)
Definition term_tcp (r : resp) : str :=
  match r with
  | RError msg => "error " +++ msg +++ " " +++ nlS
  | _ => "ok " +++ nlS
  end.

(* ws_ops::on_message: Error and VersionError => "error <msg> \n", anything else "ok \n" *)
Definition term_ws (r : resp) : str :=
  match r with
  | RError msg => "error " +++ msg +++ " " +++ nlS
  | RVersionError _ _ _ _ _ _ => "error Invalid version! " +++ nlS
  | _ => "ok " +++ nlS
  end.

(* what became of the connection's service thread *)
Inductive fate := Serving | ThreadDied.

(* one line read by the TCP loop (the line feed is part of what process_request gets);
   a line that is not UTF-8 is dropped by read_line without any answer *)
Definition tcp_line (n : node) (c : nat) (line : str) : node * fate :=
  if negb (utf8_valid line) then (n, Serving) else
  let '(n1, r) := step n c (line +++ nlS) in
  match r with
  | RPanic => (n1, ThreadDied)
  | _ => (send n1 c (term_tcp r), Serving)
  end.

(* one WebSocket frame: split on ';', each part is a command (not trimmed, blanks included)
   answered by its own terminator *)
Fixpoint ws_parts (n : node) (c : nat) (parts : list str) : node * fate :=
  match parts with
  | [] => (n, Serving)
  | p :: rest =>
      let '(n1, r) := step n c p in
      match r with
      | RPanic => (n1, ThreadDied)
      | _ => ws_parts (send n1 c (term_ws r)) c rest
      end
  end.

(* the payload of a text frame is UTF-8 by protocol (the library refuses others before the
   handler runs); a binary frame reaches the handler as it is *)
Definition ws_frame (n : node) (c : nat) (payload : str) : node * fate :=
  if negb (utf8_valid payload) then (send n c ("error Invalid message " +++ nlS), Serving)
  else ws_parts n c (split_char ";" payload).

(* end of a connection (EOF on the socket / on_close): the session is not a cluster member *)
Definition conn_closed (n : node) (c : nat) : node := disconnect n c.

(* number of terminators a frame produces when nothing panics *)
Definition ws_terminators (payload : str) : nat := List.length (split_char ";" payload).

(* ---- a node behind its three listeners: any sequence of transport events ------------- *)
Inductive net_ev :=
| NConnect                                   (* a TCP or WebSocket connection is accepted *)
| NTcpLine (c : nat) (bytes : str)           (* one line on a TCP connection, any bytes *)
| NWsFrame (c : nat) (payload : str)         (* one WebSocket text or binary frame, any bytes *)
| NHttp (body : str)                         (* one HTTP request, any body bytes *)
| NClosed (c : nat).                         (* end of a TCP / WebSocket connection *)

(* the HTTP worker reads the body with read_to_string: a body that is not UTF-8 is answered
   500 without touching the node *)
Definition http_bytes (n : node) (body : str) : node * option (list str) :=
  if negb (utf8_valid body) then (n, Some []) else http_request n body.

(* second component: every service thread involved is still alive afterwards *)
Definition net_step (n : node) (e : net_ev) : node * bool :=
  match e with
  | NConnect => (fst (connect n), true)
  | NTcpLine c b => let '(n1, f) := tcp_line n c b in (n1, match f with Serving => true | ThreadDied => false end)
  | NWsFrame c b => let '(n1, f) := ws_frame n c b in (n1, match f with Serving => true | ThreadDied => false end)
  | NHttp b => let '(n1, o) := http_bytes n b in (n1, match o with Some _ => true | None => false end)
  | NClosed c => (conn_closed n c, true)
  end.

Fixpoint net_run (n : node) (evs : list net_ev) : node * bool :=
  match evs with
  | [] => (n, true)
  | e :: r => let '(n1, ok) := net_step n e in
              let '(n2, ok2) := net_run n1 r in (n2, ok && ok2)
  end.
