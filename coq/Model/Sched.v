(* Sched.v -- lock-granularity interleaving semantics of client commands on one node.
   A thread (one client session) runs its commands; it PARKS before every acquisition of
   Database.map / Watchers.map (the yield points of the harness) and at the start of every
   command; a [release] runs it from its park point through the critical section it was
   about to enter up to its next park point.  What is done inside one critical section is
   one atomic step on the shared node state; what a thread carries across park points is
   in its program counter [pc].

   Covered commands (the ones C02/C03/C19 quantify over), for sessions that selected a
   database with strategy none or newer: set, set-safe, get, get-safe, remove, increment,
   watch, unwatch, unwatch-all, keys; and use-db (C17: the connection counter and its
   $connections key).  Any other line is run atomically with Node.step. *)
From NunDB Require Import Model.Base Model.Pending Model.Parse Model.Node.
Local Open Scope Z_scope.

Inductive pc :=
| PcCmd                                                  (* parked at "cmd" *)
| PcPerm (rq : request)                                  (* parked at map.read: permission lookup *)
| PcSetWrite (dbn key value : str) (ver : Z) (opp : N) (resolving : bool) (orig : Z)   (* map.write; orig = version of the request *)
| PcNotify (dbn key value : str) (nv : Z) (rq : request) (* watchers.read; then replication *)
| PcGetRead (dbn key : str) (safe : bool)                (* map.read *)
| PcRemoveWrite (dbn key : str)                          (* map.write *)
| PcRemoveNotify (dbn key : str) (rq : request)          (* watchers.write *)
| PcIncWrite (dbn key : str) (inc : Z) (rq : request)    (* map.write *)
| PcWatch (dbn key : str)                                (* watchers.write *)
| PcUnwatch (dbn key : str)                              (* watchers.write *)
| PcUnwatchAllClone (dbn : str)                          (* watchers.write: clone the map *)
| PcUnwatchAllKeys (dbn : str) (keys : list str)         (* watchers.write per key *)
| PcKeys (dbn pattern : str)                             (* map.read *)
| PcUseTok (token name : str) (user : option str)        (* map.read: use-db checks the token / the user's token *)
| PcPub (dbn : str) (cnt : Z) (opp : N) (k : pubk)       (* map.write: set_connection_counter writes $connections := cnt *)
| PcPubNotify (dbn : str) (cnt : Z) (nv : Z) (k : pubk)  (* watchers.read: its watchers are told, then the counter is read again *)
| PcDone
(* what use-db goes on with once a counter is published *)
with pubk :=
| KUseInc (name : str) (user : option str) (rq : request)   (* the previous database is done: select [name], count up, publish *)
| KFinish (rq : request) (r : resp).

Record thr := mkThr {
  t_sid : nat;
  t_prog : list str;            (* lines still to run *)
  t_pc : pc;
  t_replies : list resp;
  t_trace : list str;            (* yield sites passed, in order *)
  t_hints : list (list str) }.   (* observed HashMap orders for this thread's unwatch-all loops *)

Definition park (t : thr) (p : pc) (site : str) : thr :=
  mkThr (t_sid t) (t_prog t) p (t_replies t) (t_trace t ++ [site]) (t_hints t).

(* a command is finished: record the reply, then park at "cmd" for the next one or end *)
Definition finish (t : thr) (r : resp) : thr :=
  match t_prog t with
  | [] => mkThr (t_sid t) [] PcDone (t_replies t ++ [r]) (t_trace t) (t_hints t)
  | _ => mkThr (t_sid t) (t_prog t) PcCmd (t_replies t ++ [r]) (t_trace t ++ ["cmd"]) (t_hints t)
  end.

Definition new_thread (sid : nat) (prog : list str) (hints : list (list str)) : thr :=
  match prog with
  | [] => mkThr sid [] PcDone [] [] hints
  | _ => mkThr sid prog PcCmd [] ["cmd"] hints
  end.

(* keys of [ks] in the order given by [hint] (unknown keys of the hint are ignored, keys the
   hint does not mention keep their relative order at the end) *)
Definition reorder (ks hint : list str) : list str :=
  filter (fun k => existsb (String.eqb k) ks) hint ++
  filter (fun k => negb (existsb (String.eqb k) hint)) ks.

(* the tail of process_request once the handler's reply is known *)
Definition complete (n : node) (t : thr) (rq : request) (seldb : option str) (r : resp) : node * thr :=
  let '(n1, r1) := replicate_request n rq seldb r in
  (n1, finish t r1).

Definition key_of (rq : request) : option (str * perm_kind) :=
  match rq with
  | RqSet k _ _ => Some (k, PWrite)
  | RqGet k | RqGetSafe k | RqWatch k => Some (k, PRead)
  | RqRemove k => Some (k, PRemove)
  | RqIncrement k _ => Some (k, PIncrement)
  | _ => None
  end.

(* permission lookup passes a yield point exactly when has_permission reads the
   permission key: not a $$ key, database selected and existing *)
Definition perm_yields (n : node) (c : nat) (key : str) : bool :=
  negb (starts_with key "$$") &&
  match s_db (get_sess n c) with
  | Some dbn => match get_db n dbn with Some _ => true | None => false end
  | None => false
  end.

(* after the guard passed for request [rq] on database [dbn] *)
Definition after_guard (n : node) (t : thr) (rq : request) (dbn : str) : node * thr :=
  let c := t_sid t in
  match rq with
  | RqSet key value ver =>
      let '(n1, id) := tick n in            (* Change::new *)
      (n1, park t (PcSetWrite dbn key value ver id false ver) "map.write")
  | RqGet key => (n, park t (PcGetRead dbn key false) "map.read")
  | RqGetSafe key => (n, park t (PcGetRead dbn key true) "map.read")
  | RqRemove key =>
      if String.eqb key "$$token" then complete n t rq (s_db (get_sess n c)) (RError "$$token key cannot be removed")
      else (n, park t (PcRemoveWrite dbn key) "map.write")
  | RqIncrement key inc =>
      if is_primary n then (n, park t (PcIncWrite dbn key inc rq) "map.write")
      else complete (send_to_primary n ("replicate-increment " +++ dbn +++ " " +++ key +++ " " +++ Z_to_str inc))
                    t rq (s_db (get_sess n c)) ROk
  | RqWatch key => (n, park t (PcWatch dbn key) "watchers.write")
  | _ => (n, t)
  end.

(* ---- use-db: the counter and its key ------------------------------------------------------
   set_connection_counter (fix: publish again until what was written is what the counter says):
   read the counter, Change::new (op id), then -- across a yield point -- write the key. *)
Definition start_publish (n : node) (t : thr) (dbn : str) (k : pubk) : node * thr :=
  match get_db n dbn with
  | Some d => let '(n1, id) := tick n in (n1, park t (PcPub dbn (d_conn d) id k) "map.write")
  | None => (n, t)
  end.

(* select [name], count the session in, publish *)
Definition use_inc (n : node) (t : thr) (name : str) (user : option str) (rq : request) : node * thr :=
  let c := t_sid t in
  let n1 := put_sess n c (set_sel (get_sess n c) (Some name)
                            (match user with Some u => Some u | None => s_user (get_sess n c) end)) in
  match get_db n1 name with
  | Some d1 => start_publish (put_db n1 name (db_set_conn d1 (d_conn d1 + 1))) t name (KFinish rq ROk)
  | None => (n1, finish t ROk)
  end.

Definition after_publish (n : node) (t : thr) (k : pubk) : node * thr :=
  match k with
  | KUseInc name user rq => use_inc n t name user rq
  | KFinish rq r =>
      let '(n1, r1) := replicate_request n rq (s_db (get_sess n (t_sid t))) r in (n1, finish t r1)
  end.

(* start the next command of the thread: everything up to its first yield point *)
Definition start_cmd (n : node) (t : thr) : node * thr :=
  match t_prog t with
  | [] => (n, mkThr (t_sid t) [] PcDone (t_replies t) (t_trace t) (t_hints t))
  | line :: rest =>
      let t0 := mkThr (t_sid t) rest (t_pc t) (t_replies t) (t_trace t) (t_hints t) in
      let c := t_sid t in
      let seldb := s_db (get_sess n c) in
      match parse_request (trim_char nl line) with
      | PErr e => (n, finish t0 (RError e))
      | PPanic => (n, finish t0 RPanic)
      | POk rq =>
          match key_of rq with
          | Some (key, kind) =>
              if perm_yields n c key then (n, park t0 (PcPerm rq) "map.read")
              else
                (* the guard refuses (or lets an administrator through) without reading the map *)
                match guard_safe n c key kind with
                | GStop n' r => complete n' t0 rq seldb r
                | GGo dbn _ => after_guard n t0 rq dbn
                end
          | None =>
              match rq with
              | RqUnWatch key =>
                  match guard_db n c with
                  | GStop n' r => complete n' t0 rq seldb r
                  | GGo dbn _ => (n, park t0 (PcUnwatch dbn key) "watchers.write")
                  end
              | RqUnWatchAll =>
                  match guard_db n c with
                  | GStop n' r => complete n' t0 rq seldb r
                  | GGo dbn _ => (n, park t0 (PcUnwatchAllClone dbn) "watchers.write")
                  end
              | RqKeys pattern =>
                  match guard_db n c with
                  | GStop n' r => complete n' t0 rq seldb r
                  | GGo dbn _ => (n, park t0 (PcKeys dbn pattern) "map.read")
                  end
              | RqUseDb token name user =>
                  match get_db n name with
                  | None => complete n t0 rq seldb (RError "Not a valid database name")
                  | Some _ => (n, park t0 (PcUseTok token name user) "map.read")
                  end
              | _ =>
                  (* not a scheduled command: run it in one go *)
                  let '(n1, r) := step n c line in (n1, finish t0 r)
              end
          end
      end
  end.

(* one release of a parked thread *)
Definition release (n : node) (t : thr) : node * thr :=
  let c := t_sid t in
  let seldb := s_db (get_sess n c) in
  match t_pc t with
  | PcDone => (n, t)
  | PcCmd => start_cmd n t
  | PcPerm rq =>
      match key_of rq with
      | Some (key, kind) =>
          match guard_safe n c key kind with
          | GStop n' r => complete n' t rq seldb r
          | GGo dbn _ => after_guard n t rq dbn
          end
      | None => (n, t)
      end
  | PcSetWrite dbn key value ver opp resolving orig =>
      let rq := RqSet key value orig in
      match get_db n dbn with
      | None => complete n t rq seldb (RError "Not a valid database name")
      | Some d =>
          let '(d1, r, _) := set_value d (mkCh key value ver opp resolving) in
          match r with
          | RSet _ _ =>
              let nv := match get_value d1 key with Some v => v_ver v | None => 0 end in
              (put_db n dbn d1, park t (PcNotify dbn key value nv rq) "watchers.read")
          | RVersionError _ old_version _ old _ _ =>
              match d_strat d with
              | SNewer =>
                  if N.ltb (v_opp old) opp then
                    let '(n1, id) := tick n in
                    (n1, park t (PcSetWrite dbn key value old_version id true orig) "map.write")
                  else
                    (* the stored change is newer: keep it, answer with its value *)
                    let n2 := if is_primary n then n else send_to_primary n (replicate_msg dbn key value orig) in
                    complete n2 t rq seldb (RSet key (v_val old))
              | _ => complete n t rq seldb r
              end
          | _ => complete n t rq seldb r
          end
      end
  | PcNotify dbn key value nv rq =>
      let msgs := match get_db n dbn with Some d => notify_msgs d key value nv | None => [] end in
      let n1 := sends n msgs in
      match rq with
      | RqSet k v ver =>
          let n2 := if is_primary n1 then n1 else send_to_primary n1 (replicate_msg dbn k v ver) in
          complete n2 t rq seldb (RSet k v)
      | _ => complete n1 t rq seldb ROk
      end
  | PcGetRead dbn key safe =>
      match get_db n dbn with
      | None => complete n t (RqGet key) seldb (RError "Not a valid database name")
      | Some d =>
          let '(v, ver) := get_key_value_new d key in
          let m := if safe then "value-version " +++ Z_to_str ver +++ " " +++ v +++ nlS else "value " +++ v +++ nlS in
          complete (send n c m) t (if safe then RqGetSafe key else RqGet key) seldb (RValue key v ver)
      end
  | PcRemoveWrite dbn key =>
      match get_db n dbn with
      | None => complete n t (RqRemove key) seldb (RError "Not a valid database name")
      | Some d =>
          let '(d1, _, _) := remove_value d key in
          (put_db n dbn (db_set_watch d1 (d_watch d)), park t (PcRemoveNotify dbn key (RqRemove key)) "watchers.write")
      end
  | PcRemoveNotify dbn key rq =>
      let msgs := match get_db n dbn with
                  | Some d => map (fun s => (s, "removed " +++ key +++ nlS)) (watchers_of d key)
                  | None => [] end in
      let n1 := sends n msgs in
      let n2 := if is_primary n1 then n1 else send_to_primary n1 ("replicate-remove " +++ dbn +++ " " +++ key) in
      complete n2 t rq seldb ROk
  | PcIncWrite dbn key inc rq =>
      match get_db n dbn with
      | None => complete n t rq seldb (RError "Not a valid database name")
      | Some d =>
          let '(n1, id) := tick n in
          let '(d1, r, _) := inc_value d key inc id in
          match r with
          | ROk =>
              let txt := match get_value d1 key with Some v => v_val v | None => "" end in
              (put_db n1 dbn d1, park t (PcNotify dbn key txt (-1) rq) "watchers.read")
          | _ => complete n1 t rq seldb r
          end
      end
  | PcWatch dbn key =>
      match get_db n dbn with
      | None => complete n t (RqWatch key) seldb (RError "Not a valid database name")
      | Some d => complete (put_db n dbn (watch_key d key c)) t (RqWatch key) seldb ROk
      end
  | PcUnwatch dbn key =>
      match get_db n dbn with
      | None => complete n t (RqUnWatch key) seldb (RError "Not a valid database name")
      | Some d => complete (put_db n dbn (unwatch_key d key c)) t (RqUnWatch key) seldb ROk
      end
  | PcUnwatchAllClone dbn =>
      match get_db n dbn with
      | None => complete n t RqUnWatchAll seldb (RError "Not a valid database name")
      | Some d =>
          let '(hint, rest) := match t_hints t with h :: r => (h, r) | [] => ([], []) end in
          let t1 := mkThr (t_sid t) (t_prog t) (t_pc t) (t_replies t) (t_trace t) rest in
          match reorder (map fst (d_watch d)) hint with
          | [] => complete n t1 RqUnWatchAll seldb ROk
          | ks => (n, park t1 (PcUnwatchAllKeys dbn ks) "watchers.write")
          end
      end
  | PcUnwatchAllKeys dbn keys =>
      match keys with
      | [] => complete n t RqUnWatchAll seldb ROk
      | k :: rest =>
          let n1 := match get_db n dbn with Some d => put_db n dbn (unwatch_key d k c) | None => n end in
          match rest with
          | [] => complete n1 t RqUnWatchAll seldb ROk
          | _ => (n1, park t (PcUnwatchAllKeys dbn rest) "watchers.write")
          end
      end
  | PcKeys dbn pattern =>
      match get_db n dbn with
      | None => complete n t (RqKeys pattern) seldb (RError "Not a valid database name")
      | Some d =>
          let ks := keys_fold (list_keys d pattern (s_auth (get_sess n c))) in
          complete (send n c ("keys " +++ ks +++ nlS)) t (RqKeys pattern) seldb (RValue "keys" ks (-1))
      end
  | PcUseTok token name user =>
      let rq := RqUseDb token name user in
      match get_db n name with
      | None => complete n t rq seldb (RError "Not a valid database name")
      | Some d =>
          let tkey := match user with Some u => "$$user_" +++ u | None => "$$token" end in
          let valid := match get_value d tkey with
                       | Some v => String.eqb (v_val v) token
                       | None => false end in
          if negb valid then complete n t rq seldb (RError "Invalid token")
          else
            (* the session moves away from the database it had selected: count it out there, publish, then go on *)
            match seldb with
            | Some prev =>
                match get_db n prev with
                | Some dp => start_publish (put_db n prev (db_set_conn dp (d_conn dp - 1))) t prev (KUseInc name user rq)
                | None => use_inc n t name user rq
                end
            | None => use_inc n t name user rq
            end
      end
  | PcPub dbn cnt opp k =>
      match get_db n dbn with
      | None => after_publish n t k
      | Some d =>
          let '(d1, _, _) := set_value d (mkCh "$connections" (Z_to_str cnt) (-1) opp false) in
          let nv := match get_value d1 "$connections" with Some v => v_ver v | None => 0 end in
          (put_db n dbn d1, park t (PcPubNotify dbn cnt nv k) "watchers.read")
      end
  | PcPubNotify dbn cnt nv k =>
      match get_db n dbn with
      | None => after_publish n t k
      | Some d =>
          let n1 := sends n (notify_msgs d "$connections" (Z_to_str cnt) nv) in
          (* fix: what was written must be what the counter says now, otherwise publish again *)
          if Z.eqb (d_conn d) cnt then after_publish n1 t k
          else start_publish n1 t dbn k
      end
  end.

(* ---- schedules ---------------------------------------------------------------------- *)
Definition is_done (t : thr) : bool := match t_pc t with PcDone => true | _ => false end.

Definition release_nth (n : node) (ts : list thr) (i : nat) : node * list thr :=
  match nth_error ts i with
  | Some t => if is_done t then (n, ts)
              else let '(n1, t1) := release n t in (n1, list_update ts i t1)
  | None => (n, ts)
  end.

Definition run_schedule (n : node) (ts : list thr) (sched : list nat) : node * list thr :=
  fold_left (fun acc i => release_nth (fst acc) (snd acc) i) sched (n, ts).

(* afterwards every thread is run to completion in index order (fuel: a thread needs at
   most a bounded number of releases per command) *)
Fixpoint run_out (fuel : nat) (n : node) (ts : list thr) (i : nat) : node * list thr :=
  match fuel with
  | O => (n, ts)
  | S f =>
      match nth_error ts i with
      | None => (n, ts)
      | Some t => if is_done t then run_out f n ts (S i)
                  else let '(n1, ts1) := release_nth n ts i in run_out f n1 ts1 i
      end
  end.

Definition thread_fuel (ts : list thr) : nat :=
  fold_left (fun a t => (a + 4 + 64 * List.length (t_prog t))%nat) ts (List.length ts).

Definition run_par (n : node) (ts : list thr) (sched : list nat) : node * list thr :=
  let '(n1, ts1) := run_schedule n ts sched in
  run_out (thread_fuel ts1 + 64) n1 ts1 0.
