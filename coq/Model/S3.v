(* The two S3 storage strategies (src/lib/storage/s3.rs, s3_partition.rs) against an object
   store with fault injection (C18).  Objects are byte strings; the order in which a snapshot
   iterates the database's HashMap is a parameter (observed from the run by a hook), and so is
   the partition of each key (SipHash of the key modulo the partition count, computed by the
   implementation). *)
From NunDB Require Import Model.Base Model.Pending Model.Parse Model.Node Model.Disk.
Require Import String List NArith ZArith Bool Ascii. Import ListNotations.
Open Scope string_scope.
Open Scope list_scope.
Open Scope N_scope.

Definition objects := list (str * str).

(* ---- the object store (the harness's stub): 403 on injected failures ---------------------- *)
Record stub := mkStub {
  st_objs : objects;
  st_puts : N;                      (* PUT requests seen *)
  st_gets : N;                      (* GET object requests seen *)
  st_putfail : option (N * bool);   (* fail the n-th PUT (counted from 1); true: and every later one *)
  st_getfail : option N }.          (* fail the n-th GET once *)

Definition stub0 : stub := mkStub [] 0 0 None None.

Definition stub_put (s : stub) (name data : str) : stub * bool :=
  let n := st_puts s + 1 in
  let fail := match st_putfail s with
              | Some (at_, always) => if always then N.leb at_ n else N.eqb at_ n
              | None => false
              end in
  if fail then (mkStub (st_objs s) n (st_gets s) (st_putfail s) (st_getfail s), false)
  else (mkStub (assoc_set String.eqb name data (st_objs s)) n (st_gets s) (st_putfail s) (st_getfail s), true).

(* None = request failed (denied or no such key) *)
Definition stub_get (s : stub) (name : str) : stub * option str :=
  let n := st_gets s + 1 in
  let s' := mkStub (st_objs s) (st_puts s) n (st_putfail s) (st_getfail s) in
  match st_getfail s with
  | Some at_ => if N.eqb at_ n then (s', None) else (s', assoc_get String.eqb name (st_objs s))
  | None => (s', assoc_get String.eqb name (st_objs s))
  end.

Definition prefix_name : str := "nun-db-base".

(* ListObjectsV2: the keys with the prefix, in lexicographic order *)
Definition stub_list (s : stub) (prefix : str) : list str :=
  sort_strs (filter (fun k => starts_with k prefix) (map fst (st_objs s))).

(* ---- strategy s3: two objects per database, rewritten with the keys "to update" ------------ *)
Record s3w := mkS3W { sw_k : str; sw_v : str; sw_vaddr : N; sw_kaddr : N; sw_mem : list (str * value); sw_clock : N }.

Definition s3_one (w : s3w) (kv : str * value) : s3w :=
  let '(key, v) := kv in
  (* fix: a removed key is left out of the rewritten objects *)
  if vstate_eqb (v_st v) VDeleted then w else
  let vrec := le_bytes 8 (slen (v_val v)) +++ v_val v +++ le_bytes 4 (status_code (v_st v)) in
  let krec := le_bytes 8 (slen key) +++ key +++ i32_bytes (v_ver v) +++ le_bytes 8 (sw_vaddr w) in
  mkS3W (sw_k w +++ krec) (sw_v w +++ vrec)
        (sw_vaddr w + (8 + slen (v_val v) + 4)) (sw_kaddr w + (8 + slen key + 8 + 4))
        (* set_value_as_ok: every written entry becomes Ok in memory, tombstones included *)
        (assoc_set String.eqb key (mkV (v_val v) (v_ver v) (sw_clock w) VOk (sw_vaddr w) (sw_kaddr w)) (sw_mem w))
        (sw_clock w + 1).

(* S3Storage::storage_data_on_cloud: the two PUT results are ignored *)
Definition s3_snapshot (d : db) (dbn : str) (order : list str) (reclaim : bool) (s : stub) (clock : N)
  : stub * list (str * value) * N :=
  (* fix: every key is written at each snapshot, whatever [reclaim] says *)
  let w := fold_left s3_one (keys_to_update (d_map d) order true) (mkS3W "" "" 0 0 (d_map d) clock) in
  let '(s1, _) := stub_put s (prefix_name +++ "/" +++ dbn +++ "/nun.keys") (sw_k w) in
  let '(s2, _) := stub_put s1 (prefix_name +++ "/" +++ dbn +++ "/nun.values") (sw_v w) in
  (s2, sw_mem w, sw_clock w).

(* the loader: the disk loader's loop without the "version -1 = deleted" test *)
Definition s3_load_step (keys vals : str) (st : lstate) : (lstate + lres) :=
  let '(lenbuf1, n) := read_into keys (l_pos st) (l_lenbuf st) in
  if Nat.eqb n 0 then inr (LOk (l_map st) (l_clock st))
  else
    let klen := le_decode lenbuf1 in
    if N.ltb max_alloc klen then inr LPanic else
    let pos1 := (l_pos st + n)%nat in
    let '(kbytes, kn) := read_into keys pos1 (zeros (N.to_nat klen)) in
    if negb (utf8_valid kbytes) then inr LPanic else
    let pos2 := (pos1 + kn)%nat in
    let '(verbuf1, vn) := read_into keys pos2 (l_verbuf st) in
    let pos3 := (pos2 + vn)%nat in
    let '(addrbuf1, an) := read_into keys pos3 (l_addrbuf st) in
    let pos4 := (pos3 + an)%nat in
    let version := i32_decode verbuf1 in
    let vaddr := le_decode addrbuf1 in
    let '(lenbuf2, _) := read_into vals (N.to_nat vaddr) lenbuf1 in
    let vlen := le_decode lenbuf2 in
    if N.ltb max_alloc vlen then inr LPanic else
    let '(vbytes, _) := read_into vals (N.to_nat vaddr + 8) (zeros (N.to_nat vlen)) in
    if negb (utf8_valid vbytes) then inr LPanic else
    let m' := assoc_set String.eqb kbytes (mkV vbytes version (l_clock st) VOk vaddr (N.of_nat pos4)) (l_map st) in
    inl (mkL pos4 lenbuf2 verbuf1 addrbuf1 0 m' (l_clock st + 1)).

Fixpoint s3_load_loop (fuel : nat) (keys vals : str) (st : lstate) : lres :=
  match fuel with
  | O => LOk (l_map st) (l_clock st)
  | S f => match s3_load_step keys vals st with
           | inl st' => s3_load_loop f keys vals st'
           | inr r => r
           end
  end.

(* read_data_from_cloud: values first (unwrap), then keys (None => the caller unwraps) *)
Definition s3_read_db (s : stub) (dbn : str) (clock : N) : stub * lres :=
  let '(s1, vals) := stub_get s (prefix_name +++ "/" +++ dbn +++ "/nun.values") in
  match vals with
  | None => (s1, LPanic)
  | Some v =>
      let '(s2, keys) := stub_get s1 (prefix_name +++ "/" +++ dbn +++ "/nun.keys") in
      match keys with
      | None => (s2, LPanic)
      | Some k => (s2, s3_load_loop (S (String.length k)) k v (mkL 0 (zeros 8) (zeros 4) (zeros 8) 0 [] clock))
      end
  end.

(* "<prefix>/<db...>/<file>" -> "<db...>" *)
Definition db_of_object (name : str) : str :=
  let rest := match splitn 2 "/"%char name with [_; r] => r | _ => name end in
  let parts := split_char "/"%char rest in
  fold_left (fun acc p => if String.eqb acc "" then p else acc +++ "/" +++ p) (removelast parts) "".

Definition s3_db_names (s : stub) : list str :=
  map db_of_object (filter (fun k => contains k "nun.values") (stub_list s prefix_name)).

(* ---- strategy s3_patition: one object per partition, rewritten with every key of it ------- *)
Definition part_of (parts : list (str * N)) (key : str) : N :=
  match assoc_get String.eqb key parts with Some p => p | None => 0 end.

Record pw := mkPW { pw_buf : str; pw_mem : list (str * value); pw_clock : N }.

Definition part_one (p : N) (w : pw) (kv : str * value) : pw :=
  let '(key, v) := kv in
  (* fix: a removed key is left out of the rewritten partition *)
  if vstate_eqb (v_st v) VDeleted then w else
  let rec := le_bytes 8 (slen key) +++ key +++ le_bytes 8 (slen (v_val v)) +++ v_val v +++
             le_bytes 4 (status_code VOk) +++ i32_bytes (v_ver v) in
  mkPW (pw_buf w +++ rec)
       (assoc_set String.eqb key (mkV (v_val v) (v_ver v) (pw_clock w) VOk p p) (pw_mem w))
       (pw_clock w + 1).

Fixpoint insert_N (x : N) (l : list N) : list N :=
  match l with
  | [] => [x]
  | y :: r => if N.ltb x y then x :: l else if N.eqb x y then l else y :: insert_N x r
  end.

(* one partition with retries: [orders] holds one observed order per attempt *)
Fixpoint part_attempts (fuel : nat) (parts : list (str * N)) (p : N) (dbn : str)
         (mem : list (str * value)) (s : stub) (clock : N) (orders : list (list str))
  : stub * list (str * value) * N * list (list str) * bool :=
  let '(o, os) := match orders with o :: os => (o, os) | [] => ([], []) end in
  let ks := filter (fun kv => N.eqb (part_of parts (fst kv)) p) (order_map mem o) in
  let w := fold_left (part_one p) ks (mkPW "" mem clock) in
  let '(s1, ok) := stub_put s (prefix_name +++ "/" +++ dbn +++ "/" +++ N_to_str p +++ ".nun") (pw_buf w) in
  if ok then (s1, pw_mem w, pw_clock w, os, true)
  else match fuel with
       | O => (s1, pw_mem w, pw_clock w, os, false)
       | S f => part_attempts f parts p dbn (pw_mem w) s1 (pw_clock w) os
       end.

(* S3PartitionStorage::storage_data_on_cloud; false = panic!("Fail to store partition") *)
Fixpoint part_snapshot_go (retry : nat) (parts : list (str * N)) (ps : list N) (dbn : str)
         (mem : list (str * value)) (s : stub) (clock : N) (orders : list (list str))
  : stub * list (str * value) * N * list (list str) * bool :=
  match ps with
  | [] => (s, mem, clock, orders, true)
  | p :: rest =>
      let '(s1, mem1, clk1, os1, ok) := part_attempts retry parts p dbn mem s clock orders in
      if ok then part_snapshot_go retry parts rest dbn mem1 s1 clk1 os1
      else (s1, mem1, clk1, os1, false)
  end.

Definition part_snapshot (retry : nat) (parts : list (str * N)) (d : db) (dbn : str) (order0 : list str)
           (reclaim : bool) (s : stub) (clock : N) (orders : list (list str))
  : stub * list (str * value) * N * list (list str) * bool :=
  (* partitions of the keys "to update", sorted, without duplicates *)
  let ps := fold_left (fun acc kv => insert_N (part_of parts (fst kv)) acc) (keys_to_update (d_map d) order0 reclaim) [] in
  part_snapshot_go retry parts ps dbn (d_map d) s clock orders.

Record plstate := mkPL { pl_pos : nat; pl_map : list (str * value); pl_clock : N }.

(* the partition object parser: every read uses a fresh zeroed buffer except the key length
   (its buffer lives outside the loop) *)
Definition part_load_step (p : N) (file : str) (lenbuf : str) (st : plstate) : (plstate * str + lres) :=
  let '(lenbuf1, n) := read_into file (pl_pos st) lenbuf in
  if Nat.eqb n 0 then inr (LOk (pl_map st) (pl_clock st))
  else
    let klen := le_decode lenbuf1 in
    if N.ltb max_alloc klen then inr LPanic else
    let pos1 := (pl_pos st + n)%nat in
    let '(kbytes, kn) := read_into file pos1 (zeros (N.to_nat klen)) in
    if negb (utf8_valid kbytes) then inr LPanic else
    let pos2 := (pos1 + kn)%nat in
    let '(vlenbuf, vln) := read_into file pos2 (zeros 8) in
    let vlen := le_decode vlenbuf in
    if N.ltb max_alloc vlen then inr LPanic else
    let pos3 := (pos2 + vln)%nat in
    let '(vbytes, vn) := read_into file pos3 (zeros (N.to_nat vlen)) in
    if negb (utf8_valid vbytes) then inr LPanic else
    let pos4 := (pos3 + vn)%nat in
    let '(stbuf, sn) := read_into file pos4 (zeros 4) in
    let pos5 := (pos4 + sn)%nat in
    let '(verbuf, vrn) := read_into file pos5 (zeros 4) in
    let pos6 := (pos5 + vrn)%nat in
    let stc := i32_decode stbuf in
    let stt := if Z.eqb stc 1 then VDeleted else if Z.eqb stc 2 then VUpdated else if Z.eqb stc 3 then VNew else VOk in
    let m' := assoc_set String.eqb kbytes (mkV vbytes (i32_decode verbuf) (pl_clock st) stt p 0) (pl_map st) in
    inl (mkPL pos6 m' (pl_clock st + 1), lenbuf1).

Fixpoint part_load_loop (fuel : nat) (p : N) (file : str) (lenbuf : str) (st : plstate) : lres :=
  match fuel with
  | O => LOk (pl_map st) (pl_clock st)
  | S f => match part_load_step p file lenbuf st with
           | inl (st', lb) => part_load_loop f p file lb st'
           | inr r => r
           end
  end.

(* one partition file with retries; None = the loader gives up (Err) *)
Fixpoint part_get_retry (fuel : nat) (s : stub) (name : str) : stub * option str :=
  let '(s1, r) := stub_get s name in
  match r with
  | Some d => (s1, Some d)
  | None => match fuel with O => (s1, None) | S f => part_get_retry f s1 name end
  end.

Inductive pres := PLoaded (m : list (str * value)) (clock : N) | PFail | PPanicked.

(* read_data_from_cloud: partitions in listing order; stems that are not numbers panic *)
Definition part_read_db (retry : nat) (s : stub) (dbn : str) (clock : N) : stub * pres :=
  let names := stub_list s (prefix_name +++ "/" +++ dbn +++ "/") in     (* fix: trailing slash *)
  let stems := map (fun nm => match split_char "."%char (last (split_char "/"%char nm) "") with x :: _ => x | [] => "" end) names in
  fold_left (fun acc stem =>
      let '(s0, r) := acc in
      match r with
      | PLoaded m clk =>
          let '(s1, got) := part_get_retry retry s0 (prefix_name +++ "/" +++ dbn +++ "/" +++ stem +++ ".nun") in
          match got with
          | None => (s1, PFail)      (* the remaining partitions are still requested by the lazy iterator: see below *)
          | Some data =>
              match parse_u64 stem with
              | None => (s1, PPanicked)
              | Some p =>
                  match part_load_loop (S (String.length data)) p data (zeros 8) (mkPL 0 m clk) with
                  | LOk m' clk' => (s1, PLoaded m' clk')
                  | LPanic => (s1, PPanicked)
                  end
              end
          end
      | _ => acc
      end) stems (s, PLoaded [] clock).

Fixpoint dedup_adj (l : list str) : list str :=
  match l with
  | a :: ((b :: _) as r) => if String.eqb a b then dedup_adj r else a :: dedup_adj r
  | _ => l
  end.

Definition part_db_names (s : stub) : list str :=
  dedup_adj (map db_of_object (filter (fun k => contains k ".nun") (stub_list s prefix_name))).

(* ---- node + stub ------------------------------------------------------------------------- *)
Inductive s3strat := StS3 | StPart.

Record snode := mkSN { sn_node : node; sn_stub : stub; sn_poisoned : bool }.

(* snapshot_all_pendding_dbs with an S3 write strategy; None = panicked *)
Fixpoint s3_flush_go (st : s3strat) (retry : nat) (parts : list (str * N)) (x : snode) (q : list (str * bool))
         (orders : list (list str)) : snode * bool :=
  match q with
  | [] => (x, true)
  | (dbn, reclaim) :: rest =>
      let n := sn_node x in
      match get_db n dbn with
      | None => s3_flush_go st retry parts x rest orders
      | Some d =>
          let '(o, os) := match orders with o :: os => (o, os) | [] => ([], []) end in
          match st with
          | StS3 =>
              let '(s1, mem, clk) := s3_snapshot d dbn o reclaim (sn_stub x) (n_clock n) in
              s3_flush_go st retry parts (mkSN (n_set_clock (put_db n dbn (db_set_map d mem)) clk) s1 (sn_poisoned x)) rest os
          | StPart =>
              (* the first observed order is that of get_keys_to_update (not recorded by the hook):
                 the partitions to write do not depend on it, only on the set of keys *)
              let '(s1, mem, clk, os1, ok) := part_snapshot retry parts d dbn (map fst (d_map d)) reclaim (sn_stub x) (n_clock n) orders in
              let x1 := mkSN (n_set_clock (put_db n dbn (db_set_map d mem)) clk) s1 (sn_poisoned x) in
              if ok then s3_flush_go st retry parts x1 rest os1
              else (mkSN (sn_node x1) (sn_stub x1) true, false)
          end
      end
  end.

Definition s3_flush (st : s3strat) (retry : nat) (parts : list (str * N)) (x : snode) (orders : list (list str)) : snode * bool :=
  if sn_poisoned x then (x, false) else
  let n := sn_node x in
  match n_snap n with
  | [] => (x, true)
  | _ =>
      let q := rev (dedup_snap (n_snap n)) in
      s3_flush_go st retry parts (mkSN (n_set_snap n []) (sn_stub x) false) q orders
  end.

(* a fresh node + load_all_dbs from the store; the databases load with id 1 / arbiter *)
Definition s3_add (n : node) (dbn : str) (m : list (str * value)) (clk : N) : node :=
  fst (add_database (n_set_clock n clk) dbn (mkDb m [] 0 1 SArbiter)).

Definition s3_restart (st : s3strat) (retry : nat) (x : snode) : snode * bool :=
  let n := sn_node x in
  let fresh := init_node (n_user n) (n_pwd n) (n_addr n) (n_pid n) (n_role n) (n_clock n) in
  match st with
  | StS3 =>
      fold_left (fun acc dbn =>
          let '(y, ok) := acc in
          if negb ok then acc else
          let '(s1, r) := s3_read_db (sn_stub y) dbn (n_clock (sn_node y)) in
          match r with
          | LOk m clk => (mkSN (s3_add (sn_node y) dbn m clk) s1 false, true)
          | LPanic => (mkSN (sn_node y) s1 false, false)
          end) (s3_db_names (sn_stub x)) (mkSN fresh (sn_stub x) false, true)
  | StPart =>
      fold_left (fun acc dbn =>
          let '(y, ok) := acc in
          if negb ok then acc else
          let '(s1, r) := part_read_db retry (sn_stub y) dbn (n_clock (sn_node y)) in
          match r with
          | PLoaded m clk => (mkSN (s3_add (sn_node y) dbn m clk) s1 false, true)
          | _ => (mkSN (sn_node y) s1 false, false)
          end) (part_db_names (sn_stub x)) (mkSN fresh (sn_stub x) false, true)
  end.
