(* Cluster.v -- several nodes, their replication threads, supervisors and links
   (src/lib/replication_ops.rs: start_replication_thread, start_replication_supervisor,
   replicate_message_to_secoundary / _to_all, register_pending_opp, get_pendding_opps_since;
   network/tcp_ops.rs: what a link's server side does with a line).

   The step granularity is the one the harness controls:
     - a client command at a node                        (Node.step)
     - one poll of a node's supervisor / replication future (handles everything queued)
     - one line delivered over a link (processed by the receiving node's handler with
       the link's server-side client; replies are queued on the way back)
     - one reply line delivered back (processed by the link's reader-side client)
   plus [settle], a fixed schedule that runs these to quiescence. *)
From NunDB Require Import Model.Base Model.Pending Model.Parse Model.Node Model.Oplog.
Local Open Scope N_scope.

Record link := mkLink {
  l_from : str; l_to : str;
  l_hs : list str;          (* handshake lines still to be sent (auth_on_replication) *)
  l_q : list str;           (* lines queued on member.sender *)
  l_server : nat;           (* session of the server-side client, at l_to *)
  l_reader : nat;           (* session of the reader-side client, at l_from *)
  l_replies : list str;     (* lines travelling back to l_from *)
  l_open : bool;
  l_sent : N;               (* lines delivered l_from -> l_to so far *)
  l_back : N }.             (* non-ok reply lines delivered l_to -> l_from so far *)

Record cnode := mkCN {
  cn_node : node;
  cn_log : ofile;                 (* the node's oplog (one file: no rotation at 1 GiB) *)
  cn_keymap : list (str * N);     (* keys_map: key name -> id *)
  cn_clients : list nat;          (* client index -> session index in n_sess *)
  cn_dead : bool }.               (* a service future of the node panicked *)

Record cluster := mkCl {
  c_nodes : list (str * cnode);
  c_links : list link;
  c_cross : N }.                  (* lines that crossed a link (deliveries + non-ok replies) *)

Definition get_cn (c : cluster) (name : str) : option cnode := assoc_get String.eqb name (c_nodes c).
Definition put_cn (c : cluster) (name : str) (x : cnode) : cluster :=
  mkCl (assoc_set String.eqb name x (c_nodes c)) (c_links c) (c_cross c).
Definition cn_set_node (x : cnode) (n : node) : cnode := mkCN n (cn_log x) (cn_keymap x) (cn_clients x) (cn_dead x).

(* ---- member table helpers (n_members : name -> (role, outbox)) ---------------------- *)
Definition has_member (n : node) (name : str) : bool :=
  match assoc_get String.eqb name (n_members n) with Some _ => true | None => false end.

(* Databases::add_cluster_member: a new Primary demotes everybody else *)
Definition add_member (n : node) (name : str) (r : role) : node :=
  let ms := match r with
            | Primary => map (fun m => (fst m, (Secondary, snd (snd m)))) (n_members n)
            | _ => n_members n
            end in
  let q := match assoc_get String.eqb name ms with Some (_, q) => q | None => [] end in
  n_set_members n (assoc_set String.eqb name (r, q) ms).

(* a member entry without a sender (the node's own entry after it won an election: ClusterMember
   { sender: None }) is marked by this sentinel at the head of its outbox; nothing is ever sent to it *)
Definition nosender : str := "<no-sender>".
Definition is_nosender (q : list str) : bool := match q with s :: _ => String.eqb s nosender | [] => false end.

Definition add_member_nosender (n : node) (name : str) (r : role) : node :=
  let ms := match r with
            | Primary => map (fun m => (fst m, (Secondary, snd (snd m)))) (n_members n)
            | _ => n_members n
            end in
  n_set_members n (assoc_set String.eqb name (r, [nosender]) ms).

Definition push_member (n : node) (name : str) (m : str) : node :=
  match assoc_get String.eqb name (n_members n) with
  | Some (r, q) => if is_nosender q then n else n_set_members n (assoc_set String.eqb name (r, q ++ [m]) (n_members n))
  | None => n
  end.

Definition remove_member (n : node) (name : str) : node :=
  n_set_members n (assoc_del String.eqb name (n_members n)).

(* ---- the replication thread: one queued "rp <id> <request>" --------------------------- *)
Definition db_id_of (n : node) (dbn : str) : option N :=
  match get_db n dbn with Some d => Some (d_id d) | None => None end.

Definition key_id (x : cnode) (key : str) : cnode * N :=
  match assoc_get String.eqb key (cn_keymap x) with
  | Some id => (x, id)
  | None => let id := N.of_nat (List.length (cn_keymap x)) in
            (mkCN (cn_node x) (cn_log x) (cn_keymap x ++ [(key, id)]) (cn_clients x) (cn_dead x), id)
  end.

Definition log_append (x : cnode) (r : oprec) : cnode :=
  mkCN (cn_node x) (cn_log x ++ [r]) (cn_keymap x) (cn_clients x) (cn_dead x).

(* reserved key ids of create-db and snapshot records (fix: u64::MAX and u64::MAX - 1; they were 1 and 2,
   the ids of the second and third key ever written) *)
Definition marker_create : N := 18446744073709551615.
Definition marker_snapshot : N := 18446744073709551614.

(* oplog part: returns the op id to replicate under, None = "Missing DB Id" *)
Definition repl_oplog (x : cnode) (rq : request) (id : N) : cnode * option N :=
  let n := cn_node x in
  match rq with
  | RqCreateDb _ name _ =>
      match db_id_of n name with
      | Some d => (log_append x (mkRec id marker_create d 2), Some id)
      | None => (x, None)
      end
  | RqReplicateSnapshot _ names =>
      (* every name is tried (map + fold without short cut): the existing ones are logged even
         after a missing one made the whole answer an error *)
      fold_left (fun acc nm =>
                   let '(x0, r0) := acc in
                   match db_id_of (cn_node x0) nm with
                   | Some d => (log_append x0 (mkRec id marker_snapshot d 3), r0)
                   | None => (x0, None)
                   end) names (x, Some id)
  | RqReplicateSet dbn key _ _ | RqReplicateIncrement dbn key _ =>
      let d := db_id_of n dbn in
      let '(x1, kid) := key_id x key in
      match d with
      | Some d => (log_append x1 (mkRec id kid d 0), Some id)
      | None => (x1, None)
      end
  | RqReplicateRemove dbn key =>
      let d := db_id_of n dbn in
      let '(x1, kid) := key_id x key in
      match d with
      | Some d => (log_append x1 (mkRec id kid d 1), Some id)
      | None => (x1, None)
      end
  | _ => (x, Some id)
  end.

(* fan-out: register the pending op per target and push the REGISTERED text on its link *)
Definition fan_out (n : node) (id : N) (req : str) (all : bool) : node :=
  fold_left (fun n0 m =>
      let '(name, (r, _)) := m in
      if String.eqb name (n_addr n0) then n0
      else if all || role_eqb r Secondary then
        let '(p', txt) := register (n_pending n0) id req name in
        push_member (n_set_pending n0 p') name txt
      else n0) (n_members n) n.

(* fix: a message that cannot be parsed or logged ("Missing DB Id") is dropped; it used to panic,
   which ended the replication thread for good *)
Definition repl_one (x : cnode) (msg : str) : cnode :=
  if cn_dead x then x else
  match parse_request msg with
  | POk (RqReplicateRequest req id) =>
      match parse_request req with
      | POk rq =>
          let '(x1, oid) := repl_oplog x rq id in
          let n := cn_node x1 in
          match n_role n with
          | Secondary => x1
          | Primary =>
              match oid with
              | Some i => cn_set_node x1 (fan_out n i req false)
              | None => x1
              end
          | StartingUp =>
              match oid with
              | Some i => cn_set_node x1 (fan_out n i req true)
              | None => x1
              end
          end
      | _ => x
      end
  | _ => x
  end.

Definition poll_repl (x : cnode) : cnode :=
  let q := n_repl (cn_node x) in
  fold_left repl_one q (cn_set_node x (n_set_repl (cn_node x) [])).

(* ---- get_pendding_opps_since ------------------------------------------------------------ *)
Definition create_db_line (n : node) (dbn : str) : str :=
  match get_db n dbn with
  | Some d => "create-db " +++ dbn +++ " " +++ fst (get_key_value_new d "$$token")
  | None => "create-db " +++ dbn +++ " <Empty>"
  end.

Definition full_sync_lines (n : node) : list str :=
  flat_map (fun kv =>
      let '(dbn, d) := kv in
      if String.eqb dbn "$admin" then []
      else [create_db_line n dbn] ++
           flat_map (fun e => let '(k, v) := e in
                              if String.eqb k "$$token" || String.eqb k "$connections" then []
                              else ["replicate " +++ dbn +++ " " +++ k +++ " " +++ v_val v])
                    (d_map d) ++
           ["replicate-snapshot " +++ dbn])
    (n_dbs n).

Definition name_of_id (m : list (N * str)) (id : N) : option str := assoc_get N.eqb id m.
Definition key_of_id (km : list (str * N)) (id : N) : option str :=
  match filter (fun p => N.eqb (snd p) id) km with (k, _) :: _ => Some k | [] => None end.

Fixpoint insert_hit (h : okey * ohit) (l : list (okey * ohit)) : list (okey * ohit) :=
  match l with
  | [] => [h]
  | y :: r => if N.leb (h_pos (snd h)) (h_pos (snd y)) then h :: l else y :: insert_hit h r
  end.

(* None = an unwrap() in get_pendding_opps_since_from_sync panics (unknown id) *)
Definition incr_sync_lines (x : cnode) (since : N) : option (list str) :=
  let n := cn_node x in
  match query_all [] (cn_log x) since with
  | None => None
  | Some hits =>
      fold_left (fun acc h =>
          match acc with
          | None => None
          | Some ls =>
              let r := h_rec (snd h) in
              match name_of_id (n_idmap n) (r_db r) with
              | None => None
              | Some dbn =>
                  if N.eqb (r_op r) 0 then
                    match key_of_id (cn_keymap x) (r_key r), get_db n dbn with
                    | Some k, Some d => Some (ls ++ ["replicate " +++ dbn +++ " " +++ k +++ " " +++ fst (get_key_value_new d k)])
                    | _, _ => None
                    end
                  else if N.eqb (r_op r) 1 then
                    match key_of_id (cn_keymap x) (r_key r) with
                    | Some k => Some (ls ++ ["replicate-remove " +++ dbn +++ " " +++ k])
                    | None => None
                    end
                  else if N.eqb (r_op r) 2 then
                    match get_db n dbn with Some _ => Some (ls ++ [create_db_line n dbn]) | None => None end
                  else Some (ls ++ ["replicate-snapshot " +++ dbn])
              end
          end) (fold_right insert_hit [] hits) (Some [])
  end.

Definition sync_lines (x : cnode) (since : N) : option (list str) :=
  if N.eqb since 0 then Some (full_sync_lines (cn_node x)) else incr_sync_lines x since.

(* ---- the supervisor: one queued message ------------------------------------------------- *)
Inductive newlink := NL (to : str) (is_primary : bool).

(* send_cluster_state_to_the_new_member + add: returns the lines queued for the new
   link (in member-table order) and the node with the notifications to old members *)
Definition announce (n : node) (newname : str) : node * list str :=
  fold_left (fun acc m =>
      let '(n0, ls) := acc in
      let '(name, (r, _)) := m in
      match r with
      | Secondary => (push_member n0 name ("replicate-join " +++ newname), ls ++ ["replicate-join " +++ name])
      | _ => (n0, ls)
      end) (n_members n) (n, []).

Definition sup_one (acc : cnode * list (newlink * list str)) (msg : str) : cnode * list (newlink * list str) :=
  let '(x, nls) := acc in
  if cn_dead x then acc else
  let n := cn_node x in
  match splitn 2 sp msg with
  | [cmd; name] =>
      if String.eqb cmd "secoundary" then
        if has_member n name then acc        (* fix: a second join of a known member is ignored *)
        else
          let '(n1, ls) := announce n name in
          let n2 := add_member n1 name Secondary in
          (cn_set_node x n2, nls ++ [(NL name true, ls ++ ["replicate-join " +++ name])])
      else if String.eqb cmd "leave" then
        if String.eqb name (n_addr n) then acc else (cn_set_node x (remove_member n name), nls)
      else if String.eqb cmd "primary" then
        if has_member n name then (cn_set_node x (add_member n name Primary), nls)
        else
          let '(n1, ls) := announce n name in
          (cn_set_node x (add_member n1 name Primary), nls ++ [(NL name false, ls)])
      else if String.eqb cmd "new-secoundary" then
        if has_member n name then acc
        else
          let '(n1, ls) := announce n name in
          (cn_set_node x (add_member n1 name Secondary), nls ++ [(NL name false, ls)])
      else if String.eqb cmd "replicate-since-to" then
        match splitn 2 sp name with
        | [nm; t] =>
            match parse_u64 t with
            | None => (mkCN n (cn_log x) (cn_keymap x) (cn_clients x) true, nls)
            | Some since =>
                if has_member n nm then
                  match sync_lines x since with
                  | Some ls => (cn_set_node x (fold_left (fun n0 l => push_member n0 nm l) ls n), nls)
                  | None => (mkCN n (cn_log x) (cn_keymap x) (cn_clients x) true, nls)
                  end
                else acc
            end
        | _ => (mkCN n (cn_log x) (cn_keymap x) (cn_clients x) true, nls)
        end
      else if String.eqb cmd "election-win" then
        let n1 := add_member_nosender n (n_addr n) Primary in
        (cn_set_node x (replicate_message n1 ("set-primary " +++ n_addr n)), nls)
      else acc
  | _ => (mkCN n (cn_log x) (cn_keymap x) (cn_clients x) true, nls)       (* command.next().unwrap() *)
  end.

(* ---- links -------------------------------------------------------------------------------- *)
Definition last_op_time_of (x : cnode) : N := last_op_time (cn_log x).

(* move what the node queued for its members into the links' queues *)
Definition flush_outboxes (c : cluster) (name : str) : cluster :=
  match get_cn c name with
  | None => c
  | Some x =>
      let n := cn_node x in
      let links' := map (fun l =>
          if l_open l && String.eqb (l_from l) name then
            match assoc_get String.eqb (l_to l) (n_members n) with
            | Some (_, q) => if is_nosender q then l else
                             mkLink (l_from l) (l_to l) (l_hs l) (l_q l ++ q) (l_server l) (l_reader l) (l_replies l) (l_open l) (l_sent l) (l_back l)
            | None => l
            end
          else l) (c_links c) in
      let n' := n_set_members n (map (fun m => (fst m, (fst (snd m), if is_nosender (snd (snd m)) then [nosender] else []))) (n_members n)) in
      mkCl (assoc_set String.eqb name (cn_set_node x n') (c_nodes c)) links' (c_cross c)
  end.

Definition new_session (x : cnode) (s : sess) : cnode * nat :=
  let n := cn_node x in
  (cn_set_node x (n_set_sess n (n_sess n ++ [s])), List.length (n_sess n)).

(* a link thread starts: handshake lines, server-side client at the target, reader-side
   client (authenticated, member = (self, Secondary)) at the source *)
Definition open_link (c : cluster) (from : str) (nl : newlink * list str) : cluster :=
  let '(NL to is_primary, initial) := nl in
  match get_cn c from, get_cn c to with
  | Some xf, Some xt =>
      let hs := ["auth " +++ n_user (cn_node xf) +++ " " +++ n_pwd (cn_node xf)] ++
                (if is_primary then ["set-primary " +++ from]
                 else ["set-secoundary " +++ from;
                       "replicate-since " +++ from +++ " " +++ N_to_str (last_op_time_of xf)]) in
      let '(xf1, rd) := new_session xf (mkSess true None None (Some (from, Secondary)) []) in
      let c1 := put_cn c from xf1 in
      let xt0 := match get_cn c1 to with Some y => y | None => xt end in
      let '(xt1, sv) := new_session xt0 empty_sess in
      let c2 := put_cn c1 to xt1 in
      mkCl (c_nodes c2) (c_links c2 ++ [mkLink from to hs initial sv rd [] true 0 0]) (c_cross c2)
  | _, _ => c
  end.

(* all nodes of the harness live in one process and read one clock: before a node acts, every
   node's clock is moved to the latest one *)
Definition sync_clocks (c : cluster) : cluster :=
  let mx := fold_left (fun a kv => N.max a (n_clock (cn_node (snd kv)))) (c_nodes c) 0%N in
  mkCl (map (fun kv => (fst kv, cn_set_node (snd kv) (n_set_clock (cn_node (snd kv)) mx))) (c_nodes c)) (c_links c) (c_cross c).

Definition poll_sup_raw (c : cluster) (name : str) : cluster :=
  match get_cn c name with
  | None => c
  | Some x =>
      let q := n_sup (cn_node x) in
      let '(x1, nls) := fold_left sup_one q (cn_set_node x (n_set_sup (cn_node x) []), []) in
      let c1 := put_cn c name x1 in
      (* queued initial lines were collected per new link; anything pushed to the member
         table before the link existed is moved now *)
      let c2 := fold_left (fun c0 nl => open_link c0 name nl) nls c1 in
      flush_outboxes c2 name
  end.

Definition poll_sup (c : cluster) (name : str) : cluster := poll_sup_raw (sync_clocks c) name.

Definition poll_repl_c_raw (c : cluster) (name : str) : cluster :=
  match get_cn c name with
  | None => c
  | Some x => flush_outboxes (put_cn c name (poll_repl x)) name
  end.

Definition poll_repl_c (c : cluster) (name : str) : cluster := poll_repl_c_raw (sync_clocks c) name.

Fixpoint split_lines (msgs : list str) : list str :=
  match msgs with
  | [] => []
  | m :: r => filter (fun s => negb (String.eqb s "")) (map trim (split_char nl m)) ++ split_lines r
  end.

Definition set_link (c : cluster) (i : nat) (l : link) : cluster :=
  mkCl (c_nodes c) (list_update (c_links c) i l) (c_cross c).

(* one line from -> to *)
Definition deliver_raw (c : cluster) (i : nat) : option cluster :=
  match nth_error (c_links c) i with
  | None => None
  | Some l =>
      if negb (l_open l) then None else
      let '(line, hs', q') := match l_hs l with
                              | h :: r => (Some h, r, l_q l)
                              | [] => match l_q l with
                                      | m :: r => (Some m, [], r)
                                      | [] => (None, [], [])
                                      end
                              end in
      match line, get_cn c (l_to l) with
      | Some ln, Some x =>
          let '(n1, r) := step (cn_node x) (l_server l) ln in
          let status := match r with
                        | RError msg => "error " +++ msg +++ " " +++ nlS
                        | _ => "ok " +++ nlS
                        end in
          let n2 := send n1 (l_server l) status in
          let '(n3, inbox) := drain n2 (l_server l) in
          let l' := mkLink (l_from l) (l_to l) hs' q' (l_server l) (l_reader l) (l_replies l ++ split_lines inbox) true (l_sent l + 1) (l_back l) in
          let c1 := put_cn c (l_to l) (cn_set_node x n3) in
          let c2 := set_link c1 i l' in
          Some (flush_outboxes (mkCl (c_nodes c2) (c_links c2) (c_cross c2 + 1)) (l_to l))
      | _, _ => None
      end
  end.

Definition deliver (c : cluster) (i : nat) : option cluster := deliver_raw (sync_clocks c) i.

(* one reply line to -> from *)
Definition reply_raw (c : cluster) (i : nat) : option cluster :=
  match nth_error (c_links c) i with
  | None => None
  | Some l =>
      match l_replies l, get_cn c (l_from l) with
      | ln :: rest, Some x =>
          let l0 := mkLink (l_from l) (l_to l) (l_hs l) (l_q l) (l_server l) (l_reader l) rest (l_open l) (l_sent l) (l_back l) in
          let l' := mkLink (l_from l) (l_to l) (l_hs l) (l_q l) (l_server l) (l_reader l) rest (l_open l) (l_sent l) (l_back l + 1) in
          if String.eqb ln "ok" then Some (set_link c i l0)
          else
            let '(n1, _) := step (cn_node x) (l_reader l) ln in
            let '(n2, _) := drain n1 (l_reader l) in
            let c1 := put_cn c (l_from l) (cn_set_node x n2) in
            let c2 := set_link c1 i l' in
            Some (flush_outboxes (mkCl (c_nodes c2) (c_links c2) (c_cross c2 + 1)) (l_from l))
      | _, _ => None
      end
  end.

Definition reply (c : cluster) (i : nat) : option cluster := reply_raw (sync_clocks c) i.

(* a client command *)
Definition client_cmd_raw (c : cluster) (name : str) (cidx : nat) (line : str) : cluster * resp :=
  match get_cn c name with
  | None => (c, RError "no such node")
  | Some x =>
      let sid := nth cidx (cn_clients x) 0%nat in
      let '(n1, r) := step (cn_node x) sid line in
      (flush_outboxes (put_cn c name (cn_set_node x n1)) name, r)
  end.

Definition client_cmd (c : cluster) (name : str) (cidx : nat) (line : str) : cluster * resp := client_cmd_raw (sync_clocks c) name cidx line.

Definition client_conn (c : cluster) (name : str) : cluster * nat :=
  match get_cn c name with
  | None => (c, 0%nat)
  | Some x =>
      let '(x1, sid) := new_session x empty_sess in
      (put_cn c name (mkCN (cn_node x1) (cn_log x1) (cn_keymap x1) (cn_clients x1 ++ [sid]) (cn_dead x1)),
       List.length (cn_clients x))
  end.

(* the peer is away: the lines queued from -> to are lost *)
Definition find_link_idx (c : cluster) (from to : str) : option nat :=
  (fix go (i : nat) (ls : list link) : option nat :=
     match ls with
     | [] => None
     | l :: r => if l_open l && String.eqb (l_from l) from && String.eqb (l_to l) to then Some i else go (S i) r
     end) O (c_links c).

Definition drop_link (c : cluster) (from to : str) : cluster * option nat :=
  match find_link_idx c from to with
  | None => (c, None)
  | Some i =>
      match nth_error (c_links c) i with
      | None => (c, None)
      | Some l =>
          (set_link c i (mkLink (l_from l) (l_to l) (l_hs l) [] (l_server l) (l_reader l) (l_replies l) (l_open l) (l_sent l) (l_back l)),
           Some (List.length (l_q l)))
      end
  end.

(* the node comes back: its link thread runs start_sync_process again *)
Definition resync (c : cluster) (from to : str) : option cluster :=
  match find_link_idx c from to, get_cn c from with
  | Some i, Some xf =>
      match nth_error (c_links c) i with
      | None => None
      | Some l =>
          let line := "replicate-since " +++ from +++ " " +++ N_to_str (last_op_time_of xf) in
          Some (set_link c i (mkLink (l_from l) (l_to l) (l_hs l ++ [line]) (l_q l) (l_server l) (l_reader l) (l_replies l) (l_open l) (l_sent l) (l_back l)))
      end
  | _, _ => None
  end.

(* add_as_secoundary *)
Definition add_sec (c : cluster) (name newname : str) : cluster :=
  match get_cn c name with
  | None => c
  | Some x => put_cn c name (cn_set_node x (push_sup (cn_node x) ("secoundary " +++ newname)))
  end.

(* ---- settle: the harness's fixed schedule -------------------------------------------------- *)
Fixpoint drain_link (fuel : nat) (c : cluster) (i : nat) (moved : bool) : cluster * bool :=
  match fuel with
  | O => (c, moved)
  | S k => match deliver c i with
           | Some c' => drain_link k c' i true
           | None => (c, moved)
           end
  end.
Fixpoint drain_replies (fuel : nat) (c : cluster) (i : nat) (moved : bool) : cluster * bool :=
  match fuel with
  | O => (c, moved)
  | S k => match reply c i with
           | Some c' => drain_replies k c' i true
           | None => (c, moved)
           end
  end.

(* links sorted by (from, to) *)
Definition link_leb (a b : link) : bool :=
  if String.eqb (l_from a) (l_from b) then str_leb (l_to a) (l_to b) else str_leb (l_from a) (l_from b).
Fixpoint insert_idx (c : cluster) (i : nat) (l : list nat) : list nat :=
  match l with
  | [] => [i]
  | j :: r =>
      match nth_error (c_links c) i, nth_error (c_links c) j with
      | Some a, Some b => if link_leb a b then i :: l else j :: insert_idx c i r
      | _, _ => i :: l
      end
  end.
Definition link_order (c : cluster) : list nat :=
  fold_right (insert_idx c) []
    (filter (fun i => match nth_error (c_links c) i with Some l => l_open l | None => false end)
            (seq 0 (List.length (c_links c)))).

Definition settle_round (c : cluster) : cluster * bool :=
  let names := map fst (c_nodes c) in
  let c1 := fold_left poll_sup names c in
  let c2 := fold_left poll_repl_c names c1 in
  fold_left (fun acc i =>
      let '(c0, mv) := acc in
      let '(c3, mv1) := drain_link 2000 c0 i mv in
      drain_replies 2000 c3 i mv1) (link_order c2) (c2, false).

Fixpoint settle (rounds : nat) (c : cluster) : cluster * bool :=
  match rounds with
  | O => (c, false)
  | S k => let '(c1, moved) := settle_round c in
           if moved then settle k c1 else (c1, true)
  end.

Definition init_cnode (user pwd name : str) (pid : N) (r : role) (clock0 : N) : cnode :=
  mkCN (init_node user pwd name pid r clock0) [] [] [] false.
