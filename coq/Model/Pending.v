(* Pending.v -- model of the pending-operation table
   (src/lib/replication_ops.rs: register_pending_opp, acknowledge_pending_opp,
    ReplicationMessage::{new, ack, replicated, is_full_acknowledged}). *)
From NunDB Require Import Model.Base.

Record pmsg := mkP {
  p_msg  : str;                   (* message text kept from the FIRST registration *)
  p_rep  : N;                     (* replicate_count *)
  p_ack  : N;                     (* ack_count *)
  p_reps : list (str * bool)      (* replications: node -> acknowledged? *)
}.

Definition pstate := list (N * pmsg).    (* pending_opps, keyed by op id *)

Definition message_to_replicate (id : N) (msg : str) : str :=
  "rp " +++ NilEmpty.string_of_uint (N.to_uint id) +++ " " +++ msg.

(* ReplicationMessage::replicated *)
Definition replicated (m : pmsg) (node : str) : pmsg :=
  mkP (p_msg m) (p_rep m + 1) (p_ack m) (assoc_set String.eqb node false (p_reps m)).

(* register_pending_opp: returns the text that is put on the link *)
Definition register (s : pstate) (id : N) (msg node : str) : pstate * str :=
  match assoc_get N.eqb id s with
  | Some m => (assoc_set N.eqb id (replicated m node) s, message_to_replicate id (p_msg m))
  | None =>
      let m := replicated (mkP msg 0 0 []) node in
      (assoc_set N.eqb id m s, message_to_replicate id msg)
  end.

(* ReplicationMessage::ack: insert(node,true); count only on false -> true *)
Definition ack_msg (m : pmsg) (node : str) : pmsg * bool :=
  match assoc_get String.eqb node (p_reps m) with
  | None => (mkP (p_msg m) (p_rep m) (p_ack m) (assoc_set String.eqb node true (p_reps m)), false)
  | Some false => (mkP (p_msg m) (p_rep m) (p_ack m + 1) (assoc_set String.eqb node true (p_reps m)), true)
  | Some true => (m, false)
  end.

Definition full_ack (m : pmsg) : bool := N.eqb (p_rep m) (p_ack m).

(* acknowledge_pending_opp *)
Definition acknowledge (s : pstate) (id : N) (node : str) : pstate * bool :=
  match assoc_get N.eqb id s with
  | None => (s, false)
  | Some m =>
      let '(m', r) := ack_msg m node in
      if r then
        if full_ack m' then (assoc_del N.eqb id s, true)
        else (assoc_set N.eqb id m' s, true)
      else (assoc_set N.eqb id m' s, false)
  end.

Inductive pev := Reg (id : N) (msg node : str) | Ack (id : N) (node : str).

Inductive pout := OReg (text : str) | OAck (b : bool).

Definition pstep (s : pstate) (e : pev) : pstate * pout :=
  match e with
  | Reg id msg node => let '(s', t) := register s id msg node in (s', OReg t)
  | Ack id node => let '(s', b) := acknowledge s id node in (s', OAck b)
  end.

Definition prun (evs : list pev) : pstate := fold_left (fun s e => fst (pstep s e)) evs [].

(* what get_oplog_state reports as pending_ops *)
Definition pending_count (s : pstate) : nat := List.length s.
Definition is_pending (s : pstate) (id : N) : bool :=
  match assoc_get N.eqb id s with Some _ => true | None => false end.

(* ---------- the abstract specification (Spec): op -> set of outstanding nodes ---- *)
Definition sstate := list (N * list str).

Definition outstanding (s : sstate) (id : N) : list str :=
  match assoc_get N.eqb id s with Some l => l | None => [] end.

Definition mem_str (n : str) (l : list str) : bool := existsb (String.eqb n) l.
Definition del_str (n : str) (l : list str) : list str := filter (fun x => negb (String.eqb n x)) l.

Definition sreg (s : sstate) (id : N) (node : str) : sstate :=
  assoc_set N.eqb id (if mem_str node (outstanding s id) then outstanding s id
                       else outstanding s id ++ [node]) s.

Definition sack (s : sstate) (id : N) (node : str) : sstate * bool :=
  if mem_str node (outstanding s id) then
    let l := del_str node (outstanding s id) in
    match l with
    | [] => (assoc_del N.eqb id s, true)
    | _ => (assoc_set N.eqb id l s, true)
    end
  else (s, false).

Definition sstep (s : sstate) (e : pev) : sstate :=
  match e with
  | Reg id _ node => sreg s id node
  | Ack id node => fst (sack s id node)
  end.

Definition srun (evs : list pev) : sstate := fold_left sstep evs [].

(* well-formed history: a (op,node) pair is never registered again while it is
   still outstanding (the replication loop registers each target once per op id). *)
Fixpoint wf_from (s : sstate) (evs : list pev) : bool :=
  match evs with
  | [] => true
  | e :: r =>
      (match e with
       | Reg id _ node => negb (mem_str node (outstanding s id))
       | Ack _ _ => true
       end) && wf_from (sstep s e) r
  end.
Definition wf (evs : list pev) : bool := wf_from [] evs.
