(* Operation-log metadata across restarts and crashes (C16): the oplog-valid flag file, the
   global key map file, the oplog file, the database files, and the start-up decision of
   src/bin/main.rs.  A process is modelled as the list of file operations it performs (its
   trace); a crash is a prefix of the trace (kill on entering the i-th system call of one
   kind, as in Disk.v) applied to the files the process started from. *)
From NunDB Require Import Model.Base Model.Pending Model.Oplog Model.Parse Model.Node Model.Disk Model.Cluster.
Require Import String List NArith ZArith Bool Ascii. Import ListNotations.
Open Scope string_scope.
Open Scope list_scope.
Open Scope N_scope.

Record mfiles := mkMF {
  mf_db : list (str * files);     (* <db>-nun.data.keys / .values / .madadata / .old *)
  mf_flag : option str;           (* is-oplog.valid *)
  mf_keys : option str;           (* keys-nun.keys (bincode) *)
  mf_tmp : option str;            (* keys-nun.keys.tmp *)
  mf_log : option ofile }.        (* oplog-nun.op: whole 25-byte records (one write each) *)

Definition mf_empty : mfiles := mkMF [] None None None None.

Inductive mop :=
| MDb (dbn : str) (o : fop)
| MFlagCreate                     (* open(create) *)
| MFlagWrite (b : str)            (* seek 0; write 1 byte *)
| MFlagUnlink
| MLogCreate
| MLogAppend (r : oprec)
| MLogUnlink
| MTmpCreate                      (* open(create, truncate) *)
| MTmpWrite (data : str)
| MTmpRename.                     (* keys-nun.keys.tmp -> keys-nun.keys *)

Definition db_files (f : mfiles) (dbn : str) : files :=
  match assoc_get String.eqb dbn (mf_db f) with Some x => x | None => [] end.

Definition apply_mop (f : mfiles) (o : mop) : mfiles :=
  match o with
  | MDb dbn op => mkMF (assoc_set String.eqb dbn (apply_fop (db_files f dbn) op) (mf_db f)) (mf_flag f) (mf_keys f) (mf_tmp f) (mf_log f)
  | MFlagCreate => mkMF (mf_db f) (match mf_flag f with Some s => Some s | None => Some "" end) (mf_keys f) (mf_tmp f) (mf_log f)
  | MFlagWrite b => mkMF (mf_db f) (Some (write_at (match mf_flag f with Some s => s | None => "" end) 0 b)) (mf_keys f) (mf_tmp f) (mf_log f)
  | MFlagUnlink => mkMF (mf_db f) None (mf_keys f) (mf_tmp f) (mf_log f)
  | MLogCreate => mkMF (mf_db f) (mf_flag f) (mf_keys f) (mf_tmp f) (match mf_log f with Some l => Some l | None => Some [] end)
  | MLogAppend r => mkMF (mf_db f) (mf_flag f) (mf_keys f) (mf_tmp f) (Some ((match mf_log f with Some l => l | None => [] end) ++ [r]))
  | MLogUnlink => mkMF (mf_db f) (mf_flag f) (mf_keys f) (mf_tmp f) None
  | MTmpCreate => mkMF (mf_db f) (mf_flag f) (mf_keys f) (Some "") (mf_log f)
  | MTmpWrite d => mkMF (mf_db f) (mf_flag f) (mf_keys f) (Some ((match mf_tmp f with Some s => s | None => "" end) +++ d)) (mf_log f)
  | MTmpRename => mkMF (mf_db f) (mf_flag f) (match mf_tmp f with Some s => Some s | None => mf_keys f end) None (mf_log f)
  end.

Definition apply_mops (f : mfiles) (ops : list mop) : mfiles := fold_left apply_mop ops f.

Definition msysc_of (o : mop) : option sysc :=
  match o with
  | MDb _ op => sysc_of op
  | MFlagWrite _ | MLogAppend _ | MTmpWrite _ => Some ScWrite
  | MFlagUnlink | MLogUnlink => Some ScUnlink
  | MTmpRename => Some ScRename
  | MFlagCreate | MLogCreate | MTmpCreate => None
  end.

Definition is_msc (s : sysc) (o : mop) : bool :=
  match msysc_of o with Some t => sysc_eqb s t | None => false end.

(* the operations completed before the i-th (i >= 1) one of kind s; all when there are fewer *)
Fixpoint mtake_before (s : sysc) (i : nat) (ops : list mop) : list mop :=
  match ops with
  | [] => []
  | o :: r =>
      if is_msc s o then
        match i with
        | O => []
        | S O => []
        | S k => o :: mtake_before s k r
        end
      else o :: mtake_before s i r
  end.

Definition mcount (s : sysc) (ops : list mop) : nat := List.length (filter (is_msc s) ops).

(* ---- the key map file (bincode: u64 count, then u64 length, bytes, u64 id per entry) ---- *)
Definition keymap_pieces (order : list (str * N)) : list str :=
  le_bytes 8 (N.of_nat (List.length order)) ::
  flat_map (fun kv => [le_bytes 8 (slen (fst kv)); fst kv; le_bytes 8 (snd kv)]) order.

Definition keymap_bytes (order : list (str * N)) : str := fold_left (fun a p => a +++ p) (keymap_pieces order) "".

Fixpoint decode_entries (n : nat) (s : str) : option (list (str * N)) :=
  match n with
  | O => Some []
  | S k =>
      if Nat.ltb (String.length s) 8 then None else
      let len := N.to_nat (le_decode (str_take 8 s)) in
      let s1 := str_drop 8 s in
      if Nat.ltb (String.length s1) (len + 8) then None else
      let key := str_take len s1 in
      if negb (utf8_valid key) then None else
      let id := le_decode (str_take 8 (str_drop len s1)) in
      match decode_entries k (str_drop (len + 8) s1) with
      | Some r => Some ((key, id) :: r)
      | None => None
      end
  end.

(* bincode::deserialize_from(..).unwrap(): None = panic.  The count is bounded by the file
   length (every entry takes at least 16 bytes), which keeps the recursion structural. *)
Definition decode_keymap (s : str) : option (list (str * N)) :=
  if Nat.ltb (String.length s) 8 then None else
  let n := le_decode (str_take 8 s) in
  if N.ltb (N.of_nat (String.length s)) (n * 16) then None
  else decode_entries (N.to_nat n) (str_drop 8 s).

(* a later entry with the same key replaces the earlier one (HashMap insert) *)
Definition keymap_of_entries (l : list (str * N)) : list (str * N) :=
  fold_left (fun m kv => assoc_set String.eqb (fst kv) (snd kv) m) l [].

(* ---- a running process ------------------------------------------------------------------- *)
Record mnode := mkMN {
  mn_cn : cnode;             (* node, in-memory view of the log, key map *)
  mn_valid : bool;           (* Databases.is_oplog_valid *)
  mn_files : mfiles;
  mn_trace : list mop }.     (* file operations of this process so far, oldest first *)

Definition mdo (x : mnode) (ops : list mop) : mnode :=
  mkMN (mn_cn x) (mn_valid x) (apply_mops (mn_files x) ops) (mn_trace x ++ ops).

Definition m_node (x : mnode) : node := cn_node (mn_cn x).
Definition m_set_node (x : mnode) (n : node) : mnode := mkMN (cn_set_node (mn_cn x) n) (mn_valid x) (mn_files x) (mn_trace x).

Definition flag_valid (fl : option str) : bool :=
  match fl with
  | None => true
  | Some EmptyString => true               (* buffer initialised to 1, nothing read *)
  | Some (String c _) => N.eqb (N_of_ascii c) 1
  end.

Inductive mstart_res := MStarted (x : mnode) (was_valid : bool) | MStartPanic.

(* src/bin/main.rs::start_db up to load_all_dbs.  [poll]: the replication thread's first poll
   (opens the oplog and the flag file; fix H16.1: writes 0 when the node started invalid). *)
Definition mstart (f : mfiles) (load_order : list str) (clock : N) (poll : bool) : mstart_res :=
  match (match mf_keys f with None => Some [] | Some b => decode_keymap b end) with
  | None => MStartPanic
  | Some entries =>
      let km := keymap_of_entries entries in
      let valid := flag_valid (mf_flag f) in
      let ops1 := match mf_flag f with None => [MFlagCreate] | Some _ => [] end in
      (* clean_op_log_metadata_files: the log first, the flag last (fix) *)
      let ops2 := if valid then [] else
                    match mf_log f with Some _ => [MLogUnlink] | None => [] end ++ [MFlagUnlink] in
      let f2 := apply_mops f (ops1 ++ ops2) in
      let fresh := init_node "nun" "pwd" "n0:3014" 1000 Primary clock in
      match fold_left (fun acc dbn => dload_one acc dbn (db_files f2 dbn)) load_order (RNode (mkDN fresh [])) with
      | RStartPanic => MStartPanic
      | RNode dx =>
          let ops3 := if poll then [MLogCreate; MFlagCreate] ++ (if valid then [] else [MFlagWrite (String zero "")]) else [] in
          let f3 := apply_mops f2 ops3 in
          let log := match mf_log f3 with Some l => l | None => [] end in
          MStarted (mkMN (mkCN (dn_node dx) log km [] false) valid f3 (ops1 ++ ops2 ++ ops3)) valid
      end
  end.

(* a client command: memory only *)
Definition mcmd (x : mnode) (c : nat) (line : str) : mnode * resp :=
  let '(n', r) := step (m_node x) c line in (m_set_node x n', r).

Definition mconnect (x : mnode) : mnode := m_set_node x (fst (connect (m_node x))).

(* the replication thread handles one queued message: generate_key_id (a new key invalidates
   the flag first, when it is valid in memory) and the oplog append(s) *)
Definition mrepl_one (x : mnode) (msg : str) : mnode :=
  let c0 := mn_cn x in
  let c1 := repl_one c0 msg in
  let newkey := Nat.ltb (List.length (cn_keymap c0)) (List.length (cn_keymap c1)) in
  let recs := skipn (List.length (cn_log c0)) (cn_log c1) in
  let ops := (if newkey && mn_valid x then [MFlagWrite (String zero "")] else []) ++ map MLogAppend recs in
  mkMN c1 (mn_valid x && negb newkey) (apply_mops (mn_files x) ops) (mn_trace x ++ ops).

Definition mpoll (x : mnode) : mnode :=
  let q := n_repl (m_node x) in
  fold_left mrepl_one q (m_set_node x (n_set_repl (m_node x) [])).

(* snapshot_keys: [order] = the order the key map was serialised in (observed) *)
Definition msnapshot_keys (x : mnode) (order : list (str * N)) : mnode :=
  if mn_valid x then x else
  let ops := [MTmpCreate] ++ map MTmpWrite (keymap_pieces order) ++ [MTmpRename; MFlagCreate; MFlagWrite (String one "")] in
  let x1 := mdo x ops in
  mkMN (mn_cn x1) true (mn_files x1) (mn_trace x1).

Fixpoint mflush_go (x : mnode) (q : list (str * bool)) (orders : list (list str)) : mnode :=
  match q with
  | [] => x
  | (dbn, reclaim) :: rest =>
      match get_db (m_node x) dbn with
      | None => mflush_go x rest orders
      | Some d =>
          let '(o, os) := match orders with o :: os => (o, os) | [] => ([], []) end in
          let n := m_node x in
          let '(ops, mem, clk) := snapshot_plan d o reclaim (db_files (mn_files x) dbn) (n_clock n) in
          let x1 := m_set_node x (n_set_clock (put_db n dbn (db_set_map d mem)) clk) in
          mflush_go (mdo x1 (map (MDb dbn) ops)) rest os
      end
  end.

(* snapshot_all_pendding_dbs *)
Definition mflush (x : mnode) (korder : list (str * N)) (orders : list (list str)) : mnode :=
  let n := m_node x in
  match n_snap n with
  | [] => x
  | _ =>
      let x1 := msnapshot_keys x korder in
      let q := rev (dedup_snap (n_snap n)) in
      mflush_go (m_set_node x1 (n_set_snap (m_node x1) [])) q orders
  end.

(* safe_shutdown: the keys first, whatever the queue holds *)
Definition mshutdown (x : mnode) (korder : list (str * N)) (orders : list (list str)) : mnode :=
  let x1 := msnapshot_keys x korder in
  mflush x1 korder orders.

(* the files a process leaves behind when killed on entering its i-th call of kind s *)
Definition mcrash (start_files : mfiles) (x : mnode) (s : sysc) (i : nat) : mfiles :=
  apply_mops start_files (mtake_before s i (mn_trace x)).

(* ---- what a restarted node makes of the log ------------------------------------------- *)
Definition decode_rec (x : mnode) (r : oprec) : option str * option str :=
  (name_of_id (n_idmap (m_node x)) (r_db r),
   if N.leb (r_op r) 1 then key_of_id (cn_keymap (mn_cn x)) (r_key r) else Some "-").
