(* Disk.v -- byte-level model of the disk storage strategy (src/lib/storage/disk.rs,
   src/lib/storage/common.rs, the snapshot part of src/lib/disk_ops.rs):
   NodeDrive::storage_data_disk as a PLAN of primitive file operations (so that a crash
   is a prefix of the plan), the BufWriter(250) buffering rule, update_key,
   write_metadata_file, remove_backup_key_file, and the loader create_db_from_file_name
   with its buffer-reuse behaviour on short reads. *)
From NunDB Require Import Model.Base Model.Parse Model.Pending Model.Node.
Local Open Scope N_scope.

(* ---- little-endian codecs ------------------------------------------------- *)
Fixpoint le_bytes (k : nat) (n : N) : str :=
  match k with
  | O => EmptyString
  | S k' => String (ascii_of_N (n mod 256)) (le_bytes k' (n / 256))
  end.

Fixpoint le_decode (s : str) : N :=
  match s with
  | EmptyString => 0
  | String a r => N_of_ascii a + 256 * le_decode r
  end.

Definition i32_bytes (z : Z) : str := le_bytes 4 (Z.to_N (if Z.ltb z 0 then z + 4294967296 else z)%Z).
Definition i32_decode (s : str) : Z :=
  let n := le_decode s in if N.ltb n 2147483648 then Z.of_N n else (Z.of_N n - 4294967296)%Z.

Definition slen (s : str) : N := N.of_nat (String.length s).

Definition status_code (s : vstate) : N :=
  match s with VOk => 0 | VDeleted => 1 | VUpdated => 2 | VNew => 3 end.
Definition strat_code (s : strat) : N := match s with SNone => 0 | SNewer => 1 | SArbiter => 2 end.
Definition strat_of_code (n : Z) : strat :=
  if Z.eqb n 2 then SArbiter else if Z.eqb n 1 then SNewer else SNone.

(* ---- files ------------------------------------------------------------------ *)
Inductive fname := FKeys | FVals | FMeta | FKeysOld | FValsOld.
Definition fname_eqb (a b : fname) : bool :=
  match a, b with
  | FKeys, FKeys | FVals, FVals | FMeta, FMeta | FKeysOld, FKeysOld | FValsOld, FValsOld => true
  | _, _ => false
  end.
Definition files := list (fname * str).           (* absent = file does not exist *)
Definition fget (fs : files) (f : fname) : option str := assoc_get fname_eqb f fs.
Definition fsize (fs : files) (f : fname) : N := match fget fs f with Some s => slen s | None => 0 end.

Inductive fop :=
| OpRename (src dst : fname)
| OpRemove (f : fname)
| OpCreate (f : fname)                 (* open(create): make an empty file if absent *)
| OpAppend (f : fname) (data : str)    (* one write(2) on an O_APPEND descriptor *)
| OpWriteAt (f : fname) (off : N) (data : str).   (* one pwrite(2) *)

Fixpoint str_take (n : nat) (s : str) : str :=
  match n, s with
  | O, _ => EmptyString
  | S k, String a r => String a (str_take k r)
  | S _, EmptyString => EmptyString
  end.
Fixpoint str_drop (n : nat) (s : str) : str :=
  match n, s with
  | O, _ => s
  | S k, String _ r => str_drop k r
  | S _, EmptyString => EmptyString
  end.
Fixpoint zeros (n : nat) : str := match n with O => EmptyString | S k => String zero (zeros k) end.

(* pwrite: overwrite at [off], zero-filling a hole if [off] is past the end *)
Definition write_at (s : str) (off : nat) (data : str) : str :=
  let len := String.length s in
  let pre := if Nat.leb off len then str_take off s else s +++ zeros (off - len) in
  pre +++ data +++ str_drop (off + String.length data) s.

Definition apply_fop (fs : files) (o : fop) : files :=
  match o with
  | OpRename a b =>
      match fget fs a with
      | Some s => assoc_set fname_eqb b s (assoc_del fname_eqb a fs)
      | None => fs
      end
  | OpRemove f => assoc_del fname_eqb f fs
  | OpCreate f => match fget fs f with Some _ => fs | None => assoc_set fname_eqb f EmptyString fs end
  | OpAppend f d => assoc_set fname_eqb f (match fget fs f with Some s => s +++ d | None => d end) fs
  | OpWriteAt f off d =>
      assoc_set fname_eqb f (write_at (match fget fs f with Some s => s | None => EmptyString end) (N.to_nat off) d) fs
  end.

Definition apply_fops (fs : files) (ops : list fop) : files := fold_left apply_fop ops fs.

(* ---- BufWriter::with_capacity(250) ------------------------------------------- *)
Definition bw_cap : nat := 250.
(* returns the new buffer and the chunks handed to the OS (in order) *)
Definition bw_write (buf data : str) : str * list str :=
  let spare := (bw_cap - String.length buf)%nat in
  let dl := String.length data in
  if Nat.ltb dl spare then (buf +++ data, [])
  else
    let '(buf1, out1) := if Nat.ltb spare dl
                         then (EmptyString, if String.eqb buf EmptyString then [] else [buf])
                         else (buf, []) in
    if Nat.leb bw_cap dl then (buf1, out1 ++ [data]) else (buf1 +++ data, out1).
Definition bw_flush (buf : str) : list str := if String.eqb buf EmptyString then [] else [buf].

(* ---- the snapshot plan ---------------------------------------------------------- *)
Record wstate := mkW {
  w_kbuf : str; w_vbuf : str;             (* BufWriter contents *)
  w_vaddr : N; w_kaddr : N;               (* value_addr, next_key_addr *)
  w_ops : list fop;                        (* operations issued so far *)
  w_mem : list (str * value);              (* the database map being updated *)
  w_clock : N;
  w_changed : N }.

Definition emit (f : fname) (chunks : list str) : list fop := map (OpAppend f) chunks.

Definition w_write_vals (w : wstate) (data : str) : wstate :=
  let '(b, out) := bw_write (w_vbuf w) data in
  mkW (w_kbuf w) b (w_vaddr w) (w_kaddr w) (w_ops w ++ emit FVals out) (w_mem w) (w_clock w) (w_changed w).
Definition w_write_keys (w : wstate) (data : str) : wstate :=
  let '(b, out) := bw_write (w_kbuf w) data in
  mkW b (w_vbuf w) (w_vaddr w) (w_kaddr w) (w_ops w ++ emit FKeys out) (w_mem w) (w_clock w) (w_changed w).

(* write_value: three write() calls; returns the record size *)
Definition w_value (w : wstate) (v : value) : wstate * N :=
  let w1 := w_write_vals w (le_bytes 8 (slen (v_val v))) in
  let w2 := w_write_vals w1 (v_val v) in
  let w3 := w_write_vals w2 (le_bytes 4 (status_code VOk)) in
  (w3, 8 + slen (v_val v) + 4).

(* write_key: four write() calls *)
Definition w_key (w : wstate) (key : str) (v : value) (vaddr : N) : wstate * N :=
  let w1 := w_write_keys w (le_bytes 8 (slen key)) in
  let w2 := w_write_keys w1 key in
  let w3 := w_write_keys w2 (i32_bytes (v_ver v)) in
  let w4 := w_write_keys w3 (le_bytes 8 vaddr) in
  (w4, 8 + slen key + 8 + 4).

Definition w_set_ok (w : wstate) (key : str) (v : value) (vaddr kaddr : N) : wstate :=
  mkW (w_kbuf w) (w_vbuf w) (w_vaddr w) (w_kaddr w) (w_ops w)
      (assoc_set String.eqb key (mkV (v_val v) (v_ver v) (w_clock w) VOk vaddr kaddr) (w_mem w))
      (w_clock w + 1) (w_changed w + 1).

Definition w_set_addrs (w : wstate) (va ka : N) : wstate :=
  mkW (w_kbuf w) (w_vbuf w) va ka (w_ops w) (w_mem w) (w_clock w) (w_changed w).

(* update_key: two pwrite calls at key_disk_addr + 8 + len(key) *)
Definition w_update_key (w : wstate) (key : str) (ver : Z) (vaddr kaddr : N) : wstate :=
  let start := kaddr + 8 + slen key in
  mkW (w_kbuf w) (w_vbuf w) (w_vaddr w) (w_kaddr w)
      (w_ops w ++ [OpWriteAt FKeys start (i32_bytes ver); OpWriteAt FKeys (start + 4) (le_bytes 8 vaddr)])
      (w_mem w) (w_clock w) (w_changed w).

Definition w_drop_mem (w : wstate) (key : str) : wstate :=
  mkW (w_kbuf w) (w_vbuf w) (w_vaddr w) (w_kaddr w) (w_ops w)
      (assoc_del String.eqb key (w_mem w)) (w_clock w) (w_changed w).

Definition new_key_value (w : wstate) (key : str) (v : value) : wstate :=
  let va := w_vaddr w in let ka := w_kaddr w in
  let '(w1, rs) := w_value w v in
  let '(w2, ks) := w_key w1 key v va in
  w_set_addrs (w_set_ok w2 key v va ka) (va + rs) (ka + ks).

(* the body of the for loop of storage_data_disk for one (key, value) *)
Definition snap_one (reclaim : bool) (w : wstate) (kv : str * value) : wstate :=
  let '(key, v) := kv in
  match v_st v with
  | VOk => if reclaim then new_key_value w key v else w      (* never selected otherwise *)
  | VNew => new_key_value w key v
  | VUpdated =>
      let va := w_vaddr w in
      let '(w1, rs) := w_value w v in
      if reclaim then
        let ka := w_kaddr w1 in
        let '(w2, ks) := w_key w1 key v va in
        w_set_addrs (w_set_ok w2 key v va ka) (va + rs) (ka + ks)
      else
        let w2 := w_update_key w1 key (v_ver v) va (v_kaddr v) in
        w_set_addrs (w_set_ok w2 key v va (v_kaddr v)) (va + rs) (w_kaddr w2)
  | VDeleted =>
      if reclaim then w_drop_mem w key        (* fix H6.1: the tombstone is gone from disk *)
      else
        let w1 := w_update_key w key (-1) 0 (v_kaddr v) in
        mkW (w_kbuf w1) (w_vbuf w1) (w_vaddr w1) (w_kaddr w1) (w_ops w1) (w_mem w1) (w_clock w1) (w_changed w1 + 1)
  end.

(* get_keys_to_update in the HashMap's iteration order [order] (a list of keys; keys of
   the map missing from [order] come last in map order) *)
Definition order_map (m : list (str * value)) (order : list str) : list (str * value) :=
  let picked := flat_map (fun k => match assoc_get String.eqb k m with Some v => [(k, v)] | None => [] end) order in
  picked ++ filter (fun kv => negb (existsb (String.eqb (fst kv)) order)) m.

Definition keys_to_update (m : list (str * value)) (order : list str) (reclaim : bool) : list (str * value) :=
  filter (fun kv => reclaim || negb (vstate_eqb (v_st (snd kv)) VOk)) (order_map m order).

(* the whole storage_data_disk + remove_backup_key_file, as a plan *)
Definition snapshot_plan (d : db) (order : list str) (reclaim : bool) (fs : files) (clock : N)
  : list fop * list (str * value) * N :=
  (* the metadata first, in one write (fix: a database with a keys file always has its id) *)
  let open0 := [OpCreate FMeta; OpWriteAt FMeta 0 (le_bytes 8 (d_id d) +++ le_bytes 4 (strat_code (d_strat d)))] in
  let open1 := open0 ++
               (if reclaim && match fget fs FKeys with Some _ => true | None => false end
                then [OpRename FKeys FKeysOld] else []) ++ [OpCreate FKeys] in
  let fs1 := apply_fops fs open1 in
  let open2 := (if reclaim && match fget fs1 FVals with Some _ => true | None => false end
                then [OpRename FVals FValsOld; OpRemove FValsOld] else []) ++ [OpCreate FVals] in
  let fs2 := apply_fops fs1 open2 in
  let w0 := mkW EmptyString EmptyString (fsize fs2 FVals) (fsize fs2 FKeys) (open1 ++ open2) (d_map d) clock 0 in
  let w1 := fold_left (snap_one reclaim) (keys_to_update (d_map d) order reclaim) w0 in
  let close := emit FKeys (bw_flush (w_kbuf w1)) ++ emit FVals (bw_flush (w_vbuf w1)) ++
               (* remove_backup_key_file: only when the .old file exists *)
               (match fget fs2 FKeysOld with Some _ => [OpRemove FKeysOld] | None => [] end) in
  (w_ops w1 ++ close, w_mem w1, w_clock w1).

(* ---- the loader ----------------------------------------------------------------------- *)
(* read(&mut buf) at [pos]: overwrites a prefix of [buf] with what is available *)
Definition read_into (file : str) (pos : nat) (buf : str) : str * nat :=
  let avail := str_take (String.length buf) (str_drop pos file) in
  let n := String.length avail in
  (avail +++ str_drop n buf, n).

Inductive lres := LOk (m : list (str * value)) (clock : N) | LPanic.

(* str::from_utf8: we only need to know whether the bytes are valid UTF-8 *)
Fixpoint utf8_cont (k : nat) (s : str) : option str :=
  match k with
  | O => Some s
  | S k' => match s with
            | String a r => let n := N_of_ascii a in
                            if N.leb 128 n && N.ltb n 192 then utf8_cont k' r else None
            | EmptyString => None
            end
  end.
Fixpoint utf8_valid_fuel (fuel : nat) (s : str) : bool :=
  match fuel with
  | O => true
  | S f =>
      match s with
      | EmptyString => true
      | String a r =>
          let n := N_of_ascii a in
          if N.ltb n 128 then utf8_valid_fuel f r
          else if N.leb 194 n && N.ltb n 224 then
            match utf8_cont 1 r with Some r' => utf8_valid_fuel f r' | None => false end
          else if N.leb 224 n && N.ltb n 240 then
            match r with
            | String b _ =>
                let m := N_of_ascii b in
                if (N.eqb n 224 && N.ltb m 160) || (N.eqb n 237 && N.leb 160 m) then false
                else match utf8_cont 2 r with Some r' => utf8_valid_fuel f r' | None => false end
            | EmptyString => false
            end
          else if N.leb 240 n && N.ltb n 245 then
            match r with
            | String b _ =>
                let m := N_of_ascii b in
                if (N.eqb n 240 && N.ltb m 144) || (N.eqb n 244 && N.leb 144 m) then false
                else match utf8_cont 3 r with Some r' => utf8_valid_fuel f r' | None => false end
            | EmptyString => false
            end
          else false
      end
  end.
Definition utf8_valid (s : str) : bool := utf8_valid_fuel (S (String.length s)) s.

Definition max_alloc : N := 1099511627776.      (* vec![0; n] beyond this aborts the process *)

Record lstate := mkL { l_pos : nat; l_lenbuf : str; l_verbuf : str; l_addrbuf : str; l_kaddr : N;
                       l_map : list (str * value); l_clock : N }.

Definition load_step (keys vals : str) (st : lstate) : (lstate + lres) :=
  let '(lenbuf1, n) := read_into keys (l_pos st) (l_lenbuf st) in
  if Nat.eqb n 0 then inr (LOk (l_map st) (l_clock st))
  else
    let klen := le_decode lenbuf1 in
    if N.ltb max_alloc klen then inr LPanic else
    let pos1 := (l_pos st + n)%nat in
    let '(kbytes, kn) := read_into keys pos1 (zeros (N.to_nat klen)) in
    if negb (utf8_valid kbytes) then inr LPanic else
    let pos2 := (pos1 + kn)%nat in
    let '(verbuf1, vn) := read_into keys pos2 (l_verbuf st) in
    let pos3 := (pos2 + vn)%nat in
    let '(addrbuf1, an) := read_into keys pos3 (l_addrbuf st) in
    let pos4 := (pos3 + an)%nat in
    let version := i32_decode verbuf1 in
    let vaddr := le_decode addrbuf1 in
    (* values file: seek, read length into the SAME length buffer, read the value *)
    let '(lenbuf2, _) := read_into vals (N.to_nat vaddr) lenbuf1 in
    let vlen := le_decode lenbuf2 in
    if N.ltb max_alloc vlen then inr LPanic else
    let '(vbytes, _) := read_into vals (N.to_nat vaddr + 8) (zeros (N.to_nat vlen)) in
    if negb (utf8_valid vbytes) then inr LPanic else
    let m' := if Z.eqb version (-1) then l_map st
              else assoc_set String.eqb kbytes (mkV vbytes version (l_clock st) VOk vaddr (l_kaddr st)) (l_map st) in
    inl (mkL pos4 lenbuf2 verbuf1 addrbuf1 (l_kaddr st + (8 + klen + 8 + 4)) m' (l_clock st + 1)).

Fixpoint load_loop (fuel : nat) (keys vals : str) (st : lstate) : lres :=
  match fuel with
  | O => LOk (l_map st) (l_clock st)
  | S f => match load_step keys vals st with
           | inl st' => load_loop f keys vals st'
           | inr r => r
           end
  end.

(* create_db_from_file_name; None = the database is not loaded at all (no keys file);
   a missing values file makes the open unwrap() panic *)
Definition load_db (fs : files) (clock : N) : option lres :=
  match fget fs FKeys with
  | None => None
  | Some keys =>
      match fget fs FVals with
      | None => Some LPanic
      | Some vals =>
          Some (load_loop (S (String.length keys)) keys vals
                          (mkL 0 (zeros 8) (zeros 4) (zeros 8) 0 [] clock))
      end
  end.

(* load_db_metadata_from_disk_or_empty: (id, strategy); [ndbs] = databases loaded so far *)
Definition load_meta (fs : files) (ndbs : N) : N * strat :=
  match fget fs FMeta with
  | Some m =>
      let '(b8, _) := read_into m 0 (zeros 8) in
      let '(b4, _) := read_into m 8 (zeros 4) in
      (le_decode b8, strat_of_code (i32_decode b4))
  | None => (ndbs, SNewer)
  end.

(* ---- node + files: snapshot_all_pendding_dbs and a restart --------------------------- *)
Record dnode := mkDN { dn_node : node; dn_files : list (str * files) }.

Definition files_of (x : dnode) (dbn : str) : files :=
  match assoc_get String.eqb dbn (dn_files x) with Some f => f | None => [] end.

(* one Databases::storage_data call; [order] is the HashMap order the run used *)
Definition dsnapshot (x : dnode) (dbn : str) (reclaim : bool) (order : list str) : dnode :=
  let n := dn_node x in
  match get_db n dbn with
  | None => x
  | Some d =>
      let '(ops, mem, clk) := snapshot_plan d order reclaim (files_of x dbn) (n_clock n) in
      mkDN (n_set_clock (put_db n dbn (db_set_map d mem)) clk)
           (assoc_set String.eqb dbn (apply_fops (files_of x dbn) ops) (dn_files x))
  end.

(* snapshot_all_pendding_dbs: dedup, then pop from the end; [orders] in processing order *)
Fixpoint dflush_go (x : dnode) (q : list (str * bool)) (orders : list (list str)) : dnode :=
  match q with
  | [] => x
  | (dbn, reclaim) :: rest =>
      match get_db (dn_node x) dbn with
      | None => dflush_go x rest orders
      | Some _ =>
          let '(o, os) := match orders with o :: os => (o, os) | [] => ([], []) end in
          dflush_go (dsnapshot x dbn reclaim o) rest os
      end
  end.

Definition dflush (x : dnode) (orders : list (list str)) : dnode :=
  let n := dn_node x in
  let q := rev (dedup_snap (n_snap n)) in
  dflush_go (mkDN (n_set_snap n []) (dn_files x)) q orders.

(* restart: a fresh node, then load_all_dbs over the files in [load_order] *)
Inductive rres := RNode (x : dnode) | RStartPanic.

Definition dload_one (acc : rres) (dbn : str) (fs : files) : rres :=
  match acc with
  | RStartPanic => RStartPanic
  | RNode x =>
      let n := dn_node x in
      match load_db fs (n_clock n) with
      | None => acc
      | Some LPanic => RStartPanic
      | Some (LOk m clk) =>
          let '(id, st) := load_meta fs (N.of_nat (List.length (n_dbs n))) in
          let n1 := n_set_clock n clk in
          let '(n2, _) := add_database n1 dbn (mkDb m [] 0 id st) in
          RNode (mkDN n2 (dn_files x))
      end
  end.

Definition drestart (x : dnode) (load_order : list str) : rres :=
  let n := dn_node x in
  let fresh := init_node (n_user n) (n_pwd n) (n_addr n) (n_pid n) (n_role n) (n_clock n) in
  fold_left (fun acc dbn => dload_one acc dbn (files_of x dbn)) load_order
            (RNode (mkDN fresh (dn_files x))).

(* ---- crash = the process is killed on entering its i-th system call of one kind ------------
   (strace fault injection counts per system call; the kill is delivered before the call runs) *)
Inductive sysc := ScWrite | ScPwrite | ScRename | ScUnlink.

Definition sysc_eqb (a b : sysc) : bool :=
  match a, b with
  | ScWrite, ScWrite | ScPwrite, ScPwrite | ScRename, ScRename | ScUnlink, ScUnlink => true
  | _, _ => false
  end.

Definition sysc_of (o : fop) : option sysc :=
  match o with
  | OpCreate _ => None
  | OpAppend _ _ => Some ScWrite
  | OpWriteAt FMeta _ _ => Some ScWrite      (* the metadata file is written sequentially *)
  | OpWriteAt _ _ _ => Some ScPwrite
  | OpRename _ _ => Some ScRename
  | OpRemove _ => Some ScUnlink
  end.

Definition is_sc (s : sysc) (o : fop) : bool :=
  match sysc_of o with Some t => sysc_eqb s t | None => false end.

(* the operations completed before the i-th (i >= 1) operation of kind s; all of them when there
   are fewer than i *)
Fixpoint take_before (s : sysc) (i : nat) (ops : list fop) : list fop :=
  match ops with
  | [] => []
  | o :: r =>
      if is_sc s o then
        match i with
        | O => []
        | S O => []
        | S k => o :: take_before s k r
        end
      else o :: take_before s i r
  end.

Definition count_sc (s : sysc) (ops : list fop) : nat := List.length (filter (is_sc s) ops).

(* snapshot_all_pendding_dbs killed on entering its i-th call of kind s: the files left behind *)
Fixpoint dflush_crash_go (x : dnode) (q : list (str * bool)) (orders : list (list str)) (s : sysc) (i : nat)
  : list (str * files) :=
  match q with
  | [] => dn_files x
  | (dbn, reclaim) :: rest =>
      match get_db (dn_node x) dbn with
      | None => dflush_crash_go x rest orders s i
      | Some d =>
          let '(o, os) := match orders with o :: os => (o, os) | [] => ([], []) end in
          let '(ops, _, _) := snapshot_plan d o reclaim (files_of x dbn) (n_clock (dn_node x)) in
          let c := count_sc s ops in
          if Nat.ltb c i then dflush_crash_go (dsnapshot x dbn reclaim o) rest os s (i - c)
          else assoc_set String.eqb dbn (apply_fops (files_of x dbn) (take_before s i ops)) (dn_files x)
      end
  end.

Definition dflush_crash (x : dnode) (orders : list (list str)) (s : sysc) (i : nat) : list (str * files) :=
  dflush_crash_go (mkDN (n_set_snap (dn_node x) []) (dn_files x)) (rev (dedup_snap (n_snap (dn_node x)))) orders s i.

(* every operation of a whole flush, in order, each with its database *)
Fixpoint dflush_plan_go (x : dnode) (q : list (str * bool)) (orders : list (list str)) : list (str * fop) :=
  match q with
  | [] => []
  | (dbn, reclaim) :: rest =>
      match get_db (dn_node x) dbn with
      | None => dflush_plan_go x rest orders
      | Some d =>
          let '(o, os) := match orders with o :: os => (o, os) | [] => ([], []) end in
          let '(ops, _, _) := snapshot_plan d o reclaim (files_of x dbn) (n_clock (dn_node x)) in
          map (fun op => (dbn, op)) ops ++ dflush_plan_go (dsnapshot x dbn reclaim o) rest os
      end
  end.

Definition dflush_plan (x : dnode) (orders : list (list str)) : list (str * fop) :=
  dflush_plan_go (mkDN (n_set_snap (dn_node x) []) (dn_files x)) (rev (dedup_snap (n_snap (dn_node x)))) orders.
