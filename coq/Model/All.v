(* All executable models (extraction root). *)
From NunDB Require Export Model.Base Model.Pending Model.Oplog Model.Parse Model.Node Model.Disk Model.Cluster Model.Sched Model.Meta Model.S3 Model.Election Model.Failover Model.Net.
