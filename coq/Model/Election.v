(* Elections (src/lib/election_ops.rs) on top of the cluster model (C07).
   start_election blocks its caller -- the handler thread of a connection or of a client --
   in two wait loops.  A blocked call is a [frame]; the connection it arrived on delivers
   nothing more until the frame completes, and the replies of the blocked request (ok / ack)
   are held back until then.  The scheduler delivers every deliverable message first and lets
   the wait loops take a step (2 ms of election time) only when nothing can be delivered. *)
From NunDB Require Import Model.Base Model.Pending Model.Oplog Model.Parse Model.Node Model.Cluster.
Require Import String List NArith ZArith Bool. Import ListNotations.
Open Scope string_scope.
Open Scope list_scope.
Open Scope N_scope.

Inductive ephase := PRegister | PAcks | PFinal.

Record frame := mkF {
  f_node : str;
  f_id : N;                   (* op id of the "election candidate" message *)
  f_phase : ephase;
  f_t : N;                    (* start_time of the loop it is in *)
  f_link : option nat;        (* the connection whose handler is blocked (None: a client session) *)
  f_client : option (str * nat);
  f_held : list str;          (* reply lines of the blocked request *)
  f_late : list str }.        (* what the request's wrapper queues for the replication thread once the handler returns *)

Record ecl := mkE { e_c : cluster; e_frames : list frame; e_timeout : N; e_done : list (str * nat) }.

Definition busy_link (e : ecl) (i : nat) : bool :=
  existsb (fun f => match f_link f with Some j => Nat.eqb i j | None => false end) (e_frames e).
Definition busy_client (e : ecl) (name : str) (cidx : nat) : bool :=
  existsb (fun f => match f_client f with Some (nm, k) => String.eqb nm name && Nat.eqb k cidx | None => false end) (e_frames e).

(* start_election queues "election candidate <own pid> <own address>" for the replication thread
   (Databases::replicate_message).  A node also re-replicates every candidate message it
   receives, its own included when a peer sends it back: only a message with the node's own
   process id, queued while handling something that is not itself that message, is the start
   of an election of this node. *)
Definition own_candidate_text (n : node) : str := "election candidate " +++ N_to_str (n_pid n) +++ " ".

Definition candidate_id (n : node) (msg : str) : option N :=
  match splitn 3 sp msg with
  | [rp; id; rest] =>
      if String.eqb rp "rp" && starts_with rest (own_candidate_text n) then parse_u64 id else None
  | _ => None
  end.

Definition new_candidate (n : node) (incoming : str) (before after : list str) : option N :=
  if contains incoming (own_candidate_text n) then None else
  fold_left (fun acc m => match acc with Some _ => acc | None => candidate_id n m end)
            (skipn (List.length before) after) None.

Definition repl_queue (c : cluster) (name : str) : list str :=
  match get_cn c name with Some x => n_repl (cn_node x) | None => [] end.

Definition node_of (c : cluster) (name : str) : option node := option_map cn_node (get_cn c name).

Definition set_node (c : cluster) (name : str) (n : node) : cluster :=
  match get_cn c name with Some x => put_cn c name (cn_set_node x n) | None => c end.

(* ---- one step of a frame: from a wake-up to the next sleep or to the end --------------------- *)
Definition pending_get (n : node) (id : N) : option pmsg := assoc_get N.eqb id (n_pending n).

Definition is_eligible (n : node) : bool := role_eqb (n_role n) StartingUp.

Inductive fout := FSleep (f : frame) | FDone (n : node).

(* the code after "the opp is registered": the acknowledgement loop, entered with start_time = 0 *)
Definition acks_check (timeout : N) (n : node) (f : frame) (t : N) : fout :=
  match pending_get n (f_id f) with
  | Some m =>
      if full_ack m then FSleep (mkF (f_node f) (f_id f) PFinal 0 (f_link f) (f_client f) (f_held f) (f_late f))
      else if negb (is_eligible n) then FDone n
      else FSleep (mkF (f_node f) (f_id f) PAcks t (f_link f) (f_client f) (f_held f) (f_late f))
  | None => FSleep (mkF (f_node f) (f_id f) PFinal 0 (f_link f) (f_client f) (f_held f) (f_late f))
  end.

(* start_election right after replicate_message returned the id, up to its first sleep *)
Definition frame_start (timeout : N) (n : node) (f : frame) : fout :=
  match pending_get n (f_id f) with
  | None => if N.ltb 0 timeout then FSleep f else FDone (election_win n)
  | Some _ => acks_check timeout n f 0
  end.

(* a wake-up *)
Definition frame_wake (timeout : N) (n : node) (f : frame) : fout :=
  match f_phase f with
  | PRegister =>
      let t := f_t f + 2 in
      match pending_get n (f_id f) with
      | None => if N.ltb t timeout then FSleep (mkF (f_node f) (f_id f) PRegister t (f_link f) (f_client f) (f_held f) (f_late f))
                else FDone (election_win n)
      | Some _ => acks_check timeout n f 0
      end
  | PAcks =>
      let t := f_t f + 2 in
      if N.ltb timeout t then FDone (election_win n)
      else acks_check timeout n f t
  | PFinal => if is_eligible n then FDone (election_win n) else FDone n
  end.

(* the blocked request completes: its replies travel, the connection is free again *)
Definition release_frame (c : cluster) (f : frame) : cluster :=
  match f_link f with
  | Some i =>
      match nth_error (c_links c) i with
      | Some l => set_link c i (mkLink (l_from l) (l_to l) (l_hs l) (l_q l) (l_server l) (l_reader l) (l_replies l ++ f_held f) (l_open l) (l_sent l) (l_back l))
      | None => c
      end
  | None => c
  end.

(* a node stepped (deliver / client command): did it enter start_election's wait loops? *)
(* the messages queued after the node's own candidate message (by the request's wrapper) *)
Fixpoint split_at_candidate (n : node) (l : list str) : list str * list str :=
  match l with
  | [] => ([], [])
  | m :: r => match candidate_id n m with
              | Some _ => ([m], r)
              | None => let '(a, b) := split_at_candidate n r in (m :: a, b)
              end
  end.

Definition push_repl (c : cluster) (name : str) (ms : list str) : cluster :=
  match node_of c name with
  | Some n => set_node c name (n_set_repl n (n_repl n ++ ms))
  | None => c
  end.

Definition after_step (e : ecl) (c' : cluster) (name : str) (incoming : str) (before : list str) (link : option nat)
           (client : option (str * nat)) (held : list str) : ecl * bool :=
  match match node_of c' name with Some n => new_candidate n incoming before (repl_queue c' name) | None => None end, node_of c' name with
  | Some id, Some n =>
      let suffix := skipn (List.length before) (n_repl n) in
      let '(early, late) := split_at_candidate n suffix in
      let n0 := n_set_repl n (firstn (List.length before) (n_repl n) ++ early) in
      let f := mkF name id PRegister 0 link client held late in
      match frame_start (e_timeout e) n0 f with
      | FSleep f' => (mkE (set_node c' name n0) (e_frames e ++ [f']) (e_timeout e) (e_done e), true)
      | FDone n' => (mkE (release_frame (set_node c' name (n_set_repl n' (n_repl n' ++ late))) f) (e_frames e) (e_timeout e) (e_done e), false)
      end
  | _, _ => (mkE (release_frame c' (mkF name 0 PFinal 0 link client held [])) (e_frames e) (e_timeout e) (e_done e), false)
  end.

Definition edeliver (e : ecl) (i : nat) : option ecl :=
  if busy_link e i then None else
  match nth_error (c_links (e_c e)) i with
  | None => None
  | Some l =>
      let before := repl_queue (e_c e) (l_to l) in
      let incoming := match l_hs l with h :: _ => h | [] => match l_q l with m :: _ => m | [] => "" end end in
      match deliver (e_c e) i with
      | None => None
      | Some c' =>
          (* the reply lines this request produced are held until its handler returns *)
          match nth_error (c_links c') i with
          | None => None
          | Some l' =>
              let nold := List.length (l_replies l) in
              let held := skipn nold (l_replies l') in
              let c0 := set_link c' i (mkLink (l_from l') (l_to l') (l_hs l') (l_q l') (l_server l') (l_reader l')
                                              (firstn nold (l_replies l')) (l_open l') (l_sent l') (l_back l')) in
              Some (fst (after_step e c0 (l_to l) incoming before (Some i) None held))
          end
      end
  end.

Definition ereply (e : ecl) (i : nat) : option ecl :=
  match reply (e_c e) i with
  | None => None
  | Some c' => Some (mkE c' (e_frames e) (e_timeout e) (e_done e))
  end.

Inductive cmd_out := COut (r : resp) | CSuspended | CBusy.

Definition ecmd (e : ecl) (name : str) (cidx : nat) (line : str) : ecl * cmd_out :=
  if busy_client e name cidx then (e, CBusy) else
  let before := repl_queue (e_c e) name in
  let '(c', r) := client_cmd (e_c e) name cidx line in
  let '(e', susp) := after_step e c' name line before None (Some (name, cidx)) [] in
  (e', if susp then CSuspended else COut r).

(* every frame that existed when the tick began takes one step, in creation order *)
Definition tick_one (e : ecl) (f : frame) : ecl :=
  let c := sync_clocks (e_c e) in
  match node_of c (f_node f) with
  | None => e
  | Some n =>
      let others := filter (fun g => negb (N.eqb (f_id g) (f_id f) && String.eqb (f_node g) (f_node f))) (e_frames e) in
      match frame_wake (e_timeout e) n f with
      | FSleep f' =>
          mkE c (map (fun g => if N.eqb (f_id g) (f_id f) && String.eqb (f_node g) (f_node f) then f' else g) (e_frames e))
              (e_timeout e) (e_done e)
      | FDone n' =>
          mkE (release_frame (set_node c (f_node f) (n_set_repl n' (n_repl n' ++ f_late f))) f) others (e_timeout e)
              (e_done e ++ match f_client f with Some cl => [cl] | None => [] end)
      end
  end.

Definition tick_frames (e : ecl) : ecl := fold_left tick_one (e_frames e) e.

(* ---- the harness's schedule ---------------------------------------------------------------- *)
Fixpoint edrain_link (fuel : nat) (e : ecl) (i : nat) (moved : bool) : ecl * bool :=
  match fuel with
  | O => (e, moved)
  | S k => match edeliver e i with
           | Some e' => edrain_link k e' i true
           | None => (e, moved)
           end
  end.
Fixpoint edrain_replies (fuel : nat) (e : ecl) (i : nat) (moved : bool) : ecl * bool :=
  match fuel with
  | O => (e, moved)
  | S k => match ereply e i with
           | Some e' => edrain_replies k e' i true
           | None => (e, moved)
           end
  end.

Definition with_c (e : ecl) (c : cluster) : ecl := mkE c (e_frames e) (e_timeout e) (e_done e).

Definition esettle_round (e : ecl) : ecl * bool :=
  let names := map fst (c_nodes (e_c e)) in
  let c1 := fold_left poll_sup names (e_c e) in
  let c2 := fold_left poll_repl_c names c1 in
  fold_left (fun acc i =>
      let '(e0, mv) := acc in
      let '(e3, mv1) := edrain_link 2000 e0 i mv in
      edrain_replies 2000 e3 i mv1) (link_order c2) (with_c e c2, false).

Fixpoint esettle (rounds : nat) (e : ecl) : ecl * bool :=
  match rounds with
  | O => (e, false)
  | S k => let '(e1, moved) := esettle_round e in
           if moved then esettle k e1
           else match e_frames e1 with
                | [] => (e1, true)
                | _ => esettle k (tick_frames e1)
                end
  end.
