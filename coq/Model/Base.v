(* Base.v -- byte strings and small utilities shared by all models.
   Strings are Coq [string]s (lists of 8-bit [ascii]); every Rust String operation
   the models use is byte-exact on UTF-8, so bytes are the right granularity. *)
From Coq Require Export List String Ascii Bool NArith ZArith Arith Lia DecimalString.
Export ListNotations.
Open Scope string_scope.
Open Scope list_scope.
Infix "+++" := String.append (right associativity, at level 60).

Definition str := string.

Fixpoint assoc_get {A B} (eqb : A -> A -> bool) (k : A) (l : list (A * B)) : option B :=
  match l with
  | [] => None
  | (k', v) :: r => if eqb k k' then Some v else assoc_get eqb k r
  end.

(* Replace in place when present, append at the end otherwise: the list order is
   "order of first insertion", a deterministic stand-in for HashMap order that is
   never observed without sorting or an explicit order oracle. *)
Fixpoint assoc_set {A B} (eqb : A -> A -> bool) (k : A) (v : B) (l : list (A * B)) : list (A * B) :=
  match l with
  | [] => [(k, v)]
  | (k', v') :: r => if eqb k k' then (k', v) :: r else (k', v') :: assoc_set eqb k v r
  end.

Fixpoint assoc_del {A B} (eqb : A -> A -> bool) (k : A) (l : list (A * B)) : list (A * B) :=
  match l with
  | [] => []
  | (k', v') :: r => if eqb k k' then assoc_del eqb k r else (k', v') :: assoc_del eqb k r
  end.

Definition assoc_keys {A B} (l : list (A * B)) : list A := map fst l.
