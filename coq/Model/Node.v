(* Node.v -- model of one nun-db node processing protocol lines:
   bo.rs (Database::{set_value, inc_value, remove_value, list_keys, watch_key, ...},
   Databases::add_database, Client::left), db_ops.rs, consensus_ops.rs, security.rs,
   process_request.rs (process_request_obj for every request) and
   replication_ops.rs::replicate_request (what is put on the replication queue).

   One [step] = one call of process_request(line, dbs, client) under sequential
   execution.  Sessions are numbered; a session's inbox is its channel Receiver.
   The clock (Databases::next_op_log_id, ns since epoch) is a strictly increasing
   counter: only the relative order of recorded ids is observable (the harness
   compares ids by rank). *)
From NunDB Require Import Model.Base Model.Parse Model.Pending.
Local Open Scope Z_scope.

Inductive vstate := VOk | VDeleted | VUpdated | VNew.
Definition vstate_eqb (a b : vstate) : bool :=
  match a, b with VOk, VOk | VDeleted, VDeleted | VUpdated, VUpdated | VNew, VNew => true | _, _ => false end.

Record value := mkV { v_val : str; v_ver : Z; v_opp : N; v_st : vstate; v_vaddr : N; v_kaddr : N }.

Record db := mkDb {
  d_map : list (str * value);
  d_watch : list (str * list nat);     (* key -> sessions, in push order, duplicates kept *)
  d_conn : Z;                          (* connections counter (usize) *)
  d_id : N;
  d_strat : strat }.

Inductive role := StartingUp | Primary | Secondary.

Record sess := mkSess {
  s_auth : bool;
  s_db : option str;
  s_user : option str;
  s_member : option (str * role);
  s_inbox : list str }.

Record node := mkNode {
  n_dbs : list (str * db);
  n_sess : list sess;
  n_role : role;
  n_clock : N;
  n_user : str; n_pwd : str; n_addr : str; n_pid : N;
  n_repl : list str;                   (* replication queue (input of the replication thread) *)
  n_sup : list str;                    (* supervisor queue *)
  n_snap : list (str * bool);          (* to_snapshot *)
  n_pending : pstate;
  n_idmap : list (N * str);            (* id_name_db_map *)
  n_members : list (str * (role * list str)) }.  (* member -> role, outgoing link queue *)

Record change := mkCh { c_key : str; c_val : str; c_ver : Z; c_opp : N; c_resolve : bool }.

Inductive resp :=
| RValue (k v : str) (ver : Z)
| ROk
| RSet (k v : str)
| RError (msg : str)
| RVersionError (key : str) (old_version version : Z) (old : value) (ch : change) (st : vstate)
| RPanic.

(* ---- setters ---------------------------------------------------------- *)
Definition db_set_map (d : db) m := mkDb m (d_watch d) (d_conn d) (d_id d) (d_strat d).
Definition db_set_watch (d : db) w := mkDb (d_map d) w (d_conn d) (d_id d) (d_strat d).
Definition db_set_conn (d : db) c := mkDb (d_map d) (d_watch d) c (d_id d) (d_strat d).

Definition n_set_dbs (n : node) x := mkNode x (n_sess n) (n_role n) (n_clock n) (n_user n) (n_pwd n) (n_addr n) (n_pid n) (n_repl n) (n_sup n) (n_snap n) (n_pending n) (n_idmap n) (n_members n).
Definition n_set_sess (n : node) x := mkNode (n_dbs n) x (n_role n) (n_clock n) (n_user n) (n_pwd n) (n_addr n) (n_pid n) (n_repl n) (n_sup n) (n_snap n) (n_pending n) (n_idmap n) (n_members n).
Definition n_set_role (n : node) x := mkNode (n_dbs n) (n_sess n) x (n_clock n) (n_user n) (n_pwd n) (n_addr n) (n_pid n) (n_repl n) (n_sup n) (n_snap n) (n_pending n) (n_idmap n) (n_members n).
Definition n_set_clock (n : node) x := mkNode (n_dbs n) (n_sess n) (n_role n) x (n_user n) (n_pwd n) (n_addr n) (n_pid n) (n_repl n) (n_sup n) (n_snap n) (n_pending n) (n_idmap n) (n_members n).
Definition n_set_repl (n : node) x := mkNode (n_dbs n) (n_sess n) (n_role n) (n_clock n) (n_user n) (n_pwd n) (n_addr n) (n_pid n) x (n_sup n) (n_snap n) (n_pending n) (n_idmap n) (n_members n).
Definition n_set_sup (n : node) x := mkNode (n_dbs n) (n_sess n) (n_role n) (n_clock n) (n_user n) (n_pwd n) (n_addr n) (n_pid n) (n_repl n) x (n_snap n) (n_pending n) (n_idmap n) (n_members n).
Definition n_set_snap (n : node) x := mkNode (n_dbs n) (n_sess n) (n_role n) (n_clock n) (n_user n) (n_pwd n) (n_addr n) (n_pid n) (n_repl n) (n_sup n) x (n_pending n) (n_idmap n) (n_members n).
Definition n_set_pending (n : node) x := mkNode (n_dbs n) (n_sess n) (n_role n) (n_clock n) (n_user n) (n_pwd n) (n_addr n) (n_pid n) (n_repl n) (n_sup n) (n_snap n) x (n_idmap n) (n_members n).
Definition n_set_idmap (n : node) x := mkNode (n_dbs n) (n_sess n) (n_role n) (n_clock n) (n_user n) (n_pwd n) (n_addr n) (n_pid n) (n_repl n) (n_sup n) (n_snap n) (n_pending n) x (n_members n).
Definition n_set_members (n : node) x := mkNode (n_dbs n) (n_sess n) (n_role n) (n_clock n) (n_user n) (n_pwd n) (n_addr n) (n_pid n) (n_repl n) (n_sup n) (n_snap n) (n_pending n) (n_idmap n) x.

Definition empty_sess : sess := mkSess false None None None [].
Definition get_sess (n : node) (c : nat) : sess := nth c (n_sess n) empty_sess.
Fixpoint list_update {A} (l : list A) (i : nat) (x : A) : list A :=
  match l, i with
  | [], _ => []
  | _ :: r, O => x :: r
  | y :: r, S j => y :: list_update r j x
  end.
Definition put_sess (n : node) (c : nat) (s : sess) : node := n_set_sess n (list_update (n_sess n) c s).

Definition sess_push (s : sess) (m : str) : sess :=
  mkSess (s_auth s) (s_db s) (s_user s) (s_member s) (s_inbox s ++ [m]).
Definition send (n : node) (c : nat) (m : str) : node := put_sess n c (sess_push (get_sess n c) m).
Definition sends (n : node) (l : list (nat * str)) : node :=
  fold_left (fun n p => send n (fst p) (snd p)) l n.

Definition tick (n : node) : node * N := (n_set_clock n (n_clock n + 1)%N, n_clock n).

Definition get_db (n : node) (name : str) : option db := assoc_get String.eqb name (n_dbs n).
Definition put_db (n : node) (name : str) (d : db) : node := n_set_dbs n (assoc_set String.eqb name d (n_dbs n)).

(* create_temp_db: the id after the highest one in use (0 when there is no database) *)
Definition next_db_id (n : node) : N :=
  fold_left (fun acc kv => N.max acc (d_id (snd kv) + 1)) (n_dbs n) 0%N.

Definition nlS : str := String nl EmptyString.
Definition is_primary (n : node) : bool := match n_role n with Primary => true | _ => false end.
Definition is_eligible (n : node) : bool := match n_role n with StartingUp => true | _ => false end.

(* ---- Database functions (bo.rs) ---------------------------------------- *)
Definition i32_max : Z := 2147483647.
Definition sat_succ (z : Z) : Z := if Z.ltb z i32_max then z + 1 else i32_max.   (* saturating_add(1) *)

Definition get_value (d : db) (key : str) : option value := assoc_get String.eqb key (d_map d).
Definition put_value (d : db) (key : str) (v : value) : db := db_set_map d (assoc_set String.eqb key v (d_map d)).

Definition watchers_of (d : db) (key : str) : list nat :=
  match assoc_get String.eqb key (d_watch d) with Some l => l | None => [] end.

Definition notify_msgs (d : db) (key value : str) (ver : Z) : list (nat * str) :=
  flat_map (fun s => [(s, "changed " +++ key +++ " " +++ value +++ nlS);
                      (s, "changed-version " +++ key +++ " " +++ Z_to_str ver +++ " " +++ value +++ nlS)])
           (watchers_of d key).

Definition in_conflict (v : value) : bool := Z.eqb (v_ver v) (-2).
Definition upd_state (v : value) : vstate := match v_st v with VNew => VNew | _ => VUpdated end.

Definition next_version (ch : change) (old : value) : Z :=
  if Z.eqb (c_ver ch) (-2) then c_ver ch
  else if c_resolve ch then sat_succ (if in_conflict old then c_ver ch else v_ver old)
  else if in_conflict old then v_ver old
  else if Z.eqb (c_ver ch) (-1) then sat_succ (v_ver old)
  else sat_succ (c_ver ch).

(* Database::set_value *)
Definition set_value (d : db) (ch : change) : db * resp * list (nat * str) :=
  match get_value d (c_key ch) with
  | Some old =>
      let nv := next_version ch old in
      if Z.leb nv (v_ver old) && negb (Z.eqb (c_ver ch) (-2)) then
        (d, RVersionError (c_key ch) (v_ver old) (c_ver ch) old ch (upd_state old), [])
      else
        let d' := put_value d (c_key ch)
                    (mkV (c_val ch) nv (c_opp ch) (upd_state old) (v_vaddr old) (v_kaddr old)) in
        (d', RSet (c_key ch) (c_val ch), notify_msgs d (c_key ch) (c_val ch) nv)
  | None =>
      let nv := sat_succ (c_ver ch) in
      let d' := put_value d (c_key ch) (mkV (c_val ch) nv (c_opp ch) VNew 0 0) in
      (d', RSet (c_key ch) (c_val ch), notify_msgs d (c_key ch) (c_val ch) nv)
  end.

(* get_function_by_pattern *)
Definition pattern_match (key pattern : str) : bool :=
  if ends_with pattern "*" then starts_with key (remove_char "*" pattern)
  else if starts_with pattern "*" then ends_with key (remove_char "*" pattern)
  else contains key pattern.

(* Database::list_keys *)
Definition list_keys (d : db) (pattern : str) (system : bool) : list str :=
  sort_strs (map fst (filter (fun kv =>
      (system || negb (starts_with (fst kv) "$$")) &&
      negb (vstate_eqb (v_st (snd kv)) VDeleted) &&
      pattern_match (fst kv) pattern) (d_map d))).

(* Database::remove_value *)
Definition remove_value (d : db) (key : str) : db * resp * list (nat * str) :=
  if String.eqb key "$$token" then (d, RError "$$token key cannot be removed", [])
  else
    let d' := match get_value d key with
              | Some v =>
                  match v_st v with
                  | VNew => db_set_map d (assoc_del String.eqb key (d_map d))
                  | _ => put_value d key (mkV "<Empty>" (sat_succ (v_ver v)) (v_opp v) VDeleted (v_vaddr v) (v_kaddr v))
                  end
              | None => d
              end in
    (d', ROk, map (fun s => (s, "removed " +++ key +++ nlS)) (watchers_of d key)).

(* Database::inc_value (after the fixes: tombstone = absent, checked add, version kept) *)
Definition inc_value (d : db) (key : str) (inc : Z) (opp : N) : db * resp * list (nat * str) :=
  let old := get_value d key in
  let cur := match old with
             | Some v => if vstate_eqb (v_st v) VDeleted then "0" else v_val v
             | None => "0"
             end in
  match parse_i32 cur with
  | Some c =>
      let nx := c + inc in
      if Z.leb (-2147483648) nx && Z.leb nx i32_max then
        let txt := Z_to_str nx in
        let nv := match old with
                  | Some v => mkV txt (sat_succ (v_ver v)) opp (upd_state v) (v_vaddr v) (v_kaddr v)
                  | None => mkV txt 1 opp VNew 0 0
                  end in
        (put_value d key nv, ROk, notify_msgs d key txt (-1))
      else (d, RError "Key is not numeric", [])
  | None => (d, RError "Key is not numeric", [])
  end.

Definition watch_key (d : db) (key : str) (c : nat) : db :=
  db_set_watch d (assoc_set String.eqb key (watchers_of d key ++ [c]) (d_watch d)).
Definition unwatch_key (d : db) (key : str) (c : nat) : db :=
  db_set_watch d (assoc_set String.eqb key (filter (fun x => negb (Nat.eqb x c)) (watchers_of d key)) (d_watch d)).
Definition unwatch_all (d : db) (c : nat) : db :=
  fold_left (fun d k => unwatch_key d k c) (map fst (d_watch d)) d.

Definition get_key_value_new (d : db) (key : str) : str * Z :=
  match get_value d key with
  | Some v => (v_val v, v_ver v)
  | None => ("<Empty>", 1)
  end.

(* ---- node-level helpers ------------------------------------------------- *)
(* replicate_web: message for the replication thread, stamped with a fresh op id *)
Definition replicate_web (n : node) (msg : str) : node :=
  let '(n1, id) := tick n in
  n_set_repl n1 (n_repl n1 ++ ["rp " +++ N_to_str id +++ " " +++ msg]).

Definition role_eqb (a b : role) : bool :=
  match a, b with StartingUp, StartingUp | Primary, Primary | Secondary, Secondary => true | _, _ => false end.

(* send_message_to_primary: push on the link of every member whose table role is Primary *)
Definition send_to_primary (n : node) (msg : str) : node :=
  n_set_members n (map (fun m => match m with
                                 | (name, (Primary, q)) => (name, (Primary, q ++ [msg]))
                                 | _ => m end) (n_members n)).

Definition replicate_msg (dbn key value : str) (ver : Z) : str :=
  "replicate " +++ dbn +++ " " +++ key +++ " " +++ Z_to_str ver +++ " " +++ value.

(* replication_ops::replicate_change *)
Definition replicate_change (n : node) (dbn : str) (ch : change) : node :=
  let m := replicate_msg dbn (c_key ch) (c_val ch) (c_ver ch) in
  if is_primary n || is_eligible n then replicate_web n m else send_to_primary n m.

Definition conflict_key (ch : change) : str :=
  "$conflicts_" +++ c_key ch +++ "_" +++ N_to_str (c_opp ch).
(* fix: a plain prefix test ("$conflicts_<key>_"); going through the key-listing patterns dropped every '*',
   also the ones inside the key's name, so a key such as "a*b" never found its own records *)
Definition list_conflicts_keys (d : db) (key : str) : list str :=
  let prefix := if String.eqb key "" then "$conflicts_" else "$conflicts_" +++ key +++ "_" in
  sort_strs (map fst (filter (fun kv =>
      negb (vstate_eqb (v_st (snd kv)) VDeleted) && starts_with (fst kv) prefix) (d_map d))).

Definition has_arbiter (d : db) : bool :=
  match assoc_get String.eqb "$conflicts" (d_watch d) with Some _ => true | None => false end.
Definition arbiter_msgs (d : db) (m : str) : list (nat * str) := map (fun s => (s, m)) (watchers_of d "$conflicts").

(* apply_change_to_db_try_fix_conflicts on database [dbn] *)
Definition apply_change (n : node) (dbn : str) (ch : change) : node * resp :=
  match get_db n dbn with
  | None => (n, RError "Not a valid database name")
  | Some d =>
      let '(d1, r, msgs) := set_value d ch in
      match r with
      | RVersionError key old_version version old ch0 st =>
          match d_strat d with
          | SNone => (n, r)
          | SNewer =>
              if N.ltb (v_opp old) (c_opp ch0) then
                let '(n1, id) := tick n in
                let ch2 := mkCh key (c_val ch0) old_version id true in
                let '(d2, r2, msgs2) := set_value d ch2 in
                (sends (put_db n1 dbn d2) msgs2, r2)
              else (n, RSet key (v_val old))
          | SArbiter =>
              if negb (has_arbiter d) then
                (n, RError "An conflitct happend and there is no arbiter client not connected")
              else
                let d2 := put_value d key (mkV (v_val old) (-2) (v_opp old) st (v_vaddr old) (v_kaddr old)) in
                let pend := list_conflicts_keys d2 key in
                let info := if Z.eqb old_version (-2)
                            then match rev pend with
                                 | last :: _ => Some (last, version + Z.of_nat (List.length pend))
                                 | [] => Some (v_val old, old_version)   (* fix: was last().unwrap() *)
                                 end
                            else Some (v_val old, old_version) in
                match info with
                | None => (put_db n dbn d2, RPanic)
                | Some (old_or_key, cver) =>
                    let rmsg := "resolve " +++ N_to_str (c_opp ch0) +++ " " +++ dbn +++ " " +++ Z_to_str cver
                                +++ " " +++ key +++ " " +++ old_or_key +++ " " +++ c_val ch0 in
                    let n1 := sends (put_db n dbn d2) (arbiter_msgs d2 rmsg) in
                    let ck := conflict_key ch0 in
                    let '(n2, id) := tick n1 in
                    let ch2 := mkCh ck rmsg (-1) id false in
                    let '(d3, _, msgs3) := set_value d2 ch2 in
                    let n3 := sends (put_db n2 dbn d3) msgs3 in
                    let n4 := replicate_change n3 dbn ch2 in
                    (n4, RError ("$$conflitct unresolved " +++ ck))
                end
          end
      | _ => (sends (put_db n dbn d1) msgs, r)
      end
  end.

(* db_ops::set_key_value: Change::new draws the op id *)
Definition set_key_value (n : node) (dbn key value : str) (ver : Z) : node * resp :=
  let '(n1, id) := tick n in
  apply_change n1 dbn (mkCh key value ver id false).

Definition set_connection_counter (n : node) (dbn : str) : node :=
  match get_db n dbn with
  | Some d => fst (set_key_value n dbn "$connections" (Z_to_str (d_conn d)) (-1))
  | None => n
  end.

(* has_pendding_conflict *)
Definition has_pending_conflict (d : db) (key : str) : bool :=
  existsb (fun k => match get_value d k with
                    | Some v => negb (starts_with (v_val v) "resolved")
                    | None => false end) (list_conflicts_keys d key).

(* Database::resolve_conflit *)
Definition resolve_conflict (n : node) (dbn : str) (ch : change) : node * resp :=
  match get_db n dbn with
  | None => (n, RError "Not a valid database name")
  | Some d =>
      let '(n1, id) := tick n in
      let reg := mkCh (conflict_key ch) ("resolved " +++ c_val ch) (-1) id false in
      let '(d1, _, msgs1) := set_value d reg in
      let n2 := replicate_change (sends (put_db n1 dbn d1) msgs1) dbn reg in
      let ch' := if has_pending_conflict d1 (c_key ch)
                 then mkCh (c_key ch) (c_val ch) (-2) (c_opp ch) true
                 else mkCh (c_key ch) (c_val ch) (c_ver ch) (c_opp ch) true in
      let '(d2, r, msgs2) := set_value d1 ch' in
      (sends (put_db n2 dbn d2) msgs2, r)
  end.

(* Database::register_arbiter *)
Definition register_arbiter (n : node) (dbn : str) (c : nat) : node :=
  match get_db n dbn with
  | None => n
  | Some d =>
      let d1 := watch_key d "$conflicts" c in
      fold_left (fun n k =>
          match get_db n dbn with
          | None => n
          | Some dd =>
              match get_value dd k with
              | None => n
              | Some v =>
                  if starts_with (v_val v) "resolved" then
                    let '(dd', _, msgs) := remove_value dd k in sends (put_db n dbn dd') msgs
                  else sends n (arbiter_msgs dd (v_val v))
              end
          end) (list_conflicts_keys d1 "") (put_db n dbn d1)
  end.

(* Databases::add_database *)
Definition add_database (n : node) (name : str) (d : db) : node * resp :=
  match get_db n name with
  | Some _ => (n, RError "database already exists")
  | None =>
      let n1 := n_set_idmap n (assoc_set N.eqb (d_id d) name (n_idmap n)) in
      let n2 := put_db n1 name d in
      let '(n3, id) := tick n2 in
      match get_db n3 "$admin" with
      | Some adm =>
          let '(adm', _, msgs) := set_value adm (mkCh name "{}" (-1) id false) in
          (sends (put_db n3 "$admin" adm') msgs, ROk)
      | None => (n3, RPanic)
      end
  end.

Definition empty_db (id : N) (s : strat) : db := mkDb [] [] 0 id s.

(* ---- security.rs ------------------------------------------------------- *)
Definition has_permission (n : node) (c : nat) (key : str) (d : db) (req : perm_kind) : bool :=
  if starts_with key "$$" then s_auth (get_sess n c)
  else
    let user := match s_user (get_sess n c) with Some u => u | None => "all" end in
    match get_value d ("$$permission_$" +++ user) with
    | Some v =>
        existsb (fun p => existsb (perm_kind_eqb req) (pm_kinds p) &&
                          existsb (fun pat => pattern_match key pat) (pm_keys p))
                (permissions_from_str (v_val v))
    | None => String.eqb user "all"
    end.

Definition no_db_msg : str := "error no-db-selected" +++ nlS.
Definition denied_msg : str := "permission denied" +++ nlS.

Inductive guard := GGo (dbn : str) (d : db) | GStop (n : node) (r : resp).

Definition reject_no_db (n : node) (c : nat) : guard := GStop (send n c no_db_msg) (RError no_db_msg).

Definition guard_db_name (n : node) (c : nat) (dbn : str) (key : option str) (req : perm_kind) : guard :=
  match get_db n dbn with
  | Some d =>
      match key with
      | None => GGo dbn d
      | Some k => if has_permission n c k d req then GGo dbn d
                  else GStop (send n c denied_msg) (RError denied_msg)
      end
  | None => reject_no_db n c
  end.

(* apply_if_safe_access *)
Definition guard_safe (n : node) (c : nat) (key : str) (req : perm_kind) : guard :=
  if starts_with key "$$" && negb (s_auth (get_sess n c)) then
    GStop n (RError "To read security keys you must auth as an admin!")
  else match s_db (get_sess n c) with
       | Some dbn => guard_db_name n c dbn (Some key) req
       | None => reject_no_db n c
       end.

(* apply_to_database *)
Definition guard_db (n : node) (c : nat) : guard :=
  match s_db (get_sess n c) with
  | Some dbn => guard_db_name n c dbn None PRead
  | None => reject_no_db n c
  end.

Definition not_auth : resp := RError "Not auth".

(* ---- elections on a node (election_ops.rs), sequential part --------------- *)
Definition push_sup (n : node) (m : str) : node := n_set_sup n (n_sup n ++ [m]).

Definition election_win (n : node) : node := n_set_role (push_sup n "election-win self") Primary.

(* Databases::replicate_message *)
Definition replicate_message (n : node) (m : str) : node := replicate_web n m.

(* start_election with at most one cluster member (the only case a single node
   reaches): win at once.  With more members the caller blocks in wait loops that
   belong to the cluster model; here the message is queued and the node stays as is. *)
Definition start_election (n : node) : node :=
  if Nat.leb (List.length (n_members n)) 1 then election_win n
  else replicate_message n ("election candidate " +++ N_to_str (n_pid n) +++ " " +++ n_addr n).

Definition start_new_election (n : node) : node := start_election (n_set_role n StartingUp).

Definition election_eval (n : node) (cand : N) : node :=
  if N.eqb cand (n_pid n) then n
  else if N.ltb (n_pid n) cand then start_election n
  else n_set_role (replicate_message n ("election alive " +++ n_addr n)) Secondary.

(* ---- Client::left -------------------------------------------------------- *)
Definition client_left (n : node) (c : nat) : node :=
  match s_db (get_sess n c) with
  | Some dbn =>
      match get_db n dbn with
      | Some d => set_connection_counter (put_db n dbn (db_set_conn d (d_conn d - 1))) dbn
      | None => n
      end
  | None => n
  end.

Definition set_sel (s : sess) (dbn : option str) (user : option str) : sess :=
  mkSess (s_auth s) dbn user (s_member s) (s_inbox s).
Definition set_member (s : sess) (m : option (str * role)) : sess :=
  mkSess (s_auth s) (s_db s) (s_user s) m (s_inbox s).
Definition set_auth (s : sess) (a : bool) : sess :=
  mkSess a (s_db s) (s_user s) (s_member s) (s_inbox s).

Definition sess_is_primary (s : sess) : bool :=
  match s_member s with Some (_, Primary) => true | _ => false end.

Definition keys_fold (l : list str) : str := fold_left (fun cur k => cur +++ "," +++ k) l "".

(* release the database the session had selected before (fix for H17) *)
Definition release_previous (n : node) (c : nat) : node := client_left n c.

(* the part of process_request_obj that needs no recursion *)
Definition handle (n : node) (c : nat) (rq : request) : node * resp :=
  let s := get_sess n c in
  let auth := s_auth s in
  match rq with
  | RqReplicateIncrement dbn key inc =>
      if negb auth then (n, not_auth) else
      match get_db n dbn with
      | Some d =>
          let '(n1, id) := tick n in
          let '(d', _, msgs) := inc_value d key inc id in
          (sends (put_db n1 dbn d') msgs, ROk)
      | None => (n, RError "Not a valid database name")
      end
  | RqIncrement key inc =>
      match guard_safe n c key PIncrement with
      | GStop n' r => (n', r)
      | GGo dbn d =>
          if is_primary n then
            let '(n1, id) := tick n in
            let '(d', r, msgs) := inc_value d key inc id in
            (sends (put_db n1 dbn d') msgs, r)
          else
            (send_to_primary n ("replicate-increment " +++ dbn +++ " " +++ key +++ " " +++ Z_to_str inc), ROk)
      end
  | RqAuth user password =>
      let ok := String.eqb user (n_user n) && String.eqb password (n_pwd n) in
      let s' := if ok then set_auth s true else s in
      let n1 := put_sess n c s' in
      (send n1 c (if s_auth s' then "valid auth" +++ nlS else "invalid auth" +++ nlS), ROk)
  | RqGet key =>
      match guard_safe n c key PRead with
      | GStop n' r => (n', r)
      | GGo dbn d => let '(v, ver) := get_key_value_new d key in
                     (send n c ("value " +++ v +++ nlS), RValue key v ver)
      end
  | RqGetSafe key =>
      match guard_safe n c key PRead with
      | GStop n' r => (n', r)
      | GGo dbn d => let '(v, ver) := get_key_value_new d key in
                     (send n c ("value-version " +++ Z_to_str ver +++ " " +++ v +++ nlS), RValue key v ver)
      end
  | RqRemove key =>
      match guard_safe n c key PRemove with
      | GStop n' r => (n', r)
      | GGo dbn d =>
          let '(d', r, msgs) := remove_value d key in
          let n1 := sends (put_db n dbn d') msgs in
          (* fix H4.1: a secondary forwards the remove to the primary *)
          ((match r with
            | ROk => if is_primary n1 then n1 else send_to_primary n1 ("replicate-remove " +++ dbn +++ " " +++ key)
            | _ => n1 end), r)
      end
  | RqSet key value version =>
      match guard_safe n c key PWrite with
      | GStop n' r => (n', r)
      | GGo dbn d =>
          let '(n1, r) := set_key_value n dbn key value version in
          let n2 := if is_primary n1 then n1 else send_to_primary n1 (replicate_msg dbn key value version) in
          (n2, r)
      end
  | RqReplicateRemove dbn key =>
      if negb auth then (n, not_auth) else
      match get_db n dbn with
      | Some d => let '(d', r, msgs) := remove_value d key in (sends (put_db n dbn d') msgs, r)
      | None => (n, RError "Not a valid database name")
      end
  | RqReplicateSet dbn key value version =>
      if negb auth then (n, not_auth) else
      match get_db n dbn with
      | Some _ => set_key_value n dbn key value version
      | None => (n, RError "Not a valid database name")
      end
  | RqSnapshot reclaim names =>
      if negb auth then (n, not_auth) else
      match names with
      | [] => match s_db s with
              | Some dbn =>
                  (match get_db n dbn with
                   | Some _ => n_set_snap n (n_snap n ++ [(dbn, reclaim)])
                   | None => n end, ROk)
              | None => (n, RError "No database selected")
              end
      | _ =>
          let missing := filter (fun nm => match get_db n nm with Some _ => false | None => true end) names in
          match missing with
          | [] => (n_set_snap n (n_snap n ++ map (fun nm => (nm, reclaim)) names), ROk)
          | [m] => (n, RError (m +++ " is not a valid database name"))
          | _ => (n, RError (fold_left (fun acc m => acc +++ m +++ ", ") missing "" +++ "are not a valid database names"))
          end
      end
  | RqReplicateSnapshot reclaim names =>
      if negb auth then (n, not_auth) else
      fold_left (fun acc nm =>
          let '(n0, r0) := acc in
          match get_db n0 nm with
          | Some _ => (n_set_snap n0 (n_snap n0 ++ [(nm, reclaim)]), r0)
          | None => (n0, RError ("Error trying to snapshot database: Database " +++ nm +++ " not found"))
          end) names (n, ROk)
  | RqUnWatch key =>
      match guard_db n c with
      | GStop n' r => (n', r)
      | GGo dbn d => (put_db n dbn (unwatch_key d key c), ROk)
      end
  | RqUnWatchAll =>
      match guard_db n c with
      | GStop n' r => (n', r)
      | GGo dbn d => (put_db n dbn (unwatch_all d c), ROk)
      end
  | RqWatch key =>
      match guard_safe n c key PRead with
      | GStop n' r => (n', r)
      | GGo dbn d => (put_db n dbn (watch_key d key c), ROk)
      end
  | RqUseDb token name user_name =>
      match get_db n name with
      | None => (n, RError "Not a valid database name")
      | Some d =>
          let tkey := match user_name with Some u => "$$user_" +++ u | None => "$$token" end in
          let valid := match get_value d tkey with
                       | Some v => String.eqb (v_val v) token
                       | None => false end in
          if valid then
            let n0 := release_previous n c in
            let n1 := put_sess n0 c (set_sel (get_sess n0 c) (Some name)
                                       (match user_name with Some u => Some u | None => s_user (get_sess n0 c) end)) in
            match get_db n1 name with
            | Some d1 => (set_connection_counter (put_db n1 name (db_set_conn d1 (d_conn d1 + 1))) name, ROk)
            | None => (n1, ROk)
            end
          else (n, RError "Invalid token")
      end
  | RqCreateUser token user_name =>
      match guard_safe n c "$$user" PWrite with
      | GStop n' r => (n', r)
      | GGo dbn d =>
          let key := "$$user_" +++ user_name in
          let '(n1, r) := set_key_value n dbn key token (-1) in
          match r with
          | RSet _ _ => ((if is_primary n1 then n1 else send_to_primary n1 (replicate_msg dbn key token (-1))), ROk)
          | _ => (n1, r)
          end
      end
  | RqCreateDb token name strategy =>
      if negb auth then (n, not_auth) else
      if is_primary n || sess_is_primary s then
        let id := next_db_id n in           (* fix H16.2: highest id in use + 1 *)
        let '(n1, tid) := tick n in
        let '(d0, _, _) := set_value (empty_db id strategy) (mkCh "$$token" token (-1) tid false) in
        let '(n2, r) := add_database n1 name d0 in
        match r with
        | ROk => (send n2 c ("create-db success" +++ nlS), ROk)
        | _ => (n2, r)
        end
      else (n, RError "Create database only allow from primary!")
  | RqElectionActive _ => if negb auth then (n, not_auth) else (n, ROk)    (* fix H9.1 *)
  | RqElectionWin => if negb auth then (n, not_auth) else (election_win n, ROk)
  | RqElection id _ => if negb auth then (n, not_auth) else (election_eval n id, ROk)
  | RqSetPrimary name =>
      if negb auth then (n, not_auth) else
      if negb (is_primary n) then
        let n1 := n_set_role (push_sup n ("primary " +++ name)) Secondary in
        (put_sess n1 c (set_member (get_sess n1 c) (Some (name, Primary))), ROk)
      else (start_new_election n, ROk)
  | RqSetSecondary name =>
      if negb auth then (n, not_auth) else
      (put_sess n c (set_member s (Some (name, Secondary))), ROk)
  | RqJoin name =>
      if negb auth then (n, not_auth) else
      if is_primary n || is_eligible n
      then (start_new_election (push_sup n ("secoundary " +++ name)), ROk)
      else (n, ROk)
  | RqLeave name =>
      if negb auth then (n, not_auth) else
      (start_new_election (push_sup n ("leave " +++ name)), ROk)
  | RqReplicateLeave name =>
      if negb auth then (n, not_auth) else (push_sup n ("leave " +++ name), ROk)
  | RqReplicateJoin name =>
      if negb auth then (n, not_auth) else (push_sup n ("new-secoundary " +++ name), ROk)
  | RqReplicateSince name start =>
      if negb auth then (n, not_auth) else
      (push_sup n ("replicate-since-to " +++ name +++ " " +++ N_to_str start), ROk)
  | RqClusterState =>
      if negb auth then (n, not_auth) else
      let ms := sort_strs (map (fun m =>
                  let '(name, (r, _)) := m in
                  let rs := match r with Primary => "Primary" | Secondary => "Secoundary" | StartingUp => "StartingUp" end in
                  if String.eqb name (n_addr n) then name +++ "(self):" +++ rs +++ " "
                  else name +++ "(Connected):" +++ rs) (n_members n)) in
      let txt := fold_left (fun cur a => cur +++ " " +++ a +++ ",") ms "" in
      (send n c ("cluster-state " +++ txt +++ nlS), RValue "cluster-state" txt (-1))
  | RqMetricsState =>
      if negb auth then (n, not_auth) else
      (* the figures are timing dependent ("*"); the text ends with two line feeds *)
      (send n c ("metrics-state *" +++ nlS +++ nlS), RValue "oplog-state" "*" (-1))
  | RqKeys pattern =>
      match guard_db n c with
      | GStop n' r => (n', r)
      | GGo dbn d =>
          let ks := keys_fold (list_keys d pattern auth) in
          (send n c ("keys " +++ ks +++ nlS), RValue "keys" ks (-1))
      end
  | RqAcknowledge opp_id server =>
      if negb auth then (n, not_auth) else
      (n_set_pending n (fst (acknowledge (n_pending n) opp_id server)), ROk)
  | RqDebug cmd =>
      if negb auth then (n, not_auth) else
      if String.eqb cmd "pending-ops" then (send n c "pending-ops *", ROk)
      else if String.eqb cmd "pendding-conflitcts" then
        match guard_db n c with
        | GStop n' _ => (n', ROk)
        | GGo dbn d =>
            let ks := sort_strs (map fst (filter (fun kv =>
                         negb (vstate_eqb (v_st (snd kv)) VDeleted) && starts_with (fst kv) "$$conflitcts") (d_map d))) in
            (send n c ("conflitcts-list " +++ keys_fold ks +++ nlS), ROk)
        end
      else if String.eqb cmd "list-dbs" then
        let ls := sort_strs (map (fun kv => fst kv +++ " : " +++ strat_to_str (d_strat (snd kv))) (n_dbs n)) in
        (send n c ("dbs-list " +++ nlS +++ join nlS ls +++ nlS), ROk)
      else if String.eqb cmd "force-election" then (start_new_election n, ROk)
      else if String.eqb cmd "process-info" then
        (send n c ("process-info " +++ nlS +++ "process_id: " +++ N_to_str (n_pid n) +++ nlS), ROk)
      else (n, ROk)
  | RqArbiter =>
      match guard_safe n c "$conflicts" PRead with      (* fix H9.3 *)
      | GStop n' r => (n', r)
      | GGo dbn d => (register_arbiter n dbn c, ROk)
      end
  | RqResolve opp_id dbn key value version =>
      (* fix H8.1/H9.4: a resolve needs write access to the key like any other write *)
      let run (dbn0 : str) :=
        if is_primary n || (auth && sess_is_primary s) then      (* fix H14.1: a resolve replicated by the primary is applied *)
          fst (resolve_conflict n dbn0 (mkCh key value version opp_id true))
        else send_to_primary n ("resolve " +++ N_to_str opp_id +++ " " +++ dbn +++ " " +++ key +++ " "
                                +++ Z_to_str version +++ " " +++ value) in
      (* fix: a refused resolve answers its refusal (so it is not replicated) *)
      if auth then
        match guard_db_name n c dbn None PRead with
        | GStop n' r => (n', r)
        | GGo dbn0 _ => (run dbn0, ROk)
        end
      else
        match guard_safe n c key PWrite with
        | GStop n' r => (n', r)
        | GGo dbn0 _ => (run dbn0, ROk)
        end
  | RqListCommands =>
      if negb auth then (n, not_auth) else
      (send n c ("commands-list " +++ keys_fold (sort_strs command_words) +++ nlS), ROk)
  | RqSetPermissions user perms =>
      match guard_safe n c "$$permission_$" PWrite with
      | GStop n' r => (n', r)
      | GGo dbn d =>
          let key := "$$permission_$" +++ user in
          let value := permissions_to_str_value perms in
          let '(n1, r) := set_key_value n dbn key value (-1) in
          match r with
          | RSet _ _ => ((if is_primary n1 then n1 else send_to_primary n1 (replicate_msg dbn key value (-1))), ROk)
          | _ => (n1, r)
          end
      end
  | RqReplicateRequest _ _ => (n, ROk)     (* handled by [process], which recurses *)
  end.

Definition has_db (n : node) (name : str) : bool := match get_db n name with Some _ => true | None => false end.

(* replication_ops::replicate_request *)
Definition replicate_request (n : node) (rq : request) (seldb : option str) (r : resp) : node * resp :=
  match r with
  | RError _ | RVersionError _ _ _ _ _ _ | RPanic => (n, r)
  | _ =>
      if match seldb with Some nm => negb (has_db n nm) | None => false end
      then (n, RError ("Database " +++ or_empty seldb +++ " not found"))
      else
      let sel := or_empty seldb in
      match rq with
      | RqCreateDb token name strategy =>
          (replicate_web n ("create-db " +++ name +++ " " +++ token +++ " " +++ strat_to_str strategy), ROk)
      | RqSnapshot reclaim names =>
          (* fix: the selected database is needed only when no name was given *)
          let names' := match names with [] => [sel] | _ => names end in
          (replicate_web n ("replicate-snapshot " +++ join "|" names' +++ " " +++ (if reclaim then "true" else "false")), ROk)
      | RqReplicateSnapshot reclaim names =>
          (replicate_web n ("replicate-snapshot " +++ join "|" names +++ " " +++ (if reclaim then "true" else "false")), ROk)
      | RqSet key value version => (replicate_web n (replicate_msg sel key value version), ROk)
      | RqResolve opp_id dbn key value version =>
          (replicate_web n ("resolve " +++ N_to_str opp_id +++ " " +++ dbn +++ " " +++ key +++ " "
                            +++ Z_to_str version +++ " " +++ value), ROk)
      | RqReplicateSet dbn key value version => (replicate_web n (replicate_msg dbn key value version), ROk)
      | RqRemove key => (replicate_web n ("replicate-remove " +++ sel +++ " " +++ key), ROk)
      | RqReplicateRemove dbn key => (replicate_web n ("replicate-remove " +++ dbn +++ " " +++ key), ROk)
      | RqElection id name => (replicate_web n ("election candidate " +++ N_to_str id +++ " " +++ name), ROk)
      | RqElectionActive name => (replicate_web n ("election active " +++ name), ROk)
      | RqLeave name => (replicate_web n ("replicate-leave " +++ name), ROk)
      | RqReplicateIncrement dbn key inc =>
          (replicate_web n ("replicate-increment " +++ dbn +++ " " +++ key +++ " " +++ Z_to_str inc), ROk)
      | RqIncrement key inc =>
          (replicate_web n ("replicate-increment " +++ sel +++ " " +++ key +++ " " +++ Z_to_str inc), ROk)
      | RqCreateUser token user_name =>
          (replicate_web n (replicate_msg sel ("$$user_" +++ user_name) token (-1)), ROk)
      | RqSetPermissions user perms =>
          (replicate_web n (replicate_msg sel ("$$permission_$" +++ user) (permissions_to_str_value perms) (-1)), ROk)
      | _ => (n, r)
      end
  end.

(* process_request: parse, handle, replicate; `rp <id> <cmd>` acknowledges and recurses.
   Recursion is on explicit fuel; [String.length line] is always enough because every
   nested request string is strictly shorter. *)
Fixpoint process (fuel : nat) (n : node) (c : nat) (line : str) : node * resp :=
  match fuel with
  | O => (n, RPanic)
  | S k =>
      let seldb := s_db (get_sess n c) in
      match parse_request (trim_char nl line) with
      | PErr e => (n, RError e)
      | PPanic => (n, RPanic)
      | POk rq =>
          let '(n1, r) :=
            match rq with
            | RqReplicateRequest inner opp_id =>
                if negb (s_auth (get_sess n c)) then (n, not_auth) else      (* fix H9.2 *)
                let n0 := send n c ("ack " +++ N_to_str opp_id +++ " " +++ n_addr n +++ " " +++ nlS) in
                process k n0 c inner
            | _ => handle n c rq
            end in
          replicate_request n1 rq seldb r
      end
  end.

Definition step (n : node) (c : nat) (line : str) : node * resp :=
  process (S (String.length line)) n c line.

(* a new connection *)
Definition connect (n : node) : node * nat := (n_set_sess n (n_sess n ++ [empty_sess]), List.length (n_sess n)).

(* the three transports' disconnect path: process_request("unwatch-all") then Client::left *)
Definition disconnect (n : node) (c : nat) : node :=
  client_left (fst (step n c "unwatch-all")) c.

(* drain a session's inbox (the transport reading the channel) *)
Definition drain (n : node) (c : nat) : node * list str :=
  let s := get_sess n c in
  (put_sess n c (mkSess (s_auth s) (s_db s) (s_user s) (s_member s) []), s_inbox s).

(* Databases::new: the $admin database (id 0, newer) holding $$token = pwd, and its own
   entry written by add_database *)
Definition init_node (user pwd addr : str) (pid : N) (r : role) (clock0 : N) : node :=
  let n0 := mkNode [] [] r clock0 user pwd addr pid [] [] [] [] [] [] in
  let '(n1, id) := tick n0 in
  let '(adm, _, _) := set_value (empty_db 0 SNewer) (mkCh "$$token" pwd (-1) id false) in
  let n2 := n_set_idmap (put_db n1 "$admin" adm) [(0%N, "$admin")] in
  let '(n3, id2) := tick n2 in
  let '(adm2, _, _) := set_value adm (mkCh "$admin" "{}" (-1) id2 false) in
  put_db n3 "$admin" adm2.

(* ---- HTTP transport (network/http_ops.rs::process_commands) ------------------ *)
(* one entry per non-blank statement: an error => its message (and whatever the
   refused command queued is discarded, fix H20.1); success => the first queued
   message or "empty".  Afterwards the session is released. *)
Inductive http_out := HEntries (l : list str) | HWorkerDied.

Fixpoint http_commands (n : node) (c : nat) (cmds : list str) (acc : list str) : node * option (list str) :=
  match cmds with
  | [] => (n, Some acc)
  | cmd :: rest =>
      let clean := trim cmd in
      if String.eqb clean "" then http_commands n c rest acc
      else
        let '(n1, r) := step n c clean in
        match r with
        | RPanic => (n1, None)
        | RError msg => http_commands (fst (drain n1 c)) c rest (acc ++ [msg])
        | RVersionError _ _ _ _ _ _ => http_commands (fst (drain n1 c)) c rest (acc ++ ["Invalid version!"])
        | _ =>
            let s := get_sess n1 c in
            match s_inbox s with
            | m :: more => http_commands (put_sess n1 c (mkSess (s_auth s) (s_db s) (s_user s) (s_member s) more)) c rest (acc ++ [m])
            | [] => http_commands n1 c rest (acc ++ ["empty"])
            end
        end
  end.

Definition http_request (n : node) (body : str) : node * option (list str) :=
  let '(n0, c) := connect n in
  let '(n1, out) := http_commands n0 c (split_char ";" body) [] in
  (disconnect n1 c, out).

(* ---- in-memory effect of snapshot_all_pendding_dbs (disk_ops.rs) ------------- *)
(* storage_data_disk marks every key it writes as Ok (fresh op id each); tombstones
   stay tombstones unless the snapshot reclaims space.  File contents are the Disk model's business (Model/Disk.v). *)
Fixpoint dedup_snap (l : list (str * bool)) : list (str * bool) :=
  match l with
  | a :: ((b :: _) as r) =>
      if String.eqb (fst a) (fst b) && Bool.eqb (snd a) (snd b) then dedup_snap r else a :: dedup_snap r
  | _ => l
  end.

Definition snapshot_mem_value (reclaim : bool) (acc : list (str * value) * N) (kv : str * value)
  : list (str * value) * N :=
  let '(out, clk) := acc in
  let '(k, v) := kv in
  match v_st v with
  | VDeleted => if reclaim then (out, clk)      (* the rewritten files no longer hold the key: tombstone dropped *)
                else (out ++ [(k, v)], clk)
  | VOk => if reclaim then (out ++ [(k, mkV (v_val v) (v_ver v) clk VOk (v_vaddr v) (v_kaddr v))], clk + 1)%N
           else (out ++ [(k, v)], clk)
  | _ => (out ++ [(k, mkV (v_val v) (v_ver v) clk VOk (v_vaddr v) (v_kaddr v))], clk + 1)%N
  end.

Definition snapshot_mem (n : node) (dbn : str) (reclaim : bool) : node :=
  match get_db n dbn with
  | None => n
  | Some d =>
      let '(m', clk) := fold_left (snapshot_mem_value reclaim) (d_map d) ([], n_clock n) in
      n_set_clock (put_db n dbn (db_set_map d m')) clk
  end.

Definition flush_snapshots (n : node) : node :=
  let q := rev (dedup_snap (n_snap n)) in
  fold_left (fun n p => snapshot_mem n (fst p) (snd p)) q (n_set_snap n []).
