(* Extraction of the executable models to OCaml (used only by the correspondence
   check and the oracles; no theorem depends on it).  Directives in use:
   ExtrOcamlBasic (bool, option, unit, list, prod, sumbool, comparison -> OCaml
   natives) and ExtrOcamlString (ascii -> char, string -> char list).  No
   Extract Constant of our own; nat / positive / N / Z stay Coq inductives. *)
From Coq Require Import Extraction ExtrOcamlBasic ExtrOcamlString.
From NunDB Require Import Model.Base Model.Pending.
Extraction Language OCaml.
Extraction "model.ml" pstep sstep wf_from outstanding.
