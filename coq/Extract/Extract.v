(* Extraction of the executable models to OCaml (used only by the correspondence
   check and the oracles; no theorem depends on it).  Directives in use:
   ExtrOcamlBasic (bool, option, unit, list, prod, sumbool, comparison -> OCaml
   natives) and ExtrOcamlString (ascii -> char, string -> char list).  No
   Extract Constant of our own; nat / positive / N / Z stay Coq inductives. *)
From Coq Require Import Extraction ExtrOcamlBasic ExtrOcamlString.
From NunDB Require Import Model.All.
Extraction Language OCaml.
Extraction "model.ml" pstep sstep wf_from outstanding
  query_all last_op_time oplog_append append_ok reopen declutter spec_last all_records file_bytes sorted_times search
  step connect disconnect drain init_node n_set_repl n_set_sup strat_to_str Z_to_str flush_snapshots http_request dflush drestart snapshot_plan load_db apply_fops
  settle deliver reply poll_sup poll_repl_c client_cmd client_conn add_sec init_cnode get_cn put_cn cn_set_node get_sess n_set_clock
  run_par new_thread dflush_crash dflush_plan is_sc
  mstart mcmd mconnect mpoll mflush mshutdown mcrash decode_rec keymap_bytes mtake_before is_msc mf_empty apply_mops dedup_snap drop_link resync
  s3_flush s3_restart stub0
  ecmd edeliver ereply esettle tick_frames is_nosender
  ksettle kkill kpoll_sup kpoll_repl
  tcp_line ws_frame conn_closed utf8_valid ws_terminators.
