(* C16: crash safety of the operation-log metadata protocol for KEY ids (Model/Meta.v). *)
From NunDB Require Import Model.Base Model.Pending Model.Oplog Model.Parse Model.Node Model.Disk Model.Cluster Model.Meta.
From NunDB Require Import Proofs.AssocLemmas.
Require Import String List NArith ZArith Bool Ascii Lia Permutation. Import ListNotations.
Open Scope string_scope.
Open Scope list_scope.
Open Scope N_scope.

(* ====================================================================================== *)
(* 1. the crash state is a prefix of the trace                                             *)
(* ====================================================================================== *)
Lemma mtake_before_prefix : forall s ops i, exists rest, ops = mtake_before s i ops ++ rest.
Proof.
  intros s ops; induction ops as [|o r IH]; intros i; cbn [mtake_before].
  - exists []; reflexivity.
  - destruct (is_msc s o) eqn:E.
    + destruct i as [|[|k]].
      * exists (o :: r); reflexivity.
      * exists (o :: r); reflexivity.
      * destruct (IH (S k)) as [rest Hr]. exists rest. cbn [app]. f_equal. exact Hr.
    + destruct (IH i) as [rest Hr]. exists rest. cbn [app]. f_equal. exact Hr.
Qed.

Lemma mtake_before_complete : forall s ops i, (mcount s ops < i)%nat -> mtake_before s i ops = ops.
Proof.
  intros s ops; induction ops as [|o r IH]; intros i Hc; cbn [mtake_before]; [reflexivity|].
  unfold mcount in *. cbn [filter] in Hc.
  destruct (is_msc s o) eqn:E.
  - cbn [List.length] in Hc. destruct i as [|[|k]]; try lia.
    f_equal. apply IH. lia.
  - f_equal. apply IH. exact Hc.
Qed.

Lemma mtake_before_stops : forall s ops i, (1 <= i)%nat -> (i <= mcount s ops)%nat ->
  exists o rest, ops = mtake_before s i ops ++ o :: rest /\ is_msc s o = true /\
                 mcount s (mtake_before s i ops) = (i - 1)%nat.
Proof.
  intros s ops; induction ops as [|o r IH]; intros i H1 Hc.
  - unfold mcount in Hc; cbn in Hc; lia.
  - cbn [mtake_before]. unfold mcount in Hc. cbn [filter] in Hc.
    destruct (is_msc s o) eqn:E.
    + cbn [List.length] in Hc. destruct i as [|[|k]]; [lia| |].
      * exists o, r. split; [reflexivity|]. split; [exact E|]. reflexivity.
      * destruct (IH (S k)) as [o' [rest [Hr [Ho Hn]]]]; [lia|unfold mcount; lia|].
        exists o', rest. split; [cbn [app]; f_equal; exact Hr|]. split; [exact Ho|].
        unfold mcount in *. cbn [filter]. rewrite E. cbn [List.length]. lia.
    + destruct (IH i H1) as [o' [rest [Hr [Ho Hn]]]]; [unfold mcount; exact Hc|].
      exists o', rest. split; [cbn [app]; f_equal; exact Hr|]. split; [exact Ho|].
      unfold mcount in *. cbn [filter]. rewrite E. exact Hn.
Qed.

(* ====================================================================================== *)
(* 2. the key map file: decode (encode order) = order                                      *)
(* ====================================================================================== *)
Lemma slength_app : forall a b, String.length (a +++ b) = (String.length a + String.length b)%nat.
Proof. induction a as [|c a IH]; intros b; cbn; [reflexivity|]. now rewrite IH. Qed.

Lemma sapp_assoc : forall a b c, (a +++ b) +++ c = a +++ b +++ c.
Proof. induction a as [|x a IH]; intros; cbn; [reflexivity|]. now rewrite IH. Qed.

Lemma sapp_nil_r : forall a, a +++ "" = a.
Proof. induction a as [|x a IH]; cbn; [reflexivity|]. now rewrite IH. Qed.

Lemma str_take_app : forall a b, str_take (String.length a) (a +++ b) = a.
Proof. induction a as [|x a IH]; intros b; cbn; [reflexivity|]. now rewrite IH. Qed.

Lemma str_drop_app : forall a b, str_drop (String.length a) (a +++ b) = b.
Proof. induction a as [|x a IH]; intros b; cbn; [reflexivity|]. apply IH. Qed.

Lemma str_drop_add : forall n m s, str_drop (n + m) s = str_drop m (str_drop n s).
Proof.
  induction n as [|n IH]; intros m s; cbn [Nat.add str_drop]; [reflexivity|].
  destruct s as [|c s].
  - destruct m; reflexivity.
  - apply IH.
Qed.

Lemma le_bytes_length : forall k n, String.length (le_bytes k n) = k.
Proof. induction k as [|k IH]; intros n; cbn [le_bytes String.length]; [reflexivity|]. now rewrite IH. Qed.

Lemma le_decode_bytes : forall k n, le_decode (le_bytes k n) = n mod (256 ^ N.of_nat k).
Proof.
  induction k as [|k IH]; intros n.
  - cbn [le_bytes le_decode]. change (N.of_nat 0) with 0. rewrite N.pow_0_r. now rewrite N.mod_1_r.
  - cbn [le_bytes le_decode]. rewrite IH.
    rewrite N_ascii_embedding by (apply N.mod_lt; discriminate).
    rewrite Nat2N.inj_succ, N.pow_succ_r'.
    rewrite (N.mod_mul_r n 256 (256 ^ N.of_nat k)); [reflexivity|discriminate|].
    apply N.pow_nonzero. discriminate.
Qed.

Lemma le_decode_bytes8 : forall n, n < 2 ^ 64 -> le_decode (le_bytes 8 n) = n.
Proof.
  intros n Hn. rewrite le_decode_bytes. apply N.mod_small.
  change (256 ^ N.of_nat 8) with (2 ^ 64). exact Hn.
Qed.

Definition sconcat (l : list str) : str := fold_right String.append "" l.

Lemma fold_append : forall l a, fold_left (fun a p => a +++ p) l a = a +++ sconcat l.
Proof.
  induction l as [|p l IH]; intros a; cbn [fold_left sconcat fold_right].
  - now rewrite sapp_nil_r.
  - rewrite IH. apply sapp_assoc.
Qed.

Fixpoint enc_entries (order : list (str * N)) : str :=
  match order with
  | [] => ""
  | kv :: r => le_bytes 8 (slen (fst kv)) +++ fst kv +++ le_bytes 8 (snd kv) +++ enc_entries r
  end.

Lemma keymap_bytes_eq : forall order,
  keymap_bytes order = le_bytes 8 (N.of_nat (List.length order)) +++ enc_entries order.
Proof.
  intros order. unfold keymap_bytes, keymap_pieces. cbn [fold_left]. rewrite fold_append.
  cbn [String.append]. f_equal.
  induction order as [|kv r IH]; cbn [flat_map sconcat fold_right enc_entries app]; [reflexivity|].
  fold (sconcat (flat_map (fun kv => [le_bytes 8 (slen (fst kv)); fst kv; le_bytes 8 (snd kv)]) r)).
  now rewrite IH.
Qed.

Definition entry_ok (kv : str * N) : Prop :=
  utf8_valid (fst kv) = true /\ slen (fst kv) < 2 ^ 64 /\ snd kv < 2 ^ 64.

Lemma enc_entries_length : forall order,
  (16 * List.length order <= String.length (enc_entries order))%nat.
Proof.
  induction order as [|kv r IH]; cbn [enc_entries List.length]; [lia|].
  rewrite !slength_app, !le_bytes_length. lia.
Qed.

Lemma str_take_app' : forall n a b, String.length a = n -> str_take n (a +++ b) = a.
Proof. intros n a b <-. apply str_take_app. Qed.
Lemma str_drop_app' : forall n a b, String.length a = n -> str_drop n (a +++ b) = b.
Proof. intros n a b <-. apply str_drop_app. Qed.

Lemma decode_entries_enc : forall order, Forall entry_ok order ->
  decode_entries (List.length order) (enc_entries order) = Some order.
Proof.
  induction order as [|[k id] r IH]; intros Hok; [reflexivity|].
  inversion Hok as [|? ? [Hu [Hl Hi]] Hr]; subst. cbn [fst snd] in *.
  cbn [List.length enc_entries decode_entries fst snd].
  set (rest := enc_entries r) in *.
  assert (L8 : forall n, String.length (le_bytes 8 n) = 8%nat) by (intros; apply le_bytes_length).
  destruct (Nat.ltb _ 8) eqn:E1.
  { apply Nat.ltb_lt in E1. rewrite slength_app, L8 in E1. lia. }
  rewrite !(str_take_app' 8 (le_bytes 8 (slen k))), !(str_drop_app' 8 (le_bytes 8 (slen k))) by apply L8.
  rewrite le_decode_bytes8 by exact Hl.
  unfold slen. rewrite Nat2N.id.
  destruct (Nat.ltb _ (String.length k + 8)) eqn:E2.
  { apply Nat.ltb_lt in E2. rewrite !slength_app, L8 in E2. lia. }
  rewrite str_take_app, Hu. cbn [negb].
  rewrite str_drop_add, !str_drop_app.
  rewrite (str_take_app' 8 (le_bytes 8 id)), (str_drop_app' 8 (le_bytes 8 id)) by apply L8.
  rewrite le_decode_bytes8 by exact Hi.
  rewrite (IH Hr). reflexivity.
Qed.

Theorem keymap_roundtrip : forall order : list (str * N),
  Forall entry_ok order -> N.of_nat (List.length order) < 2 ^ 64 ->
  decode_keymap (keymap_bytes order) = Some order.
Proof.
  intros order Hok Hlen. rewrite keymap_bytes_eq. unfold decode_keymap.
  assert (L8 : forall n, String.length (le_bytes 8 n) = 8%nat) by (intros; apply le_bytes_length).
  destruct (Nat.ltb _ 8) eqn:E1.
  { apply Nat.ltb_lt in E1. rewrite slength_app, L8 in E1. lia. }
  rewrite (str_take_app' 8 (le_bytes 8 _)), (str_drop_app' 8 (le_bytes 8 _)) by apply L8.
  rewrite le_decode_bytes8 by exact Hlen.
  destruct (N.ltb _ _) eqn:E2.
  { apply N.ltb_lt in E2. rewrite slength_app, L8 in E2.
    pose proof (enc_entries_length order). lia. }
  rewrite Nat2N.id. apply decode_entries_enc; exact Hok.
Qed.

(* ====================================================================================== *)
(* 3. snapshot_keys replaces the key map file atomically, and validates the flag last      *)
(* ====================================================================================== *)
Lemma apply_mops_app : forall f a b, apply_mops f (a ++ b) = apply_mops (apply_mops f a) b.
Proof. intros. unfold apply_mops. apply fold_left_app. Qed.

Lemma apply_mops_cons : forall f o r, apply_mops f (o :: r) = apply_mops (apply_mop f o) r.
Proof. reflexivity. Qed.

Definition snapshot_keys_ops (order : list (str * N)) : list mop :=
  [MTmpCreate] ++ map MTmpWrite (keymap_pieces order) ++ [MTmpRename; MFlagCreate; MFlagWrite (String one "")].

Lemma flag_valid_write_one : forall s, flag_valid (Some (write_at s 0 (String one ""))) = true.
Proof. intros s. unfold write_at. cbn. reflexivity. Qed.

Lemma flag_valid_write_zero : forall s, flag_valid (Some (write_at s 0 (String zero ""))) = false.
Proof. intros s. unfold write_at. cbn. reflexivity. Qed.

Lemma flag_valid_create : forall fl,
  flag_valid (match fl with Some s => Some s | None => Some "" end) = flag_valid fl.
Proof. intros [s|]; reflexivity. Qed.

(* the tail of the operation list, from a state whose temporary file holds [t] *)
Lemma snap_tail_prefix : forall ps g t p rest,
  mf_tmp g = Some t ->
  map MTmpWrite ps ++ [MTmpRename; MFlagCreate; MFlagWrite (String one "")] = p ++ rest ->
  let g' := apply_mops g p in
  mf_db g' = mf_db g /\ mf_log g' = mf_log g /\
  ((mf_keys g' = mf_keys g /\ mf_flag g' = mf_flag g /\ rest <> []) \/
   (mf_keys g' = Some (t +++ sconcat ps) /\
    (rest <> [] -> flag_valid (mf_flag g') = flag_valid (mf_flag g)) /\
    (rest = [] -> flag_valid (mf_flag g') = true))).
Proof.
  induction ps as [|a ps IH]; intros g t p rest Ht Heq g'; subst g'.
  - cbn [map app sconcat fold_right] in Heq. rewrite sapp_nil_r.
    destruct p as [|o1 p].
    { cbn. split; [reflexivity|]. split; [reflexivity|]. left. split; [reflexivity|]. split; [reflexivity|].
      cbn in Heq. rewrite <- Heq. discriminate. }
    injection Heq as <- Heq. destruct p as [|o2 p].
    { cbn. rewrite Ht. split; [reflexivity|]. split; [reflexivity|]. right.
      split; [reflexivity|]. split; [reflexivity|]. cbn in Heq. rewrite <- Heq. discriminate. }
    injection Heq as <- Heq. destruct p as [|o3 p].
    { cbn. rewrite Ht. split; [reflexivity|]. split; [reflexivity|]. right.
      split; [reflexivity|]. split; [intros _; apply flag_valid_create|].
      cbn in Heq. rewrite <- Heq. discriminate. }
    injection Heq as <- Heq. destruct p as [|o4 p]; [|destruct p; discriminate].
    cbn. rewrite Ht. split; [reflexivity|]. split; [reflexivity|]. right.
    split; [reflexivity|]. cbn in Heq. subst rest. split; [intros H; now destruct H|].
    intros _. reflexivity.
  - destruct p as [|o p].
    { cbn. split; [reflexivity|]. split; [reflexivity|]. left. split; [reflexivity|]. split; [reflexivity|].
      cbn in Heq. rewrite <- Heq. discriminate. }
    cbn [map app] in Heq. injection Heq as <- Heq.
    rewrite apply_mops_cons.
    assert (Ht' : mf_tmp (apply_mop g (MTmpWrite a)) = Some (t +++ a))
      by (cbn [apply_mop mf_tmp]; now rewrite Ht).
    specialize (IH (apply_mop g (MTmpWrite a)) (t +++ a) p rest Ht' Heq). cbn zeta in IH.
    cbn [sconcat fold_right]. fold (sconcat ps). rewrite <- sapp_assoc. exact IH.
Qed.

Theorem keys_file_atomic : forall f order p rest,
  snapshot_keys_ops order = p ++ rest ->
  let f' := apply_mops f p in
  (mf_keys f' = mf_keys f \/ mf_keys f' = Some (keymap_bytes order)) /\
  (mf_flag f' <> mf_flag f -> mf_keys f' = Some (keymap_bytes order)) /\
  (flag_valid (mf_flag f') <> flag_valid (mf_flag f) -> rest = []) /\
  (rest = [] -> mf_keys f' = Some (keymap_bytes order) /\ flag_valid (mf_flag f') = true) /\
  mf_log f' = mf_log f /\ mf_db f' = mf_db f.
Proof.
  intros f order p rest Heq f'; subst f'. unfold snapshot_keys_ops in Heq.
  destruct p as [|o p].
  { cbn. split; [now left|]. split; [intros H; now destruct H|]. split; [intros H; now destruct H|].
    split; [|split; reflexivity]. intros ->. discriminate. }
  cbn [app] in Heq. injection Heq as <- Heq. rewrite apply_mops_cons.
  pose proof (snap_tail_prefix (keymap_pieces order) (apply_mop f MTmpCreate) "" p rest eq_refl Heq) as H.
  cbn zeta in H. cbn [apply_mop mf_db mf_log mf_keys mf_flag] in H.
  set (f' := apply_mops _ p) in *.
  assert (Hb : "" +++ sconcat (keymap_pieces order) = keymap_bytes order).
  { unfold keymap_bytes. now rewrite fold_append. }
  rewrite Hb in H. destruct H as [Hdb [Hlog [[Hk [Hf Hr]]|[Hk [Hf1 Hf2]]]]].
  - split; [now left|]. split; [intros H; now destruct H|]. split; [rewrite Hf; intros H; now destruct H|].
    split; [intros ->; now destruct Hr|]. split; assumption.
  - split; [now right|]. split; [intros _; exact Hk|].
    split; [|split; [intros ->; split; [exact Hk|now apply Hf2]|split; assumption]].
    intros Hne. destruct rest; [reflexivity|]. destruct Hne. apply Hf1. discriminate.
Qed.

(* ====================================================================================== *)
(* 4. the invariant                                                                        *)
(* ====================================================================================== *)
Definition disk_entries (f : mfiles) : option (list (str * N)) :=
  match mf_keys f with None => Some [] | Some b => decode_keymap b end.
Definition flog (f : mfiles) : ofile := match mf_log f with Some l => l | None => [] end.

(* a key map as the code builds it from nothing: names unique, ids = a bijection onto 0..n-1 *)
Definition WFkm (km : list (str * N)) : Prop :=
  NoDup (map fst km) /\ NoDup (map snd km) /\
  forall k id, In (k, id) km -> id < N.of_nat (List.length km).

(* REFINED w.r.t. the brief: the key map file is decodable (and well formed) whatever the flag
   says, because the start-up decodes it before it looks at the flag. *)
Definition KInv (f : mfiles) (km : list (str * N)) : Prop :=
  exists dk, disk_entries f = Some dk /\ WFkm (keymap_of_entries dk) /\
    (flag_valid (mf_flag f) = true ->
     forall r, In r (flog f) -> r_op r <= 1 ->
       key_of_id (keymap_of_entries dk) (r_key r) = key_of_id km (r_key r) /\
       key_of_id km (r_key r) <> None).

(* the invariant literally as in the brief follows *)
Lemma KInv_brief_form : forall f km, KInv f km ->
  flag_valid (mf_flag f) = true ->
  exists dk, (match mf_keys f with None => Some [] | Some b => decode_keymap b end) = Some dk /\
    forall r, In r (match mf_log f with Some l => l | None => [] end) -> r_op r <= 1 ->
      key_of_id (keymap_of_entries dk) (r_key r) = key_of_id km (r_key r) /\
      exists k, key_of_id km (r_key r) = Some k.
Proof.
  intros f km [dk [Hdk [_ H]]] Hv. exists dk. split; [exact Hdk|].
  intros r Hin Hop. destruct (H Hv r Hin Hop) as [H1 H2]. split; [exact H1|].
  destruct (key_of_id km (r_key r)) as [k|]; [now exists k|now destruct H2].
Qed.

(* ---- key_of_id ---- *)
Lemma key_of_id_app_some : forall km ext id,
  key_of_id km id <> None -> key_of_id (km ++ ext) id = key_of_id km id.
Proof.
  intros km ext id. unfold key_of_id. rewrite filter_app.
  destruct (filter _ km) as [|[k i] r]; [intros H; now destruct H|]. reflexivity.
Qed.

Lemma key_of_id_in : forall km id k, key_of_id km id = Some k -> In (k, id) km.
Proof.
  intros km id k. unfold key_of_id.
  destruct (filter (fun p : str * N => snd p =? id) km) as [|[k' i] r] eqn:E; [discriminate|].
  intros [= ->].
  assert (H : In (k, i) (filter (fun p : str * N => snd p =? id) km)) by (rewrite E; now left).
  apply filter_In in H. destruct H as [H1 H2]. cbn in H2. apply N.eqb_eq in H2. now subst.
Qed.

Lemma key_of_id_none : forall km id k, key_of_id km id = None -> ~ In (k, id) km.
Proof.
  intros km id k H Hin. unfold key_of_id in H.
  assert (H0 : In (k, id) (filter (fun p : str * N => snd p =? id) km)).
  { apply filter_In. split; [exact Hin|]. cbn. apply N.eqb_refl. }
  destruct (filter (fun p : str * N => snd p =? id) km) as [|[k' i] r]; [inversion H0|discriminate].
Qed.

Lemma key_of_id_unique : forall km id k,
  NoDup (map snd km) -> In (k, id) km -> key_of_id km id = Some k.
Proof.
  induction km as [|[k' i'] r IH]; intros id k Hnd Hin; [inversion Hin|].
  unfold key_of_id. cbn [filter snd]. inversion Hnd as [|? ? Hni Hnd']; subst.
  destruct (N.eqb_spec i' id) as [->|Hne].
  - destruct Hin as [E|Hin]; [now injection E as ->|].
    exfalso. apply Hni. change id with (snd (k, id)). now apply in_map.
  - destruct Hin as [E|Hin]; [congruence|]. apply (IH id k Hnd' Hin).
Qed.

Lemma key_of_id_perm : forall ko km id,
  NoDup (map snd km) -> Permutation ko km -> key_of_id ko id = key_of_id km id.
Proof.
  intros ko km id Hnd Hp.
  assert (Hnd' : NoDup (map snd ko)).
  { apply (Permutation_NoDup (l:=map snd km)); [|exact Hnd]. apply Permutation_map. now apply Permutation_sym. }
  destruct (key_of_id km id) as [k|] eqn:E.
  - apply key_of_id_unique; [exact Hnd'|]. apply key_of_id_in in E.
    apply (Permutation_in (l:=km)); [now apply Permutation_sym|exact E].
  - destruct (key_of_id ko id) as [k|] eqn:E2; [|reflexivity].
    apply key_of_id_in in E2. exfalso. apply (key_of_id_none km id k E).
    apply (Permutation_in (l:=ko)); assumption.
Qed.

(* ---- well-formed key maps ---- *)
Lemma WFkm_nil : WFkm [].
Proof. split; [constructor|]. split; [constructor|]. intros k id []. Qed.

Lemma WFkm_perm : forall ko km, Permutation ko km -> WFkm km -> WFkm ko.
Proof.
  intros ko km Hp [H1 [H2 H3]]. split; [|split].
  - apply (Permutation_NoDup (l:=map fst km)); [|exact H1]. apply Permutation_map. now apply Permutation_sym.
  - apply (Permutation_NoDup (l:=map snd km)); [|exact H2]. apply Permutation_map. now apply Permutation_sym.
  - intros k id Hin. rewrite (Permutation_length Hp). apply (H3 k).
    apply (Permutation_in (l:=ko)); assumption.
Qed.

Lemma WFkm_snoc : forall km key, WFkm km -> ~ In key (map fst km) ->
  WFkm (km ++ [(key, N.of_nat (List.length km))]).
Proof.
  intros km key [H1 [H2 H3]] Hni. split; [|split].
  - rewrite map_app. cbn [map fst]. now apply nodup_snoc.
  - rewrite map_app. cbn [map snd]. apply nodup_snoc; [exact H2|].
    intros Hin. apply in_map_iff in Hin. destruct Hin as [[k i] [E Hin]]. cbn in E. subst i.
    specialize (H3 k _ Hin). lia.
  - intros k id Hin. rewrite app_length. cbn [List.length]. apply in_app_or in Hin.
    destruct Hin as [Hin|[E|[]]].
    + specialize (H3 k id Hin). lia.
    + injection E as <- <-. lia.
Qed.

Lemma assoc_set_notin : forall (k : str) (v : N) acc, ~ In k (map fst acc) ->
  assoc_set String.eqb k v acc = acc ++ [(k, v)].
Proof.
  induction acc as [|[k' v'] r IH]; intros Hni; cbn [assoc_set app]; [reflexivity|].
  destruct (String.eqb_spec k k') as [->|Hne].
  - exfalso. apply Hni. now left.
  - f_equal. apply IH. intros Hin. apply Hni. now right.
Qed.

Lemma keymap_of_entries_nodup : forall l, NoDup (map fst l) -> keymap_of_entries l = l.
Proof.
  intros l. unfold keymap_of_entries.
  enough (H : forall l acc, NoDup (map fst (acc ++ l)) ->
            fold_left (fun m (kv : str * N) => assoc_set String.eqb (fst kv) (snd kv) m) l acc = acc ++ l).
  { intros Hnd. exact (H l [] Hnd). }
  clear l. induction l as [|[k v] r IH]; intros acc Hnd; cbn [fold_left fst snd].
  - now rewrite app_nil_r.
  - rewrite assoc_set_notin.
    + rewrite IH; [now rewrite <- app_assoc|]. now rewrite <- app_assoc.
    + rewrite map_app in Hnd. cbn [map fst] in Hnd. apply NoDup_remove_2 in Hnd.
      intros Hin. apply Hnd. apply in_or_app. now left.
Qed.

(* ---- prefixes of an operation list ---- *)
Definition AllPre (f : mfiles) (tr : list mop) (P : mfiles -> Prop) : Prop :=
  forall p rest, tr = p ++ rest -> P (apply_mops f p).

Lemma AllPre_nil : forall f (P : mfiles -> Prop), P f -> AllPre f [] P.
Proof. intros f P H p rest E. symmetry in E. apply app_eq_nil in E. destruct E as [-> _]. exact H. Qed.

Lemma AllPre_cons : forall f o tr (P : mfiles -> Prop),
  P f -> AllPre (apply_mop f o) tr P -> AllPre f (o :: tr) P.
Proof.
  intros f o tr P H0 H p rest E. destruct p as [|o' p]; [exact H0|].
  injection E as <- E. rewrite apply_mops_cons. now apply (H p rest).
Qed.

Lemma AllPre_head : forall f tr (P : mfiles -> Prop), AllPre f tr P -> P f.
Proof. intros f tr P H. apply (H [] tr). reflexivity. Qed.

Lemma AllPre_whole : forall f tr (P : mfiles -> Prop), AllPre f tr P -> P (apply_mops f tr).
Proof. intros f tr P H. apply (H tr []). now rewrite app_nil_r. Qed.

Lemma AllPre_app : forall f a b (P : mfiles -> Prop),
  AllPre f a P -> AllPre (apply_mops f a) b P -> AllPre f (a ++ b) P.
Proof.
  intros f a b P Ha Hb p rest E. apply app_eq_app in E. destruct E as [l [[E1 E2]|[E1 E2]]].
  - apply (Ha p l). exact E1.
  - subst p. rewrite apply_mops_app. apply (Hb l rest). exact E2.
Qed.

Lemma AllPre_impl : forall f tr (P Q : mfiles -> Prop),
  (forall g, P g -> Q g) -> AllPre f tr P -> AllPre f tr Q.
Proof. intros f tr P Q HPQ H p rest E. apply HPQ. now apply (H p rest). Qed.

(* ---- KInv only looks at the key map file, the validity of the flag and the log ---- *)
Lemma KInv_weaken : forall f g km, KInv f km -> mf_keys g = mf_keys f ->
  (flag_valid (mf_flag g) = true -> forall r, In r (flog g) ->
     flag_valid (mf_flag f) = true /\ In r (flog f)) ->
  KInv g km.
Proof.
  intros f g km [dk [Hdk [Hwf H]]] Hk Hfl. exists dk. split; [|split; [exact Hwf|]].
  - unfold disk_entries in *. now rewrite Hk.
  - intros Hv r Hin Hop. destruct (Hfl Hv r Hin) as [Hv' Hin']. now apply H.
Qed.

Lemma KInv_ext : forall f km ext, KInv f km -> KInv f (km ++ ext).
Proof.
  intros f km ext [dk [Hdk [Hwf H]]]. exists dk. split; [exact Hdk|]. split; [exact Hwf|].
  intros Hv r Hin Hop. destruct (H Hv r Hin Hop) as [H1 H2].
  rewrite key_of_id_app_some by exact H2. now split.
Qed.

Lemma KInv_self : forall f km dk, KInv f km -> disk_entries f = Some dk -> KInv f (keymap_of_entries dk).
Proof.
  intros f km dk [dk' [Hdk [Hwf H]]] Hdk2. rewrite Hdk in Hdk2. injection Hdk2 as ->.
  exists dk. split; [exact Hdk|]. split; [exact Hwf|].
  intros Hv r Hin Hop. destruct (H Hv r Hin Hop) as [H1 H2]. split; [reflexivity|]. now rewrite H1.
Qed.

(* operations that leave the key map file, the validity of the flag and the log alone *)
Definition meq (f g : mfiles) : Prop :=
  mf_keys g = mf_keys f /\ flag_valid (mf_flag g) = flag_valid (mf_flag f) /\ flog g = flog f.

Definition benign (o : mop) : Prop :=
  match o with MDb _ _ | MFlagCreate | MLogCreate => True | _ => False end.

Lemma benign_meq : forall f o, benign o -> meq f (apply_mop f o).
Proof.
  intros f o Hb. destruct o; try (now destruct Hb); unfold meq, flog; cbn [apply_mop mf_keys mf_flag mf_log].
  - split; [reflexivity|]. split; [apply flag_valid_create|reflexivity].
  - split; [reflexivity|]. split; [reflexivity|]. now destruct (mf_log f).
Qed.

Lemma meq_trans : forall f g h, meq f g -> meq g h -> meq f h.
Proof. intros f g h [A1 [A2 A3]] [B1 [B2 B3]]. unfold meq. repeat split; congruence. Qed.

Lemma benign_AllPre : forall tr f, Forall benign tr -> AllPre f tr (meq f).
Proof.
  induction tr as [|o tr IH]; intros f Hb.
  - apply AllPre_nil. unfold meq. repeat split.
  - inversion Hb as [|? ? Ho Hr]; subst. apply AllPre_cons; [unfold meq; repeat split|].
    apply (AllPre_impl _ _ (meq (apply_mop f o))); [|now apply IH].
    intros g Hg. apply (meq_trans f (apply_mop f o) g); [now apply benign_meq|exact Hg].
Qed.

Lemma KInv_meq : forall f g km, meq f g -> KInv f km -> KInv g km.
Proof.
  intros f g km [H1 [H2 H3]] HK. apply (KInv_weaken f g km HK H1).
  intros Hv r Hin. rewrite <- H2, <- H3. now split.
Qed.

Theorem kinv_mdb : forall f km dbn ops, KInv f km ->
  AllPre f (map (MDb dbn) ops) (fun g => KInv g km /\ meq f g).
Proof.
  intros f km dbn ops HK.
  apply (AllPre_impl _ _ (meq f)).
  - intros g Hg. split; [now apply (KInv_meq f g)|exact Hg].
  - apply benign_AllPre. apply Forall_forall. intros o Hin. apply in_map_iff in Hin.
    destruct Hin as [op [<- _]]. exact I.
Qed.

(* ---- what the replication thread does to the in-memory key map and log ---- *)
Definition cn_ext (c0 c1 : cnode) : Prop :=
  exists ext recs, cn_keymap c1 = cn_keymap c0 ++ ext /\ cn_log c1 = cn_log c0 ++ recs /\
    (WFkm (cn_keymap c0) -> WFkm (cn_keymap c1)) /\
    (forall r, In r recs -> r_op r <= 1 -> key_of_id (cn_keymap c1) (r_key r) <> None).

Lemma cn_ext_same : forall c0 c1, cn_keymap c1 = cn_keymap c0 -> cn_log c1 = cn_log c0 -> cn_ext c0 c1.
Proof.
  intros c0 c1 Hk Hl. exists [], []. rewrite !app_nil_r. split; [exact Hk|]. split; [exact Hl|].
  split; [now rewrite Hk|]. intros r [].
Qed.

Lemma cn_ext_refl : forall c, cn_ext c c.
Proof. intros c. now apply cn_ext_same. Qed.

Lemma cn_ext_trans : forall a b c, cn_ext a b -> cn_ext b c -> cn_ext a c.
Proof.
  intros a b c [e1 [r1 [K1 [L1 [W1 R1]]]]] [e2 [r2 [K2 [L2 [W2 R2]]]]].
  exists (e1 ++ e2), (r1 ++ r2). split; [rewrite K2, K1; now rewrite app_assoc|].
  split; [rewrite L2, L1; now rewrite app_assoc|]. split; [auto|].
  intros r Hin Hop. apply in_app_or in Hin. destruct Hin as [Hin|Hin].
  - rewrite K2. rewrite key_of_id_app_some; now apply R1.
  - now apply R2.
Qed.

Lemma key_id_spec : forall x key,
  let x1 := fst (key_id x key) in let kid := snd (key_id x key) in
  cn_ext x x1 /\ cn_log x1 = cn_log x /\ cn_node x1 = cn_node x /\
  key_of_id (cn_keymap x1) kid <> None /\
  (WFkm (cn_keymap x) -> key_of_id (cn_keymap x1) kid = Some key).
Proof.
  intros x key. unfold key_id. destruct (assoc_get String.eqb key (cn_keymap x)) as [id|] eqn:E; cbn [fst snd].
  - apply (get_in String.eqb String.eqb_spec) in E.
    split; [apply cn_ext_refl|]. split; [reflexivity|]. split; [reflexivity|]. split.
    + intros Hn. exact (key_of_id_none _ _ _ Hn E).
    + intros [_ [Hnd _]]. now apply key_of_id_unique.
  - apply (get_none_notin String.eqb String.eqb_spec) in E. cbn [cn_keymap cn_log cn_node].
    assert (Hf : forall km : list (str * N), key_of_id (km ++ [(key, N.of_nat (List.length (cn_keymap x)))])
                   (N.of_nat (List.length (cn_keymap x))) <> None).
    { intros km. unfold key_of_id. rewrite filter_app. cbn [filter snd]. rewrite N.eqb_refl.
      destruct (filter _ km) as [|[k i] r]; discriminate. }
    split; [|split; [reflexivity|split; [reflexivity|split; [apply Hf|]]]].
    + exists [(key, N.of_nat (List.length (cn_keymap x)))], []. cbn [cn_keymap cn_log].
      rewrite app_nil_r. split; [reflexivity|]. split; [reflexivity|].
      split; [intros Hwf; now apply WFkm_snoc|]. intros r [].
    + intros Hwf. apply key_of_id_unique; [apply (WFkm_snoc _ key Hwf E)|].
      apply in_or_app. right. now left.
Qed.

Lemma log_append_ext : forall x r, (r_op r <= 1 -> key_of_id (cn_keymap x) (r_key r) <> None) ->
  cn_ext x (log_append x r).
Proof.
  intros x r H. exists [], [r]. unfold log_append. cbn [cn_keymap cn_log]. rewrite app_nil_r.
  split; [reflexivity|]. split; [reflexivity|]. split; [auto|].
  intros r' [<-|[]] Hop. now apply H.
Qed.

Lemma repl_oplog_ext : forall x rq id, cn_ext x (fst (repl_oplog x rq id)).
Proof.
  intros x rq id.
  assert (Hkey : forall dbn key op, op <= 1 ->
    cn_ext x (fst (let d := db_id_of (cn_node x) dbn in
                   let '(x1, kid) := key_id x key in
                   match d with
                   | Some d => (log_append x1 (mkRec id kid d op), Some id)
                   | None => (x1, None)
                   end))).
  { intros dbn key op Hop. cbn zeta. pose proof (key_id_spec x key) as H. cbn zeta in H.
    destruct (key_id x key) as [x1 kid]. cbn [fst snd] in H. destruct H as [He [_ [_ [Hk _]]]].
    destruct (db_id_of (cn_node x) dbn); cbn [fst]; [|exact He].
    apply (cn_ext_trans _ _ _ He). apply log_append_ext. intros _. exact Hk. }
  destruct rq; cbn [repl_oplog]; try apply cn_ext_refl.
  - apply Hkey. lia.
  - apply Hkey. lia.
  - apply Hkey. lia.
  - destruct (db_id_of (cn_node x) name); cbn [fst]; [|apply cn_ext_refl].
    apply log_append_ext. cbn [r_op]. lia.
  - (* replicate-snapshot: a fold over the names *)
    assert (H : forall names acc, cn_ext x (fst acc) ->
      cn_ext x (fst (fold_left (fun (acc : cnode * option N) nm =>
                   let '(x0, r0) := acc in
                   match db_id_of (cn_node x0) nm with
                   | Some d => (log_append x0 (mkRec id marker_snapshot d 3), r0)
                   | None => (x0, None)
                   end) names acc))).
    { induction names as [|nm names IH]; intros [x0 r0] Hacc; cbn [fold_left]; [exact Hacc|].
      apply IH. cbn [fst] in Hacc.
      destruct (db_id_of (cn_node x0) nm); cbn [fst]; [|exact Hacc].
      apply (cn_ext_trans _ _ _ Hacc). apply log_append_ext. cbn [r_op]. lia. }
    apply H. apply cn_ext_refl.
Qed.

Lemma repl_one_ext : forall x msg, cn_ext x (repl_one x msg).
Proof.
  intros x msg. unfold repl_one. destruct (cn_dead x); [apply cn_ext_refl|].
  destruct (parse_request msg) as [rq| |]; try (now apply cn_ext_same).
  destruct rq; try (now apply cn_ext_same).
  destruct (parse_request request_str) as [rq| |]; try (now apply cn_ext_same).
  pose proof (repl_oplog_ext x rq opp_id) as H.
  destruct (repl_oplog x rq opp_id) as [x1 oid]. cbn [fst] in H.
  destruct (n_role (cn_node x1)); try destruct oid;
    first [exact H | apply (cn_ext_trans _ _ _ H); now apply cn_ext_same].
Qed.

(* ---- the strengthened invariant of a running process ---- *)
Definition MemInv (x : mnode) : Prop :=
  let km := cn_keymap (mn_cn x) in let f := mn_files x in
  WFkm km /\
  (mn_valid x = true -> exists dk, disk_entries f = Some dk /\
                         forall id, key_of_id (keymap_of_entries dk) id = key_of_id km id) /\
  (mn_valid x = false -> flag_valid (mf_flag f) = false) /\
  (forall r, In r (flog f) -> r_op r <= 1 -> key_of_id km (r_key r) <> None).

Lemma apply_logappends : forall rs g,
  mf_flag (apply_mops g (map MLogAppend rs)) = mf_flag g /\
  mf_keys (apply_mops g (map MLogAppend rs)) = mf_keys g /\
  flog (apply_mops g (map MLogAppend rs)) = flog g ++ rs.
Proof.
  induction rs as [|a rs IH]; intros g; cbn [map].
  - cbn. now rewrite app_nil_r.
  - rewrite apply_mops_cons. destruct (IH (apply_mop g (MLogAppend a))) as [H1 [H2 H3]].
    rewrite H1, H2, H3. cbn [apply_mop mf_flag mf_keys]. split; [reflexivity|]. split; [reflexivity|].
    unfold flog at 1. cbn [apply_mop mf_log]. fold (flog g). now rewrite <- app_assoc.
Qed.

Lemma logappend_AllPre : forall recs g km',
  (exists dk, disk_entries g = Some dk /\ WFkm (keymap_of_entries dk) /\
     (flag_valid (mf_flag g) = true -> forall id, key_of_id (keymap_of_entries dk) id = key_of_id km' id)) ->
  (forall r, In r (flog g ++ recs) -> r_op r <= 1 -> key_of_id km' (r_key r) <> None) ->
  AllPre g (map MLogAppend recs) (fun h => KInv h km').
Proof.
  intros recs g km' [dk [Hdk [Hwf Heq]]] Hknown p rest E.
  apply map_eq_app in E. destruct E as [r1 [r2 [-> [<- _]]]].
  destruct (apply_logappends r1 g) as [H1 [H2 H3]].
  exists dk. split; [unfold disk_entries in *; now rewrite H2|]. split; [exact Hwf|].
  rewrite H1, H3. intros Hv r Hin Hop. split; [now apply Heq|].
  apply Hknown; [|exact Hop]. apply in_app_or in Hin. apply in_or_app.
  destruct Hin as [Hin|Hin]; [now left|right; apply in_or_app; now left].
Qed.

Lemma skipn_length_app : forall {A} (a b : list A), skipn (List.length a) (a ++ b) = b.
Proof. intros A a b. induction a as [|x a IH]; cbn; [reflexivity|exact IH]. Qed.

Definition mrepl_ops (x : mnode) (msg : str) : list mop :=
  let c0 := mn_cn x in
  let c1 := repl_one c0 msg in
  let newkey := Nat.ltb (List.length (cn_keymap c0)) (List.length (cn_keymap c1)) in
  let recs := skipn (List.length (cn_log c0)) (cn_log c1) in
  (if newkey && mn_valid x then [MFlagWrite (String zero "")] else []) ++ map MLogAppend recs.

Lemma mrepl_one_trace : forall x msg,
  mn_trace (mrepl_one x msg) = mn_trace x ++ mrepl_ops x msg /\
  mn_files (mrepl_one x msg) = apply_mops (mn_files x) (mrepl_ops x msg).
Proof. intros x msg. split; reflexivity. Qed.

Lemma repl_core : forall x msg,
  KInv (mn_files x) (cn_keymap (mn_cn x)) -> MemInv x ->
  let x' := mrepl_one x msg in
  AllPre (mn_files x) (mrepl_ops x msg) (fun g => KInv g (cn_keymap (mn_cn x'))) /\
  MemInv x' /\
  exists ext, cn_keymap (mn_cn x') = cn_keymap (mn_cn x) ++ ext.
Proof.
  intros x msg HK [Hwf [Hval [Hinv Hknown]]] x'.
  destruct (repl_one_ext (mn_cn x) msg) as [ext [recs [Ekm [Elog [Hwf' Hrecs]]]]].
  assert (Ekm' : cn_keymap (mn_cn x') = cn_keymap (mn_cn x) ++ ext) by exact Ekm.
  set (km := cn_keymap (mn_cn x)) in *. set (F := mn_files x) in *.
  assert (Hops : mrepl_ops x msg =
     (if negb (Nat.eqb (List.length ext) 0) && mn_valid x then [MFlagWrite (String zero "")] else [])
     ++ map MLogAppend recs).
  { unfold mrepl_ops. cbn zeta. rewrite Elog, skipn_length_app. f_equal.
    fold km. rewrite Ekm, app_length.
    replace (Nat.ltb (List.length km) (List.length km + List.length ext)) with (negb (Nat.eqb (List.length ext) 0)); [reflexivity|].
    destruct (List.length ext); cbn [Nat.eqb negb]; symmetry; [apply Nat.ltb_ge|apply Nat.ltb_lt]; lia. }
  assert (Hvalid' : mn_valid x' = mn_valid x && Nat.eqb (List.length ext) 0).
  { unfold x', mrepl_one. cbn [mn_valid]. fold km. rewrite Ekm, app_length. f_equal.
    destruct (List.length ext); cbn [Nat.eqb negb].
    - replace (Nat.ltb _ _) with false; [reflexivity|]. symmetry. apply Nat.ltb_ge. lia.
    - replace (Nat.ltb _ _) with true; [reflexivity|]. symmetry. apply Nat.ltb_lt. lia. }
  assert (Hfiles' : mn_files x' = apply_mops F (mrepl_ops x msg)) by reflexivity.
  assert (Hknown' : forall r, In r (flog F ++ recs) -> r_op r <= 1 ->
                      key_of_id (cn_keymap (mn_cn x')) (r_key r) <> None).
  { intros r Hin Hop. apply in_app_or in Hin. destruct Hin as [Hin|Hin].
    - rewrite Ekm'. rewrite key_of_id_app_some; now apply Hknown.
    - now apply Hrecs. }
  destruct HK as [dk [Hdk [Hwfd HKr]]].
  (* the state after the optional flag write *)
  set (pre := if negb (Nat.eqb (List.length ext) 0) && mn_valid x then [MFlagWrite (String zero "")] else []) in *.
  assert (Hpre : mf_keys (apply_mops F pre) = mf_keys F /\ flog (apply_mops F pre) = flog F /\
                 (flag_valid (mf_flag (apply_mops F pre)) = true ->
                    flag_valid (mf_flag F) = true /\ mn_valid x = true /\ ext = [])).
  { unfold pre. destruct (List.length ext) eqn:El; cbn [Nat.eqb negb andb].
    - cbn. split; [reflexivity|]. split; [reflexivity|]. intros Hv. split; [exact Hv|].
      split; [|now destruct ext].
      destruct (mn_valid x) eqn:Ev; [reflexivity|]. rewrite Hinv in Hv by reflexivity. discriminate.
    - destruct (mn_valid x) eqn:Ev.
      + cbn [apply_mops fold_left apply_mop mf_keys mf_flag]. split; [reflexivity|]. split; [reflexivity|].
        rewrite flag_valid_write_zero. discriminate.
      + cbn. split; [reflexivity|]. split; [reflexivity|]. intros Hv.
        rewrite Hinv in Hv by reflexivity. discriminate. }
  destruct Hpre as [Pk [Pl Pv]].
  assert (Hdisk : exists dk0, disk_entries (apply_mops F pre) = Some dk0 /\ WFkm (keymap_of_entries dk0) /\
            (flag_valid (mf_flag (apply_mops F pre)) = true ->
             forall id, key_of_id (keymap_of_entries dk0) id = key_of_id (cn_keymap (mn_cn x')) id)).
  { destruct (flag_valid (mf_flag (apply_mops F pre))) eqn:Ev.
    - destruct (Pv eq_refl) as [_ [Hmv Hext]]. destruct (Hval Hmv) as [dk1 [Hdk1 Heq1]].
      exists dk1. split; [unfold disk_entries in *; now rewrite Pk|].
      rewrite Hdk in Hdk1. injection Hdk1 as <-. split; [exact Hwfd|].
      intros _ id. rewrite Ekm', Hext, app_nil_r. apply Heq1.
    - exists dk. split; [unfold disk_entries in *; now rewrite Pk|]. split; [exact Hwfd|]. discriminate. }
  split; [|split; [|now exists ext]].
  - rewrite Hops. apply AllPre_app.
    + unfold pre. destruct (negb (Nat.eqb (List.length ext) 0) && mn_valid x).
      * apply AllPre_cons; [|apply AllPre_nil].
        -- rewrite Ekm'. apply KInv_ext. exists dk. exact (conj Hdk (conj Hwfd HKr)).
        -- exists dk. split; [exact Hdk|]. split; [exact Hwfd|].
           cbn [apply_mop mf_flag]. rewrite flag_valid_write_zero. discriminate.
      * apply AllPre_nil. rewrite Ekm'. apply KInv_ext. exists dk. exact (conj Hdk (conj Hwfd HKr)).
    + apply logappend_AllPre; [exact Hdisk|]. rewrite Pl. exact Hknown'.
  - assert (Hend : mn_files x' = apply_mops (apply_mops F pre) (map MLogAppend recs)).
    { rewrite Hfiles', Hops. apply apply_mops_app. }
    destruct (apply_logappends recs (apply_mops F pre)) as [A1 [A2 A3]].
    unfold MemInv. cbn zeta. rewrite Hend. split; [rewrite Ekm'; rewrite <- Ekm; now apply Hwf'|].
    split; [|split].
    + rewrite Hvalid'. intros Hv. apply andb_true_iff in Hv. destruct Hv as [Hmv Hl].
      apply Nat.eqb_eq in Hl. destruct ext; [|discriminate]. destruct (Hval Hmv) as [dk1 [Hdk1 Heq1]].
      exists dk1. split; [unfold disk_entries in *; now rewrite A2, Pk|].
      intros id. rewrite Ekm', app_nil_r. apply Heq1.
    + rewrite Hvalid', A1. intros Hv. destruct (flag_valid (mf_flag (apply_mops F pre))) eqn:Ev; [|reflexivity].
      destruct (Pv eq_refl) as [_ [Hmv Hext]]. rewrite Hmv, Hext in Hv. discriminate.
    + rewrite A3, Pl. exact Hknown'.
Qed.

Theorem kinv_repl : forall x msg,
  KInv (mn_files x) (cn_keymap (mn_cn x)) -> MemInv x ->
  let x' := mrepl_one x msg in
  (forall p rest, skipn (List.length (mn_trace x)) (mn_trace x') = p ++ rest ->
     KInv (apply_mops (mn_files x) p) (cn_keymap (mn_cn x'))) /\
  mn_files x' = apply_mops (mn_files x) (skipn (List.length (mn_trace x)) (mn_trace x')) /\
  MemInv x'.
Proof.
  intros x msg HK HM x'. destruct (repl_core x msg HK HM) as [H1 [H2 _]].
  destruct (mrepl_one_trace x msg) as [T1 T2]. fold x' in T1, T2.
  rewrite T1, skipn_length_app. split; [|split; assumption].
  intros p rest E. now apply (H1 p rest).
Qed.

(* ---- snapshot_keys ---- *)
Definition good_order (ko km : list (str * N)) : Prop :=
  Permutation ko km /\ Forall entry_ok ko /\ N.of_nat (List.length ko) < 2 ^ 64.

Lemma good_order_disk : forall ko km f, WFkm km -> good_order ko km ->
  mf_keys f = Some (keymap_bytes ko) ->
  disk_entries f = Some ko /\ keymap_of_entries ko = ko /\ WFkm ko /\
  forall id, key_of_id ko id = key_of_id km id.
Proof.
  intros ko km f Hwf [Hp [Hok Hlen]] Hk.
  pose proof (WFkm_perm _ _ Hp Hwf) as Hwfo.
  split; [unfold disk_entries; rewrite Hk; now apply keymap_roundtrip|].
  split; [apply keymap_of_entries_nodup; apply Hwfo|]. split; [exact Hwfo|].
  intros id. apply key_of_id_perm; [apply Hwf|exact Hp].
Qed.

Definition msnap_ops (x : mnode) (order : list (str * N)) : list mop :=
  if mn_valid x then [] else snapshot_keys_ops order.

Lemma msnapshot_keys_trace : forall x order,
  mn_trace (msnapshot_keys x order) = mn_trace x ++ msnap_ops x order /\
  mn_files (msnapshot_keys x order) = apply_mops (mn_files x) (msnap_ops x order) /\
  mn_cn (msnapshot_keys x order) = mn_cn x /\
  mn_valid (msnapshot_keys x order) = true.
Proof.
  intros x order. unfold msnapshot_keys, msnap_ops. destruct (mn_valid x) eqn:E.
  - rewrite app_nil_r. now repeat split.
  - now repeat split.
Qed.

Lemma snap_core : forall x order,
  KInv (mn_files x) (cn_keymap (mn_cn x)) -> MemInv x ->
  (mn_valid x = false -> good_order order (cn_keymap (mn_cn x))) ->
  let x' := msnapshot_keys x order in
  AllPre (mn_files x) (msnap_ops x order) (fun g => KInv g (cn_keymap (mn_cn x)) /\ mf_db g = mf_db (mn_files x)) /\
  MemInv x'.
Proof.
  intros x order HK HM Hgo x'.
  destruct (msnapshot_keys_trace x order) as [T1 [T2 [T3 T4]]]. fold x' in T1, T2, T3, T4.
  unfold msnap_ops in *. destruct (mn_valid x) eqn:Ev.
  - split; [apply AllPre_nil; now split|].
    unfold MemInv in *. rewrite T2, T3, T4. cbn [apply_mops fold_left].
    destruct HM as [A [B [C D]]]. split; [exact A|]. split; [intros _; now apply B|]. split; [discriminate|exact D].
  - specialize (Hgo eq_refl). destruct HM as [Hwf [_ [Hinv Hknown]]]. specialize (Hinv Ev).
    set (km := cn_keymap (mn_cn x)) in *. set (F := mn_files x) in *.
    assert (Hstep : forall p rest, snapshot_keys_ops order = p ++ rest ->
              (KInv (apply_mops F p) km /\ mf_db (apply_mops F p) = mf_db F) /\
              (rest = [] -> mf_keys (apply_mops F p) = Some (keymap_bytes order) /\ flog (apply_mops F p) = flog F)).
    { intros p rest E. destruct (keys_file_atomic F order p rest E) as [Hk [_ [Hfv [Hend [Hlog Hdb]]]]].
      set (G := apply_mops F p) in *.
      assert (Hfl : flog G = flog F) by (unfold flog; now rewrite Hlog).
      split; [split; [|exact Hdb]|intros ->; split; [now apply Hend|exact Hfl]].
      destruct rest as [|o rest].
      - destruct (Hend eq_refl) as [Hk' Hv'].
        destruct (good_order_disk order km G Hwf Hgo Hk') as [D1 [D2 [D3 D4]]].
        exists order. split; [exact D1|]. rewrite D2. split; [exact D3|].
        intros _ r Hin Hop. rewrite Hfl in Hin. split; [apply D4|now apply Hknown].
      - assert (Hv : flag_valid (mf_flag G) = false).
        { destruct (flag_valid (mf_flag G)) eqn:E2; [|reflexivity].
          assert (Hne : true <> flag_valid (mf_flag F)) by (rewrite Hinv; discriminate).
          specialize (Hfv Hne). discriminate. }
        destruct Hk as [Hk|Hk].
        + destruct HK as [dk [Hdk [Hwfd _]]]. exists dk.
          split; [unfold disk_entries in *; now rewrite Hk|]. split; [exact Hwfd|].
          rewrite Hv. discriminate.
        + destruct (good_order_disk order km G Hwf Hgo Hk) as [D1 [D2 [D3 D4]]].
          exists order. split; [exact D1|]. rewrite D2. split; [exact D3|]. rewrite Hv. discriminate. }
    split; [intros p rest E; now apply (Hstep p rest)|].
    destruct (Hstep (snapshot_keys_ops order) []) as [[HKe _] Hfin]; [now rewrite app_nil_r|].
    destruct (Hfin eq_refl) as [Hk' Hfl'].
    destruct (good_order_disk order km _ Hwf Hgo Hk') as [D1 [D2 [D3 D4]]].
    unfold MemInv. rewrite T2, T3, T4. fold km. split; [exact Hwf|].
    split; [intros _; exists order; split; [exact D1|now rewrite D2]|].
    split; [discriminate|]. rewrite Hfl'. exact Hknown.
Qed.

Theorem kinv_snapshot_keys : forall x order,
  KInv (mn_files x) (cn_keymap (mn_cn x)) -> MemInv x ->
  (mn_valid x = false -> good_order order (cn_keymap (mn_cn x))) ->
  let x' := msnapshot_keys x order in
  (forall p rest, skipn (List.length (mn_trace x)) (mn_trace x') = p ++ rest ->
     KInv (apply_mops (mn_files x) p) (cn_keymap (mn_cn x'))) /\
  mn_files x' = apply_mops (mn_files x) (skipn (List.length (mn_trace x)) (mn_trace x')) /\
  mn_valid x' = true /\ MemInv x' /\
  exists dk, disk_entries (mn_files x') = Some dk /\
             forall id, key_of_id (keymap_of_entries dk) id = key_of_id (cn_keymap (mn_cn x')) id.
Proof.
  intros x order HK HM Hgo x'. destruct (snap_core x order HK HM Hgo) as [H1 H2]. fold x' in H2.
  destruct (msnapshot_keys_trace x order) as [T1 [T2 [T3 T4]]]. fold x' in T1, T2, T3, T4.
  rewrite T1, skipn_length_app, T3.
  split; [intros p rest E; now apply (H1 p rest)|]. split; [exact T2|]. split; [exact T4|].
  split; [exact H2|]. destruct H2 as [_ [Hv _]]. rewrite T3 in Hv. now apply Hv.
Qed.

(* ---- the start-up ---- *)
Definition start_trace (f : mfiles) (poll : bool) : list mop :=
  let valid := flag_valid (mf_flag f) in
  (match mf_flag f with None => [MFlagCreate] | Some _ => [] end) ++
  (if valid then [] else match mf_log f with Some _ => [MLogUnlink] | None => [] end ++ [MFlagUnlink]) ++
  (if poll then [MLogCreate; MFlagCreate] ++ (if valid then [] else [MFlagWrite (String zero "")]) else []).

Lemma mstart_shape : forall f lo clock poll x v,
  mstart f lo clock poll = MStarted x v ->
  exists dk n, disk_entries f = Some dk /\ v = flag_valid (mf_flag f) /\
    x = mkMN (mkCN n (flog (apply_mops f (start_trace f poll))) (keymap_of_entries dk) [] false)
             (flag_valid (mf_flag f)) (apply_mops f (start_trace f poll)) (start_trace f poll).
Proof.
  intros f lo clock poll x v H. unfold mstart in H. fold (disk_entries f) in H.
  destruct (disk_entries f) as [dk|]; [|discriminate].
  destruct (fold_left _ lo _) as [dx|]; [|discriminate].
  injection H as <- <-. exists dk, (dn_node dx). split; [reflexivity|]. split; [reflexivity|].
  unfold start_trace. cbn zeta. rewrite <- !apply_mops_app, <- !app_assoc. reflexivity.
Qed.

Lemma start_trace_valid : forall f poll, flag_valid (mf_flag f) = true ->
  Forall benign (start_trace f poll).
Proof.
  intros f poll Hv. unfold start_trace. cbn zeta. rewrite Hv.
  destruct (mf_flag f); destruct poll; cbn; repeat constructor.
Qed.

Lemma start_trace_invalid : forall f poll km, flag_valid (mf_flag f) = false -> KInv f km ->
  AllPre f (start_trace f poll) (fun g => KInv g km) /\
  flog (apply_mops f (start_trace f poll)) = [] /\
  mf_keys (apply_mops f (start_trace f poll)) = mf_keys f /\
  (poll = true -> flag_valid (mf_flag (apply_mops f (start_trace f poll))) = false).
Proof.
  intros f poll km Hv HK. unfold start_trace. cbn zeta. rewrite Hv.
  destruct (mf_flag f) as [s|] eqn:Hfl; [|discriminate]. cbn [app].
  assert (W : forall g, mf_keys g = mf_keys f ->
              (flag_valid (mf_flag g) = true -> flog g = []) -> KInv g km).
  { intros g Hk Hg. apply (KInv_weaken f g km HK Hk). intros Hgv r Hin. rewrite (Hg Hgv) in Hin. destruct Hin. }
  destruct (mf_log f) as [l|] eqn:Hlg; destruct poll; cbn [app];
    (split; [repeat (apply AllPre_cons; [apply W; [reflexivity|unfold flog; cbn [apply_mop mf_flag mf_log]; rewrite ?Hfl, ?Hlg, ?Hv, ?flag_valid_write_zero; try discriminate; try reflexivity]|]);
             apply AllPre_nil; apply W; [reflexivity|unfold flog; cbn [apply_mop mf_flag mf_log]; rewrite ?Hfl, ?Hlg, ?Hv, ?flag_valid_write_zero; try discriminate; try reflexivity]
           |unfold flog; cbn [apply_mops fold_left apply_mop mf_flag mf_log mf_keys]; rewrite ?Hlg, ?flag_valid_write_zero;
            split; [reflexivity|]; split; [reflexivity|]; try discriminate; try reflexivity]).
Qed.

Theorem kinv_start : forall f km lo clock poll, KInv f km ->
  exists dk, (match mf_keys f with None => Some [] | Some b => decode_keymap b end) = Some dk /\
  forall x v, mstart f lo clock poll = MStarted x v ->
    v = flag_valid (mf_flag f) /\ mn_valid x = v /\
    cn_keymap (mn_cn x) = keymap_of_entries dk /\
    mn_files x = apply_mops f (mn_trace x) /\
    cn_log (mn_cn x) = flog (mn_files x) /\
    (v = true -> flog (mn_files x) = flog f /\
                 forall r, In r (flog f) -> r_op r <= 1 ->
                   key_of_id (cn_keymap (mn_cn x)) (r_key r) = key_of_id km (r_key r) /\
                   key_of_id km (r_key r) <> None) /\
    (v = false -> flog (mn_files x) = []) /\
    (poll = true \/ v = true -> MemInv x) /\
    AllPre f (mn_trace x) (fun g => KInv g km).
Proof.
  intros f km lo clock poll HK. pose proof HK as [dk [Hdk [Hwfd HKr]]].
  exists dk. split; [exact Hdk|]. intros x v Hst.
  destruct (mstart_shape _ _ _ _ _ _ Hst) as [dk' [n [Hdk' [-> ->]]]].
  rewrite Hdk in Hdk'. injection Hdk' as <-.
  cbn [mn_valid mn_cn cn_keymap cn_log mn_files mn_trace].
  split; [reflexivity|]. split; [reflexivity|]. split; [reflexivity|]. split; [reflexivity|]. split; [reflexivity|].
  set (tr := start_trace f poll). set (F := apply_mops f tr).
  destruct (flag_valid (mf_flag f)) eqn:Hv.
  - (* valid start *)
    pose proof (benign_AllPre tr f (start_trace_valid f poll Hv)) as Hb.
    destruct (AllPre_whole _ _ _ Hb) as [Mk [Mv Ml]]. fold F in Mk, Mv, Ml.
    assert (Hrec : forall r, In r (flog f) -> r_op r <= 1 ->
                     key_of_id (keymap_of_entries dk) (r_key r) = key_of_id km (r_key r) /\
                     key_of_id km (r_key r) <> None) by (now apply HKr).
    split; [intros _; split; [exact Ml|exact Hrec]|]. split; [discriminate|].
    split.
    + intros _. unfold MemInv. cbn [mn_cn cn_keymap mn_files mn_valid]. split; [exact Hwfd|].
      split; [intros _; exists dk; split; [unfold disk_entries in *; now rewrite Mk|reflexivity]|].
      split; [discriminate|]. fold F. rewrite Ml. intros r Hin Hop.
      destruct (Hrec r Hin Hop) as [E1 E2]. now rewrite E1.
    + apply (AllPre_impl _ _ (meq f)); [|exact Hb]. intros g Hg. now apply (KInv_meq f g).
  - destruct (start_trace_invalid f poll km Hv HK) as [Hpre [Hl [Hk Hp]]]. fold tr F in Hpre, Hl, Hk, Hp.
    split; [discriminate|]. split; [intros _; exact Hl|]. split; [|exact Hpre].
    intros [->|Hc]; [|discriminate].
    unfold MemInv. cbn [mn_cn cn_keymap mn_files mn_valid]. fold F. split; [exact Hwfd|].
    split; [discriminate|]. split; [intros _; now apply Hp|]. rewrite Hl. intros r [].
Qed.

(* ====================================================================================== *)
(* 5. runs of a process                                                                    *)
(* ====================================================================================== *)
Definition PInv (f0 : mfiles) (x : mnode) : Prop :=
  mn_files x = apply_mops f0 (mn_trace x) /\
  AllPre f0 (mn_trace x) (fun g => KInv g (cn_keymap (mn_cn x))) /\
  MemInv x.

Lemma PInv_KInv : forall f0 x, PInv f0 x -> KInv (mn_files x) (cn_keymap (mn_cn x)).
Proof. intros f0 x [H1 [H2 _]]. rewrite H1. now apply AllPre_whole. Qed.

Lemma PInv_step : forall f0 x x' ops ext,
  PInv f0 x ->
  mn_trace x' = mn_trace x ++ ops -> mn_files x' = apply_mops (mn_files x) ops ->
  cn_keymap (mn_cn x') = cn_keymap (mn_cn x) ++ ext ->
  AllPre (mn_files x) ops (fun g => KInv g (cn_keymap (mn_cn x'))) -> MemInv x' ->
  PInv f0 x'.
Proof.
  intros f0 x x' ops ext [H1 [H2 H3]] T F K A M. split; [|split; [|exact M]].
  - rewrite F, T, H1. symmetry. apply apply_mops_app.
  - rewrite T. apply AllPre_app.
    + apply (AllPre_impl _ _ (fun g => KInv g (cn_keymap (mn_cn x)))); [|exact H2].
      intros g Hg. rewrite K. now apply KInv_ext.
    + rewrite <- H1. exact A.
Qed.

Lemma PInv_set_node : forall f0 x n, PInv f0 x -> PInv f0 (m_set_node x n).
Proof. intros f0 x n H. exact H. Qed.

Lemma PInv_repl : forall f0 x msg, PInv f0 x -> PInv f0 (mrepl_one x msg).
Proof.
  intros f0 x msg H. pose proof (PInv_KInv _ _ H) as HK. pose proof H as [_ [_ HM]].
  destruct (repl_core x msg HK HM) as [A [M [ext K]]].
  destruct (mrepl_one_trace x msg) as [T F].
  exact (PInv_step f0 x _ _ ext H T F K A M).
Qed.

Lemma PInv_poll : forall f0 x, PInv f0 x -> PInv f0 (mpoll x).
Proof.
  intros f0 x H. unfold mpoll.
  generalize (n_repl (m_node x)). intros q.
  assert (H0 : PInv f0 (m_set_node x (n_set_repl (m_node x) []))) by exact H.
  revert H0. generalize (m_set_node x (n_set_repl (m_node x) [])). clear H x.
  induction q as [|msg q IH]; intros x H; cbn [fold_left]; [exact H|].
  apply IH. now apply PInv_repl.
Qed.

Lemma PInv_snap : forall f0 x order, PInv f0 x ->
  (mn_valid x = false -> good_order order (cn_keymap (mn_cn x))) ->
  PInv f0 (msnapshot_keys x order).
Proof.
  intros f0 x order H Hgo. pose proof (PInv_KInv _ _ H) as HK. pose proof H as [_ [_ HM]].
  destruct (snap_core x order HK HM Hgo) as [A M].
  destruct (msnapshot_keys_trace x order) as [T [F [C _]]].
  apply (PInv_step f0 x _ (msnap_ops x order) [] H T F); [rewrite C; now rewrite app_nil_r| |exact M].
  rewrite C. apply (AllPre_impl _ _ _ _ (fun g Hg => proj1 Hg) A).
Qed.

Lemma MemInv_meq : forall x x', mn_cn x' = mn_cn x -> mn_valid x' = mn_valid x ->
  meq (mn_files x) (mn_files x') -> MemInv x -> MemInv x'.
Proof.
  intros x x' C V [M1 [M2 M3]] [A [B [Cc D]]]. unfold MemInv. rewrite C, V, M3.
  split; [exact A|]. split; [|split; [|exact D]].
  - intros Hv. destruct (B Hv) as [dk [Hdk He]]. exists dk. split; [unfold disk_entries in *; now rewrite M1|exact He].
  - intros Hv. rewrite M2. now apply Cc.
Qed.

Lemma PInv_mdb : forall f0 x dbn ops, PInv f0 x -> PInv f0 (mdo x (map (MDb dbn) ops)).
Proof.
  intros f0 x dbn ops H. pose proof (PInv_KInv _ _ H) as HK. pose proof H as [_ [_ HM]].
  pose proof (kinv_mdb _ _ dbn ops HK) as A.
  apply (PInv_step f0 x _ (map (MDb dbn) ops) [] H); try reflexivity.
  - cbn [mdo mn_cn]. now rewrite app_nil_r.
  - apply (AllPre_impl _ _ _ _ (fun g Hg => proj1 Hg) A).
  - apply (MemInv_meq x); try reflexivity; [|exact HM].
    destruct (AllPre_whole _ _ _ A) as [_ Hm]. exact Hm.
Qed.

Lemma PInv_flush_go : forall f0 q x orders, PInv f0 x -> PInv f0 (mflush_go x q orders).
Proof.
  induction q as [|[dbn reclaim] q IH]; intros x orders H; cbn [mflush_go]; [exact H|].
  destruct (get_db (m_node x) dbn) as [d|]; [|now apply IH].
  destruct (match orders with o :: os => (o, os) | [] => ([], []) end) as [o os].
  destruct (snapshot_plan d o reclaim (db_files (mn_files x) dbn) (n_clock (m_node x))) as [[ops mem] clk].
  apply IH. apply PInv_mdb. exact H.
Qed.

Lemma mflush_go_valid : forall q x orders, mn_valid (mflush_go x q orders) = mn_valid x.
Proof.
  induction q as [|[dbn reclaim] q IH]; intros x orders; cbn [mflush_go]; [reflexivity|].
  destruct (get_db (m_node x) dbn) as [d|]; [|now apply IH].
  destruct (match orders with o :: os => (o, os) | [] => ([], []) end) as [o os].
  destruct (snapshot_plan d o reclaim (db_files (mn_files x) dbn) (n_clock (m_node x))) as [[ops mem] clk].
  now rewrite IH.
Qed.

Lemma PInv_flush : forall f0 x ko orders, PInv f0 x ->
  (n_snap (m_node x) <> [] -> mn_valid x = false -> good_order ko (cn_keymap (mn_cn x))) ->
  PInv f0 (mflush x ko orders).
Proof.
  intros f0 x ko orders H Hgo. unfold mflush.
  destruct (n_snap (m_node x)) as [|a l] eqn:E; [exact H|].
  apply PInv_flush_go. apply PInv_set_node. apply PInv_snap; [exact H|]. apply Hgo. discriminate.
Qed.

Lemma PInv_shutdown : forall f0 x ko orders, PInv f0 x ->
  (mn_valid x = false -> good_order ko (cn_keymap (mn_cn x))) ->
  PInv f0 (mshutdown x ko orders).
Proof.
  intros f0 x ko orders H Hgo. unfold mshutdown. apply PInv_flush.
  - now apply PInv_snap.
  - intros _ Hv. destruct (msnapshot_keys_trace x ko) as [_ [_ [_ T]]]. rewrite T in Hv. discriminate.
Qed.

Inductive mevent :=
| EvCmd (c : nat) (line : str)
| EvConnect
| EvPoll
| EvFlush (ko : list (str * N)) (orders : list (list str))
| EvShutdown (ko : list (str * N)) (orders : list (list str)).

Definition mstep (x : mnode) (e : mevent) : mnode :=
  match e with
  | EvCmd c line => fst (mcmd x c line)
  | EvConnect => mconnect x
  | EvPoll => mpoll x
  | EvFlush ko orders => mflush x ko orders
  | EvShutdown ko orders => mshutdown x ko orders
  end.

Definition mrun (x : mnode) (evs : list mevent) : mnode := fold_left mstep evs x.

(* the observed serialisation order of the key map is a well-formed permutation of the
   in-memory key map whenever the key map file is actually written *)
Definition ev_ok (x : mnode) (e : mevent) : Prop :=
  match e with
  | EvFlush ko _ => n_snap (m_node x) <> [] -> mn_valid x = false -> good_order ko (cn_keymap (mn_cn x))
  | EvShutdown ko _ => mn_valid x = false -> good_order ko (cn_keymap (mn_cn x))
  | _ => True
  end.

Fixpoint run_ok (x : mnode) (evs : list mevent) : Prop :=
  match evs with
  | [] => True
  | e :: r => ev_ok x e /\ run_ok (mstep x e) r
  end.

Lemma mcmd_fst : forall x c line, fst (mcmd x c line) = m_set_node x (fst (step (m_node x) c line)).
Proof. intros x c line. unfold mcmd. now destruct (step (m_node x) c line). Qed.

Lemma PInv_mstep : forall f0 x e, PInv f0 x -> ev_ok x e -> PInv f0 (mstep x e).
Proof.
  intros f0 x e H Hok. destruct e; cbn [mstep ev_ok] in *.
  - rewrite mcmd_fst. now apply PInv_set_node.
  - unfold mconnect. now apply PInv_set_node.
  - now apply PInv_poll.
  - now apply PInv_flush.
  - now apply PInv_shutdown.
Qed.

Lemma PInv_mrun : forall f0 evs x, PInv f0 x -> run_ok x evs -> PInv f0 (mrun x evs).
Proof.
  intros f0 evs. induction evs as [|e evs IH]; intros x H Hok; cbn [mrun fold_left]; [exact H|].
  destruct Hok as [He Hr]. apply IH; [now apply PInv_mstep|exact Hr].
Qed.

Lemma PInv_start : forall f0 km0 lo clock x0 v0,
  KInv f0 km0 -> mstart f0 lo clock true = MStarted x0 v0 -> PInv f0 x0.
Proof.
  intros f0 km0 lo clock x0 v0 HK Hst.
  destruct (kinv_start f0 km0 lo clock true HK) as [dk [Hdk _]].
  pose proof (KInv_self f0 km0 dk HK Hdk) as HK'.
  destruct (kinv_start f0 (keymap_of_entries dk) lo clock true HK') as [dk' [Hdk' Hx]].
  rewrite Hdk in Hdk'. injection Hdk' as <-.
  destruct (Hx x0 v0 Hst) as [_ [_ [Ekm [Ef [_ [_ [_ [HM HA]]]]]]]].
  split; [exact Ef|]. split; [rewrite Ekm; exact HA|]. apply HM. now left.
Qed.

(* HEADLINE: whatever the process did and wherever it is killed, the files it leaves satisfy
   the invariant w.r.t. the key map the writer had in memory *)
Theorem C16_key_ids_crash_safe : forall f0 km0 lo clock x0 v0 evs s i,
  KInv f0 km0 ->
  mstart f0 lo clock true = MStarted x0 v0 ->
  run_ok x0 evs ->
  let x := mrun x0 evs in
  KInv (mcrash f0 x s i) (cn_keymap (mn_cn x)).
Proof.
  intros f0 km0 lo clock x0 v0 evs s i HK Hst Hok x.
  pose proof (PInv_mrun f0 evs x0 (PInv_start _ _ _ _ _ _ HK Hst) Hok) as [_ [HA _]]. fold x in HA.
  unfold mcrash. destruct (mtake_before_prefix s (mn_trace x) i) as [rest E].
  exact (HA _ rest E).
Qed.

(* ... so a restart on those files either discards the log or decodes every logged key id
   exactly as the writer's key map did (and never panics on the key map file) *)
Theorem C16_restart_decodes_or_discards : forall f0 km0 lo clock x0 v0 evs s i lo' clock' poll',
  KInv f0 km0 ->
  mstart f0 lo clock true = MStarted x0 v0 ->
  run_ok x0 evs ->
  let x := mrun x0 evs in
  let fc := mcrash f0 x s i in
  (exists dk, (match mf_keys fc with None => Some [] | Some b => decode_keymap b end) = Some dk) /\
  forall x' v', mstart fc lo' clock' poll' = MStarted x' v' ->
    (v' = false /\ flog (mn_files x') = [] /\ cn_log (mn_cn x') = []) \/
    (v' = true /\ cn_log (mn_cn x') = flog fc /\ flog (mn_files x') = flog fc /\
     forall r, In r (flog fc) -> r_op r <= 1 ->
       exists k, key_of_id (cn_keymap (mn_cn x')) (r_key r) = Some k /\
                 key_of_id (cn_keymap (mn_cn x)) (r_key r) = Some k).
Proof.
  intros f0 km0 lo clock x0 v0 evs s i lo' clock' poll' HK Hst Hok x fc.
  pose proof (C16_key_ids_crash_safe f0 km0 lo clock x0 v0 evs s i HK Hst Hok) as HKc.
  cbn zeta in HKc. fold x in HKc. fold fc in HKc.
  destruct (kinv_start fc (cn_keymap (mn_cn x)) lo' clock' poll' HKc) as [dk [Hdk Hx]].
  split; [now exists dk|]. intros x' v' Hst'.
  destruct (Hx x' v' Hst') as [_ [_ [_ [_ [Hlog [Ht [Hf _]]]]]]].
  destruct v'.
  - right. destruct (Ht eq_refl) as [Hl Hr]. split; [reflexivity|]. split; [now rewrite Hlog|]. split; [exact Hl|].
    intros r Hin Hop. destruct (Hr r Hin Hop) as [E1 E2].
    destruct (key_of_id (cn_keymap (mn_cn x)) (r_key r)) as [k|] eqn:E; [|now destruct E2].
    exists k. now split.
  - left. split; [reflexivity|]. split; [now apply Hf|]. rewrite Hlog. now apply Hf.
Qed.

(* ====================================================================================== *)
(* 6. witnesses                                                                            *)
(* ====================================================================================== *)
Definition w_clk : N := 1000000000000000000.
Definition w_started (r : mstart_res) : mnode :=
  match r with
  | MStarted x _ => x
  | MStartPanic => mkMN (init_cnode "" "" "" 0 Primary 0) false mf_empty []
  end.
Definition w_valid (r : mstart_res) : option bool :=
  match r with MStarted _ v => Some v | MStartPanic => None end.
Definition w_cmds (x : mnode) (ls : list str) : mnode := fold_left (fun x l => fst (mcmd x 0 l)) ls x.
Definition w_decoded (x : mnode) : list (option str * option str) := map (decode_rec x) (cn_log (mn_cn x)).

Definition w_x0 : mnode := mconnect (w_started (mstart mf_empty [] w_clk true)).

(* d1 is created and written, its key map is saved by the shutdown, the database itself is never
   snapshotted: the next start keeps the log (flag valid), decodes the key, and has no name for
   the database id of either record *)
Definition w_lost : mnode :=
  mshutdown (mpoll (w_cmds w_x0 ["auth nun pwd"; "create-db d1 tok1 newer"; "use-db d1 tok1"; "set a 1"]))
            [("a", 0)] [].
Definition w_lost_restart : mstart_res := mstart (mn_files w_lost) ["d1"] w_clk true.

Example C16_lost_database_refuted :
  w_valid w_lost_restart = Some true /\
  w_decoded (w_started w_lost_restart) = [(None, Some "-"); (None, Some "a")].
Proof. split; vm_compute; reflexivity. Qed.

(* d1 and d2 are created and written, only d1 is snapshotted; after the restart d3 takes the id d2
   had, and the records written for d2 now decode to d3 *)
Definition w_reuse : mnode :=
  mflush (mpoll (w_cmds w_x0 ["auth nun pwd"; "create-db d1 tok1 newer"; "create-db d2 tok2 newer";
                              "use-db d1 tok1"; "set a 1"; "use-db d2 tok2"; "set b 2"; "snapshot false d1"]))
         [("a", 0); ("b", 1)] [["$$token"; "$connections"; "a"]].
Definition w_reuse_restart : mstart_res := mstart (mn_files w_reuse) ["d1"; "d2"] w_clk true.
Definition w_reuse_after : mnode :=
  mpoll (w_cmds (mconnect (w_started w_reuse_restart)) ["auth nun pwd"; "create-db d3 tok3 newer"]).

Example C16_lost_database_id_reused_refuted :
  w_valid w_reuse_restart = Some true /\
  (* the writer: d2 = 2, record 4 is "set b" in d2 *)
  nth_error (map (decode_rec w_reuse) (cn_log (mn_cn w_reuse))) 3 = Some (Some "d2", Some "b") /\
  (* after the restart the same record has no database ... *)
  nth_error (w_decoded (w_started w_reuse_restart)) 3 = Some (None, Some "b") /\
  (* ... and once d3 exists it is attributed to d3 *)
  nth_error (w_decoded w_reuse_after) 3 = Some (Some "d3", Some "b").
Proof. repeat split; vm_compute; reflexivity. Qed.

(* positive, non-vacuous instances of the theorems *)
Definition w_evs : list mevent :=
  [EvConnect; EvCmd 0 "auth nun pwd"; EvCmd 0 "create-db d1 tok1 newer"; EvCmd 0 "use-db d1 tok1";
   EvCmd 0 "set a 1"; EvPoll; EvShutdown [("a", 0)] []].
Definition w_first : mnode := w_started (mstart mf_empty [] w_clk true).
Definition w_run : mnode := mrun w_first w_evs.

Lemma KInv_empty : KInv mf_empty [].
Proof.
  exists []. split; [reflexivity|]. split; [exact WFkm_nil|]. intros _ r [].
Qed.

Example C16_nonvacuous_run_ok : run_ok w_first w_evs.
Proof.
  unfold w_evs. cbn [run_ok ev_ok]. repeat split.
  - vm_compute. apply Permutation_refl.
  - repeat constructor.
Qed.

Example C16_nonvacuous :
  (* the trace: ... create-db record, FLAG := 0, the record of the new key, the key map, FLAG := 1 *)
  mcount ScWrite (mn_trace w_run) = 8%nat /\
  (* killed between the flag write and the log append of the new key: the restart discards the log *)
  (let r := mstart (mcrash mf_empty w_run ScWrite 3) [] w_clk true in
   w_valid r = Some false /\ cn_log (mn_cn (w_started r)) = []) /\
  (* killed in front of the last write (FLAG := 1), the new key map already in place: discarded too *)
  (let r := mstart (mcrash mf_empty w_run ScWrite 8) [] w_clk true in
   w_valid r = Some false /\ cn_log (mn_cn (w_started r)) = []) /\
  (* not killed: the restart keeps the log and decodes the key id *)
  (let r := mstart (mcrash mf_empty w_run ScWrite 9) [] w_clk true in
   w_valid r = Some true /\ w_decoded (w_started r) = [(None, Some "-"); (None, Some "a")]) /\
  (* and all of these are instances of the theorem *)
  (forall s i, KInv (mcrash mf_empty w_run s i) (cn_keymap (mn_cn w_run))).
Proof.
  split; [vm_compute; reflexivity|]. split; [split; vm_compute; reflexivity|].
  split; [split; vm_compute; reflexivity|]. split; [split; vm_compute; reflexivity|].
  intros s i.
  apply (C16_key_ids_crash_safe mf_empty [] [] w_clk w_first true w_evs s i KInv_empty).
  - vm_compute. reflexivity.
  - exact C16_nonvacuous_run_ok.
Qed.

(* Why KInv had to be refined with WFkm: with the brief's literal invariant the headline is false.
   Start from a key map file in which "a" has id 1 (never written by the code, which numbers from 0)
   and an empty log: the new key "b" also gets id 1 (= the size of the map); the shutdown
   serialises [b; a] (a permutation), and the restarted node decodes the logged id 1 as "b" while
   the writer's own map decodes it as "a". *)
Definition w_bad_f0 : mfiles := mkMF [] None (Some (keymap_bytes [("a", 1)])) None None.
Definition w_bad_first : mnode := w_started (mstart w_bad_f0 [] w_clk true).
Definition w_bad_evs : list mevent :=
  [EvConnect; EvCmd 0 "auth nun pwd"; EvCmd 0 "create-db d1 tok1 newer"; EvCmd 0 "use-db d1 tok1";
   EvCmd 0 "set b 1"; EvPoll; EvShutdown [("b", 1); ("a", 1)] []].
Definition w_bad_run : mnode := mrun w_bad_first w_bad_evs.

(* the run satisfies the hypothesis of the headline: the serialisation order is a permutation *)
Example w_bad_run_ok : run_ok w_bad_first w_bad_evs.
Proof.
  unfold w_bad_evs. cbn [run_ok ev_ok]. repeat split.
  - vm_compute. apply perm_swap.
  - repeat constructor.
Qed.

Example C16_illformed_initial_keymap_refuted :
  disk_entries w_bad_f0 = Some [("a", 1)] /\ flog w_bad_f0 = [] /\
  cn_keymap (mn_cn w_bad_run) = [("a", 1); ("b", 1)] /\
  (let r := mstart (mn_files w_bad_run) [] w_clk true in
   w_valid r = Some true /\
   map (fun r => key_of_id (cn_keymap (mn_cn w_bad_run)) (r_key r))
       (filter (fun r => N.leb (r_op r) 1) (cn_log (mn_cn (w_started r)))) = [Some "a"] /\
   map (fun r0 => key_of_id (cn_keymap (mn_cn (w_started r))) (r_key r0))
       (filter (fun r => N.leb (r_op r) 1) (cn_log (mn_cn (w_started r)))) = [Some "b"]).
Proof. repeat split; vm_compute; reflexivity. Qed.

(* Why kinv_start gives MemInv only with the first poll (fix H16.1): a node that started invalid
   and whose replication thread did NOT write 0 to the (re-created) flag logs a new key under a
   valid flag; the next start keeps the log and cannot decode the key id. *)
Definition w_nopoll_f0 : mfiles := mkMF [] (Some (String zero "")) None None None.
Definition w_nopoll_run : mnode :=
  mpoll (w_cmds (mconnect (w_started (mstart w_nopoll_f0 [] w_clk false)))
                ["auth nun pwd"; "create-db d1 tok1 newer"; "use-db d1 tok1"; "set a 1"]).

Example C16_start_without_first_poll_refuted :
  KInv w_nopoll_f0 [] /\
  (let r := mstart (mn_files w_nopoll_run) [] w_clk true in
   w_valid r = Some true /\ w_decoded (w_started r) = [(None, Some "-"); (None, None)]).
Proof.
  split.
  - exists []. split; [reflexivity|]. split; [exact WFkm_nil|]. intros _ r [].
  - split; vm_compute; reflexivity.
Qed.

(* Supplement: "the key it was written for".  The record the replication thread appends for a
   set / increment / remove of [key] carries an id that the writer's map decodes to [key], now and
   after any later growth of the map; together with the theorems above (a restarted node decodes
   as the writer's map did) this is the informal statement of C16 for key ids. *)
Theorem C16_written_for : forall x rq id dbn key d,
  WFkm (cn_keymap x) ->
  (exists v ver, rq = RqReplicateSet dbn key v ver) \/ (exists inc, rq = RqReplicateIncrement dbn key inc) \/
  rq = RqReplicateRemove dbn key ->
  db_id_of (cn_node x) dbn = Some d ->
  let x1 := fst (repl_oplog x rq id) in
  exists r, cn_log x1 = cn_log x ++ [r] /\ r_op r <= 1 /\
    forall ext, key_of_id (cn_keymap x1 ++ ext) (r_key r) = Some key.
Proof.
  intros x rq id dbn key d Hwf Hrq Hd x1.
  pose proof (key_id_spec x key) as H. cbn zeta in H.
  assert (G : forall op, op <= 1 ->
    let y := fst (let d0 := db_id_of (cn_node x) dbn in
                  let '(x1, kid) := key_id x key in
                  match d0 with
                  | Some d => (log_append x1 (mkRec id kid d op), Some id)
                  | None => (x1, None)
                  end) in
    exists r, cn_log y = cn_log x ++ [r] /\ r_op r <= 1 /\
      forall ext, key_of_id (cn_keymap y ++ ext) (r_key r) = Some key).
  { intros op Hop. cbn zeta. rewrite Hd. destruct (key_id x key) as [x2 kid]. cbn [fst snd] in *.
    destruct H as [_ [Hl [_ [_ Hk]]]]. specialize (Hk Hwf).
    exists (mkRec id kid d op). unfold log_append. cbn [cn_log cn_keymap r_op r_key].
    split; [now rewrite Hl|]. split; [exact Hop|].
    intros ext. rewrite key_of_id_app_some; [exact Hk|]. rewrite Hk. discriminate. }
  destruct Hrq as [[v [ver ->]]|[[inc ->]| ->]]; subst x1; cbn [repl_oplog]; apply G; lia.
Qed.
