(* Proofs about the wire format of replicated writes (C04/C05). *)
From NunDB Require Import Model.Base Model.Pending Model.Parse Model.Node.
Local Open Scope Z_scope.

(* what the receiver makes of a catch-up line "replicate <db> <key> <value>": the text
   up to the first space of the value is taken for the version *)
Example sync_line_one_word :
  parse_request "replicate d1 k value3" = POk (RqReplicateSet "d1" "k" "" (-1)).
Proof. vm_compute. reflexivity. Qed.
Example sync_line_multi_word :
  parse_request "replicate d1 k a b c" = POk (RqReplicateSet "d1" "k" "b c" (-1)).
Proof. vm_compute. reflexivity. Qed.
Example sync_line_numeric_first :
  parse_request "replicate d1 k 12 abc" = POk (RqReplicateSet "d1" "k" "abc" 12).
Proof. vm_compute. reflexivity. Qed.

(* the full statement of the round trip the property needs is false of the faithful model *)
Definition sync_line (db key value : str) : str := "replicate " +++ db +++ " " +++ key +++ " " +++ value.
Theorem sync_line_roundtrip_refuted :
  exists db key value, forall ver, parse_request (sync_line db key value) <> POk (RqReplicateSet db key value ver).
Proof. exists "d1", "k", "value3". intros ver. vm_compute. discriminate. Qed.
