From NunDB Require Import Model.Base Model.Pending Model.Parse Model.Node Model.Sched Proofs.AssocLemmas Proofs.DbProofs.
Local Open Scope Z_scope.

(* ====================================================================== *)
(* 0. projections: which helpers leave the table of databases alone        *)
(* ====================================================================== *)

Lemma dbs_put_sess n c s : n_dbs (put_sess n c s) = n_dbs n.
Proof. reflexivity. Qed.

Lemma dbs_send n c m : n_dbs (send n c m) = n_dbs n.
Proof. reflexivity. Qed.

Lemma dbs_sends l : forall n, n_dbs (sends n l) = n_dbs n.
Proof.
  unfold sends. induction l as [|p r IH]; cbn [fold_left]; intros n; auto.
  rewrite IH. apply dbs_send.
Qed.

Lemma dbs_tick n n1 id : tick n = (n1, id) -> n_dbs n1 = n_dbs n /\ id = n_clock n.
Proof. unfold tick. intros [= <- <-]. auto. Qed.

Lemma dbs_send_to_primary n m : n_dbs (send_to_primary n m) = n_dbs n.
Proof. reflexivity. Qed.

Lemma dbs_replicate_web n m : n_dbs (replicate_web n m) = n_dbs n.
Proof. reflexivity. Qed.

Lemma dbs_replicate_request n rq s r : n_dbs (fst (replicate_request n rq s r)) = n_dbs n.
Proof.
  unfold replicate_request.
  destruct r; try reflexivity;
    (match goal with |- context [if ?c then _ else _] => destruct c end; [reflexivity|]);
    destruct rq; reflexivity.
Qed.

Lemma complete_fst n t rq s r : fst (complete n t rq s r) = fst (replicate_request n rq s r).
Proof. unfold complete. destruct (replicate_request n rq s r); reflexivity. Qed.

Lemma complete_snd n t rq s r : snd (complete n t rq s r) = finish t (snd (replicate_request n rq s r)).
Proof. unfold complete. destruct (replicate_request n rq s r); reflexivity. Qed.

Lemma dbs_complete n t rq s r : n_dbs (fst (complete n t rq s r)) = n_dbs n.
Proof. rewrite complete_fst. apply dbs_replicate_request. Qed.

Lemma dbs_guard_db_name n c dbn key req n' r :
  guard_db_name n c dbn key req = GStop n' r -> n_dbs n' = n_dbs n.
Proof.
  unfold guard_db_name, reject_no_db.
  destruct (get_db n dbn); [destruct key; [destruct (has_permission _ _ _ _ _)|]|];
    intros [= <- _]; reflexivity.
Qed.

Lemma dbs_guard_safe n c key req n' r :
  guard_safe n c key req = GStop n' r -> n_dbs n' = n_dbs n.
Proof.
  unfold guard_safe, reject_no_db.
  destruct (_ && _); [intros [= <- _]; reflexivity|].
  destruct (s_db _); [apply dbs_guard_db_name | intros [= <- _]; reflexivity].
Qed.

Lemma dbs_guard_db n c n' r : guard_db n c = GStop n' r -> n_dbs n' = n_dbs n.
Proof.
  unfold guard_db, reject_no_db.
  destruct (s_db _); [apply dbs_guard_db_name | intros [= <- _]; reflexivity].
Qed.

Lemma dbs_after_guard n t rq dbn : n_dbs (fst (after_guard n t rq dbn)) = n_dbs n.
Proof.
  unfold after_guard, tick. destruct rq; try reflexivity.
  - destruct (String.eqb _ _); [apply dbs_complete | reflexivity].
  - destruct (is_primary n); [reflexivity|]. rewrite dbs_complete. reflexivity.
Qed.

Lemma get_db_dbs n n' x : n_dbs n' = n_dbs n -> get_db n' x = get_db n x.
Proof. unfold get_db. now intros ->. Qed.

Lemma get_db_put n dbn d x :
  get_db (put_db n dbn d) x = if String.eqb x dbn then Some d else get_db n x.
Proof.
  unfold get_db, put_db, n_set_dbs; cbn [n_dbs].
  destruct (String.eqb_spec x dbn) as [->|Hne].
  - apply get_set_same, String.eqb_spec.
  - apply get_set_other; auto. apply String.eqb_spec.
Qed.

(* ====================================================================== *)
(* 1. what one release does to a database                                  *)
(* ====================================================================== *)

(* data operations, with the resolve flag of a change *)
Inductive dop' :=
| DSet' (k v : str) (ver : Z) (opp : N) (resolving : bool)
| DRemove' (k : str)
| DInc' (k : str) (i : Z) (opp : N).

Definition db_apply' (d : db) (o : dop') : db :=
  match o with
  | DSet' k v ver opp rs => fst (fst (set_value d (mkCh k v ver opp rs)))
  | DRemove' k => fst (fst (remove_value d k))
  | DInc' k i opp => fst (fst (inc_value d k i opp))
  end.

Definition dop_resp' (d : db) (o : dop') : resp :=
  match o with
  | DSet' k v ver opp rs => snd (fst (set_value d (mkCh k v ver opp rs)))
  | DRemove' k => snd (fst (remove_value d k))
  | DInc' k i opp => snd (fst (inc_value d k i opp))
  end.

Definition dop_key' (o : dop') : str :=
  match o with DSet' k _ _ _ _ => k | DRemove' k => k | DInc' k _ _ => k end.

Definition of_dop (o : dop) : dop' :=
  match o with
  | DSet k v ver opp => DSet' k v ver opp false
  | DRemove k => DRemove' k
  | DInc k i opp => DInc' k i opp
  end.

(* forgetting the flag *)
Definition to_dop (o : dop') : dop :=
  match o with
  | DSet' k v ver opp _ => DSet k v ver opp
  | DRemove' k => DRemove k
  | DInc' k i opp => DInc k i opp
  end.

Definition plain (o : dop') : Prop :=
  match o with DSet' _ _ _ _ rs => rs = false | _ => True end.

Lemma db_apply_of_dop d o : db_apply' d (of_dop o) = db_apply d o.
Proof. destruct o; reflexivity. Qed.

Lemma db_apply_to_dop d o : plain o -> db_apply' d o = db_apply d (to_dop o).
Proof. destruct o; cbn; intros H; subst; reflexivity. Qed.

(* everything a release can do to a database: a data operation or a subscription step *)
Inductive lop :=
| LData (o : dop')
| LWatch (k : str) (s : nat)
| LUnwatch (k : str) (s : nat).

Definition lop_apply (d : db) (l : lop) : db :=
  match l with
  | LData o => db_apply' d o
  | LWatch k s => watch_key d k s
  | LUnwatch k s => unwatch_key d k s
  end.

(* the operation a release of [t] performs, and on which database *)
Definition step_op (n : node) (t : thr) : option (str * lop) :=
  match t_pc t with
  | PcSetWrite dbn key value ver opp rs _ => Some (dbn, LData (DSet' key value ver opp rs))
  | PcRemoveWrite dbn key => Some (dbn, LData (DRemove' key))
  | PcIncWrite dbn key inc _ => Some (dbn, LData (DInc' key inc (n_clock n)))
  | PcWatch dbn key => Some (dbn, LWatch key (t_sid t))
  | PcUnwatch dbn key => Some (dbn, LUnwatch key (t_sid t))
  | PcUnwatchAllKeys dbn (k :: _) => Some (dbn, LUnwatch k (t_sid t))
  | _ => None
  end.

(* the data operation a release performs on database dbn, if any *)
Definition data_op (n : node) (t : thr) : option (str * dop') :=
  match t_pc t with
  | PcSetWrite dbn key value ver opp rs _ => Some (dbn, DSet' key value ver opp rs)
  | PcRemoveWrite dbn key => Some (dbn, DRemove' key)
  | PcIncWrite dbn key inc _ => Some (dbn, DInc' key inc (n_clock n))
  | _ => None
  end.

Lemma data_op_step n t :
  data_op n t = match step_op n t with Some (dbn, LData o) => Some (dbn, o) | _ => None end.
Proof.
  unfold data_op, step_op. destruct (t_pc t); try reflexivity.
  destruct keys; reflexivity.
Qed.

(* scheduled programs *)
Definition sched_rq (rq : request) : bool :=
  match rq with
  | RqSet _ _ _ | RqGet _ | RqGetSafe _ | RqRemove _ | RqIncrement _ _
  | RqWatch _ | RqUnWatch _ | RqUnWatchAll | RqKeys _ => true
  | _ => false
  end.

Definition sched_line (l : str) : Prop :=
  match parse_request (trim_char nl l) with
  | POk rq => sched_rq rq = true
  | _ => True
  end.

(* a scheduled thread is never parked inside a use-db (use-db lines are not scheduled
   commands, so these park points are unreachable for such a thread) *)
Definition sched_pc (p : pc) : Prop :=
  match p with
  | PcUseTok _ _ _ | PcPub _ _ _ _ | PcPubNotify _ _ _ _ => False
  | _ => True
  end.

Definition sched_thr (t : thr) : Prop := Forall sched_line (t_prog t) /\ sched_pc (t_pc t).

(* ---- the thread part: session id and program ------------------------------- *)
Lemma finish_sid t r : t_sid (finish t r) = t_sid t.
Proof. unfold finish. destruct (t_prog t); reflexivity. Qed.

Lemma finish_prog t r : t_prog (finish t r) = t_prog t.
Proof. unfold finish. destruct (t_prog t) eqn:E; cbn [t_prog]; auto. Qed.

Lemma finish_replies t r : t_replies (finish t r) = t_replies t ++ [r].
Proof. unfold finish. destruct (t_prog t); reflexivity. Qed.

Lemma finish_hints t r : t_hints (finish t r) = t_hints t.
Proof. unfold finish. destruct (t_prog t); reflexivity. Qed.

Definition at_boundary (t : thr) : Prop := t_pc t = PcCmd \/ t_pc t = PcDone.

Lemma finish_boundary t r : at_boundary (finish t r).
Proof. unfold finish, at_boundary. destruct (t_prog t); cbn [t_pc]; auto. Qed.

Lemma after_guard_thr n t rq dbn :
  t_sid (snd (after_guard n t rq dbn)) = t_sid t /\ t_prog (snd (after_guard n t rq dbn)) = t_prog t.
Proof.
  unfold after_guard, tick. destruct rq; try (split; reflexivity).
  - destruct (String.eqb _ _); [|split; reflexivity].
    rewrite complete_snd, finish_sid, finish_prog. auto.
  - destruct (is_primary n); [split; reflexivity|].
    rewrite complete_snd, finish_sid, finish_prog. auto.
Qed.

Ltac brk :=
  match goal with
  | |- context [match ?x with _ => _ end] =>
      lazymatch x with
      | context [match _ with _ => _ end] => fail
      | _ => destruct x eqn:?
      end
  end.

Definition thr_le (t' t : thr) : Prop :=
  t_sid t' = t_sid t /\ (t_prog t' = t_prog t \/ exists l, t_prog t = l :: t_prog t').

Lemma thr_le_finish t0 t r : thr_le t0 t -> thr_le (finish t0 r) t.
Proof. unfold thr_le. now rewrite finish_sid, finish_prog. Qed.

Lemma thr_le_complete n t0 t rq s r : thr_le t0 t -> thr_le (snd (complete n t0 rq s r)) t.
Proof. rewrite complete_snd. apply thr_le_finish. Qed.

Lemma thr_le_park t0 t p s : thr_le t0 t -> thr_le (park t0 p s) t.
Proof. auto. Qed.

Lemma thr_le_after_guard n t0 t rq dbn : thr_le t0 t -> thr_le (snd (after_guard n t0 rq dbn)) t.
Proof. unfold thr_le. destruct (after_guard_thr n t0 rq dbn) as [-> ->]. auto. Qed.

Lemma thr_le_refl t : thr_le t t.
Proof. split; auto. Qed.

Lemma start_cmd_thr n t : thr_le (snd (start_cmd n t)) t.
Proof.
  unfold start_cmd. destruct (t_prog t) as [|line rest] eqn:Hp.
  - split; cbn; auto.
  - assert (H0 : thr_le (mkThr (t_sid t) rest (t_pc t) (t_replies t) (t_trace t) (t_hints t)) t).
    { split; cbn [t_sid t_prog]; auto. right. exists line. auto. }
    revert H0. generalize (mkThr (t_sid t) rest (t_pc t) (t_replies t) (t_trace t) (t_hints t)). intros t0 H0.
    repeat brk; cbn [snd];
      auto using thr_le_finish, thr_le_complete, thr_le_park, thr_le_after_guard.
Qed.

Lemma thr_le_start_publish n t0 t dbn k : thr_le t0 t -> thr_le (snd (start_publish n t0 dbn k)) t.
Proof.
  intros H. unfold start_publish, tick. destruct (get_db n dbn); cbn [snd]; auto using thr_le_park.
Qed.

Lemma thr_le_use_inc n t0 t name user rq : thr_le t0 t -> thr_le (snd (use_inc n t0 name user rq)) t.
Proof.
  intros H. unfold use_inc. destruct (get_db _ name); cbn [snd];
    auto using thr_le_start_publish, thr_le_finish.
Qed.

Lemma thr_le_after_publish n t0 t k : thr_le t0 t -> thr_le (snd (after_publish n t0 k)) t.
Proof.
  intros H. unfold after_publish. destruct k; [now apply thr_le_use_inc|].
  destruct (replicate_request _ _ _ _). cbn [snd]. now apply thr_le_finish.
Qed.

Lemma release_thr n t : thr_le (snd (release n t)) t.
Proof.
  unfold release. destruct (t_pc t) eqn:Hpc; try apply start_cmd_thr;
    repeat brk; cbn [snd];
      auto using thr_le_finish, thr_le_complete, thr_le_park, thr_le_after_guard, thr_le_refl,
                 thr_le_start_publish, thr_le_use_inc, thr_le_after_publish.
  all: first [apply thr_le_complete | apply thr_le_park]; split; cbn [t_sid t_prog]; auto.
Qed.

Lemma release_sid n t : t_sid (snd (release n t)) = t_sid t.
Proof. apply release_thr. Qed.

Lemma Forall_tl {A} (P : A -> Prop) l x r : Forall P l -> l = x :: r -> Forall P r.
Proof. intros H ->. now inversion H. Qed.

(* ---- a scheduled thread never reaches a use-db park point ---------------------- *)
Lemma finish_sched_pc t r : sched_pc (t_pc (finish t r)).
Proof. destruct (finish_boundary t r) as [E|E]; rewrite E; exact I. Qed.

Lemma complete_sched_pc n t rq s r : sched_pc (t_pc (snd (complete n t rq s r))).
Proof. rewrite complete_snd. apply finish_sched_pc. Qed.

Lemma after_guard_sched_pc n t rq dbn :
  sched_pc (t_pc t) -> sched_pc (t_pc (snd (after_guard n t rq dbn))).
Proof.
  intros Hp. unfold after_guard, tick. destruct rq; cbn [snd park t_pc sched_pc]; auto.
  - destruct (String.eqb _ _); [apply complete_sched_pc | exact I].
  - destruct (is_primary n); [exact I | apply complete_sched_pc].
Qed.

Lemma start_cmd_sched_pc n t :
  sched_pc (t_pc t) -> Forall sched_line (t_prog t) -> sched_pc (t_pc (snd (start_cmd n t))).
Proof.
  intros Hp Hl. unfold start_cmd. destruct (t_prog t) as [|line rest]; [exact I|].
  inversion Hl as [|? ? H1 _]; subst. unfold sched_line in H1.
  assert (H0 : sched_pc (t_pc (mkThr (t_sid t) rest (t_pc t) (t_replies t) (t_trace t) (t_hints t)))) by exact Hp.
  revert H0. generalize (mkThr (t_sid t) rest (t_pc t) (t_replies t) (t_trace t) (t_hints t)). intros t0 H0.
  destruct (parse_request (trim_char nl line)) as [rq| |]; try apply finish_sched_pc.
  destruct (key_of rq) as [[key kind]|] eqn:Hk.
  - destruct (perm_yields _ _ _); [exact I|].
    destruct (guard_safe _ _ _ _); [now apply after_guard_sched_pc | apply complete_sched_pc].
  - destruct rq; try discriminate H1; try discriminate Hk;
      (destruct (guard_db _ _); [exact I | apply complete_sched_pc]).
Qed.

Lemma release_sched_pc n t : sched_thr t -> sched_pc (t_pc (snd (release n t))).
Proof.
  intros [Hl Hp]. unfold release. destruct (t_pc t) eqn:Hpc; try contradiction.
  - apply start_cmd_sched_pc; auto. now rewrite Hpc.
  - destruct (key_of rq) as [[key kind]|]; [|cbn [snd]; now rewrite Hpc].
    destruct (guard_safe _ _ _ _); [|apply complete_sched_pc].
    apply after_guard_sched_pc. now rewrite Hpc.
  - destruct (get_db n dbn) as [d0|]; [|apply complete_sched_pc].
    destruct (set_value d0 _) as [[d1 r] msgs].
    destruct r; try apply complete_sched_pc; [exact I|].
    destruct (d_strat d0); try apply complete_sched_pc.
    destruct (N.ltb _ _); [|apply complete_sched_pc].
    unfold tick. exact I.
  - destruct rq; apply complete_sched_pc.
  - destruct (get_db n dbn); [destruct (get_key_value_new _ _)|]; apply complete_sched_pc.
  - destruct (get_db n dbn); [destruct (remove_value _ _) as [[? ?] ?]; exact I | apply complete_sched_pc].
  - apply complete_sched_pc.
  - destruct (get_db n dbn); [|apply complete_sched_pc].
    destruct (tick n). destruct (inc_value _ _ _ _) as [[? r] ?].
    destruct r; try apply complete_sched_pc. exact I.
  - destruct (get_db n dbn); apply complete_sched_pc.
  - destruct (get_db n dbn); apply complete_sched_pc.
  - destruct (get_db n dbn); [|apply complete_sched_pc].
    destruct (t_hints t); destruct (reorder _ _); try apply complete_sched_pc; exact I.
  - destruct keys as [|k rest]; [apply complete_sched_pc|].
    destruct rest; [apply complete_sched_pc | exact I].
  - destruct (get_db n dbn); apply complete_sched_pc.
  - cbn [snd]. now rewrite Hpc.
Qed.

Lemma release_sched n t : sched_thr t -> sched_thr (snd (release n t)).
Proof.
  intros H. split; [|now apply release_sched_pc].
  destruct H as [H _]. destruct (release_thr n t) as [_ [E | (l & E)]].
  - now rewrite E.
  - eapply Forall_tl; eauto.
Qed.

(* ---- facts about the database functions ------------------------------------- *)
Lemma db_set_watch_id d : db_set_watch d (d_watch d) = d.
Proof. destruct d; reflexivity. Qed.

Lemma set_value_watch d ch : d_watch (fst (fst (set_value d ch))) = d_watch d.
Proof.
  unfold set_value. destruct (get_value d (c_key ch)); [destruct (_ && _)|]; reflexivity.
Qed.

Lemma remove_value_watch d k : d_watch (fst (fst (remove_value d k))) = d_watch d.
Proof.
  unfold remove_value. destruct (String.eqb k "$$token"); cbn [fst]; auto.
  destruct (get_value d k) as [v|]; auto. destruct (v_st v); reflexivity.
Qed.

Lemma inc_value_watch d k i opp : d_watch (fst (fst (inc_value d k i opp))) = d_watch d.
Proof.
  unfold inc_value. destruct (parse_i32 _); [destruct (_ && _)|]; reflexivity.
Qed.

Lemma db_apply_watch d o : d_watch (db_apply' d o) = d_watch d.
Proof.
  destruct o; cbn [db_apply']; auto using set_value_watch, remove_value_watch, inc_value_watch.
Qed.

Lemma set_value_strat d ch : d_strat (fst (fst (set_value d ch))) = d_strat d.
Proof.
  unfold set_value. destruct (get_value d (c_key ch)); [destruct (_ && _)|]; reflexivity.
Qed.

Lemma remove_value_strat d k : d_strat (fst (fst (remove_value d k))) = d_strat d.
Proof.
  unfold remove_value. destruct (String.eqb k "$$token"); cbn [fst]; auto.
  destruct (get_value d k) as [v|]; auto. destruct (v_st v); reflexivity.
Qed.

Lemma inc_value_strat d k i opp : d_strat (fst (fst (inc_value d k i opp))) = d_strat d.
Proof.
  unfold inc_value. destruct (parse_i32 _); [destruct (_ && _)|]; reflexivity.
Qed.

Lemma lop_apply_strat d l : d_strat (lop_apply d l) = d_strat d.
Proof.
  destruct l as [o| |]; cbn [lop_apply]; try reflexivity.
  destruct o; cbn [db_apply']; auto using set_value_strat, remove_value_strat, inc_value_strat.
Qed.

(* set_value answers RSet or RVersionError and nothing else; a refusal changes nothing *)
Lemma set_value_cases d ch :
  (exists d1 msgs, set_value d ch = (d1, RSet (c_key ch) (c_val ch), msgs)) \/
  (exists old, get_value d (c_key ch) = Some old /\
     set_value d ch = (d, RVersionError (c_key ch) (v_ver old) (c_ver ch) old ch (upd_state old), [])).
Proof.
  unfold set_value. destruct (get_value d (c_key ch)) as [old|].
  - destruct (_ && _).
    + right. exists old. auto.
    + left. eexists _, _. reflexivity.
  - left. eexists _, _. reflexivity.
Qed.

Lemma inc_value_cases d k i opp :
  (exists d1 msgs, inc_value d k i opp = (d1, ROk, msgs)) \/
  inc_value d k i opp = (d, RError "Key is not numeric", []).
Proof.
  unfold inc_value. destruct (parse_i32 _); [destruct (_ && _)|]; auto.
  left. eexists _, _. reflexivity.
Qed.

(* ---- the effect of one release on the table of databases ----------------------- *)
Definition unchanged (n' n : node) : Prop := n_dbs n' = n_dbs n.

Lemma start_cmd_dbs n t : sched_thr t -> n_dbs (fst (start_cmd n t)) = n_dbs n.
Proof.
  unfold sched_thr, start_cmd. intros [Hs _].
  destruct (t_prog t) as [|line rest] eqn:Hp; [reflexivity|].
  inversion Hs as [|? ? Hl _]; subst. unfold sched_line in Hl.
  generalize (mkThr (t_sid t) rest (t_pc t) (t_replies t) (t_trace t) (t_hints t)). intros t0.
  destruct (parse_request (trim_char nl line)) as [rq| |]; try reflexivity.
  destruct (key_of rq) as [[key kind]|] eqn:Hk.
  - destruct (perm_yields n (t_sid t) key); [reflexivity|].
    destruct (guard_safe n (t_sid t) key kind) eqn:Hg.
    + apply dbs_after_guard.
    + rewrite dbs_complete. eapply dbs_guard_safe; eauto.
  - destruct rq; try discriminate Hl; try discriminate Hk;
      (destruct (guard_db n (t_sid t)) eqn:Hg;
       [reflexivity | rewrite dbs_complete; eapply dbs_guard_db; eauto]).
Qed.

Lemma eff_same n n' dbn d :
  n_dbs n' = n_dbs n -> get_db n dbn = Some d ->
  forall x, get_db n' x = if String.eqb x dbn then Some d else get_db n x.
Proof.
  intros H Hd x. rewrite (get_db_dbs _ _ x H).
  destruct (String.eqb_spec x dbn) as [->|]; auto.
Qed.

Lemma eff_put n n' dbn d' :
  n_dbs n' = n_dbs (put_db n dbn d') ->
  forall x, get_db n' x = if String.eqb x dbn then Some d' else get_db n x.
Proof. intros H x. rewrite (get_db_dbs _ _ x H). apply get_db_put. Qed.

Theorem release_effect n t : sched_thr t ->
  match step_op n t with
  | Some (dbn, l) =>
      match get_db n dbn with
      | Some d => forall x, get_db (fst (release n t)) x =
                            if String.eqb x dbn then Some (lop_apply d l) else get_db n x
      | None => n_dbs (fst (release n t)) = n_dbs n
      end
  | None => n_dbs (fst (release n t)) = n_dbs n
  end.
Proof.
  intros Hs. unfold step_op, release.
  destruct (t_pc t) eqn:Hpc.
  - (* PcCmd *) now apply start_cmd_dbs.
  - (* PcPerm *)
    destruct (key_of rq) as [[key kind]|]; [|reflexivity].
    destruct (guard_safe n (t_sid t) key kind) eqn:Hg.
    + apply dbs_after_guard.
    + rewrite dbs_complete. eapply dbs_guard_safe; eauto.
  - (* PcSetWrite *)
    destruct (get_db n dbn) as [d|] eqn:Hdb; [|apply dbs_complete].
    cbn [lop_apply db_apply'].
    destruct (set_value_cases d (mkCh key value ver opp resolving)) as [(d1 & msgs & E) | (old & Hg & E)];
      rewrite E; cbn [fst snd].
    + apply eff_put. reflexivity.
    + apply eff_same; auto.
      destruct (d_strat d); try apply dbs_complete.
      destruct (N.ltb _ _); [reflexivity|].
      rewrite dbs_complete. destruct (is_primary n); reflexivity.
  - (* PcNotify *)
    destruct rq; rewrite dbs_complete;
      try (destruct (is_primary _)); try rewrite dbs_send_to_primary; apply dbs_sends.
  - (* PcGetRead *)
    destruct (get_db n dbn) as [d|]; [|apply dbs_complete].
    destruct (get_key_value_new d key). rewrite dbs_complete. reflexivity.
  - (* PcRemoveWrite *)
    destruct (get_db n dbn) as [d|] eqn:Hdb; [|apply dbs_complete].
    cbn [lop_apply db_apply'].
    pose proof (remove_value_watch d key) as Hw.
    destruct (remove_value d key) as [[d1 r] msgs]. cbn [fst snd] in *.
    apply eff_put. rewrite <- Hw, db_set_watch_id. reflexivity.
  - (* PcRemoveNotify *)
    rewrite dbs_complete.
    destruct (is_primary _); try rewrite dbs_send_to_primary; apply dbs_sends.
  - (* PcIncWrite *)
    destruct (get_db n dbn) as [d|] eqn:Hdb; [|apply dbs_complete].
    cbn [lop_apply db_apply']. unfold tick.
    destruct (inc_value_cases d key inc (n_clock n)) as [(d1 & msgs & E) | E]; rewrite E; cbn [fst snd].
    + apply eff_put. reflexivity.
    + apply eff_same; auto; rewrite dbs_complete; reflexivity.
  - (* PcWatch *)
    destruct (get_db n dbn) as [d|] eqn:Hdb; [|apply dbs_complete].
    apply eff_put. rewrite dbs_complete. reflexivity.
  - (* PcUnwatch *)
    destruct (get_db n dbn) as [d|] eqn:Hdb; [|apply dbs_complete].
    apply eff_put. rewrite dbs_complete. reflexivity.
  - (* PcUnwatchAllClone *)
    destruct (get_db n dbn) as [d|] eqn:Hdb; [|apply dbs_complete].
    destruct (t_hints t); destruct (reorder _ _); try apply dbs_complete; reflexivity.
  - (* PcUnwatchAllKeys *)
    destruct keys as [|k rest]; [apply dbs_complete|].
    destruct (get_db n dbn) as [d|] eqn:Hdb.
    + apply eff_put. destruct rest; [apply dbs_complete | reflexivity].
    + destruct rest; [apply dbs_complete | reflexivity].
  - (* PcKeys *)
    destruct (get_db n dbn) as [d|]; rewrite dbs_complete; reflexivity.
  - (* PcUseTok: not a park point of a scheduled thread *)
    destruct Hs as [_ Hp]. rewrite Hpc in Hp. destruct Hp.
  - (* PcPub *)
    destruct Hs as [_ Hp]. rewrite Hpc in Hp. destruct Hp.
  - (* PcPubNotify *)
    destruct Hs as [_ Hp]. rewrite Hpc in Hp. destruct Hp.
  - reflexivity.
Qed.

(* item 1, in the form of the brief *)
Theorem release_data n t : sched_thr t ->
  (forall dbn o d, data_op n t = Some (dbn, o) -> get_db n dbn = Some d ->
     (exists d', get_db (fst (release n t)) dbn = Some d' /\ d' = db_apply' d o /\
                 d_map d' = d_map (db_apply' d o) /\ d_watch d' = d_watch d) /\
     forall x, x <> dbn -> get_db (fst (release n t)) x = get_db n x) /\
  (forall dbn o, data_op n t = Some (dbn, o) -> get_db n dbn = None ->
     forall x, get_db (fst (release n t)) x = get_db n x) /\
  (data_op n t = None ->
     forall x, option_map d_map (get_db (fst (release n t)) x) = option_map d_map (get_db n x)).
Proof.
  intros Hs. pose proof (release_effect n t Hs) as He. rewrite data_op_step.
  destruct (step_op n t) as [[dbn0 l]|].
  2:{ repeat split; try discriminate. intros _ x. now rewrite (get_db_dbs _ _ x He). }
  split; [|split].
  - intros dbn o d H H0. destruct l as [o0| |]; try discriminate. injection H as -> ->. rewrite H0 in He. split.
    + exists (db_apply' d o). rewrite He, String.eqb_refl. repeat split; auto using db_apply_watch.
    + intros x Hx. rewrite He. destruct (String.eqb_spec x dbn); congruence.
  - intros dbn o H Hn x. destruct l as [o0| |]; try discriminate. injection H as -> ->. rewrite Hn in He.
    now apply get_db_dbs.
  - intros H x. destruct (get_db n dbn0) as [d|] eqn:Hd; [|now rewrite (get_db_dbs _ _ x He)].
    rewrite He. destruct (String.eqb_spec x dbn0) as [->|]; auto.
    rewrite Hd. destruct l; try discriminate; reflexivity.
Qed.

(* ====================================================================== *)
(* 2. schedules: the final state is the sequential application of the log  *)
(* ====================================================================== *)

Definition ops_on {A} (dbn : str) (l : list (str * A)) : list A :=
  map snd (filter (fun p => String.eqb (fst p) dbn) l).

Lemma ops_on_app {A} dbn (a b : list (str * A)) : ops_on dbn (a ++ b) = ops_on dbn a ++ ops_on dbn b.
Proof. unfold ops_on. now rewrite filter_app, map_app. Qed.

Definition step_log (n : node) (ts : list thr) (i : nat) : list (str * lop) :=
  match nth_error ts i with
  | Some t => match step_op n t with Some p => [p] | None => [] end
  | None => []
  end.

(* the log of all database operations of a run, in the order of the releases *)
Fixpoint full_log (n : node) (ts : list thr) (sched : list nat) : list (str * lop) :=
  match sched with
  | [] => []
  | i :: r => step_log n ts i ++ full_log (fst (release_nth n ts i)) (snd (release_nth n ts i)) r
  end.

Definition data_of (l : list (str * lop)) : list (str * dop') :=
  flat_map (fun p => match snd p with LData o => [(fst p, o)] | _ => [] end) l.

Definition data_log (n : node) (ts : list thr) (sched : list nat) : list (str * dop') :=
  data_of (full_log n ts sched).

(* the same log computed directly alongside the run *)
Fixpoint data_log_direct (n : node) (ts : list thr) (sched : list nat) : list (str * dop') :=
  match sched with
  | [] => []
  | i :: r =>
      match nth_error ts i with
      | Some t => match data_op n t with Some p => [p] | None => [] end
      | None => []
      end ++ data_log_direct (fst (release_nth n ts i)) (snd (release_nth n ts i)) r
  end.

Lemma data_of_app a b : data_of (a ++ b) = data_of a ++ data_of b.
Proof. unfold data_of. apply flat_map_app. Qed.

Lemma data_log_direct_eq sched : forall n ts, data_log_direct n ts sched = data_log n ts sched.
Proof.
  unfold data_log. induction sched as [|i r IH]; intros n ts; cbn [data_log_direct full_log]; auto.
  rewrite data_of_app, IH. f_equal.
  unfold step_log. destruct (nth_error ts i) as [t|]; auto.
  rewrite data_op_step. destruct (step_op n t) as [[dbn [o| |]]|]; reflexivity.
Qed.

Lemma run_schedule_cons n ts i r :
  run_schedule n ts (i :: r) = run_schedule (fst (release_nth n ts i)) (snd (release_nth n ts i)) r.
Proof. unfold run_schedule. cbn [fold_left fst snd]. now destruct (release_nth n ts i). Qed.

Lemma Forall_list_update {A} (P : A -> Prop) l : forall i x,
  Forall P l -> P x -> Forall P (list_update l i x).
Proof.
  induction l as [|y r IH]; intros i x H Hx; cbn; auto.
  inversion H; subst. destruct i; constructor; auto.
Qed.

Lemma nth_error_Forall {A} (P : A -> Prop) l i x : Forall P l -> nth_error l i = Some x -> P x.
Proof. intros H E. rewrite Forall_forall in H. apply H. eapply nth_error_In; eauto. Qed.

Lemma release_nth_sched n ts i : Forall sched_thr ts -> Forall sched_thr (snd (release_nth n ts i)).
Proof.
  intros H. unfold release_nth. destruct (nth_error ts i) as [t|] eqn:E; auto.
  destruct (is_done t); auto.
  pose proof (release_sched n t (nth_error_Forall _ _ _ _ H E)) as Hr.
  destruct (release n t) as [n1 t1]. cbn [snd] in *. now apply Forall_list_update.
Qed.

Lemma run_schedule_sched sched : forall n ts,
  Forall sched_thr ts -> Forall sched_thr (snd (run_schedule n ts sched)).
Proof.
  induction sched as [|i r IH]; intros n ts H; [exact H|].
  rewrite run_schedule_cons. apply IH. now apply release_nth_sched.
Qed.

Lemma release_nth_effect n ts i dbn : Forall sched_thr ts ->
  get_db (fst (release_nth n ts i)) dbn =
  option_map (fun d => fold_left lop_apply (ops_on dbn (step_log n ts i)) d) (get_db n dbn).
Proof.
  intros H. unfold release_nth, step_log.
  destruct (nth_error ts i) as [t|] eqn:E.
  2:{ cbn. now destruct (get_db n dbn). }
  destruct (is_done t) eqn:Hd.
  { unfold is_done in Hd. unfold step_op. destruct (t_pc t); try discriminate.
    cbn. now destruct (get_db n dbn). }
  pose proof (release_effect n t (nth_error_Forall _ _ _ _ H E)) as He.
  destruct (release n t) as [n1 t1]. cbn [fst] in *.
  destruct (step_op n t) as [[dbn0 l]|].
  2:{ rewrite (get_db_dbs _ _ dbn He). cbn. now destruct (get_db n dbn). }
  unfold ops_on. cbn [filter fst].
  destruct (get_db n dbn0) as [d|] eqn:Hd0.
  - rewrite He. rewrite (String.eqb_sym dbn dbn0).
    destruct (String.eqb_spec dbn0 dbn) as [->|Hne].
    + rewrite Hd0. reflexivity.
    + cbn. now destruct (get_db n dbn).
  - rewrite (get_db_dbs _ _ dbn He).
    destruct (String.eqb_spec dbn0 dbn) as [->|Hne].
    + rewrite Hd0. reflexivity.
    + cbn. now destruct (get_db n dbn).
Qed.

Lemma option_map_map {A B C} (f : A -> B) (g : B -> C) o :
  option_map g (option_map f o) = option_map (fun x => g (f x)) o.
Proof. destruct o; reflexivity. Qed.

(* the whole database (data and subscriptions) after ANY interleaving is the sequential
   application of the operations in the order in which their critical sections were entered *)
Theorem schedule_full sched : forall n ts dbn, Forall sched_thr ts ->
  get_db (fst (run_schedule n ts sched)) dbn =
  option_map (fun d => fold_left lop_apply (ops_on dbn (full_log n ts sched)) d) (get_db n dbn).
Proof.
  induction sched as [|i r IH]; intros n ts dbn H.
  - cbn. now destruct (get_db n dbn).
  - rewrite run_schedule_cons, IH by now apply release_nth_sched.
    rewrite release_nth_effect by auto. rewrite option_map_map.
    cbn [full_log]. destruct (get_db n dbn); cbn [option_map]; auto.
    now rewrite ops_on_app, fold_left_app.
Qed.

(* data operations only read and write the key-value map *)
Lemma db_apply_map_congr d1 d2 o : d_map d1 = d_map d2 -> d_map (db_apply' d1 o) = d_map (db_apply' d2 o).
Proof.
  destruct d1 as [m1 w1 c1 i1 s1], d2 as [m2 w2 c2 i2 s2]. cbn [d_map]. intros <-.
  destruct o as [k v ver opp rs | k | k i opp]; cbn [db_apply'].
  - unfold set_value, get_value, put_value, db_set_map; cbn [d_map c_key].
    destruct (assoc_get _ _ _); [destruct (_ && _)|]; reflexivity.
  - unfold remove_value, get_value, put_value, db_set_map; cbn [d_map].
    destruct (String.eqb k "$$token"); [reflexivity|].
    destruct (assoc_get _ _ _) as [v|]; [destruct (v_st v)|]; reflexivity.
  - unfold inc_value, get_value, put_value, db_set_map; cbn [d_map].
    destruct (parse_i32 _); [destruct (_ && _)|]; reflexivity.
Qed.

Lemma ops_on_data_of dbn L :
  ops_on dbn (data_of L) =
  flat_map (fun l => match l with LData o => [o] | _ => [] end) (ops_on dbn L).
Proof.
  unfold ops_on, data_of. induction L as [|[x l] r IH]; auto.
  cbn [flat_map filter fst snd].
  destruct l; cbn [app filter fst]; destruct (String.eqb x dbn) eqn:E;
    cbn [map snd flat_map app]; rewrite IH; reflexivity.
Qed.

Lemma data_projection ops : forall d d',
  d_map d = d_map d' ->
  d_map (fold_left lop_apply ops d) =
  d_map (fold_left db_apply' (flat_map (fun l => match l with LData o => [o] | _ => [] end) ops) d').
Proof.
  induction ops as [|l r IH]; intros d d' H; cbn [fold_left flat_map]; auto.
  destruct l as [o|k s|k s]; cbn [app lop_apply fold_left].
  - apply IH. now apply db_apply_map_congr.
  - apply IH. exact H.
  - apply IH. exact H.
Qed.

(* item 2 *)
Theorem schedule_data n ts sched dbn : Forall sched_thr ts ->
  option_map d_map (get_db (fst (run_schedule n ts sched)) dbn) =
  option_map d_map (option_map (fun d => fold_left db_apply' (ops_on dbn (data_log n ts sched)) d)
                               (get_db n dbn)).
Proof.
  intros H. rewrite schedule_full by auto. unfold data_log. rewrite ops_on_data_of.
  destruct (get_db n dbn); cbn [option_map]; auto.
  f_equal. now apply data_projection.
Qed.

(* ---- run_par ----------------------------------------------------------------- *)
Fixpoint out_log (fuel : nat) (n : node) (ts : list thr) (i : nat) : list (str * lop) :=
  match fuel with
  | O => []
  | S f =>
      match nth_error ts i with
      | None => []
      | Some t => if is_done t then out_log f n ts (S i)
                  else step_log n ts i ++
                       out_log f (fst (release_nth n ts i)) (snd (release_nth n ts i)) i
      end
  end.

Definition par_log (n : node) (ts : list thr) (sched : list nat) : list (str * lop) :=
  full_log n ts sched ++
  out_log (thread_fuel (snd (run_schedule n ts sched)) + 64)
          (fst (run_schedule n ts sched)) (snd (run_schedule n ts sched)) 0.

Definition par_data_log n ts sched := data_of (par_log n ts sched).

Lemma run_out_full fuel : forall n ts i dbn, Forall sched_thr ts ->
  get_db (fst (run_out fuel n ts i)) dbn =
  option_map (fun d => fold_left lop_apply (ops_on dbn (out_log fuel n ts i)) d) (get_db n dbn) /\
  Forall sched_thr (snd (run_out fuel n ts i)).
Proof.
  induction fuel as [|f IH]; intros n ts i dbn H; cbn [run_out out_log].
  - split; auto. cbn. now destruct (get_db n dbn).
  - destruct (nth_error ts i) as [t|] eqn:E.
    2:{ split; auto. cbn. now destruct (get_db n dbn). }
    destruct (is_done t); [now apply IH|].
    pose proof (release_nth_effect n ts i dbn H) as He.
    pose proof (release_nth_sched n ts i H) as Hs.
    destruct (release_nth n ts i) as [n1 ts1]. cbn [fst snd] in *.
    destruct (IH n1 ts1 i dbn Hs) as [H1 H2]. split; auto.
    rewrite H1, He, option_map_map.
    destruct (get_db n dbn); cbn [option_map]; auto.
    now rewrite ops_on_app, fold_left_app.
Qed.

Theorem par_full n ts sched dbn : Forall sched_thr ts ->
  get_db (fst (run_par n ts sched)) dbn =
  option_map (fun d => fold_left lop_apply (ops_on dbn (par_log n ts sched)) d) (get_db n dbn).
Proof.
  intros H. unfold run_par, par_log.
  pose proof (schedule_full sched n ts dbn H) as H1.
  pose proof (run_schedule_sched sched n ts H) as H2.
  destruct (run_schedule n ts sched) as [n1 ts1]. cbn [fst snd] in *.
  destruct (run_out_full (thread_fuel ts1 + 64) n1 ts1 0 dbn H2) as [H3 _].
  rewrite H3, H1, option_map_map.
  destruct (get_db n dbn); cbn [option_map]; auto.
  now rewrite ops_on_app, fold_left_app.
Qed.

Theorem par_data n ts sched dbn : Forall sched_thr ts ->
  option_map d_map (get_db (fst (run_par n ts sched)) dbn) =
  option_map d_map (option_map (fun d => fold_left db_apply' (ops_on dbn (par_data_log n ts sched)) d)
                               (get_db n dbn)).
Proof.
  intros H. rewrite par_full by auto. unfold par_data_log. rewrite ops_on_data_of.
  destruct (get_db n dbn); cbn [option_map]; auto.
  f_equal. now apply data_projection.
Qed.

(* ====================================================================== *)
(* 3/4. exact form of the write releases, replies, compare-and-set          *)
(* ====================================================================== *)

Lemma replicate_refusal n rq s k ov v old ch st :
  replicate_request n rq s (RVersionError k ov v old ch st) = (n, RVersionError k ov v old ch st).
Proof. reflexivity. Qed.

Definition cur_ver (d : db) (key : str) : Z :=
  match get_value d key with Some v => v_ver v | None => 0 end.

(* a write release whose set_value succeeds: the map is written, the thread parks before
   the notification; no reply yet *)
Lemma release_set_ok n t dbn key value ver opp rs orig d d1 msgs :
  t_pc t = PcSetWrite dbn key value ver opp rs orig -> get_db n dbn = Some d ->
  set_value d (mkCh key value ver opp rs) = (d1, RSet key value, msgs) ->
  release n t = (put_db n dbn d1,
                 park t (PcNotify dbn key value (cur_ver d1 key) (RqSet key value orig)) "watchers.read").
Proof. intros Hpc Hdb E. unfold release. rewrite Hpc, Hdb, E. reflexivity. Qed.

(* a refused write on a database that is not "newer": the command ends here and the reply
   is the RVersionError computed by set_value on the database as it is at this release *)
Lemma release_set_refused n t dbn key value ver opp rs orig d old :
  t_pc t = PcSetWrite dbn key value ver opp rs orig -> get_db n dbn = Some d ->
  d_strat d <> SNewer ->
  get_value d key = Some old ->
  set_value d (mkCh key value ver opp rs) =
    (d, RVersionError key (v_ver old) ver old (mkCh key value ver opp rs) (upd_state old), []) ->
  release n t = (n, finish t (RVersionError key (v_ver old) ver old (mkCh key value ver opp rs) (upd_state old))).
Proof.
  intros Hpc Hdb Hs Hg E. unfold release. rewrite Hpc, Hdb, E.
  destruct (d_strat d); try contradiction; reflexivity.
Qed.

(* item 3, write part: what the release at PcSetWrite (not resolving) does on a database
   with strategy none *)
Theorem set_release_none n t dbn key value ver opp orig d :
  t_pc t = PcSetWrite dbn key value ver opp false orig -> get_db n dbn = Some d ->
  d_strat d = SNone ->
  let ch := mkCh key value ver opp false in
  (* accepted: the map is written, the thread parks before the notification, no reply yet *)
  (exists d1 msgs, set_value d ch = (d1, RSet key value, msgs) /\
     release n t = (put_db n dbn d1,
                    park t (PcNotify dbn key value (cur_ver d1 key) (RqSet key value orig)) "watchers.read") /\
     t_replies (snd (release n t)) = t_replies t) \/
  (* refused: nothing changes, the command ends, and the recorded reply is the RVersionError
     that set_value computes on the database as it is at this release *)
  (exists old, get_value d key = Some old /\
     let r := RVersionError key (v_ver old) ver old ch (upd_state old) in
     set_value d ch = (d, r, []) /\
     release n t = (n, finish t r) /\
     t_replies (snd (release n t)) = t_replies t ++ [r] /\
     at_boundary (snd (release n t))).
Proof.
  intros Hpc Hdb Hs ch.
  destruct (set_value_cases d ch) as [(d1 & msgs & E) | (old & Hg & E)]; cbn [c_key c_val c_ver] in *.
  - left. exists d1, msgs. split; auto.
    rewrite (release_set_ok _ _ _ _ _ _ _ _ _ _ _ _ Hpc Hdb E). cbn [fst snd]. auto.
  - right. exists old. split; auto. cbn zeta. split; auto.
    assert (Hn : d_strat d <> SNewer) by (rewrite Hs; discriminate).
    rewrite (release_set_refused _ _ _ _ _ _ _ _ _ _ _ Hpc Hdb Hn Hg E). cbn [fst snd].
    rewrite finish_replies. repeat split; auto using finish_boundary.
Qed.

Definition sel_ok (n : node) (c : nat) : bool :=
  match s_db (get_sess n c) with Some nm => has_db n nm | None => true end.

Lemma has_db_dbs n n' x : n_dbs n' = n_dbs n -> has_db n' x = has_db n x.
Proof. intros H. unfold has_db. now rewrite (get_db_dbs _ _ x H). Qed.

Lemma replicate_ok_class n n0 c rq r :
  n_dbs n0 = n_dbs n -> sel_ok n c = true ->
  (match r with RSet _ _ | ROk => True | _ => False end) ->
  (match rq with RqSet _ _ _ | RqRemove _ | RqIncrement _ _ => True | _ => False end) ->
  snd (replicate_request n0 rq (s_db (get_sess n c)) r) = ROk.
Proof.
  intros Hd Hsel Hr Hrq. unfold replicate_request, sel_ok in *. revert Hsel.
  destruct (s_db (get_sess n c)) as [nm|]; intros Hsel.
  - pose proof (has_db_dbs _ _ nm Hd) as Hh. rewrite Hsel in Hh.
    destruct r; try contradiction; rewrite Hh; cbn [negb];
      destruct rq; try contradiction; reflexivity.
  - destruct r; try contradiction; destruct rq; try contradiction; reflexivity.
Qed.

(* item 3: the notify release of a set (the last release of a successful set / set-safe)
   answers ROk when the session's selected database exists *)
Theorem notify_release_set n t dbn key value nv k v ver :
  t_pc t = PcNotify dbn key value nv (RqSet k v ver) -> sel_ok n (t_sid t) = true ->
  t_replies (snd (release n t)) = t_replies t ++ [ROk] /\ at_boundary (snd (release n t)) /\
  n_dbs (fst (release n t)) = n_dbs n.
Proof.
  intros Hpc Hsel. unfold release. rewrite Hpc.
  rewrite complete_snd, finish_replies, dbs_complete. split; [|split].
  - f_equal. f_equal. apply replicate_ok_class; cbn; auto.
    destruct (is_primary _); try rewrite dbs_send_to_primary; apply dbs_sends.
  - apply finish_boundary.
  - destruct (is_primary _); try rewrite dbs_send_to_primary; apply dbs_sends.
Qed.

(* get / get-safe: the reply carries the value and version of the database at the read
   release *)
Theorem get_release n t dbn key safe d :
  t_pc t = PcGetRead dbn key safe -> get_db n dbn = Some d -> sel_ok n (t_sid t) = true ->
  t_replies (snd (release n t)) =
    t_replies t ++ [RValue key (fst (get_key_value_new d key)) (snd (get_key_value_new d key))] /\
  at_boundary (snd (release n t)) /\
  n_dbs (fst (release n t)) = n_dbs n.
Proof.
  intros Hpc Hdb Hsel. unfold release. rewrite Hpc, Hdb.
  destruct (get_key_value_new d key) as [v ver]. cbn [fst snd].
  rewrite complete_snd, finish_replies, dbs_complete. split; [|split]; auto using finish_boundary.
  f_equal. f_equal. unfold replicate_request, sel_ok in *. revert Hsel.
  destruct (s_db (get_sess n (t_sid t))) as [nm|]; intros Hsel.
  - rewrite (has_db_dbs n (send n (t_sid t) _) nm) by reflexivity. rewrite Hsel. cbn [negb].
    destruct safe; reflexivity.
  - destruct safe; reflexivity.
Qed.

(* a plain write with a version below the stored one is refused *)
Lemma cas_refused d k v ver opp old :
  get_value d k = Some old -> v_ver old <> -2 -> 0 <= ver -> ver < v_ver old ->
  set_value d (mkCh k v ver opp false) =
  (d, RVersionError k (v_ver old) ver old (mkCh k v ver opp false) (upd_state old), []).
Proof.
  intros Hg Ho Hv Hlt.
  rewrite (set_value_present d (mkCh k v ver opp false) old Hg).
  rewrite next_version_plain; cbn [c_ver c_resolve c_key]; auto; try lia.
  destruct (Z.eqb_spec ver (-1)); [lia|]. destruct (Z.eqb_spec ver (-2)); [lia|].
  replace (Z.leb (sat_succ ver) (v_ver old)) with true; [reflexivity|].
  symmetry. apply Z.leb_le. unfold sat_succ. destruct (Z.ltb_spec ver i32_max); lia.
Qed.

Lemma get_value_map d d' k : d_map d = d_map d' -> get_value d k = get_value d' k.
Proof. unfold get_value. now intros ->. Qed.

(* item 4: two compare-and-set writes carrying the same version: the first released wins,
   the second is refused -- in whichever order (the statement is symmetric in t1/t2), and
   whatever happens in between as long as the key is not written by somebody else *)
Theorem two_cas_one_winner n t1 t2 dbn d k v1 v2 ver opp1 opp2 o1 o2 old :
  t_pc t1 = PcSetWrite dbn k v1 ver opp1 false o1 ->
  t_pc t2 = PcSetWrite dbn k v2 ver opp2 false o2 ->
  get_db n dbn = Some d -> d_strat d = SNone ->
  get_value d k = Some old -> v_ver old = ver -> 0 <= ver -> ver < i32_max ->
  exists nw,
    let d1 := db_apply' d (DSet' k v1 ver opp1 false) in
    release n t1 = (put_db n dbn d1,
                    park t1 (PcNotify dbn k v1 (ver + 1) (RqSet k v1 o1)) "watchers.read") /\
    get_value d1 k = Some nw /\ v_val nw = v1 /\ v_ver nw = ver + 1 /\
    forall n2 d2, get_db n2 dbn = Some d2 -> d_strat d2 = SNone -> get_value d2 k = Some nw ->
      release n2 t2 =
        (n2, finish t2 (RVersionError k (ver + 1) ver nw (mkCh k v2 ver opp2 false) (upd_state nw))).
Proof.
  intros Hp1 Hp2 Hdb Hs Hg Hv H0 Hm.
  set (ch := mkCh k v1 ver opp1 false).
  destruct (proj2 (cas_iff d k old ch Hg ltac:(lia) ltac:(lia) eq_refl eq_refl ltac:(cbn; lia)))
    as (d1 & msgs & E); [right; cbn; lia|].
  destruct (cas_version d k old ch d1 _ msgs Hg ltac:(lia) ltac:(lia) eq_refl eq_refl ltac:(cbn; lia) E)
    as (nw & Hn & Hnv & Hlt).
  unfold ch in *. cbn [c_ver c_val] in *.
  destruct (Z.eqb_spec ver (-1)); [lia|].
  assert (Hnv' : v_ver nw = ver + 1).
  { rewrite Hnv. unfold sat_succ. destruct (Z.ltb_spec ver i32_max); lia. }
  destruct (set_value_inv_present d (mkCh k v1 ver opp1 false) old _ _ _ _ Hg E) as [_ Hd1].
  cbn [c_key c_val] in Hd1.
  exists nw. cbn zeta. cbn [db_apply']. rewrite E. cbn [fst].
  rewrite (release_set_ok _ _ _ _ _ _ _ _ _ _ _ _ Hp1 Hdb E).
  unfold cur_ver. rewrite Hn, Hnv'. split; [reflexivity|]. split; [reflexivity|].
  split. { rewrite Hd1, gv_put_same in Hn. injection Hn as <-. reflexivity. }
  split; [reflexivity|].
  intros n2 d2 Hdb2 Hs2 Hg2.
  assert (Hn2 : d_strat d2 <> SNewer) by (rewrite Hs2; discriminate).
  pose proof (cas_refused d2 k v2 ver opp2 nw Hg2 ltac:(lia) H0 ltac:(lia)) as E2.
  rewrite Hnv' in E2.
  pose proof (release_set_refused n2 t2 dbn k v2 ver opp2 false o2 d2 nw Hp2 Hdb2 Hn2 Hg2) as R.
  rewrite Hnv' in R. now apply R.
Qed.

(* ---- what happens between the two releases ----------------------------------- *)
Lemma fold_lop_strat ops : forall d, d_strat (fold_left lop_apply ops d) = d_strat d.
Proof.
  induction ops as [|l r IH]; intros d; cbn [fold_left]; auto.
  rewrite IH. apply lop_apply_strat.
Qed.

Lemma db_apply'_other d o k : k <> dop_key' o -> get_value (db_apply' d o) k = get_value d k.
Proof.
  destruct o; cbn [db_apply' dop_key']; intros H.
  - now apply (set_value_other d (mkCh k0 v ver opp resolving) k).
  - now apply remove_value_other.
  - now apply inc_value_other.
Qed.

(* the release writes key k of the key-value map *)
Definition lop_touches (k : str) (l : lop) : Prop :=
  match l with LData o => dop_key' o = k | _ => False end.

Lemma lop_apply_other d l k : ~ lop_touches k l -> get_value (lop_apply d l) k = get_value d k.
Proof.
  destruct l as [o| |]; cbn [lop_touches lop_apply]; intros H; try reflexivity.
  apply db_apply'_other. congruence.
Qed.

Lemma fold_lop_other k ops : forall d,
  Forall (fun l => ~ lop_touches k l) ops -> get_value (fold_left lop_apply ops d) k = get_value d k.
Proof.
  induction ops as [|l r IH]; intros d H; cbn [fold_left]; auto.
  inversion H; subst. rewrite IH by auto. now apply lop_apply_other.
Qed.

Lemma nth_error_list_update_other {A} (l : list A) : forall i j x,
  i <> j -> nth_error (list_update l i x) j = nth_error l j.
Proof.
  induction l as [|y r IH]; intros i j x H; cbn; auto.
  destruct i, j; cbn; auto; try congruence; try (apply IH; congruence).
Qed.

Lemma nth_error_list_update_same {A} (l : list A) : forall i x y,
  nth_error l i = Some y -> nth_error (list_update l i x) i = Some x.
Proof.
  induction l as [|z r IH]; intros [|i] x y E; try discriminate; cbn in *; eauto.
Qed.

Lemma release_nth_untouched n ts i j : i <> j -> nth_error (snd (release_nth n ts i)) j = nth_error ts j.
Proof.
  intros H. unfold release_nth. destruct (nth_error ts i) as [t|]; auto.
  destruct (is_done t); auto. destruct (release n t). cbn [snd].
  now apply nth_error_list_update_other.
Qed.

(* a thread that is not scheduled stays parked where it is *)
Lemma run_schedule_untouched sched : forall n ts j,
  ~ In j sched -> nth_error (snd (run_schedule n ts sched)) j = nth_error ts j.
Proof.
  induction sched as [|i r IH]; intros n ts j H; auto.
  rewrite run_schedule_cons, IH by (intros Hin; apply H; now right).
  apply release_nth_untouched. intros ->. apply H. now left.
Qed.

Lemma run_schedule_app n ts a b :
  run_schedule n ts (a ++ b) =
  run_schedule (fst (run_schedule n ts a)) (snd (run_schedule n ts a)) b.
Proof.
  unfold run_schedule. rewrite fold_left_app.
  now destruct (fold_left _ a (n, ts)).
Qed.

Lemma release_nth_live n ts i t :
  nth_error ts i = Some t -> is_done t = false ->
  release_nth n ts i = (fst (release n t), list_update ts i (snd (release n t))).
Proof.
  intros E H. unfold release_nth. rewrite E, H. now destruct (release n t).
Qed.

(* item 4 on schedules: thread i is released first, then any releases [mid] that do not
   release j and do not write key k of dbn, then thread j: j is refused with the
   version error naming i's write *)
Theorem two_cas_schedule n ts i j mid t1 t2 dbn d k v1 v2 ver opp1 opp2 o1 o2 old :
  Forall sched_thr ts -> nth_error ts i = Some t1 -> nth_error ts j = Some t2 ->
  i <> j -> ~ In j mid ->
  t_pc t1 = PcSetWrite dbn k v1 ver opp1 false o1 ->
  t_pc t2 = PcSetWrite dbn k v2 ver opp2 false o2 ->
  get_db n dbn = Some d -> d_strat d = SNone ->
  get_value d k = Some old -> v_ver old = ver -> 0 <= ver -> ver < i32_max ->
  Forall (fun l => ~ lop_touches k l)
         (ops_on dbn (full_log (fst (release_nth n ts i)) (snd (release_nth n ts i)) mid)) ->
  exists nw d2,
    let n2 := fst (run_schedule n ts (i :: mid)) in
    let ts2 := snd (run_schedule n ts (i :: mid)) in
    let r := RVersionError k (ver + 1) ver nw (mkCh k v2 ver opp2 false) (upd_state nw) in
    v_val nw = v1 /\ v_ver nw = ver + 1 /\
    get_db n2 dbn = Some d2 /\ get_value d2 k = Some nw /\
    (In i mid \/ exists t1', nth_error ts2 i = Some t1' /\ t_replies t1' = t_replies t1) /\
    run_schedule n ts (i :: mid ++ [j]) = (n2, list_update ts2 j (finish t2 r)).
Proof.
  intros Hs E1 E2 Hij Hj Hp1 Hp2 Hdb Hst Hg Hv H0 Hm Hmid.
  destruct (two_cas_one_winner n t1 t2 dbn d k v1 v2 ver opp1 opp2 o1 o2 old
              Hp1 Hp2 Hdb Hst Hg Hv H0 Hm) as (nw & R1 & Hn & Hval & Hver & R2).
  cbn zeta in R1, Hn.
  assert (Hd1 : is_done t1 = false) by (unfold is_done; now rewrite Hp1).
  assert (Hd2 : is_done t2 = false) by (unfold is_done; now rewrite Hp2).
  pose proof (release_nth_live n ts i t1 E1 Hd1) as Hr1. rewrite R1 in Hr1. cbn [fst snd] in Hr1.
  rewrite Hr1 in Hmid. cbn [fst snd] in Hmid.
  set (d1 := db_apply' d (DSet' k v1 ver opp1 false)) in *.
  set (n1 := put_db n dbn d1) in *.
  set (ts1 := list_update ts i _) in *.
  assert (Hs1 : Forall sched_thr ts1).
  { pose proof (release_nth_sched n ts i Hs) as H. now rewrite Hr1 in H. }
  pose proof (schedule_full mid n1 ts1 dbn Hs1) as Hf.
  assert (Hn1 : get_db n1 dbn = Some d1) by (unfold n1; now rewrite get_db_put, String.eqb_refl).
  rewrite Hn1 in Hf. cbn [option_map] in Hf.
  exists nw, (fold_left lop_apply (ops_on dbn (full_log n1 ts1 mid)) d1).
  cbn zeta. rewrite !run_schedule_cons, Hr1. cbn [fst snd].
  split; [exact Hval|]. split; [exact Hver|]. split; [exact Hf|].
  split. { rewrite fold_lop_other by exact Hmid. exact Hn. }
  split.
  { destruct (in_dec Nat.eq_dec i mid) as [Hin|Hnin]; [now left|]. right.
    rewrite run_schedule_untouched by exact Hnin.
    eexists. split.
    - unfold ts1. eapply nth_error_list_update_same; eauto.
    - reflexivity. }
  rewrite run_schedule_app.
  set (X := run_schedule n1 ts1 mid) in *.
  unfold run_schedule at 1. cbn [fold_left fst snd].
  assert (Ej : nth_error (snd X) j = Some t2).
  { unfold X. rewrite run_schedule_untouched by exact Hj.
    unfold ts1. now rewrite nth_error_list_update_other. }
  rewrite (release_nth_live _ _ _ _ Ej Hd2).
  rewrite (R2 (fst X) _ Hf).
  - reflexivity.
  - rewrite fold_lop_strat. unfold d1. cbn [db_apply']. now rewrite set_value_strat.
  - rewrite fold_lop_other by exact Hmid. exact Hn.
Qed.

Lemma fold_data_other key ops : forall d,
  Forall (fun o => dop_key' o <> key) ops ->
  get_value (fold_left db_apply' ops d) key = get_value d key.
Proof.
  induction ops as [|o r IH]; intros d H; cbn [fold_left]; auto.
  inversion H; subst. rewrite IH by auto. apply db_apply'_other; auto.
Qed.

(* no lost update: a successful write's value is in the map right after its release, and
   stays there until a later data operation of the log writes the same key *)
Theorem no_lost_update n ts i rest t dbn key value ver opp rs orig d :
  Forall sched_thr ts -> nth_error ts i = Some t ->
  t_pc t = PcSetWrite dbn key value ver opp rs orig -> get_db n dbn = Some d ->
  snd (fst (set_value d (mkCh key value ver opp rs))) = RSet key value ->
  let n1 := fst (release_nth n ts i) in
  let ts1 := snd (release_nth n ts i) in
  exists d1 v,
    get_db n1 dbn = Some d1 /\ get_value d1 key = Some v /\ v_val v = value /\ v_opp v = opp /\
    (Forall (fun o => dop_key' o <> key) (ops_on dbn (data_log n1 ts1 rest)) ->
     exists d2, get_db (fst (run_schedule n1 ts1 rest)) dbn = Some d2 /\ get_value d2 key = Some v).
Proof.
  intros Hs E Hpc Hdb Hr. cbn zeta.
  assert (Hd : is_done t = false) by (unfold is_done; now rewrite Hpc).
  rewrite (release_nth_live n ts i t E Hd). cbn [fst snd].
  destruct (set_value d (mkCh key value ver opp rs)) as [[d1 r] msgs] eqn:Es. cbn [fst snd] in Hr. subst r.
  rewrite (release_set_ok _ _ _ _ _ _ _ _ _ _ _ _ Hpc Hdb Es). cbn [fst snd].
  assert (Hv : exists v, get_value d1 key = Some v /\ v_val v = value /\ v_opp v = opp).
  { revert Es. unfold set_value. cbn [c_key c_val c_opp c_ver].
    destruct (get_value d key) as [old|]; [destruct (_ && _); [discriminate|]|];
      intros [= <- _]; rewrite gv_put_same; eexists; split; reflexivity || (split; reflexivity). }
  destruct Hv as (v & Hg & Hval & Hopp).
  exists d1, v. rewrite get_db_put, String.eqb_refl. repeat split; auto.
  intros Hnot.
  set (ts1 := list_update ts i _).
  assert (Hs1 : Forall sched_thr ts1).
  { apply Forall_list_update; auto. split; [|exact I]. cbn [park t_prog].
    eapply (nth_error_Forall sched_thr); eauto. }
  pose proof (schedule_data (put_db n dbn d1) ts1 rest dbn Hs1) as Hsd.
  rewrite get_db_put, String.eqb_refl in Hsd. cbn [option_map] in Hsd.
  destruct (get_db (fst (run_schedule (put_db n dbn d1) ts1 rest)) dbn) as [d2|]; [|discriminate].
  exists d2. split; auto. cbn [option_map] in Hsd. injection Hsd as Hsd.
  rewrite (get_value_map _ _ key Hsd).
  rewrite fold_data_other by exact Hnot. exact Hg.
Qed.

(* ====================================================================== *)
(* 5. C03: subscription steps are atomic and local                          *)
(* ====================================================================== *)

Lemma watchers_watch d k c k' :
  watchers_of (watch_key d k c) k' =
  if String.eqb k' k then watchers_of d k ++ [c] else watchers_of d k'.
Proof.
  unfold watch_key, watchers_of at 1, db_set_watch; cbn [d_watch].
  destruct (String.eqb_spec k' k) as [->|Hne].
  - rewrite get_set_same by apply String.eqb_spec. reflexivity.
  - rewrite get_set_other by (auto; apply String.eqb_spec). reflexivity.
Qed.

Lemma watchers_unwatch d k c k' :
  watchers_of (unwatch_key d k c) k' =
  if String.eqb k' k then filter (fun x => negb (Nat.eqb x c)) (watchers_of d k) else watchers_of d k'.
Proof.
  unfold unwatch_key, watchers_of at 1, db_set_watch; cbn [d_watch].
  destruct (String.eqb_spec k' k) as [->|Hne].
  - rewrite get_set_same by apply String.eqb_spec. reflexivity.
  - rewrite get_set_other by (auto; apply String.eqb_spec). reflexivity.
Qed.

Lemma watchers_data d o k : watchers_of (db_apply' d o) k = watchers_of d k.
Proof. unfold watchers_of. now rewrite db_apply_watch. Qed.

(* a release at PcWatch adds exactly one occurrence of the session to that key's list and
   changes nothing else *)
Theorem watch_release n t dbn key d : sched_thr t ->
  t_pc t = PcWatch dbn key -> get_db n dbn = Some d ->
  let n' := fst (release n t) in
  exists d', get_db n' dbn = Some d' /\
    watchers_of d' key = watchers_of d key ++ [t_sid t] /\
    (forall k', k' <> key -> watchers_of d' k' = watchers_of d k') /\
    d_map d' = d_map d /\
    forall x, x <> dbn -> get_db n' x = get_db n x.
Proof.
  intros Hs Hpc Hdb. pose proof (release_effect n t Hs) as He.
  unfold step_op in He. rewrite Hpc, Hdb in He. cbn [lop_apply] in He. cbn zeta.
  exists (watch_key d key (t_sid t)). rewrite He, String.eqb_refl. split; auto.
  split; [now rewrite watchers_watch, String.eqb_refl|].
  split. { intros k' Hne. rewrite watchers_watch. now destruct (String.eqb_spec k' key). }
  split; [reflexivity|].
  intros x Hx. rewrite He. now destruct (String.eqb_spec x dbn).
Qed.

(* a release at PcUnwatch removes every occurrence of the session from that key's list and
   changes nothing else *)
Theorem unwatch_release n t dbn key d : sched_thr t ->
  t_pc t = PcUnwatch dbn key -> get_db n dbn = Some d ->
  let n' := fst (release n t) in
  exists d', get_db n' dbn = Some d' /\
    watchers_of d' key = filter (fun x => negb (Nat.eqb x (t_sid t))) (watchers_of d key) /\
    (forall k', k' <> key -> watchers_of d' k' = watchers_of d k') /\
    d_map d' = d_map d /\
    forall x, x <> dbn -> get_db n' x = get_db n x.
Proof.
  intros Hs Hpc Hdb. pose proof (release_effect n t Hs) as He.
  unfold step_op in He. rewrite Hpc, Hdb in He. cbn [lop_apply] in He. cbn zeta.
  exists (unwatch_key d key (t_sid t)). rewrite He, String.eqb_refl. split; auto.
  split; [now rewrite watchers_unwatch, String.eqb_refl|].
  split. { intros k' Hne. rewrite watchers_unwatch. now destruct (String.eqb_spec k' key). }
  split; [reflexivity|].
  intros x Hx. rewrite He. now destruct (String.eqb_spec x dbn).
Qed.

(* each step of the unwatch-all loop is an unwatch of the head key *)
Theorem unwatch_all_keys_release n t dbn key rest d : sched_thr t ->
  t_pc t = PcUnwatchAllKeys dbn (key :: rest) -> get_db n dbn = Some d ->
  let n' := fst (release n t) in
  exists d', get_db n' dbn = Some d' /\
    watchers_of d' key = filter (fun x => negb (Nat.eqb x (t_sid t))) (watchers_of d key) /\
    (forall k', k' <> key -> watchers_of d' k' = watchers_of d k') /\
    d_map d' = d_map d /\
    forall x, x <> dbn -> get_db n' x = get_db n x.
Proof.
  intros Hs Hpc Hdb. pose proof (release_effect n t Hs) as He.
  unfold step_op in He. rewrite Hpc, Hdb in He. cbn [lop_apply] in He. cbn zeta.
  exists (unwatch_key d key (t_sid t)). rewrite He, String.eqb_refl. split; auto.
  split; [now rewrite watchers_unwatch, String.eqb_refl|].
  split. { intros k' Hne. rewrite watchers_unwatch. now destruct (String.eqb_spec k' key). }
  split; [reflexivity|].
  intros x Hx. rewrite He. now destruct (String.eqb_spec x dbn).
Qed.

(* the loop's continuation *)
Lemma unwatch_all_keys_next n t dbn key k2 rest :
  t_pc t = PcUnwatchAllKeys dbn (key :: k2 :: rest) ->
  t_pc (snd (release n t)) = PcUnwatchAllKeys dbn (k2 :: rest) /\
  t_replies (snd (release n t)) = t_replies t.
Proof. intros Hpc. unfold release. rewrite Hpc. split; reflexivity. Qed.

(* releases that are not subscription steps (data, notify, reads, permission lookups,
   command starts) never change any watcher list *)
Theorem other_release_keeps_watch n t : sched_thr t ->
  match step_op n t with Some (_, LWatch _ _) | Some (_, LUnwatch _ _) => False | _ => True end ->
  forall x, option_map d_watch (get_db (fst (release n t)) x) = option_map d_watch (get_db n x).
Proof.
  intros Hs Hop x. pose proof (release_effect n t Hs) as He.
  destruct (step_op n t) as [[dbn l]|]; [|now rewrite (get_db_dbs _ _ x He)].
  destruct (get_db n dbn) as [d|] eqn:Hd; [|now rewrite (get_db_dbs _ _ x He)].
  rewrite He. destruct (String.eqb_spec x dbn) as [->|]; auto.
  rewrite Hd. destruct l; try contradiction. cbn [option_map lop_apply]. now rewrite db_apply_watch.
Qed.

(* the subscription count of session s on key k through one operation *)
Definition sub_step (s : nat) (k : str) (c : nat) (l : lop) : nat :=
  match l with
  | LWatch k' s' => if String.eqb k' k && Nat.eqb s' s then S c else c
  | LUnwatch k' s' => if String.eqb k' k && Nat.eqb s' s then O else c
  | LData _ => c
  end.

Lemma count_occ_filter_neq l s c :
  count_occ Nat.eq_dec (filter (fun x => negb (Nat.eqb x c)) l) s =
  if Nat.eqb c s then O else count_occ Nat.eq_dec l s.
Proof.
  induction l as [|x r IH]; cbn [filter count_occ].
  - now destruct (Nat.eqb c s).
  - destruct (Nat.eqb_spec x c) as [E|Hne]; cbn [negb count_occ].
    + subst x. rewrite IH. destruct (Nat.eqb_spec c s) as [E|Hcs]; auto.
      destruct (Nat.eq_dec c s); congruence.
    + destruct (Nat.eq_dec x s) as [E|Hxs]; rewrite IH.
      * subst x. destruct (Nat.eqb_spec c s); congruence.
      * reflexivity.
Qed.

Lemma lop_count d l k s :
  count_occ Nat.eq_dec (watchers_of (lop_apply d l) k) s =
  sub_step s k (count_occ Nat.eq_dec (watchers_of d k) s) l.
Proof.
  destruct l as [o|k' s'|k' s']; cbn [lop_apply sub_step].
  - now rewrite watchers_data.
  - rewrite watchers_watch, (String.eqb_sym k' k).
    destruct (String.eqb_spec k k') as [->|]; cbn [andb]; auto.
    rewrite count_occ_app. cbn [count_occ].
    destruct (Nat.eq_dec s' s) as [->|Hne].
    + rewrite Nat.eqb_refl. lia.
    + destruct (Nat.eqb_spec s' s); [congruence|]. lia.
  - rewrite watchers_unwatch, (String.eqb_sym k' k).
    destruct (String.eqb_spec k k') as [->|]; cbn [andb]; auto.
    apply count_occ_filter_neq.
Qed.

Lemma fold_lop_count k s ops : forall d,
  count_occ Nat.eq_dec (watchers_of (fold_left lop_apply ops d) k) s =
  fold_left (sub_step s k) ops (count_occ Nat.eq_dec (watchers_of d k) s).
Proof.
  induction ops as [|l r IH]; intros d; cbn [fold_left]; auto.
  now rewrite IH, lop_count.
Qed.

(* the operations a thread logs carry its own session id *)
Lemma step_op_sid n t dbn l :
  step_op n t = Some (dbn, l) ->
  match l with LWatch _ s | LUnwatch _ s => s = t_sid t | LData _ => True end.
Proof.
  unfold step_op. destruct (t_pc t); try discriminate; try (intros [= <- <-]; auto).
  destruct keys; try discriminate. intros [= <- <-]. auto.
Qed.

(* invariant form: releases of other sessions never change the number of subscriptions
   of session s on any key of any database *)
Theorem other_session_release n t s : sched_thr t -> t_sid t <> s ->
  forall dbn d k, get_db n dbn = Some d ->
  exists d', get_db (fst (release n t)) dbn = Some d' /\
    count_occ Nat.eq_dec (watchers_of d' k) s = count_occ Nat.eq_dec (watchers_of d k) s.
Proof.
  intros Hs Hne dbn d k Hd. pose proof (release_effect n t Hs) as He.
  destruct (step_op n t) as [[dbn0 l]|] eqn:Hop.
  2:{ exists d. rewrite (get_db_dbs _ _ dbn He). auto. }
  destruct (get_db n dbn0) as [d0|] eqn:Hd0.
  2:{ exists d. rewrite (get_db_dbs _ _ dbn He). auto. }
  rewrite He. destruct (String.eqb_spec dbn dbn0) as [->|]; [|exists d; auto].
  exists (lop_apply d0 l). split; auto. rewrite Hd0 in Hd. injection Hd as ->.
  rewrite lop_count. pose proof (step_op_sid _ _ _ _ Hop) as Hsid.
  destruct l as [o|k' s'|k' s']; cbn [sub_step]; auto; subst s';
    destruct (Nat.eqb_spec (t_sid t) s); try congruence; now rewrite andb_false_r.
Qed.

(* no lost subscription: for ANY schedule, the number of subscriptions of session s on key
   k of dbn afterwards is obtained from the number before by replaying the log: every
   watch of s on k adds one, every unwatch / unwatch-all step of s on k resets to zero,
   and nothing else (in particular no operation of another session) changes it *)
Theorem no_lost_subscription n ts sched dbn d k s : Forall sched_thr ts ->
  get_db n dbn = Some d ->
  exists d', get_db (fst (run_schedule n ts sched)) dbn = Some d' /\
    count_occ Nat.eq_dec (watchers_of d' k) s =
    fold_left (sub_step s k) (ops_on dbn (full_log n ts sched)) (count_occ Nat.eq_dec (watchers_of d k) s).
Proof.
  intros Hs Hd. rewrite schedule_full, Hd by auto. cbn [option_map].
  eexists. split; [reflexivity|]. apply fold_lop_count.
Qed.

(* the replay in closed form: watches of s on k after its last unwatch step on k *)
Definition is_unwatch_of (s : nat) (k : str) (l : lop) : bool :=
  match l with LUnwatch k' s' => String.eqb k' k && Nat.eqb s' s | _ => false end.
Definition is_watch_of (s : nat) (k : str) (l : lop) : bool :=
  match l with LWatch k' s' => String.eqb k' k && Nat.eqb s' s | _ => false end.

Definition watch_count (s : nat) (k : str) (ops : list lop) : nat :=
  List.length (filter (is_watch_of s k) ops).

Lemma subs_no_unwatch s k ops : forall c,
  (forall l, In l ops -> is_unwatch_of s k l = false) ->
  fold_left (sub_step s k) ops c = (c + watch_count s k ops)%nat.
Proof.
  unfold watch_count. induction ops as [|l r IH]; intros c H; cbn [fold_left filter List.length]; [lia|].
  rewrite IH by (intros; apply H; now right).
  specialize (H l (or_introl eq_refl)).
  destruct l as [o|k' s'|k' s']; cbn [sub_step is_watch_of is_unwatch_of] in *; try lia.
  - destruct (_ && _); cbn [List.length]; lia.
  - rewrite H. lia.
Qed.

Lemma subs_after_unwatch s k a l b c :
  is_unwatch_of s k l = true -> (forall x, In x b -> is_unwatch_of s k x = false) ->
  fold_left (sub_step s k) (a ++ l :: b) c = watch_count s k b.
Proof.
  intros Hl Hb. rewrite fold_left_app. cbn [fold_left].
  rewrite subs_no_unwatch by exact Hb.
  destruct l; try discriminate. cbn [sub_step is_unwatch_of] in *. rewrite Hl. lia.
Qed.

(* no lost subscription, closed form: with the operations on dbn split at the last unwatch
   step of session s on key k, the session ends with exactly as many subscriptions as it
   completed watch steps on k after that point (or: before + its watch steps, if it never
   unwatched) *)
Theorem no_lost_subscription_closed n ts sched dbn d k s : Forall sched_thr ts ->
  get_db n dbn = Some d ->
  let ops := ops_on dbn (full_log n ts sched) in
  exists d', get_db (fst (run_schedule n ts sched)) dbn = Some d' /\
    ((forall l, In l ops -> is_unwatch_of s k l = false) ->
       count_occ Nat.eq_dec (watchers_of d' k) s =
       (count_occ Nat.eq_dec (watchers_of d k) s + watch_count s k ops)%nat) /\
    (forall a l b, ops = a ++ l :: b -> is_unwatch_of s k l = true ->
       (forall x, In x b -> is_unwatch_of s k x = false) ->
       count_occ Nat.eq_dec (watchers_of d' k) s = watch_count s k b).
Proof.
  intros Hs Hd. cbn zeta.
  destruct (no_lost_subscription n ts sched dbn d k s Hs Hd) as (d' & Hd' & Hc).
  exists d'. split; auto. split.
  - intros H. rewrite Hc. now apply subs_no_unwatch.
  - intros a l b E Hl Hb. rewrite Hc, E. now apply subs_after_unwatch.
Qed.

(* ====================================================================== *)
(* 6. C19: strategy newer                                                   *)
(* ====================================================================== *)

(* a resolving change is accepted whatever version it carries, as long as the stored value
   is not in conflict and its version is below i32::MAX *)
Lemma resolving_set_succeeds d k v ver id :
  (forall old, get_value d k = Some old -> v_ver old <> -2 /\ v_ver old < i32_max) ->
  exists d1 msgs nw, set_value d (mkCh k v ver id true) = (d1, RSet k v, msgs) /\
    get_value d1 k = Some nw /\ v_val nw = v /\ v_opp nw = id /\
    (forall old, get_value d k = Some old -> ver <> -2 -> v_ver nw = v_ver old + 1).
Proof.
  intros Hold. destruct (get_value d k) as [old|] eqn:Hg.
  - destruct (Hold old eq_refl) as [Ho Hm].
    rewrite (set_value_present d (mkCh k v ver id true) old Hg). cbn [c_key c_val c_ver c_opp].
    assert (Hc : Z.leb (next_version (mkCh k v ver id true) old) (v_ver old) && negb (Z.eqb ver (-2)) = false).
    { unfold next_version, in_conflict. cbn [c_ver c_resolve].
      destruct (Z.eqb_spec ver (-2)); [now rewrite andb_false_r|].
      destruct (Z.eqb_spec (v_ver old) (-2)); [contradiction|].
      rewrite andb_true_r. apply Z.leb_gt. now apply sat_succ_gt. }
    rewrite Hc. eexists _, _, _. split; [reflexivity|]. rewrite gv_put_same.
    split; [reflexivity|]. cbn [v_val v_opp v_ver]. repeat split.
    intros o [= <-] Hv. unfold next_version, in_conflict. cbn [c_ver c_resolve].
    destruct (Z.eqb_spec ver (-2)); [contradiction|].
    destruct (Z.eqb_spec (v_ver old) (-2)); [contradiction|].
    unfold sat_succ. destruct (Z.ltb_spec (v_ver old) i32_max); lia.
  - unfold set_value. cbn [c_key]. rewrite Hg. cbn [c_val c_ver c_opp].
    eexists _, _, _. split; [reflexivity|]. rewrite gv_put_same.
    split; [reflexivity|]. cbn [v_val v_opp]. repeat split. discriminate.
Qed.

(* the three outcomes of a write release on a newer database: none of them is a refusal *)
Theorem newer_set_release n t dbn key value ver opp rs orig d :
  t_pc t = PcSetWrite dbn key value ver opp rs orig -> get_db n dbn = Some d ->
  d_strat d = SNewer -> sel_ok n (t_sid t) = true ->
  let ch := mkCh key value ver opp rs in
  let n' := fst (release n t) in
  let t' := snd (release n t) in
  (* the write was applied; the thread parks before the notification *)
  (snd (fst (set_value d ch)) = RSet key value /\
   n' = put_db n dbn (fst (fst (set_value d ch))) /\
   t_pc t' = PcNotify dbn key value (cur_ver (fst (fst (set_value d ch))) key) (RqSet key value orig) /\
   t_replies t' = t_replies t) \/
  (* the stored change is older: the write will be re-applied as a resolving change *)
  (exists old, get_value d key = Some old /\ (v_opp old < opp)%N /\
     n_dbs n' = n_dbs n /\
     t_pc t' = PcSetWrite dbn key value (v_ver old) (n_clock n) true orig /\
     t_replies t' = t_replies t) \/
  (* the stored change is newer: it is kept and the command is answered OK *)
  (exists old, get_value d key = Some old /\ (opp <= v_opp old)%N /\
     n_dbs n' = n_dbs n /\
     t_replies t' = t_replies t ++ [ROk] /\ at_boundary t').
Proof.
  intros Hpc Hdb Hs Hsel. cbn zeta.
  destruct (set_value_cases d (mkCh key value ver opp rs)) as [(d1 & msgs & E) | (old & Hg & E)].
  - left. rewrite E. cbn [fst snd c_key c_val] in *.
    rewrite (release_set_ok _ _ _ _ _ _ _ _ _ _ _ _ Hpc Hdb E). cbn [fst snd]. auto.
  - right. cbn [c_key c_ver] in *. unfold release. rewrite Hpc, Hdb, E, Hs.
    destruct (N.ltb_spec (v_opp old) opp) as [Hlt|Hge].
    + left. exists old. unfold tick. cbn [fst snd]. repeat split; auto.
    + right. exists old. rewrite complete_snd, complete_fst, dbs_replicate_request, finish_replies.
      repeat split; auto using finish_boundary.
      * destruct (is_primary n); reflexivity.
      * f_equal. f_equal. apply replicate_ok_class; cbn; auto.
        destruct (is_primary n); reflexivity.
Qed.

(* the re-applied (resolving) write is accepted: the thread parks before the notification
   with the write in the map *)
Theorem newer_resolving_release n t dbn key value ver opp orig d :
  t_pc t = PcSetWrite dbn key value ver opp true orig -> get_db n dbn = Some d ->
  (forall old, get_value d key = Some old -> v_ver old <> -2 /\ v_ver old < i32_max) ->
  exists d1 nw nv,
    release n t = (put_db n dbn d1, park t (PcNotify dbn key value nv (RqSet key value orig)) "watchers.read") /\
    d1 = db_apply' d (DSet' key value ver opp true) /\
    get_value d1 key = Some nw /\ v_val nw = value /\ v_opp nw = opp /\ nv = v_ver nw.
Proof.
  intros Hpc Hdb Hold.
  destruct (resolving_set_succeeds d key value ver opp Hold) as (d1 & msgs & nw & E & Hg & Hv & Ho & _).
  exists d1, nw, (v_ver nw).
  rewrite (release_set_ok _ _ _ _ _ _ _ _ _ _ _ _ Hpc Hdb E). unfold cur_ver. rewrite Hg.
  repeat split; auto. cbn [db_apply']. now rewrite E.
Qed.

(* hence: on a newer database every set / set-safe ends with ROk in every interleaving --
   the last release of the command is either the third case above or the notify release *)
Corollary newer_set_answered n t dbn key value ver opp rs orig d :
  t_pc t = PcSetWrite dbn key value ver opp rs orig -> get_db n dbn = Some d ->
  d_strat d = SNewer -> sel_ok n (t_sid t) = true ->
  let t' := snd (release n t) in
  (t_replies t' = t_replies t /\
   ((exists nv, t_pc t' = PcNotify dbn key value nv (RqSet key value orig)) \/
    (exists v i, t_pc t' = PcSetWrite dbn key value v i true orig))) \/
  (t_replies t' = t_replies t ++ [ROk] /\ at_boundary t').
Proof.
  intros Hpc Hdb Hs Hsel.
  destruct (newer_set_release n t dbn key value ver opp rs orig d Hpc Hdb Hs Hsel)
    as [(_ & _ & Hp & Hr) | [(old & _ & _ & _ & Hp & Hr) | (old & _ & _ & _ & Hr & Hb)]]; cbn zeta.
  - left. split; auto. left. eauto.
  - left. split; auto. right. eauto.
  - right. auto.
Qed.

(* ---- versions never decrease ------------------------------------------------- *)
Definition dop_ver_ok' (o : dop') : Prop :=
  match o with DSet' _ _ ver _ _ => ver <> -2 | _ => True end.

Lemma version_step' d k old o nw :
  dop_ver_ok' o -> get_value d k = Some old -> get_value (db_apply' d o) k = Some nw ->
  v_ver old <= i32_max -> v_ver old <= v_ver nw.
Proof.
  destruct o as [k0 v ver opp rs | k0 | k0 i opp]; cbn [dop_ver_ok' db_apply']; intros Hok Hg Hn Hmx.
  - now destruct (set_step d (mkCh k0 v ver opp rs) k old nw Hok Hg Hn).
  - now destruct (remove_step d k0 k old nw Hg Hn Hmx).
  - now destruct (inc_step d k0 i opp k old nw Hg Hn Hmx).
Qed.

Lemma next_version_le_max' ch old :
  c_ver ch <> -2 -> v_ver old <= i32_max -> next_version ch old <= i32_max.
Proof.
  intros Hv Hm. unfold next_version, in_conflict.
  destruct (Z.eqb_spec (c_ver ch) (-2)); [contradiction|].
  destruct (c_resolve ch); [apply sat_succ_le_max|].
  destruct (Z.eqb (v_ver old) (-2)); auto.
  destruct (Z.eqb (c_ver ch) (-1)); apply sat_succ_le_max.
Qed.

Lemma version_bound_step' d k old o nw :
  dop_ver_ok' o -> get_value d k = Some old -> v_ver old <= i32_max ->
  get_value (db_apply' d o) k = Some nw -> v_ver nw <= i32_max.
Proof.
  intros Hok Hg Hm. destruct (String.eqb_spec k (dop_key' o)) as [->|Hne].
  2:{ rewrite db_apply'_other by auto. rewrite Hg. now intros [= <-]. }
  destruct o as [k0 v ver opp rs | k0 | k0 i opp]; cbn [db_apply' dop_key' dop_ver_ok'] in *.
  - rewrite (set_value_present d (mkCh k0 v ver opp rs) old Hg). cbn [c_key].
    destruct (_ && _); cbn [fst].
    + rewrite Hg. now intros [= <-].
    + rewrite gv_put_same. intros [= <-]. cbn [v_ver]. now apply next_version_le_max'.
  - apply (version_bound_step d k0 old (DRemove k0) nw Hg Hm).
  - apply (version_bound_step d k0 old (DInc k0 i opp) nw Hg Hm).
Qed.

(* side conditions of a run on key k: no operation carries version -2, and the key stays in
   the map *)
Fixpoint run_ok' (k : str) (d : db) (ops : list dop') : Prop :=
  match ops with
  | [] => True
  | o :: r => dop_ver_ok' o /\ get_value (db_apply' d o) k <> None /\ run_ok' k (db_apply' d o) r
  end.

Lemma versions_monotone_seq' k ops : forall d old,
  run_ok' k d ops -> get_value d k = Some old -> v_ver old <= i32_max ->
  exists nw, get_value (fold_left db_apply' ops d) k = Some nw /\ v_ver old <= v_ver nw.
Proof.
  induction ops as [|o r IH]; cbn [fold_left run_ok']; intros d old Hr Hg Hmx.
  - exists old. split; auto. lia.
  - destruct Hr as (Hok & Hp & Hr).
    destruct (get_value (db_apply' d o) k) as [mid|] eqn:Hm; [|congruence].
    destruct (IH _ _ Hr Hm (version_bound_step' _ _ _ _ _ Hok Hg Hmx Hm)) as (nw & Hn & Hle).
    exists nw. split; auto.
    pose proof (version_step' _ _ _ _ _ Hok Hg Hm Hmx). lia.
Qed.

Lemma run_ok'_congr k ops : forall d d', d_map d = d_map d' -> run_ok' k d ops -> run_ok' k d' ops.
Proof.
  induction ops as [|o r IH]; cbn [run_ok']; intros d d' H Hr; auto.
  destruct Hr as (H1 & H2 & H3).
  pose proof (db_apply_map_congr d d' o H) as Hm.
  split; auto. split.
  - now rewrite <- (get_value_map _ _ k Hm).
  - eapply IH; eauto.
Qed.

(* across ANY schedule the version of a key never decreases (any strategy, resolving
   changes included) *)
Theorem newer_version_grows n ts sched dbn d k old : Forall sched_thr ts ->
  get_db n dbn = Some d -> get_value d k = Some old -> v_ver old <= i32_max ->
  run_ok' k d (ops_on dbn (data_log n ts sched)) ->
  exists d' nw, get_db (fst (run_schedule n ts sched)) dbn = Some d' /\
    get_value d' k = Some nw /\ v_ver old <= v_ver nw.
Proof.
  intros Hs Hd Hg Hm Hr.
  pose proof (schedule_data n ts sched dbn Hs) as Hsd. rewrite Hd in Hsd. cbn [option_map] in Hsd.
  destruct (get_db (fst (run_schedule n ts sched)) dbn) as [d'|]; [|discriminate].
  cbn [option_map] in Hsd. injection Hsd as Hsd.
  destruct (versions_monotone_seq' k _ d old Hr Hg Hm) as (nw & Hn & Hle).
  exists d', nw. split; auto. split; auto. now rewrite (get_value_map _ _ k Hsd).
Qed.

(* ====================================================================== *)
(* 7. databases that are not "newer": the log consists of plain operations  *)
(*    (DbProofs.dop / db_apply)                                             *)
(* ====================================================================== *)

(* a thread is parked at a resolving write only on a newer database *)
Definition res_inv (n : node) (t : thr) : Prop :=
  match t_pc t with
  | PcSetWrite dbn _ _ _ _ true _ => option_map d_strat (get_db n dbn) = Some SNewer
  | _ => True
  end.

Lemma after_guard_res n t rq dbn a b c d e f :
  t_pc (snd (after_guard n t rq dbn)) = PcSetWrite a b c d e true f ->
  t_pc t = PcSetWrite a b c d e true f.
Proof.
  unfold after_guard, tick. destruct rq; cbn [snd park t_pc]; auto; try discriminate.
  - destruct (String.eqb _ _); cbn [snd park t_pc]; try discriminate.
    rewrite complete_snd. intros H. destruct (finish_boundary t (snd (replicate_request n (RqRemove key)
      (s_db (get_sess n (t_sid t))) (RError "$$token key cannot be removed")))) as [E|E];
      rewrite E in H; discriminate.
  - destruct (is_primary n); cbn [snd park t_pc]; try discriminate.
    rewrite complete_snd. intros H.
    match type of H with t_pc (finish ?t ?r) = _ => destruct (finish_boundary t r) as [E|E] end;
      rewrite E in H; discriminate.
Qed.

Lemma finish_not_write t r a b c d e g f : t_pc (finish t r) <> PcSetWrite a b c d e g f.
Proof. destruct (finish_boundary t r) as [E|E]; rewrite E; discriminate. Qed.

Lemma complete_not_write n t rq s r a b c d e g f :
  t_pc (snd (complete n t rq s r)) <> PcSetWrite a b c d e g f.
Proof. rewrite complete_snd. apply finish_not_write. Qed.

Lemma start_cmd_res n t a b c d e f :
  t_pc t = PcCmd -> t_pc (snd (start_cmd n t)) <> PcSetWrite a b c d e true f.
Proof.
  intros Hpc. unfold start_cmd. destruct (t_prog t) as [|line rest]; [cbn; discriminate|].
  assert (H0 : t_pc (mkThr (t_sid t) rest (t_pc t) (t_replies t) (t_trace t) (t_hints t)) = PcCmd) by exact Hpc.
  revert H0. generalize (mkThr (t_sid t) rest (t_pc t) (t_replies t) (t_trace t) (t_hints t)). intros t0 H0.
  repeat brk; cbn [snd park t_pc];
    try discriminate; try apply finish_not_write; try apply complete_not_write.
  intros H. apply after_guard_res in H. congruence.
Qed.

(* the use-db continuations never park at a write *)
Lemma start_publish_not_write n t dbn k a b c d e g f :
  t_pc t <> PcSetWrite a b c d e g f -> t_pc (snd (start_publish n t dbn k)) <> PcSetWrite a b c d e g f.
Proof.
  intros H. unfold start_publish, tick. destruct (get_db n dbn); cbn [snd park t_pc]; auto. discriminate.
Qed.

Lemma use_inc_not_write n t name user rq a b c d e g f :
  t_pc t <> PcSetWrite a b c d e g f -> t_pc (snd (use_inc n t name user rq)) <> PcSetWrite a b c d e g f.
Proof.
  intros H. unfold use_inc. destruct (get_db _ name); cbn [snd].
  - now apply start_publish_not_write.
  - apply finish_not_write.
Qed.

Lemma after_publish_not_write n t k a b c d e g f :
  t_pc t <> PcSetWrite a b c d e g f -> t_pc (snd (after_publish n t k)) <> PcSetWrite a b c d e g f.
Proof.
  intros H. unfold after_publish. destruct k; [now apply use_inc_not_write|].
  destruct (replicate_request _ _ _ _). cbn [snd]. apply finish_not_write.
Qed.

(* where a resolving write comes from *)
Lemma release_resolving n t a b c d e f :
  t_pc (snd (release n t)) = PcSetWrite a b c d e true f ->
  exists db0, get_db n a = Some db0 /\ d_strat db0 = SNewer.
Proof.
  unfold release. destruct (t_pc t) eqn:Hpc.
  - intros H. now apply start_cmd_res in H.
  - destruct (key_of rq) as [[key kind]|]; [|cbn [snd]; congruence].
    destruct (guard_safe _ _ _ _); [|intros H; now apply complete_not_write in H].
    intros H. apply after_guard_res in H. congruence.
  - destruct (get_db n dbn) as [d0|] eqn:Hdb; [|intros H; now apply complete_not_write in H].
    destruct (set_value d0 _) as [[d1 r] msgs].
    destruct r; try (intros H; now apply complete_not_write in H); [cbn [snd park t_pc]; discriminate|].
    destruct (d_strat d0) eqn:Hs; try (intros H; now apply complete_not_write in H).
    destruct (N.ltb _ _); [|intros H; now apply complete_not_write in H].
    unfold tick. cbn [snd park t_pc]. intros [= <- _ _ _ _ _]. eauto.
  - destruct rq; intros H; now apply complete_not_write in H.
  - destruct (get_db n dbn); [destruct (get_key_value_new _ _)|]; intros H; now apply complete_not_write in H.
  - destruct (get_db n dbn); [destruct (remove_value _ _) as [[? ?] ?]; cbn [snd park t_pc]; discriminate|].
    intros H; now apply complete_not_write in H.
  - intros H; now apply complete_not_write in H.
  - destruct (get_db n dbn); [|intros H; now apply complete_not_write in H].
    destruct (tick n). destruct (inc_value _ _ _ _) as [[? r] ?].
    destruct r; try (intros H; now apply complete_not_write in H). cbn [snd park t_pc]; discriminate.
  - destruct (get_db n dbn); intros H; now apply complete_not_write in H.
  - destruct (get_db n dbn); intros H; now apply complete_not_write in H.
  - destruct (get_db n dbn); [|intros H; now apply complete_not_write in H].
    destruct (t_hints t); destruct (reorder _ _); try (intros H; now apply complete_not_write in H);
      cbn [snd park t_pc]; discriminate.
  - destruct keys as [|k rest]; [intros H; now apply complete_not_write in H|].
    destruct rest; [intros H; now apply complete_not_write in H|]. cbn [snd park t_pc]; discriminate.
  - destruct (get_db n dbn); intros H; now apply complete_not_write in H.
  - (* PcUseTok *)
    assert (Hnw : t_pc t <> PcSetWrite a b c d e true f) by (rewrite Hpc; discriminate).
    destruct (get_db n name); [|intros H; now apply complete_not_write in H].
    destruct (negb _); [intros H; now apply complete_not_write in H|].
    destruct (s_db _) as [prev|]; [destruct (get_db n prev)|]; intros H; exfalso; revert H;
      first [exact (start_publish_not_write _ _ _ _ _ _ _ _ _ _ _ Hnw)
            | exact (use_inc_not_write _ _ _ _ _ _ _ _ _ _ _ _ Hnw)].
  - (* PcPub *)
    assert (Hnw : t_pc t <> PcSetWrite a b c d e true f) by (rewrite Hpc; discriminate).
    destruct (get_db n dbn); [|intros H; exfalso; revert H; exact (after_publish_not_write _ _ _ _ _ _ _ _ _ _ Hnw)].
    destruct (set_value _ _) as [[? ?] ?]. cbn [snd park t_pc]. discriminate.
  - (* PcPubNotify *)
    assert (Hnw : t_pc t <> PcSetWrite a b c d e true f) by (rewrite Hpc; discriminate).
    destruct (get_db n dbn); [|intros H; exfalso; revert H; exact (after_publish_not_write _ _ _ _ _ _ _ _ _ _ Hnw)].
    destruct (Z.eqb _ _); intros H; exfalso; revert H;
      first [exact (start_publish_not_write _ _ _ _ _ _ _ _ _ _ _ Hnw)
            | exact (after_publish_not_write _ _ _ _ _ _ _ _ _ _ Hnw)].
  - cbn [snd]. congruence.
Qed.

(* no release changes the strategy of a database, and databases are never dropped *)
Lemma release_strat n t : sched_thr t ->
  forall x, option_map d_strat (get_db (fst (release n t)) x) = option_map d_strat (get_db n x).
Proof.
  intros Hs x. pose proof (release_effect n t Hs) as He.
  destruct (step_op n t) as [[dbn l]|]; [|now rewrite (get_db_dbs _ _ x He)].
  destruct (get_db n dbn) as [d|] eqn:Hd; [|now rewrite (get_db_dbs _ _ x He)].
  rewrite He. destruct (String.eqb_spec x dbn) as [->|]; auto.
  rewrite Hd. cbn [option_map]. now rewrite lop_apply_strat.
Qed.

Lemma res_inv_strat n n' t :
  (forall x, option_map d_strat (get_db n' x) = option_map d_strat (get_db n x)) ->
  res_inv n t -> res_inv n' t.
Proof.
  unfold res_inv. intros H. destruct (t_pc t); auto. destruct resolving; auto. now rewrite H.
Qed.

Lemma release_res_inv n t : sched_thr t -> res_inv (fst (release n t)) (snd (release n t)).
Proof.
  intros Hs. unfold res_inv. destruct (t_pc (snd (release n t))) eqn:E; auto.
  destruct resolving; auto.
  destruct (release_resolving _ _ _ _ _ _ _ _ E) as (d0 & Hd & Hst).
  rewrite release_strat, Hd by auto. cbn. now rewrite Hst.
Qed.

Lemma release_nth_res_inv n ts i : Forall sched_thr ts -> Forall (res_inv n) ts ->
  Forall (res_inv (fst (release_nth n ts i))) (snd (release_nth n ts i)).
Proof.
  intros Hs Hr. unfold release_nth. destruct (nth_error ts i) as [t|] eqn:E; auto.
  destruct (is_done t); auto.
  pose proof (nth_error_Forall _ _ _ _ Hs E) as Ht.
  pose proof (release_res_inv n t Ht) as H1. pose proof (release_strat n t Ht) as H2.
  destruct (release n t) as [n1 t1]. cbn [fst snd] in *.
  apply Forall_list_update; auto.
  eapply Forall_impl; [|exact Hr]. intros a. now apply res_inv_strat.
Qed.

Lemma new_thread_res_inv n sid prog hints : res_inv n (new_thread sid prog hints).
Proof. unfold res_inv, new_thread. destruct prog; exact I. Qed.

(* on a database that is not newer every logged data operation is plain *)
Lemma step_log_plain n ts i dbn d : Forall (res_inv n) ts ->
  get_db n dbn = Some d -> d_strat d <> SNewer ->
  Forall plain (ops_on dbn (data_of (step_log n ts i))).
Proof.
  intros Hr Hd Hst. unfold step_log. destruct (nth_error ts i) as [t|] eqn:E; [|constructor].
  pose proof (nth_error_Forall _ _ _ _ Hr E) as Ht. unfold res_inv in Ht.
  unfold step_op. destruct (t_pc t); try constructor; unfold ops_on; cbn [data_of flat_map snd fst app filter].
  - destruct (String.eqb_spec dbn0 dbn) as [->|]; cbn [map snd]; constructor; auto.
    cbn [plain]. destruct resolving; auto. rewrite Hd in Ht. cbn in Ht. congruence.
  - destruct (String.eqb dbn0 dbn); cbn [map snd]; repeat constructor.
  - destruct (String.eqb dbn0 dbn); cbn [map snd]; repeat constructor.
  - destruct keys; cbn; constructor.
Qed.

Lemma data_log_plain sched : forall n ts dbn d,
  Forall sched_thr ts -> Forall (res_inv n) ts ->
  get_db n dbn = Some d -> d_strat d <> SNewer ->
  Forall plain (ops_on dbn (data_log n ts sched)).
Proof.
  unfold data_log.
  induction sched as [|i r IH]; intros n ts dbn d Hs Hr Hd Hst; cbn [full_log]; [constructor|].
  rewrite data_of_app, ops_on_app. apply Forall_app. split; [eapply step_log_plain; eauto|].
  pose proof (release_nth_effect n ts i dbn Hs) as He. rewrite Hd in He. cbn [option_map] in He.
  eapply IH; eauto using release_nth_sched, release_nth_res_inv.
  rewrite fold_lop_strat. exact Hst.
Qed.

Lemma fold_plain ops : forall d, Forall plain ops ->
  fold_left db_apply' ops d = fold_left db_apply (map to_dop ops) d.
Proof.
  induction ops as [|o r IH]; intros d H; cbn [fold_left map]; auto.
  inversion H; subst. rewrite db_apply_to_dop by auto. now apply IH.
Qed.

(* item 2 with the operations of DbProofs: threads that start at a command boundary (or
   anywhere but a resolving write), a database whose strategy is not newer *)
Theorem schedule_data_plain n ts sched dbn d :
  Forall sched_thr ts -> Forall (res_inv n) ts ->
  get_db n dbn = Some d -> d_strat d <> SNewer ->
  exists d', get_db (fst (run_schedule n ts sched)) dbn = Some d' /\
    d_map d' = d_map (fold_left db_apply (map to_dop (ops_on dbn (data_log n ts sched))) d).
Proof.
  intros Hs Hr Hd Hst.
  pose proof (schedule_data n ts sched dbn Hs) as Hsd. rewrite Hd in Hsd. cbn [option_map] in Hsd.
  destruct (get_db (fst (run_schedule n ts sched)) dbn) as [d'|]; [|discriminate].
  cbn [option_map] in Hsd. injection Hsd as Hsd. exists d'. split; auto.
  rewrite Hsd. f_equal. apply fold_plain. eapply data_log_plain; eauto.
Qed.

(* ====================================================================== *)
(* 8. versions: from a condition on the programs to the condition on the log *)
(* ====================================================================== *)

Definition rq_vok (rq : request) : Prop := match rq with RqSet _ _ ver => -1 <= ver | _ => True end.
Definition pc_vok (p : pc) : Prop :=
  match p with
  | PcSetWrite _ _ _ ver _ _ _ => -1 <= ver
  | PcPerm rq => rq_vok rq
  | _ => True
  end.
(* every versioned write of the program carries a version >= -1 *)
Definition line_vok (l : str) : Prop :=
  match parse_request (trim_char nl l) with POk rq => rq_vok rq | _ => True end.
Definition vers_thr (t : thr) : Prop := pc_vok (t_pc t) /\ Forall line_vok (t_prog t).
Definition db_vok (d : db) : Prop := forall k v, get_value d k = Some v -> -1 <= v_ver v.
Definition node_vok (n : node) : Prop := forall x d, get_db n x = Some d -> db_vok d.
Definition lop_vok (l : lop) : Prop :=
  match l with LData (DSet' _ _ ver _ _) => -1 <= ver | _ => True end.

Lemma sat_succ_ge_m1 z : -1 <= z -> -1 <= sat_succ z.
Proof. unfold sat_succ, i32_max. destruct (Z.ltb z 2147483647); lia. Qed.

Lemma next_version_vok ch old : -1 <= c_ver ch -> -1 <= v_ver old -> -1 <= next_version ch old.
Proof.
  intros Hc Ho. unfold next_version, in_conflict.
  destruct (Z.eqb_spec (c_ver ch) (-2)); [lia|].
  destruct (Z.eqb_spec (v_ver old) (-2)); [lia|].
  destruct (c_resolve ch); [now apply sat_succ_ge_m1|].
  destruct (Z.eqb (c_ver ch) (-1)); now apply sat_succ_ge_m1.
Qed.

Lemma lop_apply_vok d l : db_vok d -> lop_vok l -> db_vok (lop_apply d l).
Proof.
  intros Hd Hl. destruct l as [o|k s|k s]; [|exact Hd|exact Hd].
  intros k' v'. destruct (String.eqb_spec k' (dop_key' o)) as [->|Hne].
  2:{ cbn [lop_apply]. rewrite db_apply'_other by auto. apply Hd. }
  destruct o as [k v ver opp rs | k | k i opp]; cbn [lop_apply db_apply' dop_key' lop_vok] in *.
  - unfold set_value. cbn [c_key]. destruct (get_value d k) as [old|] eqn:Hg.
    + destruct (_ && _); cbn [fst].
      * apply Hd.
      * rewrite gv_put_same. intros [= <-]. cbn [v_ver].
        apply next_version_vok; cbn [c_ver]; auto. eapply Hd; eauto.
    + cbn [fst]. rewrite gv_put_same. intros [= <-]. cbn [v_ver c_ver]. now apply sat_succ_ge_m1.
  - unfold remove_value. destruct (String.eqb k "$$token"); cbn [fst]; [apply Hd|].
    destruct (get_value d k) as [old|] eqn:Hg; [|apply Hd].
    destruct (v_st old);
      try (rewrite gv_put_same; intros [= <-]; cbn [v_ver]; apply sat_succ_ge_m1; eapply Hd; eauto).
    rewrite gv_del_same. discriminate.
  - unfold inc_value. destruct (parse_i32 _); cbn [fst]; [|apply Hd].
    destruct (_ && _); cbn [fst]; [|apply Hd].
    rewrite gv_put_same. intros [= <-].
    destruct (get_value d k) as [old|] eqn:Hg; cbn [v_ver]; [|lia].
    apply sat_succ_ge_m1. eapply Hd; eauto.
Qed.

Lemma step_op_vok n t dbn l : pc_vok (t_pc t) -> step_op n t = Some (dbn, l) -> lop_vok l.
Proof.
  unfold step_op, pc_vok. destruct (t_pc t); try discriminate; try (intros H [= <- <-]; cbn; auto).
  destruct keys; try discriminate. intros _ [= <- <-]. exact I.
Qed.

Lemma release_node_vok n t : sched_thr t -> pc_vok (t_pc t) -> node_vok n -> node_vok (fst (release n t)).
Proof.
  intros Hs Hp Hn x d'. pose proof (release_effect n t Hs) as He.
  destruct (step_op n t) as [[dbn l]|] eqn:Hop; [|rewrite (get_db_dbs _ _ x He); apply Hn].
  destruct (get_db n dbn) as [d|] eqn:Hd; [|rewrite (get_db_dbs _ _ x He); apply Hn].
  rewrite He. destruct (String.eqb_spec x dbn) as [->|]; [|apply Hn].
  intros [= <-]. apply lop_apply_vok; eauto using step_op_vok.
Qed.

Lemma boundary_vok t : at_boundary t -> pc_vok (t_pc t).
Proof. intros [E|E]; rewrite E; exact I. Qed.

Lemma finish_vok t r : pc_vok (t_pc (finish t r)).
Proof. apply boundary_vok, finish_boundary. Qed.

Lemma complete_vok n t rq s r : pc_vok (t_pc (snd (complete n t rq s r))).
Proof. rewrite complete_snd. apply finish_vok. Qed.

Lemma after_guard_vok n t rq dbn :
  rq_vok rq -> pc_vok (t_pc t) -> pc_vok (t_pc (snd (after_guard n t rq dbn))).
Proof.
  intros Hr Hp. unfold after_guard, tick. destruct rq; cbn [snd park t_pc pc_vok]; auto.
  - destruct (String.eqb _ _); [apply complete_vok | exact I].
  - destruct (is_primary n); [exact I | apply complete_vok].
Qed.

Lemma start_cmd_vok n t :
  pc_vok (t_pc t) -> Forall line_vok (t_prog t) -> pc_vok (t_pc (snd (start_cmd n t))).
Proof.
  intros Hp Hl. unfold start_cmd. destruct (t_prog t) as [|line rest]; [exact I|].
  inversion Hl as [|? ? H1 _]; subst. unfold line_vok in H1.
  assert (H0 : pc_vok (t_pc (mkThr (t_sid t) rest (t_pc t) (t_replies t) (t_trace t) (t_hints t)))) by exact Hp.
  revert H0. generalize (mkThr (t_sid t) rest (t_pc t) (t_replies t) (t_trace t) (t_hints t)). intros t0 H0.
  destruct (parse_request (trim_char nl line)) as [rq| |]; try apply finish_vok.
  destruct (key_of rq) as [[key kind]|].
  - destruct (perm_yields _ _ _); [exact H1|].
    destruct (guard_safe _ _ _ _); [now apply after_guard_vok | apply complete_vok].
  - destruct rq; try (destruct (step n (t_sid t) line); apply finish_vok);
      first [destruct (guard_db _ _); [exact I | apply complete_vok]
            | destruct (get_db _ _); [exact I | apply complete_vok]].
Qed.

Lemma start_publish_vok n t dbn k : pc_vok (t_pc t) -> pc_vok (t_pc (snd (start_publish n t dbn k))).
Proof.
  intros H. unfold start_publish, tick. destruct (get_db n dbn); cbn [snd park t_pc]; auto. exact I.
Qed.

Lemma use_inc_vok n t name user rq : pc_vok (t_pc t) -> pc_vok (t_pc (snd (use_inc n t name user rq))).
Proof.
  intros H. unfold use_inc. destruct (get_db _ name); cbn [snd].
  - now apply start_publish_vok.
  - apply finish_vok.
Qed.

Lemma after_publish_vok n t k : pc_vok (t_pc t) -> pc_vok (t_pc (snd (after_publish n t k))).
Proof.
  intros H. unfold after_publish. destruct k; [now apply use_inc_vok|].
  destruct (replicate_request _ _ _ _). cbn [snd]. apply finish_vok.
Qed.

Lemma release_pc_vok n t : node_vok n -> vers_thr t -> pc_vok (t_pc (snd (release n t))).
Proof.
  intros Hn [Hp Hl]. unfold release. destruct (t_pc t) eqn:Hpc.
  - apply start_cmd_vok; auto. now rewrite Hpc.
  - destruct (key_of rq) as [[key kind]|]; [|cbn [snd]; now rewrite Hpc].
    destruct (guard_safe _ _ _ _); [|apply complete_vok].
    apply after_guard_vok; auto. now rewrite Hpc.
  - destruct (get_db n dbn) as [d0|] eqn:Hdb; [|apply complete_vok].
    destruct (set_value_cases d0 (mkCh key value ver opp resolving)) as [(d1 & msgs & E) | (old & Hg & E)];
      rewrite E; [exact I|].
    destruct (d_strat d0); try apply complete_vok.
    destruct (N.ltb _ _); [|apply complete_vok].
    unfold tick. cbn [snd park t_pc pc_vok c_key] in *. eapply Hn; eauto.
  - destruct rq; apply complete_vok.
  - destruct (get_db n dbn); [destruct (get_key_value_new _ _)|]; apply complete_vok.
  - destruct (get_db n dbn); [destruct (remove_value _ _) as [[? ?] ?]; exact I | apply complete_vok].
  - apply complete_vok.
  - destruct (get_db n dbn); [|apply complete_vok].
    destruct (tick n). destruct (inc_value _ _ _ _) as [[? r] ?].
    destruct r; try apply complete_vok. exact I.
  - destruct (get_db n dbn); apply complete_vok.
  - destruct (get_db n dbn); apply complete_vok.
  - destruct (get_db n dbn); [|apply complete_vok].
    destruct (t_hints t); destruct (reorder _ _); try apply complete_vok; exact I.
  - destruct keys as [|k rest]; [apply complete_vok|].
    destruct rest; [apply complete_vok | exact I].
  - destruct (get_db n dbn); apply complete_vok.
  - (* PcUseTok *)
    assert (Hv : pc_vok (t_pc t)) by (rewrite Hpc; exact I).
    destruct (get_db n name); [|apply complete_vok].
    destruct (negb _); [apply complete_vok|].
    destruct (s_db _) as [prev|]; [destruct (get_db n prev)|];
      auto using start_publish_vok, use_inc_vok.
  - (* PcPub *)
    assert (Hv : pc_vok (t_pc t)) by (rewrite Hpc; exact I).
    destruct (get_db n dbn); [|now apply after_publish_vok].
    destruct (set_value _ _) as [[? ?] ?]. exact I.
  - (* PcPubNotify *)
    assert (Hv : pc_vok (t_pc t)) by (rewrite Hpc; exact I).
    destruct (get_db n dbn); [|now apply after_publish_vok].
    destruct (Z.eqb _ _); auto using start_publish_vok, after_publish_vok.
  - cbn [snd]. now rewrite Hpc.
Qed.

Lemma release_vers_thr n t : node_vok n -> vers_thr t -> vers_thr (snd (release n t)).
Proof.
  intros Hn Ht. split; [now apply release_pc_vok|].
  destruct Ht as [_ Hl]. destruct (release_thr n t) as [_ [E | (l & E)]].
  - now rewrite E.
  - eapply Forall_tl; eauto.
Qed.

Lemma release_nth_vok n ts i :
  Forall sched_thr ts -> Forall vers_thr ts -> node_vok n ->
  Forall vers_thr (snd (release_nth n ts i)) /\ node_vok (fst (release_nth n ts i)).
Proof.
  intros Hs Hv Hn. unfold release_nth. destruct (nth_error ts i) as [t|] eqn:E; auto.
  destruct (is_done t); auto.
  pose proof (nth_error_Forall _ _ _ _ Hs E) as Ht.
  pose proof (nth_error_Forall _ _ _ _ Hv E) as Hvt.
  pose proof (release_vers_thr n t Hn Hvt) as H1.
  pose proof (release_node_vok n t Ht (proj1 Hvt) Hn) as H2.
  destruct (release n t) as [n1 t1]. cbn [fst snd] in *.
  split; auto. now apply Forall_list_update.
Qed.

Lemma new_thread_vers sid prog hints : Forall line_vok prog -> vers_thr (new_thread sid prog hints).
Proof. intros H. unfold new_thread. destruct prog; split; cbn; auto. Qed.

(* every data operation of the log carries a version >= -1 (hence not -2) *)
Theorem log_vers_ok sched : forall n ts,
  Forall sched_thr ts -> Forall vers_thr ts -> node_vok n ->
  Forall (fun p => dop_ver_ok' (snd p)) (data_log n ts sched).
Proof.
  unfold data_log.
  induction sched as [|i r IH]; intros n ts Hs Hv Hn; cbn [full_log]; [constructor|].
  rewrite data_of_app. apply Forall_app. split.
  - unfold step_log. destruct (nth_error ts i) as [t|] eqn:E; [|constructor].
    destruct (step_op n t) as [[dbn l]|] eqn:Hop; [|constructor].
    pose proof (step_op_vok n t dbn l (proj1 (nth_error_Forall _ _ _ _ Hv E)) Hop) as Hl.
    destruct l as [o| |]; cbn [data_of flat_map snd fst app]; repeat constructor.
    cbn [snd]. destruct o; cbn in *; auto. lia.
  - destruct (release_nth_vok n ts i Hs Hv Hn). apply IH; auto using release_nth_sched.
Qed.

(* the key is never dropped from the map during the run *)
Fixpoint stays (k : str) (d : db) (ops : list dop') : Prop :=
  match ops with
  | [] => True
  | o :: r => get_value (db_apply' d o) k <> None /\ stays k (db_apply' d o) r
  end.

Lemma run_ok'_split k ops : forall d, Forall dop_ver_ok' ops -> stays k d ops -> run_ok' k d ops.
Proof.
  induction ops as [|o r IH]; intros d Hf Hs; cbn [run_ok' stays] in *; auto.
  inversion Hf; subst. destruct Hs. auto.
Qed.

Lemma Forall_ops_on {A} (P : A -> Prop) dbn (l : list (str * A)) :
  Forall (fun p => P (snd p)) l -> Forall P (ops_on dbn l).
Proof.
  unfold ops_on. induction l as [|p r IH]; intros H; cbn [filter map]; [constructor|].
  inversion H; subst. destruct (String.eqb _ _); cbn [map]; auto.
Qed.

(* item 6, second part, from conditions on the initial state only: programs whose
   versioned writes carry versions >= -1, stored versions >= -1 (never "in conflict") *)
Theorem newer_version_grows_inv n ts sched dbn d k old :
  Forall sched_thr ts -> Forall vers_thr ts -> node_vok n ->
  get_db n dbn = Some d -> get_value d k = Some old -> v_ver old <= i32_max ->
  stays k d (ops_on dbn (data_log n ts sched)) ->
  exists d' nw, get_db (fst (run_schedule n ts sched)) dbn = Some d' /\
    get_value d' k = Some nw /\ v_ver old <= v_ver nw.
Proof.
  intros Hs Hv Hn Hd Hg Hm Hst.
  eapply newer_version_grows; eauto.
  apply run_ok'_split; auto. apply Forall_ops_on. now apply log_vers_ok.
Qed.

(* ====================================================================== *)
(* 9. concrete instances (the hypotheses are satisfiable; why sched_line)    *)
(* ====================================================================== *)

Definition ex_steps (n : node) (c : nat) (ls : list str) : node :=
  fold_left (fun n l => fst (step n c l)) ls n.
Definition ex_node0 : node :=
  let '(n, c) := connect (init_node "u" "p" "a" 1 Primary 0) in
  ex_steps n c ["auth u p"; "create-db d tok none"; "create-db e tok newer"].
(* sessions 1 and 2 selected database d (strategy none); key k holds "a" at version 0 *)
Definition ex_node : node :=
  let '(n, c1) := connect ex_node0 in
  let '(n, c2) := connect n in
  ex_steps (ex_steps n c1 ["use-db d tok"; "set k a"]) c2 ["use-db d tok"].
Definition ex_ts : list thr :=
  [new_thread 1 ["set-safe k 0 x"; "get-safe k"] [];
   new_thread 2 ["set-safe k 0 y"; "watch k"; "unwatch-all"] []].

Lemma sched_thr_dec_sound t :
  forallb (fun l => match parse_request (trim_char nl l) with
                    | POk rq => sched_rq rq | _ => true end) (t_prog t) = true ->
  sched_pc (t_pc t) -> sched_thr t.
Proof.
  unfold sched_thr. intros H Hp. split; [|exact Hp]. clear Hp. revert H.
  induction (t_prog t) as [|l r IH]; cbn [forallb]; intros H; constructor.
  - apply andb_true_iff in H. unfold sched_line. destruct (parse_request _); tauto.
  - apply IH. apply andb_true_iff in H. tauto.
Qed.

Example ex_ts_sched : Forall sched_thr ex_ts.
Proof.
  constructor; [|constructor; [|constructor]];
    (apply sched_thr_dec_sound; [vm_compute; reflexivity | exact I]).
Qed.

(* both compare-and-set writes carry version 0; whichever thread enters its write section
   first wins, the other gets the version error (here for both orders) *)
Example ex_two_cas :
  let r01 := run_schedule ex_node ex_ts [0; 1; 0; 1; 0; 1]%nat in
  let r10 := run_schedule ex_node ex_ts [0; 1; 0; 1; 1; 0]%nat in
  map t_replies (snd r01) =
    [[]; [RVersionError "k" 1 0 (mkV "x" 1 12 VNew 0 0) (mkCh "k" "y" 0 13 false) VNew]] /\
  map t_replies (snd r10) =
    [[RVersionError "k" 1 0 (mkV "y" 1 13 VNew 0 0) (mkCh "k" "x" 0 12 false) VNew]; []] /\
  data_log ex_node ex_ts [0; 1; 0; 1; 0; 1]%nat =
    [("d", DSet' "k" "x" 0 12 false); ("d", DSet' "k" "y" 0 13 false)] /\
  data_log ex_node ex_ts [0; 1; 0; 1; 1; 0]%nat =
    [("d", DSet' "k" "y" 0 13 false); ("d", DSet' "k" "x" 0 12 false)] /\
  map t_replies (snd (run_par ex_node ex_ts [0; 1; 0; 1; 0; 1]%nat)) =
    [[ROk; RValue "k" "x" 1];
     [RVersionError "k" 1 0 (mkV "x" 1 12 VNew 0 0) (mkCh "k" "y" 0 13 false) VNew; ROk; ROk]].
Proof. vm_compute. repeat split. Qed.

(* why programs are restricted to the scheduled commands: any other line (use-db apart, which
   Sched.v models with its own park points and which ConnSchedProofs.v treats) is run in one go
   by Node.step when the command starts, and may write data although the thread is at PcCmd
   (data_op = None).  Here "resolve" writes its $conflicts_ record and the key into d. *)
Example unscheduled_line_changes_data :
  let t := new_thread 1 ["resolve 7 d k 0 z"] [] in
  data_op ex_node t = None /\
  option_map d_map (get_db (fst (release ex_node t)) "d") <> option_map d_map (get_db ex_node "d").
Proof. vm_compute. split; [reflexivity | discriminate]. Qed.

(* use-db is a modelled command now: its first release only parks at the token check *)
Example use_db_line_parks :
  let t := new_thread 1 ["use-db d tok"] [] in
  ~ sched_thr t /\
  t_pc (snd (release ex_node t)) = PcUseTok "tok" "d" None /\
  n_dbs (fst (release ex_node t)) = n_dbs ex_node.
Proof.
  cbn zeta. split; [|vm_compute; split; reflexivity].
  intros [H _]. inversion H as [|? ? H1 _]; subst. vm_compute in H1. discriminate.
Qed.
