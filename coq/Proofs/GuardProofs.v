From NunDB Require Import Model.Base Model.Pending Model.Parse Model.Node Proofs.AssocLemmas. Local Open Scope Z_scope.

(* ====================================================================== *)
(* C10.1  the parser never panics                                          *)
(* ====================================================================== *)

Ltac break_match :=
  match goal with
  | |- context [match ?x with _ => _ end] => destruct x
  end.

Lemma parse_name_np args err k : parse_name args err k <> PPanic.
Proof. unfold parse_name. destruct args; discriminate. Qed.

Lemma parse_cmd_total cmd args : parse_cmd cmd args <> Some PPanic.
Proof.
  unfold parse_cmd.
  repeat match goal with
  | |- Some (parse_name ?a ?e ?k) <> _ =>
      let H := fresh "Hpn" in
      pose proof (parse_name_np a e k) as H; intros [= ?]; congruence
  | |- (if ?b then _ else _) <> _ => destruct b
  | |- Some (POk _) <> _ => discriminate
  | |- Some (PErr _) <> _ => discriminate
  | |- None <> _ => discriminate
  | |- Some (match ?x with _ => _ end) <> _ => destruct x
  | |- Some (if ?x then _ else _) <> _ => destruct x
  end.
Qed.

Theorem parse_total : forall s, parse_request s <> PPanic.
Proof.
  intros s. unfold parse_request.
  destruct (splitn 3 sp (trim_end_char ";" s)) as [|cmd args]; [discriminate|].
  destruct (String.eqb cmd ""); [discriminate|].
  pose proof (parse_cmd_total cmd args) as H.
  destruct (parse_cmd cmd args) as [r|]; [|discriminate].
  intros ->. now apply H.
Qed.

(* ====================================================================== *)
(* String-length lemmas: a nested `rp` request is strictly shorter         *)
(* ====================================================================== *)

Lemma length_str_rev_acc s acc :
  String.length (str_rev_acc s acc) = (String.length s + String.length acc)%nat.
Proof.
  revert acc. induction s as [|a s IH]; intros acc; cbn; auto.
  rewrite IH. cbn. lia.
Qed.

Lemma length_str_rev s : String.length (str_rev s) = String.length s.
Proof. unfold str_rev. rewrite length_str_rev_acc. cbn. lia. Qed.

Lemma length_drop_leading c s : (String.length (drop_leading c s) <= String.length s)%nat.
Proof.
  induction s as [|a s IH]; cbn; auto.
  destruct (Ascii.eqb a c); cbn; lia.
Qed.

Lemma length_trim_end_char c s : (String.length (trim_end_char c s) <= String.length s)%nat.
Proof.
  unfold trim_end_char. rewrite length_str_rev.
  etransitivity; [apply length_drop_leading|]. now rewrite length_str_rev.
Qed.

Lemma length_trim_char c s : (String.length (trim_char c s) <= String.length s)%nat.
Proof.
  unfold trim_char. etransitivity; [apply length_trim_end_char|]. apply length_drop_leading.
Qed.

Fixpoint total_len (l : list str) : nat :=
  match l with [] => O | x :: r => (String.length x + total_len r)%nat end.

(* the pieces of splitn, plus one separator between consecutive pieces, make up the input *)
Lemma splitn_acc_total n c s cur : n <> O ->
  (total_len (splitn_acc n c s cur) + List.length (splitn_acc n c s cur)
   = S (String.length s + String.length cur))%nat.
Proof.
  revert n cur. induction s as [|a s IH]; intros n cur Hn.
  - destruct n as [|[|n]]; [congruence| |]; cbn.
    + rewrite length_str_rev_acc. cbn. lia.
    + rewrite length_str_rev. lia.
  - destruct n as [|[|n]]; [congruence| |].
    + cbn. rewrite length_str_rev_acc. cbn. lia.
    + cbn [splitn_acc]. destruct (Ascii.eqb a c).
      * cbn [total_len List.length]. rewrite length_str_rev.
        specialize (IH (S n) EmptyString). cbn [String.length] in *. lia.
      * rewrite IH by congruence. cbn. lia.
Qed.

Lemma splitn_third_shorter n c s x y z rest : n <> O ->
  splitn n c s = x :: y :: z :: rest -> (String.length z < String.length s)%nat.
Proof.
  intros Hn E. pose proof (splitn_acc_total n c s EmptyString Hn) as H.
  unfold splitn in E. rewrite E in H. cbn in H. lia.
Qed.

(* only the `rp` word produces a ReplicateRequest, and its payload is the third piece *)
Lemma parse_cmd_rp cmd args inner id :
  parse_cmd cmd args = Some (POk (RqReplicateRequest inner id)) ->
  hd_opt (tl args) = Some inner.
Proof.
  unfold parse_cmd, parse_name.
  remember (hd_opt (tl args)) as a2. remember (hd_opt args) as a1.
  clear Heqa1 Heqa2. cbv zeta.
  repeat match goal with
  | |- (if ?b then _ else _) = _ -> _ => destruct b
  | |- None = _ -> _ => discriminate
  | |- Some (PErr _) = _ -> _ => discriminate
  | |- Some (POk _) = _ -> _ => let H := fresh in intros H; try discriminate H
  | |- Some (match ?x with _ => _ end) = _ -> _ => destruct x eqn:?
  | |- Some (if ?x then _ else _) = _ -> _ => destruct x eqn:?
  end.
  all: match goal with H : Some (POk _) = _ |- _ => injection H as <- <- end.
  all: destruct a2 as [sx|]; cbn in *; [reflexivity|discriminate].
Qed.

Lemma parse_request_rp_shorter l inner id :
  parse_request l = POk (RqReplicateRequest inner id) ->
  (String.length inner < String.length l)%nat.
Proof.
  unfold parse_request. intros H.
  destruct (splitn 3 sp (trim_end_char ";" l)) as [|cmd args] eqn:E; [discriminate|].
  destruct (String.eqb cmd ""); [discriminate|].
  destruct (parse_cmd cmd args) as [r|] eqn:E2; [|discriminate]. subst r.
  apply parse_cmd_rp in E2.
  destruct args as [|a1 [|a2 rest]]; try discriminate. cbn in E2. injection E2 as ->.
  apply splitn_third_shorter in E; [|congruence].
  pose proof (length_trim_end_char ";" l). lia.
Qed.

(* ====================================================================== *)
(* Projection lemmas                                                       *)
(* ====================================================================== *)

Lemma dbs_put_sess n c s : n_dbs (put_sess n c s) = n_dbs n. Proof. reflexivity. Qed.
Lemma dbs_send n c m : n_dbs (send n c m) = n_dbs n. Proof. reflexivity. Qed.
Lemma dbs_sends l : forall n, n_dbs (sends n l) = n_dbs n.
Proof. unfold sends. induction l as [|p l IH]; intros n; cbn [fold_left]; auto. now rewrite IH. Qed.
Lemma dbs_replicate_web n m : n_dbs (replicate_web n m) = n_dbs n. Proof. reflexivity. Qed.
Lemma dbs_send_to_primary n m : n_dbs (send_to_primary n m) = n_dbs n. Proof. reflexivity. Qed.
Lemma dbs_replicate_change n dbn ch : n_dbs (replicate_change n dbn ch) = n_dbs n.
Proof. unfold replicate_change. now destruct (is_primary n || is_eligible n). Qed.
Lemma dbs_push_sup n m : n_dbs (push_sup n m) = n_dbs n. Proof. reflexivity. Qed.
Lemma dbs_election_win n : n_dbs (election_win n) = n_dbs n. Proof. reflexivity. Qed.
Lemma dbs_start_election n : n_dbs (start_election n) = n_dbs n.
Proof. unfold start_election. now destruct (Nat.leb _ _). Qed.
Lemma dbs_start_new_election n : n_dbs (start_new_election n) = n_dbs n.
Proof. unfold start_new_election. now rewrite dbs_start_election. Qed.
Lemma dbs_election_eval n i : n_dbs (election_eval n i) = n_dbs n.
Proof. unfold election_eval. destruct (N.eqb _ _); auto. destruct (N.ltb _ _); auto using dbs_start_election. Qed.

Lemma has_db_eq n n' x : n_dbs n' = n_dbs n -> has_db n' x = has_db n x.
Proof. unfold has_db, get_db. now intros ->. Qed.

Lemma get_db_eq n n' x : n_dbs n' = n_dbs n -> get_db n' x = get_db n x.
Proof. unfold get_db. now intros ->. Qed.

Lemma get_db_put_same n x d : get_db (put_db n x d) x = Some d.
Proof. unfold get_db, put_db. cbn. apply get_set_same. apply String.eqb_spec. Qed.
Lemma get_db_put_other n x y d : x <> y -> get_db (put_db n y d) x = get_db n x.
Proof. unfold get_db, put_db. cbn. apply get_set_other. apply String.eqb_spec. Qed.

Lemma has_db_put n x y d : has_db (put_db n y d) x = String.eqb x y || has_db n x.
Proof.
  unfold has_db. destruct (String.eqb_spec x y) as [->|Hn].
  - now rewrite get_db_put_same.
  - now rewrite get_db_put_other.
Qed.

Lemma has_db_sends n l x : has_db (sends n l) x = has_db n x.
Proof. apply has_db_eq, dbs_sends. Qed.
Lemma has_db_send n c m x : has_db (send n c m) x = has_db n x. Proof. reflexivity. Qed.
Lemma has_db_put_sess n c s x : has_db (put_sess n c s) x = has_db n x. Proof. reflexivity. Qed.
Lemma has_db_replicate_change n dbn ch x : has_db (replicate_change n dbn ch) x = has_db n x.
Proof. apply has_db_eq, dbs_replicate_change. Qed.
Lemma has_db_set_clock n k x : has_db (n_set_clock n k) x = has_db n x. Proof. reflexivity. Qed.
Lemma has_db_set_idmap n k x : has_db (n_set_idmap n k) x = has_db n x. Proof. reflexivity. Qed.
Lemma has_db_set_snap n k x : has_db (n_set_snap n k) x = has_db n x. Proof. reflexivity. Qed.
Lemma has_db_set_pending n k x : has_db (n_set_pending n k) x = has_db n x. Proof. reflexivity. Qed.
Lemma has_db_set_role n k x : has_db (n_set_role n k) x = has_db n x. Proof. reflexivity. Qed.
Lemma has_db_send_to_primary n m x : has_db (send_to_primary n m) x = has_db n x. Proof. reflexivity. Qed.
Lemma has_db_replicate_web n m x : has_db (replicate_web n m) x = has_db n x. Proof. reflexivity. Qed.
Lemma has_db_push_sup n m x : has_db (push_sup n m) x = has_db n x. Proof. reflexivity. Qed.
Lemma has_db_start_new_election n x : has_db (start_new_election n) x = has_db n x.
Proof. apply has_db_eq, dbs_start_new_election. Qed.
Lemma has_db_election_eval n i x : has_db (election_eval n i) x = has_db n x.
Proof. apply has_db_eq, dbs_election_eval. Qed.
Lemma has_db_election_win n x : has_db (election_win n) x = has_db n x. Proof. reflexivity. Qed.

Global Hint Rewrite has_db_put has_db_sends has_db_send has_db_put_sess has_db_replicate_change
  has_db_set_clock has_db_set_idmap has_db_set_snap has_db_set_pending has_db_set_role
  has_db_send_to_primary has_db_replicate_web has_db_push_sup has_db_start_new_election
  has_db_election_eval has_db_election_win : hasdb.

(* [keeps n n']: no database of n is missing in n' *)
Definition keeps (n n' : node) : Prop := forall x, has_db n x = true -> has_db n' x = true.

Lemma keeps_refl n : keeps n n. Proof. intros x H; exact H. Qed.
Lemma keeps_trans a b c : keeps a b -> keeps b c -> keeps a c.
Proof. intros H1 H2 x H. auto. Qed.
Lemma keeps_eq n n' : n_dbs n' = n_dbs n -> keeps n n'.
Proof. intros E x H. now rewrite (has_db_eq _ _ _ E). Qed.

Ltac innermost x :=
  lazymatch x with
  | context [match ?y with _ => _ end] => innermost y
  | _ => destruct x eqn:?
  end.
Ltac dm := match goal with |- context [match ?x with _ => _ end] => innermost x end.

Ltac hdb := autorewrite with hasdb;
  repeat match goal with H : has_db _ _ = true |- _ => rewrite H end;
  rewrite ?orb_true_r; try reflexivity.

Lemma apply_change_keeps n dbn ch : keeps n (fst (apply_change n dbn ch)).
Proof.
  intros x Hx. unfold apply_change, tick. cbv zeta.
  repeat dm; cbn [fst]; hdb.
Qed.

Lemma set_value_np d ch d' r m : set_value d ch = (d', r, m) -> r <> RPanic.
Proof. unfold set_value. repeat dm; intros [= <- <- <-]; discriminate. Qed.
Lemma inc_value_np d k i o d' r m : inc_value d k i o = (d', r, m) -> r <> RPanic.
Proof.
  unfold inc_value.
  destruct (parse_i32 _); [destruct (_ && _)|]; intros [= <- <- <-]; discriminate.
Qed.
Lemma remove_value_np d k d' r m : remove_value d k = (d', r, m) -> r <> RPanic.
Proof. unfold remove_value. destruct (String.eqb k _); intros [= <- <- <-]; discriminate. Qed.

Lemma apply_change_np n dbn ch : snd (apply_change n dbn ch) <> RPanic.
Proof.
  unfold apply_change, tick. cbv zeta.
  repeat dm; cbn [snd]; try discriminate;
  repeat match goal with H : set_value _ _ = _ |- _ => apply set_value_np in H end; try congruence.
Qed.

Lemma set_key_value_keeps n dbn k v ver : keeps n (fst (set_key_value n dbn k v ver)).
Proof.
  unfold set_key_value, tick. cbv zeta beta iota.
  eapply keeps_trans; [|apply apply_change_keeps]. now apply keeps_eq.
Qed.
Lemma set_key_value_np n dbn k v ver : snd (set_key_value n dbn k v ver) <> RPanic.
Proof. unfold set_key_value, tick. cbv zeta beta iota. apply apply_change_np. Qed.

Lemma set_connection_counter_keeps n dbn : keeps n (set_connection_counter n dbn).
Proof.
  unfold set_connection_counter. destruct (get_db n dbn); [apply set_key_value_keeps|apply keeps_refl].
Qed.

Lemma resolve_conflict_keeps n dbn ch : keeps n (fst (resolve_conflict n dbn ch)).
Proof.
  intros x Hx. unfold resolve_conflict, tick. cbv zeta.
  repeat dm; cbn [fst]; hdb.
Qed.

Lemma register_arbiter_keeps n dbn c : keeps n (register_arbiter n dbn c).
Proof.
  unfold register_arbiter. destruct (get_db n dbn) as [d|]; [|apply keeps_refl].
  set (f := fun (n0 : node) (k : str) => _).
  assert (Hf : forall l n0, keeps n0 (fold_left f l n0)).
  { induction l as [|k l IH]; intros n0; cbn [fold_left]; [apply keeps_refl|].
    eapply keeps_trans; [|apply IH].
    intros x Hx. unfold f. repeat dm; hdb. }
  eapply keeps_trans; [|apply Hf].
  intros x Hx. hdb.
Qed.

Definition AdminInv (n : node) : Prop := exists adm, get_db n "$admin" = Some adm.

Lemma AdminInv_has n : AdminInv n <-> has_db n "$admin" = true.
Proof.
  unfold AdminInv, has_db. destruct (get_db n "$admin"); split; intros H; eauto; try discriminate.
  now destruct H.
Qed.

Lemma keeps_inv n n' : keeps n n' -> AdminInv n -> AdminInv n'.
Proof. rewrite !AdminInv_has. auto. Qed.

Lemma add_database_keeps n name d : keeps n (fst (add_database n name d)).
Proof.
  intros x Hx. unfold add_database, tick. cbv zeta.
  repeat dm; cbn [fst]; hdb.
Qed.

Lemma add_database_np n name d : AdminInv n -> snd (add_database n name d) <> RPanic.
Proof.
  rewrite AdminInv_has. intros Hx. unfold add_database, tick. cbv zeta.
  repeat dm; cbn [snd]; try discriminate.
  match goal with H : get_db ?m "$admin" = None |- _ =>
    assert (Hh : has_db m "$admin" = true) by hdb; unfold has_db in Hh; rewrite H in Hh; discriminate end.
Qed.

Lemma client_left_keeps n c : keeps n (client_left n c).
Proof.
  unfold client_left. repeat dm; try apply keeps_refl.
  eapply keeps_trans; [|apply set_connection_counter_keeps].
  intros x Hx. hdb.
Qed.

(* ---- guards ---- *)
Lemma guard_db_name_stop n c dbn key req n' r :
  guard_db_name n c dbn key req = GStop n' r ->
  (n' = send n c no_db_msg /\ r = RError no_db_msg) \/ (n' = send n c denied_msg /\ r = RError denied_msg).
Proof.
  unfold guard_db_name, reject_no_db. repeat dm; intros [= <- <-]; auto.
Qed.

Lemma guard_safe_stop n c key req n' r :
  guard_safe n c key req = GStop n' r ->
  (n' = n /\ r = RError "To read security keys you must auth as an admin!") \/
  (n' = send n c no_db_msg /\ r = RError no_db_msg) \/ (n' = send n c denied_msg /\ r = RError denied_msg).
Proof.
  unfold guard_safe, reject_no_db. destruct (_ && _).
  - intros [= <- <-]; auto.
  - destruct (s_db _).
    + intros H. right. eapply guard_db_name_stop; eauto.
    + intros [= <- <-]; auto.
Qed.

Lemma guard_db_stop n c n' r :
  guard_db n c = GStop n' r ->
  (n' = send n c no_db_msg /\ r = RError no_db_msg) \/ (n' = send n c denied_msg /\ r = RError denied_msg).
Proof.
  unfold guard_db, reject_no_db. destruct (s_db _).
  - apply guard_db_name_stop.
  - intros [= <- <-]; auto.
Qed.

Lemma guard_db_name_go n c dbn key req dbn' d :
  guard_db_name n c dbn key req = GGo dbn' d -> dbn' = dbn /\ get_db n dbn = Some d.
Proof. unfold guard_db_name, reject_no_db. repeat dm; intros [= <- <-]; auto. Qed.

Lemma guard_stop_dbs_safe n c key req n' r : guard_safe n c key req = GStop n' r -> n_dbs n' = n_dbs n /\ r <> RPanic.
Proof. intros H. apply guard_safe_stop in H. destruct H as [[-> ->]|[[-> ->]|[-> ->]]]; split; auto; discriminate. Qed.
Lemma guard_stop_dbs_db n c n' r : guard_db n c = GStop n' r -> n_dbs n' = n_dbs n /\ r <> RPanic.
Proof. intros H. apply guard_db_stop in H. destruct H as [[-> ->]|[-> ->]]; split; auto; discriminate. Qed.
Lemma guard_stop_dbs_name n c dbn key req n' r : guard_db_name n c dbn key req = GStop n' r -> n_dbs n' = n_dbs n /\ r <> RPanic.
Proof. intros H. apply guard_db_name_stop in H. destruct H as [[-> ->]|[-> ->]]; split; auto; discriminate. Qed.

Lemma repl_snapshot_fold reclaim names : forall n0 r0,
  let res := fold_left (fun (acc : node * resp) nm =>
          let '(n0, r0) := acc in
          match get_db n0 nm with
          | Some _ => (n_set_snap n0 (n_snap n0 ++ [(nm, reclaim)]), r0)
          | None => (n0, RError ("Error trying to snapshot database: Database " +++ nm +++ " not found"))
          end) names (n0, r0) in
  n_dbs (fst res) = n_dbs n0 /\ (r0 <> RPanic -> snd res <> RPanic).
Proof.
  induction names as [|nm names IH]; intros n0 r0; cbn [fold_left].
  - cbn. auto.
  - destruct (get_db n0 nm).
    + destruct (IH (n_set_snap n0 (n_snap n0 ++ [(nm, reclaim)])) r0) as [A B]. split; auto.
    + match goal with |- context [fold_left _ _ (n0, ?e)] => destruct (IH n0 e) as [A B] end.
      split; auto. intros _. apply B. discriminate.
Qed.

Ltac facts :=
  repeat match goal with
  | E : guard_safe _ _ _ _ = GStop _ _ |- _ => apply guard_stop_dbs_safe in E; destruct E
  | E : guard_db _ _ = GStop _ _ |- _ => apply guard_stop_dbs_db in E; destruct E
  | E : guard_db_name _ _ _ _ _ = GStop _ _ |- _ => apply guard_stop_dbs_name in E; destruct E
  | E : set_key_value ?n ?d ?k ?v ?ver = (_, _) |- _ =>
      let K := fresh "K" in let P := fresh "P" in
      pose proof (set_key_value_keeps n d k v ver) as K; pose proof (set_key_value_np n d k v ver) as P;
      rewrite E in K, P; cbn [fst snd] in K, P; clear E
  | E : add_database ?n ?d ?k = (_, _) |- _ =>
      let K := fresh "K" in let P := fresh "P" in
      pose proof (add_database_keeps n d k) as K; pose proof (add_database_np n d k) as P;
      rewrite E in K, P; cbn [fst snd] in K, P; clear E
  | E : inc_value _ _ _ _ = _ |- _ => apply inc_value_np in E
  | E : remove_value _ _ = _ |- _ => apply remove_value_np in E
  | E : set_value _ _ = _ |- _ => apply set_value_np in E
  end.

Ltac kp := hdb; try solve [
   match goal with
   | K : keeps _ ?m |- has_db ?m _ = true => apply K; kp
   | |- _ || _ = true => apply orb_true_iff; right; kp
   | |- has_db (fst (resolve_conflict _ _ _)) _ = true => apply resolve_conflict_keeps; kp
   | |- has_db (fst (set_key_value _ _ _ _ _)) _ = true => apply set_key_value_keeps; kp
   | |- has_db (register_arbiter _ _ _) _ = true => apply register_arbiter_keeps; kp
   | |- has_db (set_connection_counter _ _) _ = true => apply set_connection_counter_keeps; kp
   | |- has_db (client_left _ _) _ = true => apply client_left_keeps; kp
   | E : n_dbs ?m = n_dbs _ |- has_db ?m _ = true => rewrite (has_db_eq _ _ _ E); kp
   end].

Lemma handle_keeps n c rq : keeps n (fst (handle n c rq)).
Proof.
  intros x Hx.
  destruct rq; unfold handle, release_previous, tick; cbv zeta beta iota.
  18: { destruct (negb _); [exact Hx|].
        match goal with |- context [fold_left ?f ?l (n, ROk)] =>
          destruct (repl_snapshot_fold reclaim l n ROk) as [A _] end.
        cbv zeta in A. now rewrite (has_db_eq _ _ _ A). }
  all: repeat dm; facts; cbn [fst]; kp.
Qed.

Lemma handle_np n c rq : AdminInv n -> snd (handle n c rq) <> RPanic.
Proof.
  intros Hinv.
  destruct rq; unfold handle, release_previous, tick; cbv zeta beta iota.
  18: { destruct (negb _); [discriminate|].
        match goal with |- context [fold_left ?f ?l (n, ROk)] =>
          destruct (repl_snapshot_fold reclaim l n ROk) as [_ B] end.
        apply B. discriminate. }
  all: repeat dm; facts; cbn [snd]; try discriminate; try assumption.
  all: try apply set_key_value_np.
  apply P. exact Hinv.
Qed.

Lemma replicate_request_dbs n rq seldb r : n_dbs (fst (replicate_request n rq seldb r)) = n_dbs n.
Proof.
  unfold replicate_request. repeat dm; reflexivity.
Qed.

Lemma replicate_request_np n rq seldb r : r <> RPanic -> snd (replicate_request n rq seldb r) <> RPanic.
Proof.
  intros H. unfold replicate_request. repeat dm; cbn [snd]; try discriminate; try assumption.
Qed.

Lemma process_safe fuel : forall n c line, (String.length line < fuel)%nat -> AdminInv n ->
  keeps n (fst (process fuel n c line)) /\ snd (process fuel n c line) <> RPanic.
Proof.
  induction fuel as [|k IH]; intros n c line Hlen Hinv; [lia|].
  cbn [process]. cbv zeta.
  destruct (parse_request (trim_char nl line)) as [rq| |] eqn:Ep.
  - assert (Hgen : forall n1 r, keeps n n1 -> r <> RPanic ->
              keeps n (fst (replicate_request n1 rq (s_db (get_sess n c)) r)) /\
              snd (replicate_request n1 rq (s_db (get_sess n c)) r) <> RPanic).
    { intros n1 r K P. split; [|now apply replicate_request_np].
      eapply keeps_trans; [exact K|]. apply keeps_eq, replicate_request_dbs. }
    assert (Hh : forall rq', keeps n (fst (handle n c rq')) /\ snd (handle n c rq') <> RPanic).
    { intros rq'. split; [apply handle_keeps|now apply handle_np]. }
    destruct rq;
      try (match goal with |- context [handle n c ?q] =>
             destruct (Hh q) as [K P]; destruct (handle n c q) as [n1 r]; cbn [fst snd] in K, P;
             now apply Hgen end).
    destruct (negb (s_auth (get_sess n c))).
    + apply Hgen; [apply keeps_refl|discriminate].
    + apply parse_request_rp_shorter in Ep.
      pose proof (length_trim_char nl line) as Hl.
      match goal with |- context [process k ?m c request_str] =>
        destruct (IH m c request_str) as [K P]; [lia| |] end.
      { eapply keeps_inv; [|exact Hinv]. apply keeps_eq. reflexivity. }
      destruct (process k _ c request_str) as [n1 r]. cbn [fst snd] in K, P.
      apply Hgen; [exact K|exact P].
  - split; [apply keeps_refl|discriminate].
  - exfalso. now apply (parse_total (trim_char nl line)).
Qed.

Lemma step_keeps n c line : AdminInv n -> keeps n (fst (step n c line)).
Proof. intros H. unfold step. apply process_safe; auto. Qed.

Theorem step_inv n c line : AdminInv n -> AdminInv (fst (step n c line)).
Proof. intros H. eapply keeps_inv; [|exact H]. now apply step_keeps. Qed.

Theorem step_no_panic n c line : AdminInv n -> snd (step n c line) <> RPanic.
Proof. intros H. unfold step. apply process_safe; auto. Qed.

Theorem connect_inv n : AdminInv n -> AdminInv (fst (connect n)).
Proof. intros H. exact H. Qed.

Theorem disconnect_inv n c : AdminInv n -> AdminInv (disconnect n c).
Proof.
  intros H. unfold disconnect. eapply keeps_inv; [apply client_left_keeps|]. now apply step_inv.
Qed.

Theorem init_inv : forall u p a pid r c0, AdminInv (init_node u p a pid r c0).
Proof.
  intros. unfold init_node, tick. cbv zeta beta iota.
  repeat dm. eexists. apply get_db_put_same.
Qed.

(* every node-changing function keeps the administrative database *)
Theorem handle_inv n c rq : AdminInv n -> AdminInv (fst (handle n c rq)).
Proof. apply keeps_inv, handle_keeps. Qed.
Theorem client_left_inv n c : AdminInv n -> AdminInv (client_left n c).
Proof. apply keeps_inv, client_left_keeps. Qed.
Theorem replicate_request_inv n rq s r : AdminInv n -> AdminInv (fst (replicate_request n rq s r)).
Proof. apply keeps_inv, keeps_eq, replicate_request_dbs. Qed.

Inductive nev := EConnect | ECmd (c : nat) (line : str) | EDisconnect (c : nat).
Definition nstep (n : node) (e : nev) : node :=
  match e with
  | EConnect => fst (connect n)
  | ECmd c l => fst (step n c l)
  | EDisconnect c => disconnect n c
  end.

Theorem run_inv n evs : AdminInv n -> AdminInv (fold_left nstep evs n).
Proof.
  revert n. induction evs as [|e evs IH]; intros n H; cbn [fold_left]; auto.
  apply IH. destruct e; cbn [nstep]; auto using connect_inv, step_inv, disconnect_inv.
Qed.

Theorem run_no_panic n : AdminInv n -> forall evs c line,
  snd (step (fold_left nstep evs n) c line) <> RPanic.
Proof. intros H evs c line. apply step_no_panic. now apply run_inv. Qed.

(* ====================================================================== *)
(* Sessions under message delivery                                         *)
(* ====================================================================== *)

Lemma nth_list_update {A} (l : list A) : forall i x c d,
  nth c (list_update l i x) d = if Nat.eqb c i && Nat.ltb i (List.length l) then x else nth c l d.
Proof.
  induction l as [|y l IH]; intros i x c d.
  - cbn. destruct c; rewrite andb_false_r; reflexivity.
  - destruct i, c; cbn [list_update nth List.length]; try reflexivity.
    rewrite IH. reflexivity.
Qed.

Definition same_sel (s s' : sess) : Prop :=
  s_auth s = s_auth s' /\ s_db s = s_db s' /\ s_user s = s_user s' /\ s_member s = s_member s'.

Lemma same_sel_refl s : same_sel s s. Proof. repeat split. Qed.
Lemma same_sel_trans a b c : same_sel a b -> same_sel b c -> same_sel a c.
Proof. unfold same_sel. intuition congruence. Qed.

Lemma sess_send n i m c : same_sel (get_sess (send n i m) c) (get_sess n c).
Proof.
  unfold send, put_sess, get_sess at 1. cbn [n_sess n_set_sess]. rewrite nth_list_update.
  destruct (Nat.eqb_spec c i) as [->|]; cbn [andb]; [|apply same_sel_refl].
  destruct (Nat.ltb _ _); [|apply same_sel_refl]. repeat split.
Qed.

Lemma sess_sends l : forall n c, same_sel (get_sess (sends n l) c) (get_sess n c).
Proof.
  unfold sends. induction l as [|p l IH]; intros n c; cbn [fold_left]; [apply same_sel_refl|].
  eapply same_sel_trans; [apply IH|apply sess_send].
Qed.

Lemma role_sends l : forall n, n_role (sends n l) = n_role n.
Proof. unfold sends. induction l as [|p l IH]; intros n; cbn [fold_left]; auto. now rewrite IH. Qed.

Lemma get_db_sends n l x : get_db (sends n l) x = get_db n x.
Proof. apply get_db_eq, dbs_sends. Qed.

Lemma has_permission_sess n n' c k d req :
  s_auth (get_sess n' c) = s_auth (get_sess n c) -> s_user (get_sess n' c) = s_user (get_sess n c) ->
  has_permission n' c k d req = has_permission n c k d req.
Proof. unfold has_permission. now intros -> ->. Qed.

Lemma starts_with_refl s : starts_with s s = true.
Proof. unfold starts_with. induction s; cbn; auto. now rewrite Ascii.eqb_refl. Qed.

Lemma starts_with_app s p : starts_with (p +++ s) p = true.
Proof. unfold starts_with. induction p; cbn; auto. now rewrite Ascii.eqb_refl. Qed.

Lemma get_value_put_same d k v : get_value (put_value d k v) k = Some v.
Proof. unfold get_value, put_value. cbn. apply get_set_same, String.eqb_spec. Qed.
Lemma get_value_put_other d k k' v : k' <> k -> get_value (put_value d k v) k' = get_value d k'.
Proof. unfold get_value, put_value. cbn. apply get_set_other, String.eqb_spec. Qed.

Lemma apply_change_absent n dbn d ch :
  get_db n dbn = Some d -> get_value d (c_key ch) = None ->
  apply_change n dbn ch =
    (sends (put_db n dbn (put_value d (c_key ch) (mkV (c_val ch) (sat_succ (c_ver ch)) (c_opp ch) VNew 0 0)))
           (notify_msgs d (c_key ch) (c_val ch) (sat_succ (c_ver ch))),
     RSet (c_key ch) (c_val ch)).
Proof.
  intros Hd Hv. unfold apply_change. rewrite Hd. unfold set_value. rewrite Hv. reflexivity.
Qed.

(* passing / failing the key guard *)
Lemma guard_safe_granted n c k kind dbn d :
  s_db (get_sess n c) = Some dbn -> get_db n dbn = Some d ->
  starts_with k "$$" = false -> has_permission n c k d kind = true ->
  guard_safe n c k kind = GGo dbn d.
Proof.
  intros Hs Hd Hk Hp. unfold guard_safe, guard_db_name. rewrite Hk, Hs, Hd, Hp. reflexivity.
Qed.

Lemma guard_safe_denied n c k kind dbn d :
  s_db (get_sess n c) = Some dbn -> get_db n dbn = Some d ->
  starts_with k "$$" = false -> has_permission n c k d kind = false ->
  guard_safe n c k kind = GStop (send n c denied_msg) (RError denied_msg).
Proof.
  intros Hs Hd Hk Hp. unfold guard_safe, guard_db_name. rewrite Hk, Hs, Hd, Hp. reflexivity.
Qed.

Lemma has_permission_anon n c k d req :
  starts_with k "$$" = false -> s_user (get_sess n c) = None ->
  get_value d "$$permission_$all" = None -> has_permission n c k d req = true.
Proof.
  intros Hk Hu Hp. unfold has_permission. rewrite Hk, Hu.
  change ("$$permission_$" +++ "all") with "$$permission_$all". rewrite Hp. reflexivity.
Qed.

(* C10.5: the node keeps serving *)
Theorem probe_served n c dbn d k v :
  AdminInv n -> is_primary n = true ->
  s_db (get_sess n c) = Some dbn -> s_user (get_sess n c) = None ->
  get_db n dbn = Some d -> d_strat d = SNone ->
  get_value d "$$permission_$all" = None ->
  starts_with k "$$" = false -> get_value d k = None ->
  exists n1, handle n c (RqSet k v (-1)) = (n1, RSet k v) /\
  exists n2, handle n1 c (RqGet k) = (n2, RValue k v 0).
Proof.
  intros _ Hprim Hs Hu Hd _ Hperm Hk Hv.
  unfold handle at 1. cbv zeta.
  rewrite (guard_safe_granted n c k PWrite dbn d Hs Hd Hk (has_permission_anon _ _ _ _ _ Hk Hu Hperm)).
  unfold set_key_value, tick. cbv zeta beta iota.
  rewrite (apply_change_absent _ dbn d) by (try exact Hd; exact Hv).
  cbn [c_key c_val c_ver c_opp].
  set (d1 := put_value d k _). set (msgs := notify_msgs _ _ _ _).
  set (n1 := sends _ msgs).
  assert (Hp1 : is_primary n1 = true).
  { unfold is_primary, n1. rewrite role_sends. exact Hprim. }
  rewrite Hp1. eexists; split; [reflexivity|].
  destruct (sess_sends msgs (put_db (n_set_clock n (n_clock n + 1)) dbn d1) c) as (Ha & Hb & Hc & _).
  fold n1 in Ha, Hb, Hc.
  change (get_sess (put_db (n_set_clock n (n_clock n + 1)) dbn d1) c) with (get_sess n c) in Ha, Hb, Hc.
  assert (Hd1 : get_db n1 dbn = Some d1).
  { unfold n1. rewrite get_db_sends. apply get_db_put_same. }
  assert (Hne : "$$permission_$all" <> k).
  { intros <-. discriminate Hk. }
  assert (Hperm1 : get_value d1 "$$permission_$all" = None).
  { unfold d1. rewrite get_value_put_other; auto. }
  unfold handle. cbv zeta.
  rewrite (guard_safe_granted n1 c k PRead dbn d1); auto; try congruence.
  - unfold get_key_value_new, d1. rewrite get_value_put_same. cbn [v_val v_ver].
    eexists. reflexivity.
  - apply has_permission_anon; auto. congruence.
Qed.

(* ====================================================================== *)
(* C09  every command acts only with the credential it requires            *)
(* ====================================================================== *)

Definition is_admin_rq (rq : request) : bool :=
  match rq with
  | RqCreateDb _ _ _ | RqSnapshot _ _ | RqReplicateSnapshot _ _ | RqJoin _ | RqLeave _ | RqReplicateLeave _
  | RqReplicateJoin _ | RqSetPrimary _ | RqSetSecondary _ | RqElection _ _ | RqElectionWin | RqElectionActive _
  | RqReplicateSet _ _ _ _ | RqReplicateRemove _ _ | RqReplicateIncrement _ _ _ | RqReplicateSince _ _
  | RqAcknowledge _ _ | RqClusterState | RqMetricsState | RqDebug _ | RqListCommands => true
  | _ => false
  end.

Definition secure_msg : str := "To read security keys you must auth as an admin!".

Theorem admin_rq_inert n c rq :
  s_auth (get_sess n c) = false -> is_admin_rq rq = true -> handle n c rq = (n, RError "Not auth").
Proof.
  intros Ha Hq. destruct rq; try discriminate Hq; unfold handle; cbv zeta; rewrite Ha; reflexivity.
Qed.

Theorem admin_line_inert n c line rq :
  s_auth (get_sess n c) = false -> parse_request (trim_char nl line) = POk rq ->
  (is_admin_rq rq = true \/ exists s i, rq = RqReplicateRequest s i) ->
  step n c line = (n, RError "Not auth").
Proof.
  intros Ha Hp Hq. unfold step. cbn [process]. cbv zeta. rewrite Hp.
  destruct Hq as [Hq|(s & i & ->)].
  - pose proof (admin_rq_inert n c rq Ha Hq) as Hh.
    destruct rq; try discriminate Hq; rewrite Hh; reflexivity.
  - rewrite Ha. reflexivity.
Qed.

Theorem secure_user_cmds_inert n c rq :
  s_auth (get_sess n c) = false ->
  (exists t u, rq = RqCreateUser t u) \/ (exists u ps, rq = RqSetPermissions u ps) ->
  handle n c rq = (n, RError "To read security keys you must auth as an admin!").
Proof.
  intros Ha [(t & u & ->)|(u & ps & ->)]; unfold handle, guard_safe; cbv zeta; rewrite Ha; reflexivity.
Qed.

(* the same at the protocol level: nothing is queued for replication either *)
Theorem secure_user_line_inert n c line rq :
  s_auth (get_sess n c) = false -> parse_request (trim_char nl line) = POk rq ->
  (exists t u, rq = RqCreateUser t u) \/ (exists u ps, rq = RqSetPermissions u ps) ->
  step n c line = (n, RError "To read security keys you must auth as an admin!").
Proof.
  intros Ha Hp Hq. unfold step. cbn [process]. cbv zeta. rewrite Hp.
  pose proof (secure_user_cmds_inert n c rq Ha Hq) as Hh.
  destruct Hq as [(t & u & ->)|(u & ps & ->)]; rewrite Hh; reflexivity.
Qed.

Definition is_data_rq (rq : request) : bool :=
  match rq with
  | RqGet _ | RqGetSafe _ | RqSet _ _ _ | RqRemove _ | RqIncrement _ _ | RqWatch _ | RqUnWatch _
  | RqUnWatchAll | RqKeys _ | RqArbiter | RqResolve _ _ _ _ _ => true
  | _ => false
  end.

Lemma guard_safe_no_db n c k kind :
  s_db (get_sess n c) = None -> s_auth (get_sess n c) = false ->
  guard_safe n c k kind = GStop n (RError secure_msg) \/
  guard_safe n c k kind = GStop (send n c no_db_msg) (RError no_db_msg).
Proof.
  intros Hs Ha. unfold guard_safe, reject_no_db. rewrite Hs, Ha.
  destruct (starts_with k "$$"); cbn [andb negb]; auto.
Qed.

Lemma guard_db_no_db n c :
  s_db (get_sess n c) = None -> guard_db n c = GStop (send n c no_db_msg) (RError no_db_msg).
Proof. intros Hs. unfold guard_db, reject_no_db. now rewrite Hs. Qed.

Theorem data_needs_db n c rq :
  s_db (get_sess n c) = None -> s_auth (get_sess n c) = false -> is_data_rq rq = true ->
  exists n' r, handle n c rq = (n', r) /\
    n_dbs n' = n_dbs n /\ n_repl n' = n_repl n /\ n_sup n' = n_sup n /\
    ((n' = n /\ r = RError "To read security keys you must auth as an admin!") \/
     (n' = send n c no_db_msg /\ r = RError no_db_msg)).
Proof.
  intros Hs Ha Hq.
  destruct rq; try discriminate Hq; unfold handle; cbv zeta; rewrite ?Ha;
  try match goal with |- context [guard_safe n c ?k ?kd] =>
        destruct (guard_safe_no_db n c k kd Hs Ha) as [-> | ->] end;
  rewrite ?(guard_db_no_db n c Hs);
  do 2 eexists; (split; [reflexivity|]); repeat split; auto.
Qed.

(* protocol level: the refused data command is not replicated either *)
Theorem data_line_needs_db n c line rq :
  s_db (get_sess n c) = None -> s_auth (get_sess n c) = false ->
  parse_request (trim_char nl line) = POk rq -> is_data_rq rq = true ->
  step n c line = handle n c rq.
Proof.
  intros Hs Ha Hp Hq. unfold step. cbn [process]. cbv zeta. rewrite Hp.
  destruct (data_needs_db n c rq Hs Ha Hq) as (n' & r & Hh & _ & _ & _ & Hr).
  destruct rq; try discriminate Hq; rewrite Hh;
  destruct Hr as [[_ ->]|[_ ->]]; reflexivity.
Qed.

Theorem failed_usedb_keeps_selection n c token name user n' msg :
  handle n c (RqUseDb token name user) = (n', RError msg) -> n' = n.
Proof.
  unfold handle. cbv zeta. repeat dm; intros [= <- ?]; try reflexivity; discriminate.
Qed.

(* ---- permissions ---- *)
Definition eff_user (n : node) (c : nat) : str :=
  match s_user (get_sess n c) with Some u => u | None => "all" end.

Definition grants (d : db) (user k : str) (req : perm_kind) : Prop :=
  exists pv p pat, get_value d ("$$permission_$" +++ user) = Some pv /\
    In p (permissions_from_str (v_val pv)) /\
    (exists kd, In kd (pm_kinds p) /\ perm_kind_eqb req kd = true) /\
    In pat (pm_keys p) /\ pattern_match k pat = true.

Lemma has_permission_spec_gen n c k d req :
  starts_with k "$$" = false ->
  (has_permission n c k d req = true <->
   grants d (eff_user n c) k req \/
   (get_value d ("$$permission_$" +++ eff_user n c) = None /\ eff_user n c = "all")).
Proof.
  intros Hk. unfold has_permission, grants. rewrite Hk. fold (eff_user n c).
  destruct (get_value d ("$$permission_$" +++ eff_user n c)) as [pv|].
  - rewrite existsb_exists. split.
    + intros (p & Hin & Hb). apply andb_true_iff in Hb. destruct Hb as [H1 H2].
      apply existsb_exists in H1. apply existsb_exists in H2.
      destruct H1 as (kd & Hkd & Ekd). destruct H2 as (pat & Hpat & Epat).
      left. exists pv, p, pat. repeat split; eauto.
    + intros [(pv' & p & pat & [= <-] & Hin & (kd & Hkd & Ekd) & Hpat & Epat)|[H _]]; [|discriminate].
      exists p. split; auto. apply andb_true_iff. split; apply existsb_exists; eauto.
  - split.
    + intros H. right. split; auto. now apply String.eqb_eq.
    + intros [(pv' & p & pat & H & _)|[_ ->]]; [discriminate|reflexivity].
Qed.

Theorem has_permission_spec n c k d req u :
  starts_with k "$$" = false -> s_user (get_sess n c) = Some u ->
  (has_permission n c k d req = true <->
   (exists pv p pat, get_value d ("$$permission_$" +++ u) = Some pv /\
      In p (permissions_from_str (v_val pv)) /\
      (exists kd, In kd (pm_kinds p) /\ perm_kind_eqb req kd = true) /\
      In pat (pm_keys p) /\ pattern_match k pat = true) \/
   (get_value d ("$$permission_$" +++ u) = None /\ u = "all")).
Proof.
  intros Hk Hu. pose proof (has_permission_spec_gen n c k d req Hk) as H.
  unfold eff_user, grants in H. rewrite Hu in H. exact H.
Qed.

(* a session that named no user is the user "all" *)
Theorem has_permission_spec_anon n c k d req :
  starts_with k "$$" = false -> s_user (get_sess n c) = None ->
  (has_permission n c k d req = true <->
   grants d "all" k req \/ get_value d "$$permission_$all" = None).
Proof.
  intros Hk Hu. pose proof (has_permission_spec_gen n c k d req Hk) as H.
  unfold eff_user in H. rewrite Hu in H. rewrite H.
  change ("$$permission_$" +++ "all") with "$$permission_$all". intuition.
Qed.

(* keys under "$$" are for the administrator only *)
Theorem has_permission_secure n c k d req :
  starts_with k "$$" = true -> has_permission n c k d req = s_auth (get_sess n c).
Proof. intros Hk. unfold has_permission. now rewrite Hk. Qed.

Definition rq_key_kind (rq : request) : option (str * perm_kind) :=
  match rq with
  | RqGet k | RqGetSafe k | RqWatch k => Some (k, PRead)
  | RqSet k _ _ => Some (k, PWrite)
  | RqIncrement k _ => Some (k, PIncrement)
  | RqRemove k => Some (k, PRemove)
  | RqArbiter => Some ("$conflicts", PRead)
  | RqResolve _ _ k _ _ => Some (k, PWrite)
  | _ => None
  end.

Theorem user_denied n c dbn d rq k kind :
  s_auth (get_sess n c) = false -> s_db (get_sess n c) = Some dbn -> get_db n dbn = Some d ->
  rq_key_kind rq = Some (k, kind) -> starts_with k "$$" = false ->
  has_permission n c k d kind = false ->
  handle n c rq = (send n c denied_msg, RError denied_msg).
Proof.
  intros Ha Hs Hd Hq Hk Hp.
  pose proof (guard_safe_denied n c k kind dbn d Hs Hd Hk Hp) as Hg.
  destruct rq; try discriminate Hq; injection Hq as <- <-;
    unfold handle; cbv zeta; rewrite ?Ha; rewrite Hg; reflexivity.
Qed.

(* protocol level: the refused command is not replicated *)
Theorem user_denied_line n c dbn d line rq k kind :
  s_auth (get_sess n c) = false -> s_db (get_sess n c) = Some dbn -> get_db n dbn = Some d ->
  parse_request (trim_char nl line) = POk rq ->
  rq_key_kind rq = Some (k, kind) -> starts_with k "$$" = false ->
  has_permission n c k d kind = false ->
  step n c line = (send n c denied_msg, RError denied_msg).
Proof.
  intros Ha Hs Hd Hpr Hq Hk Hp. unfold step. cbn [process]. cbv zeta. rewrite Hpr.
  pose proof (user_denied n c dbn d rq k kind Ha Hs Hd Hq Hk Hp) as Hh.
  destruct rq; try discriminate Hq; rewrite Hh; reflexivity.
Qed.

Theorem get_served n c dbn d k :
  s_db (get_sess n c) = Some dbn -> get_db n dbn = Some d ->
  starts_with k "$$" = false -> has_permission n c k d PRead = true ->
  handle n c (RqGet k) =
    (send n c ("value " +++ fst (get_key_value_new d k) +++ nlS),
     RValue k (fst (get_key_value_new d k)) (snd (get_key_value_new d k))).
Proof.
  intros Hs Hd Hk Hp. unfold handle. cbv zeta.
  rewrite (guard_safe_granted n c k PRead dbn d Hs Hd Hk Hp).
  destruct (get_key_value_new d k). reflexivity.
Qed.

Theorem no_list_no_value n c u dbn d :
  s_auth (get_sess n c) = false -> s_user (get_sess n c) = Some u -> u <> "all" ->
  s_db (get_sess n c) = Some dbn -> get_db n dbn = Some d ->
  get_value d ("$$permission_$" +++ u) = None ->
  (forall k, handle n c (RqGet k) = (n, RError "To read security keys you must auth as an admin!") \/
             handle n c (RqGet k) = (send n c denied_msg, RError denied_msg)) /\
  (forall p, handle n c (RqKeys p) =
             (send n c ("keys " +++ keys_fold (list_keys d p false) +++ nlS),
              RValue "keys" (keys_fold (list_keys d p false)) (-1))).
Proof.
  intros Ha Hu Hne Hs Hd Hnone. split.
  - intros k. destruct (starts_with k "$$") eqn:Hk.
    + left. unfold handle, guard_safe. cbv zeta. rewrite Hk, Ha. reflexivity.
    + right. apply (user_denied n c dbn d (RqGet k) k PRead); auto.
      destruct (has_permission n c k d PRead) eqn:Hp; auto.
      apply (has_permission_spec n c k d PRead u Hk Hu) in Hp.
      destruct Hp as [(pv & p & pat & H & _)|[_ ->]]; congruence.
  - intros p. unfold handle, guard_db, guard_db_name. cbv zeta. rewrite Hs, Hd, Ha. reflexivity.
Qed.

(* ====================================================================== *)
(* The HTTP transport: the worker never dies                               *)
(* ====================================================================== *)
Lemma http_commands_safe cmds : forall n c acc, AdminInv n ->
  AdminInv (fst (http_commands n c cmds acc)) /\ snd (http_commands n c cmds acc) <> None.
Proof.
  induction cmds as [|cmd rest IH]; intros n c acc Hinv; cbn [http_commands].
  - split; [exact Hinv|discriminate].
  - cbv zeta. destruct (String.eqb (trim cmd) ""); [now apply IH|].
    pose proof (step_inv n c (trim cmd) Hinv) as Hi.
    pose proof (step_no_panic n c (trim cmd) Hinv) as Hp.
    destruct (step n c (trim cmd)) as [n1 r]. cbn [fst snd] in Hi, Hp.
    destruct r; try congruence; try (apply IH; exact Hi).
    all: destruct (s_inbox (get_sess n1 c)); apply IH; exact Hi.
Qed.

Theorem http_request_inv n body : AdminInv n -> AdminInv (fst (http_request n body)).
Proof.
  intros Hinv. unfold http_request, connect. cbv zeta beta iota.
  match goal with |- context [http_commands ?m ?c ?l ?a] =>
    destruct (http_commands_safe l m c a) as [Hi _]; [exact Hinv|];
    destruct (http_commands m c l a) as [n1 out] end.
  cbn [fst] in *. now apply disconnect_inv.
Qed.

Theorem http_request_worker_survives n body : AdminInv n -> snd (http_request n body) <> None.
Proof.
  intros Hinv. unfold http_request, connect. cbv zeta beta iota.
  match goal with |- context [http_commands ?m ?c ?l ?a] =>
    destruct (http_commands_safe l m c a) as [_ Hp]; [exact Hinv|];
    destruct (http_commands m c l a) as [n1 out] end.
  exact Hp.
Qed.

(* ====================================================================== *)
(* Sanity checks on concrete inputs                                        *)
(* ====================================================================== *)

(* AdminInv is necessary for step_no_panic: on a (never reachable) node without
   the "$admin" database an authenticated create-db panics. *)
Definition no_admin_node : node :=
  mkNode [] [mkSess true None None None []] Primary 0 "u" "p" "a" 1 [] [] [] [] [] [].
Example no_admin_panics : snd (step no_admin_node 0 "create-db x t") = RPanic.
Proof. vm_compute. reflexivity. Qed.

Definition demo0 : node := fst (connect (init_node "u" "p" "addr" 1 Primary 0)).
Example demo_unauth_admin : step demo0 0 "create-db x t" = (demo0, RError "Not auth").
Proof. vm_compute. reflexivity. Qed.
Example demo_unauth_rp : step demo0 0 "rp 1 set a b" = (demo0, RError "Not auth").
Proof. vm_compute. reflexivity. Qed.
Example demo_no_db : snd (step demo0 0 "get a") = RError no_db_msg.
Proof. vm_compute. reflexivity. Qed.
Example demo_resolve_no_db : snd (step demo0 0 "resolve 1 db k 1 v") = RError no_db_msg.
Proof. vm_compute. reflexivity. Qed.

(* deeply nested rp lines terminate within the fuel of [step] *)
Definition demo1 : node := fst (step demo0 0 "auth u p").
Example demo_nested_rp :
  snd (step demo1 0 "rp 1 rp 2 rp 3 rp 4 create-db x t") = ROk.
Proof. vm_compute. reflexivity. Qed.

(* ====================================================================== *)
(* Statements and axiom audit                                              *)
(* ====================================================================== *)
Check parse_total. Check init_inv. Check step_inv. Check connect_inv. Check disconnect_inv.
Check step_no_panic. Check run_inv. Check run_no_panic. Check probe_served.
Check http_request_inv. Check http_request_worker_survives.
Check admin_rq_inert. Check admin_line_inert. Check secure_user_cmds_inert. Check secure_user_line_inert.
Check data_needs_db. Check data_line_needs_db. Check failed_usedb_keeps_selection.
Check has_permission_spec. Check has_permission_spec_anon. Check has_permission_secure.
Check user_denied. Check user_denied_line. Check get_served. Check no_list_no_value.
Print Assumptions run_no_panic.
Print Assumptions probe_served.
Print Assumptions http_request_worker_survives.
Print Assumptions admin_line_inert.
Print Assumptions data_line_needs_db.
Print Assumptions user_denied_line.
Print Assumptions no_list_no_value.
Print Assumptions has_permission_spec.
