(* NewerRaceProofs.v -- C19 under lock-level interleavings: a REFUTATION WITNESS (known finding).

   Property C19: on a database with the `newer` conflict strategy "a write whose version is
   stale is resolved in favour of the most recently issued change".  With two concurrent
   clients this is false of the model (Model/Sched.v) -- and of the real code, which agrees
   with the model on all 252 interleavings of the program below.

   The cause (section 1, [resolving_write_unchecked]): a `set-safe` that meets a version
   conflict and finds the stored op id OLDER than its own does not write inside the critical
   section in which it compared the op ids: it gives the map lock up, draws a FRESH op id and
   parks again in front of map.write with a "resolving" change; that second critical section
   writes without looking at op ids at all.  Whatever was stored between the two sections is
   overwritten (manifestation 1, [newer_resolution_overwrites]), and the value it stores is
   stamped with the fresh op id, which makes a change that was issued LATER -- but had not
   reached its first write yet -- look stale (manifestation 2, [newer_resolution_restamps]).

   Program: database "d1" (strategy newer), key "a" at version 1;
            thread 0 = session 1 runs  set-safe a 0 x1   ("A"),
            thread 1 = session 2 runs  set-safe a 0 y1   ("B").
   Releases of one set-safe:  1 cmd -> map.read (permission lookup) | 2 guard, Change::new (op id
   drawn: the change is ISSUED) -> map.write | 3 first write | [4 resolving write] | 5 notify.  *)
From NunDB Require Import Model.Base Model.Pending Model.Parse Model.Node Model.Sched
  Proofs.AssocLemmas Proofs.DbProofs Proofs.SchedProofs.
Local Open Scope Z_scope.

(* ====================================================================== *)
(* 1. the cause: the resolving write does not look at op ids               *)
(* ====================================================================== *)

(* Releasing a thread parked at map.write with a RESOLVING change stores the change's value
   under the change's op id, whatever op id the stored entry carries: there is no hypothesis
   on [v_opp] of the stored entry, nor on the strategy of the database.  (Side conditions as
   in [resolving_set_succeeds]: the stored entry is not marked in conflict (-2) and its version
   is below i32::MAX.) *)
Lemma resolving_write_unchecked n t dbn key value ver opp orig d :
  t_pc t = PcSetWrite dbn key value ver opp true orig ->
  get_db n dbn = Some d ->
  (forall old, get_value d key = Some old -> v_ver old <> -2 /\ v_ver old < i32_max) ->
  exists d1 nw,
    get_db (fst (release n t)) dbn = Some d1 /\
    get_value d1 key = Some nw /\ v_val nw = value /\ v_opp nw = opp /\
    (forall k, k <> key -> get_value d1 k = get_value d k) /\
    (exists nv, t_pc (snd (release n t)) = PcNotify dbn key value nv (RqSet key value orig)) /\
    t_replies (snd (release n t)) = t_replies t.
Proof.
  intros Hpc Hdb Hold.
  destruct (newer_resolving_release n t dbn key value ver opp orig d Hpc Hdb Hold)
    as (d1 & nw & nv & E & Hd1 & Hg & Hv & Ho & Hnv).
  exists d1, nw. rewrite E. cbn [fst snd]. rewrite get_db_put_same.
  repeat split; auto.
  - intros k Hk. subst d1. cbn [db_apply'].
    apply (set_value_other d (mkCh key value ver opp true) k). exact Hk.
  - exists nv. reflexivity.
Qed.

(* in particular: a stored entry that is strictly NEWER than the resolving change (by op id)
   is overwritten all the same *)
Corollary resolving_write_overwrites_newer n t dbn key value ver opp orig d old :
  t_pc t = PcSetWrite dbn key value ver opp true orig ->
  get_db n dbn = Some d ->
  get_value d key = Some old -> v_ver old <> -2 -> v_ver old < i32_max ->
  (opp < v_opp old)%N ->
  exists d1 nw,
    get_db (fst (release n t)) dbn = Some d1 /\
    get_value d1 key = Some nw /\ v_val nw = value /\ (v_opp nw < v_opp old)%N.
Proof.
  intros Hpc Hdb Hg H2 Hm Hlt.
  destruct (resolving_write_unchecked n t dbn key value ver opp orig d Hpc Hdb)
    as (d1 & nw & A & B & C & D & _).
  - intros o. rewrite Hg. intros [= <-]. auto.
  - exists d1, nw. rewrite D. auto.
Qed.

(* ====================================================================== *)
(* 2. the program                                                          *)
(* ====================================================================== *)

Definition nr_steps (n : node) (c : nat) (ls : list str) : node :=
  fold_left (fun n l => fst (step n c l)) ls n.

(* sessions 0, 1, 2 selected database d1 (strategy newer); key "a" holds "i1" at version 1 *)
Definition nr_node : node :=
  let '(n, c0) := connect (init_node "nun" "pwd" "a" 1 Primary 0) in
  let '(n, c1) := connect n in
  let '(n, c2) := connect n in
  let n := nr_steps n c0 ["auth nun pwd"; "create-db d1 tok1 newer"; "use-db d1 tok1";
                          "set a i0"; "set a i1"] in
  let n := nr_steps n c1 ["use-db d1 tok1"] in
  nr_steps n c2 ["use-db d1 tok1"].

(* thread 0 ("A") writes x1, thread 1 ("B") writes y1, both with the stale version 0 *)
Definition nr_ts (k : str) : list thr :=
  [new_thread 1 ["set-safe " +++ k +++ " 0 x1"] [];
   new_thread 2 ["set-safe " +++ k +++ " 0 y1"] []].

Definition nr_look (n : node) (k : str) : option value :=
  match get_db n "d1" with Some d => get_value d k | None => None end.
Definition nr_val (n : node) (k : str) : option str := option_map v_val (nr_look n k).

Definition nr_value_of (i : nat) : str := match i with O => "x1" | _ => "y1" end.

(* the op id a thread holds while it is parked at map.write *)
Definition pc_opp (p : pc) : option N :=
  match p with PcSetWrite _ _ _ _ opp _ _ => Some opp | _ => None end.
Definition pc_resolving (p : pc) : bool :=
  match p with PcSetWrite _ _ _ _ _ r _ => r | _ => false end.

Example nr_node_ok :
  option_map d_strat (get_db nr_node "d1") = Some SNewer /\
  nr_look nr_node "a" = Some (mkV "i1" 1 8 VNew 0 0) /\
  nr_look nr_node "b" = None /\
  map (fun c => s_db (get_sess nr_node c)) [1; 2]%nat = [Some "d1"; Some "d1"] /\
  Forall sched_thr (nr_ts "a") /\ Forall sched_thr (nr_ts "b").
Proof.
  split; [vm_compute; reflexivity|]. split; [vm_compute; reflexivity|].
  split; [vm_compute; reflexivity|]. split; [vm_compute; reflexivity|].
  split; (constructor; [|constructor; [|constructor]]);
    (apply sched_thr_dec_sound; [vm_compute; reflexivity | exact I]).
Qed.

Definition sched_overwrite : list nat := [0;0;0;1;1;1;1;0;0;1]%nat.
Definition sched_restamp : list nat := [0;0;1;1;0;0;0;1;1;1]%nat.

(* ====================================================================== *)
(* 3. manifestation 1: the resolving write lands over a newer value        *)
(* ====================================================================== *)

(* A: lookup, issue (op id 12), first write: conflict with the stored i1 (op id 8 < 12): A decides
   it wins and parks again.  B: lookup, issue (op id 14 > 12), first write: conflict, wins, parks;
   resolving write: y1 stored.  A: resolving write: x1 stored OVER y1.  Both notify.
   The change issued FIRST is what the database ends with. *)
Example newer_resolution_overwrites :
  (* after A's three and B's two first releases: A parked with its resolving change, B just issued *)
  let mid := run_schedule nr_node (nr_ts "a") (firstn 5 sched_overwrite) in
  (* ... two more releases of B: y1 is in the map, A still parked in front of map.write *)
  let mid2 := run_schedule nr_node (nr_ts "a") (firstn 7 sched_overwrite) in
  let fin := run_schedule nr_node (nr_ts "a") sched_overwrite in
  (* the op ids drawn at issue (A's was 12: see its first-write pc one release earlier) *)
  map t_pc (snd (run_schedule nr_node (nr_ts "a") (firstn 2 sched_overwrite))) =
    [PcSetWrite "d1" "a" "x1" 0 12 false 0; PcCmd] /\
  map t_pc (snd mid) =
    [PcSetWrite "d1" "a" "x1" 1 13 true 0; PcSetWrite "d1" "a" "y1" 0 14 false 0] /\
  (12 < 14)%N /\
  nr_val (fst mid) "a" = Some "i1" /\
  (* B's value is stored while A is parked at its second map.write *)
  nr_look (fst mid2) "a" = Some (mkV "y1" 2 15 VNew 0 0) /\
  map (fun t => pc_resolving (t_pc t)) (snd mid2) = [true; false] /\
  (* the end: both done, both answered Ok, x1 stored *)
  map t_pc (snd fin) = [PcDone; PcDone] /\
  map t_replies (snd fin) = [[ROk]; [ROk]] /\
  nr_look (fst fin) "a" = Some (mkV "x1" 3 13 VNew 0 0) /\
  map t_trace (snd fin) =
    [["cmd"; "map.read"; "map.write"; "map.write"; "watchers.read"];
     ["cmd"; "map.read"; "map.write"; "map.write"; "watchers.read"]] /\
  (* and nothing is left to run *)
  run_par nr_node (nr_ts "a") sched_overwrite = fin.
Proof. vm_compute. repeat split. Qed.

(* ====================================================================== *)
(* 4. manifestation 2: the resolving write re-stamps the value             *)
(* ====================================================================== *)

(* Both issue (A: 12, B: 13).  A runs its first write (conflict, 8 < 12, parks with the fresh op id
   14) and its resolving write: x1 stored with op id 14 > 13.  B's first write now finds the stored
   op id larger than its own, keeps x1 and answers: B never reaches a second map.write. *)
Example newer_resolution_restamps :
  let mid := run_schedule nr_node (nr_ts "a") (firstn 4 sched_restamp) in
  let mid2 := run_schedule nr_node (nr_ts "a") (firstn 7 sched_restamp) in
  let mid3 := run_schedule nr_node (nr_ts "a") (firstn 8 sched_restamp) in
  let fin := run_schedule nr_node (nr_ts "a") sched_restamp in
  (* both issued: A before B *)
  map t_pc (snd mid) =
    [PcSetWrite "d1" "a" "x1" 0 12 false 0; PcSetWrite "d1" "a" "y1" 0 13 false 0] /\
  (12 < 13)%N /\
  (* A is through: x1 stored under a fresh op id, larger than the one B was issued *)
  map t_pc (snd mid2) = [PcDone; PcSetWrite "d1" "a" "y1" 0 13 false 0] /\
  nr_look (fst mid2) "a" = Some (mkV "x1" 2 14 VNew 0 0) /\
  (13 < 14)%N /\
  (* B's first write is its last release: the old value is kept, B is answered at once *)
  map t_pc (snd mid3) = [PcDone; PcDone] /\
  fin = mid3 /\
  map t_replies (snd fin) = [[ROk]; [ROk]] /\
  nr_look (fst fin) "a" = Some (mkV "x1" 2 14 VNew 0 0) /\
  map t_trace (snd fin) =
    [["cmd"; "map.read"; "map.write"; "map.write"; "watchers.read"];
     ["cmd"; "map.read"; "map.write"]] /\
  run_par nr_node (nr_ts "a") sched_restamp = fin.
Proof. vm_compute. repeat split. Qed.

(* the reply of the keep-old branch before the replication tail turns it into Ok: it names the
   value that was kept *)
Example newer_restamp_reply_names_kept_value :
  let mid2 := run_schedule nr_node (nr_ts "a") (firstn 7 sched_restamp) in
  exists t d old,
    nth_error (snd mid2) 1 = Some t /\ get_db (fst mid2) "d1" = Some d /\
    get_value d "a" = Some old /\ v_val old = "x1" /\
    N.ltb (v_opp old) 13 = false /\
    release (fst mid2) t =
      complete (fst mid2) t (RqSet "a" "y1" 0) (Some "d1") (RSet "a" (v_val old)).
Proof.
  cbn zeta.
  destruct (run_schedule nr_node (nr_ts "a") (firstn 7 sched_restamp)) as [n ts] eqn:E.
  vm_compute in E. injection E as <- <-.
  eexists _, _, _.
  split; [vm_compute; reflexivity|]. split; [vm_compute; reflexivity|].
  split; [vm_compute; reflexivity|]. split; [vm_compute; reflexivity|].
  split; vm_compute; reflexivity.
Qed.

(* ====================================================================== *)
(* 5. all interleavings                                                    *)
(* ====================================================================== *)

(* all interleavings of [a] releases of thread 0 and [b] releases of thread 1 *)
Fixpoint interleavings_aux (fuel a b : nat) : list (list nat) :=
  match fuel with
  | O => [[]]
  | S f =>
      match a, b with
      | O, O => [[]]
      | S a', O => map (cons 0%nat) (interleavings_aux f a' O)
      | O, S b' => map (cons 1%nat) (interleavings_aux f O b')
      | S a', S b' => map (cons 0%nat) (interleavings_aux f a' b) ++
                      map (cons 1%nat) (interleavings_aux f a b')
      end
  end.
Definition interleavings (a b : nat) : list (list nat) := interleavings_aux (a + b) a b.

Definition all_schedules : list (list nat) := interleavings 5 5.

Example all_schedules_ok :
  List.length all_schedules = 252%nat /\
  forallb (fun s => Nat.eqb (count_occ Nat.eq_dec s 0%nat) 5 && Nat.eqb (count_occ Nat.eq_dec s 1%nat) 5)
          all_schedules = true /\
  In sched_overwrite all_schedules /\ In sched_restamp all_schedules /\
  NoDup all_schedules.
Proof.
  split; [vm_compute; reflexivity|]. split; [vm_compute; reflexivity|].
  assert (Hin : forall s, existsb (fun s' => if list_eq_dec Nat.eq_dec s s' then true else false) all_schedules = true ->
                          In s all_schedules).
  { intros s H. apply existsb_exists in H. destruct H as (s' & Hi & E).
    destruct (list_eq_dec Nat.eq_dec s s'); [subst; auto | discriminate]. }
  split; [apply Hin; vm_compute; reflexivity|].
  split; [apply Hin; vm_compute; reflexivity|].
  assert (Hnd : forall l : list (list nat),
            (fix nd (l : list (list nat)) : bool :=
               match l with
               | [] => true
               | x :: r => negb (existsb (fun y => if list_eq_dec Nat.eq_dec x y then true else false) r) && nd r
               end) l = true -> NoDup l).
  { induction l as [|x r IH]; intros H; constructor.
    - apply andb_true_iff in H. destruct H as [H _]. apply negb_true_iff in H.
      intros Hi. assert (existsb (fun y => if list_eq_dec Nat.eq_dec x y then true else false) r = true).
      { apply existsb_exists. exists x. split; auto. destruct (list_eq_dec Nat.eq_dec x x); congruence. }
      congruence.
    - apply IH. apply andb_true_iff in H. tauto. }
  apply Hnd. vm_compute. reflexivity.
Qed.

(* the op ids the threads were ISSUED: what each thread holds the first time it is seen parked at
   map.write with a non-resolving change (the release that ran Change::new) *)
Definition note_issue (ts : list thr) (ids : list (option N)) : list (option N) :=
  map (fun p => match snd p with
                | Some id => Some id
                | None => match t_pc (fst p) with
                          | PcSetWrite _ _ _ _ opp false _ => Some opp
                          | _ => None
                          end
                end) (combine ts ids).

Definition issue_step (acc : node * list thr * list (option N)) (i : nat) :=
  let '(n0, ts0, ids) := acc in
  let '(n1, ts1) := release_nth n0 ts0 i in
  (n1, ts1, note_issue ts1 ids).

(* run_schedule with a ghost: the issue op ids *)
Definition run_issue (n : node) (ts : list thr) (sched : list nat) : node * list thr * list (option N) :=
  fold_left issue_step sched (n, ts, map (fun _ => None) ts).

Lemma run_issue_schedule_gen s : forall n ts ids,
  fst (fold_left issue_step s (n, ts, ids)) = run_schedule n ts s.
Proof.
  unfold run_schedule. induction s as [|i r IH]; intros n ts ids; cbn [fold_left]; [reflexivity|].
  unfold issue_step at 2. cbn [fst snd]. destruct (release_nth n ts i) as [n1 ts1]. apply IH.
Qed.

Lemma run_issue_schedule n ts s : fst (run_issue n ts s) = run_schedule n ts s.
Proof. apply run_issue_schedule_gen. Qed.

(* position of the second release of thread [i] in a schedule (its issue release) *)
Fixpoint second_pos (i : nat) (seen : nat) (pos : nat) (s : list nat) : option nat :=
  match s with
  | [] => None
  | j :: r => if Nat.eqb i j
              then match seen with O => second_pos i 1 (S pos) r | _ => Some pos end
              else second_pos i seen (S pos) r
  end.

(* the thread whose second release comes last *)
Definition later_second (s : list nat) : option nat :=
  match second_pos 0 0 0 s, second_pos 1 0 0 s with
  | Some p0, Some p1 => Some (if Nat.ltb p0 p1 then 1 else 0)%nat
  | _, _ => None
  end.

(* which thread was issued its change last / first, by op id *)
Definition issued_last (ids : list (option N)) : option nat :=
  match ids with
  | [Some a; Some b] => Some (if N.ltb a b then 1%nat else 0%nat)
  | _ => None
  end.
Definition issued_first (ids : list (option N)) : option nat :=
  option_map (fun i => (1 - i)%nat) (issued_last ids).

Definition val_is (n : node) (k v : str) : bool :=
  match nr_val n k with Some x => String.eqb x v | None => false end.

(* ---- a key that does not exist yet: consistent -------------------------------------------- *)

(* for the two schedules above the change issued last (B's) wins on a new key *)
Example newer_new_key_consistent :
  let f1 := run_schedule nr_node (nr_ts "b") sched_overwrite in
  let f2 := run_schedule nr_node (nr_ts "b") sched_restamp in
  nr_look nr_node "b" = None /\
  map t_pc (snd f1) = [PcDone; PcDone] /\ map t_replies (snd f1) = [[ROk]; [ROk]] /\
  nr_val (fst f1) "b" = Some "y1" /\
  snd (run_issue nr_node (nr_ts "b") sched_overwrite) = [Some 12%N; Some 13%N] /\
  map t_pc (snd f2) = [PcDone; PcDone] /\ map t_replies (snd f2) = [[ROk]; [ROk]] /\
  nr_val (fst f2) "b" = Some "y1" /\
  snd (run_issue nr_node (nr_ts "b") sched_restamp) = [Some 12%N; Some 13%N].
Proof. vm_compute. repeat split. Qed.

(* what holds of one schedule on key [k]: both threads finish, both are answered Ok, both were
   issued an op id, the op ids order the threads as their second releases do; [w] is the thread
   whose value is stored at the end *)
Definition sched_outcome (k : str) (s : list nat) (issued_lastQ : bool) : Prop :=
  let '(n, ts, ids) := run_issue nr_node (nr_ts k) s in
  map t_pc ts = [PcDone; PcDone] /\ map t_replies ts = [[ROk]; [ROk]] /\
  exists i, issued_last ids = Some i /\ later_second s = Some i /\
            nr_val n k = Some (nr_value_of (if issued_lastQ then i else (1 - i)%nat)).

Ltac solve_outcome := vm_compute; repeat split; eexists; repeat split.

(* BOUND: this program (two threads, one set-safe each, key "b" absent), all 252 interleavings of
   5 + 5 releases.  Both threads finish, both are answered Ok, and the final value is that of the
   thread that was issued its change LAST (by op id; equivalently the thread whose second
   release comes last). *)
Theorem newer_new_key_all_schedules :
  List.length all_schedules = 252%nat /\
  forall s, In s all_schedules -> sched_outcome "b" s true.
Proof.
  split; [vm_compute; reflexivity|].
  apply Forall_forall.
  let l := eval vm_compute in all_schedules in change all_schedules with l.
  repeat (apply Forall_cons; [solve_outcome|]). apply Forall_nil.
Qed.

(* ---- the existing key: 84 of 252 ------------------------------------------------------------ *)

Definition first_issued_stored (k : str) (s : list nat) : bool :=
  let '(n, ts, ids) := run_issue nr_node (nr_ts k) s in
  match issued_first ids with Some i => val_is n k (nr_value_of i) | None => false end.
Definition last_issued_stored (k : str) (s : list nat) : bool :=
  let '(n, ts, ids) := run_issue nr_node (nr_ts k) s in
  match issued_last ids with Some i => val_is n k (nr_value_of i) | None => false end.

(* BOUND: this program on key "a" (present, version 1), all 252 interleavings of 5 + 5 releases:
   on 84 of them the change that was issued FIRST is the one stored at the end, on the other
   168 it is the one issued last.  (Same numbers as the real code under the same schedules.) *)
Theorem newer_existing_key_count :
  List.length (filter (first_issued_stored "a") all_schedules) = 84%nat /\
  List.length (filter (last_issued_stored "a") all_schedules) = 168%nat /\
  In sched_overwrite (filter (first_issued_stored "a") all_schedules) /\
  In sched_restamp (filter (first_issued_stored "a") all_schedules) /\
  List.length (filter (first_issued_stored "b") all_schedules) = 0%nat.
Proof.
  split; [vm_compute; reflexivity|]. split; [vm_compute; reflexivity|].
  pose proof all_schedules_ok as (_ & _ & H1 & H2 & _).
  split; [apply (proj2 (filter_In (first_issued_stored "a") sched_overwrite all_schedules)); split; [exact H1 | vm_compute; reflexivity]|].
  split; [apply (proj2 (filter_In (first_issued_stored "a") sched_restamp all_schedules)); split; [exact H2 | vm_compute; reflexivity]|].
  vm_compute; reflexivity.
Qed.

(* every schedule on "a" also ends with both threads done and answered Ok, and one of the two
   values stored; which one is decided as counted above *)
Theorem newer_existing_key_all_schedules :
  forall s, In s all_schedules ->
    sched_outcome "a" s (negb (first_issued_stored "a" s)).
Proof.
  apply Forall_forall.
  let l := eval vm_compute in all_schedules in change all_schedules with l.
  repeat (apply Forall_cons; [solve_outcome|]). apply Forall_nil.
Qed.

Check resolving_write_unchecked.
Check resolving_write_overwrites_newer.
Check newer_resolution_overwrites.
Check newer_resolution_restamps.
Check newer_restamp_reply_names_kept_value.
Check newer_new_key_consistent.
Check newer_new_key_all_schedules.
Check newer_existing_key_count.
Check newer_existing_key_all_schedules.
Print Assumptions resolving_write_unchecked.
Print Assumptions resolving_write_overwrites_newer.
Print Assumptions newer_resolution_overwrites.
Print Assumptions newer_resolution_restamps.
Print Assumptions newer_new_key_consistent.
Print Assumptions newer_new_key_all_schedules.
Print Assumptions newer_existing_key_count.
Print Assumptions newer_existing_key_all_schedules.
