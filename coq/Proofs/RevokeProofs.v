(* RevokeProofs.v -- property C09 (credentials), revocation part:
   "a user without a permission list can reach no key's value; permission changes
    made mid-session take effect on the very next command".

   The administrator's `remove $$permission_$<user>` either drops the entry (state VNew)
   or leaves a tombstone (text "<Empty>", state VDeleted).  [has_permission] parses the
   stored text without looking at the state, so the defect class to exclude is the
   tombstone text being read as a permission statement that grants something. *)
From NunDB Require Import Model.Base Model.Pending Model.Parse Model.Node
  Proofs.AssocLemmas Proofs.GuardProofs Proofs.ClusterProofs Proofs.ConvergeProofs.
Local Open Scope Z_scope.

(* ====================================================================== *)
(* 0. Vocabulary                                                           *)
(* ====================================================================== *)

(* the key under which a user's permission list is stored *)
Definition perm_key (u : str) : str := "$$permission_$" +++ u.

(* the boolean test [has_permission] applies to a parsed permission list *)
Definition list_grants (ps : list permission) (key : str) (kind : perm_kind) : bool :=
  existsb (fun p => existsb (perm_kind_eqb kind) (pm_kinds p) &&
                    existsb (fun pat => pattern_match key pat) (pm_keys p)) ps.

(* the Prop form used by [has_permission_spec] *)
Definition list_grants_P (ps : list permission) (key : str) (kind : perm_kind) : Prop :=
  exists p pat, In p ps /\
    (exists kd, In kd (pm_kinds p) /\ perm_kind_eqb kind kd = true) /\
    In pat (pm_keys p) /\ pattern_match key pat = true.

Lemma list_grants_iff ps key kind : list_grants ps key kind = true <-> list_grants_P ps key kind.
Proof.
  unfold list_grants, list_grants_P. rewrite existsb_exists. split.
  - intros (p & Hin & Hb). apply andb_true_iff in Hb as [H1 H2].
    apply existsb_exists in H1 as (kd & Hkd & Ekd). apply existsb_exists in H2 as (pat & Hpat & Epat).
    exists p, pat. repeat split; eauto.
  - intros (p & pat & Hin & (kd & Hkd & Ekd) & Hpat & Epat).
    exists p. split; auto. apply andb_true_iff. split; apply existsb_exists; eauto.
Qed.

(* [has_permission] on an ordinary key, in terms of [list_grants] *)
Lemma has_permission_list n c key d kind u :
  starts_with key "$$" = false -> s_user (get_sess n c) = Some u ->
  has_permission n c key d kind =
    match get_value d (perm_key u) with
    | Some v => list_grants (permissions_from_str (v_val v)) key kind
    | None => String.eqb u "all"
    end.
Proof. intros Hk Hu. unfold has_permission, perm_key, list_grants. rewrite Hk, Hu. reflexivity. Qed.

(* ====================================================================== *)
(* 1. The tombstone text grants nothing                                    *)
(* ====================================================================== *)

(* "<Empty>" has no space, so it is read as a list of kinds (each of its seven bytes is
   not one of r/w/i/x and so counts as Read) with NO key pattern at all. *)
Lemma empty_text_parsed :
  permissions_from_str "<Empty>" = [mkPerm [PRead; PRead; PRead; PRead; PRead; PRead; PRead] []].
Proof. vm_compute. reflexivity. Qed.

Theorem empty_text_grants_nothing key kind :
  list_grants (permissions_from_str "<Empty>") key kind = false.
Proof.
  rewrite empty_text_parsed. unfold list_grants. cbn [existsb pm_keys].
  rewrite andb_false_r. reflexivity.
Qed.

Corollary empty_text_grants_nothing_P key kind :
  ~ list_grants_P (permissions_from_str "<Empty>") key kind.
Proof. rewrite <- list_grants_iff, empty_text_grants_nothing. discriminate. Qed.

(* ====================================================================== *)
(* 2. A tombstone list, or no list, denies                                 *)
(* ====================================================================== *)

(* stated without [s_auth = false]: on an ordinary key [has_permission] does not look at it *)
Theorem tombstone_list_denies n c u d v key kind :
  s_user (get_sess n c) = Some u -> starts_with key "$$" = false ->
  get_value d (perm_key u) = Some v -> v_val v = "<Empty>" ->
  has_permission n c key d kind = false.
Proof.
  intros Hu Hk Hv Ht. rewrite (has_permission_list n c key d kind u Hk Hu), Hv, Ht.
  apply empty_text_grants_nothing.
Qed.

(* needs u <> "all": the user named "all" with no list is the open-access default *)
Theorem absent_list_denies n c u d key kind :
  s_user (get_sess n c) = Some u -> u <> "all" -> starts_with key "$$" = false ->
  get_value d (perm_key u) = None ->
  has_permission n c key d kind = false.
Proof.
  intros Hu Hne Hk Hv. rewrite (has_permission_list n c key d kind u Hk Hu), Hv.
  now apply String.eqb_neq.
Qed.

(* ====================================================================== *)
(* 3. Removing the list revokes                                            *)
(* ====================================================================== *)

Definition rm_db (d : db) (k : str) : db := fst (fst (remove_value d k)).

(* the list of u is gone or is a tombstone *)
Definition list_revoked (d : db) (u : str) : Prop :=
  get_value d (perm_key u) = None \/
  exists v, get_value d (perm_key u) = Some v /\ v_val v = "<Empty>" /\ v_st v = VDeleted.

Lemma perm_key_not_token u : String.eqb (perm_key u) "$$token" = false.
Proof. reflexivity. Qed.

Lemma perm_key_secure u : starts_with (perm_key u) "$$" = true.
Proof. reflexivity. Qed.

Lemma remove_value_perm d u :
  remove_value d (perm_key u) =
    (rm_db d (perm_key u), ROk,
     map (fun s => (s, "removed " +++ perm_key u +++ nlS)) (watchers_of d (perm_key u))).
Proof. unfold rm_db, remove_value. rewrite perm_key_not_token. reflexivity. Qed.

(* the three cases of the entry's previous state, exactly *)
Lemma rm_db_absent d u :
  get_value d (perm_key u) = None -> rm_db d (perm_key u) = d.
Proof. intros H. unfold rm_db, remove_value. rewrite perm_key_not_token, H. reflexivity. Qed.

Lemma rm_db_new d u v :
  get_value d (perm_key u) = Some v -> v_st v = VNew ->
  get_value (rm_db d (perm_key u)) (perm_key u) = None.
Proof.
  intros H Hs. unfold rm_db, remove_value. rewrite perm_key_not_token, H, Hs. cbn [fst].
  unfold get_value, db_set_map. cbn [d_map]. apply get_del_same.
Qed.

Lemma rm_db_persisted d u v :
  get_value d (perm_key u) = Some v -> v_st v <> VNew ->
  get_value (rm_db d (perm_key u)) (perm_key u) =
    Some (mkV "<Empty>" (sat_succ (v_ver v)) (v_opp v) VDeleted (v_vaddr v) (v_kaddr v)).
Proof.
  intros H Hs. unfold rm_db, remove_value. rewrite perm_key_not_token, H. cbn [fst].
  destruct (v_st v); try congruence; apply get_value_put_same.
Qed.

Theorem remove_list_state d u : list_revoked (rm_db d (perm_key u)) u.
Proof.
  unfold list_revoked. destruct (get_value d (perm_key u)) as [v|] eqn:E.
  - destruct (v_st v) eqn:Es.
    4: { left. eapply rm_db_new; eauto. }
    all: right; eexists; split; [apply (rm_db_persisted d u v E); congruence|split; reflexivity].
  - left. rewrite rm_db_absent; auto.
Qed.

Lemma revoked_denies n c u d key kind :
  s_user (get_sess n c) = Some u -> u <> "all" -> starts_with key "$$" = false ->
  list_revoked d u -> has_permission n c key d kind = false.
Proof.
  intros Hu Hne Hk [Hn|(v & Hv & Ht & _)].
  - eapply absent_list_denies; eauto.
  - eapply tombstone_list_denies; eauto.
Qed.

(* whatever the entry's state before; n' is any node (has_permission reads only the
   session's user from it) *)
Theorem remove_list_revokes n' c u d key kind :
  s_user (get_sess n' c) = Some u -> u <> "all" -> starts_with key "$$" = false ->
  has_permission n' c key (rm_db d (perm_key u)) kind = false.
Proof. intros Hu Hne Hk. eapply revoked_denies; eauto. apply remove_list_state. Qed.

(* for ANY user name (also "all") when the entry had been written to disk: a tombstone stays *)
Theorem remove_list_revokes_persisted n' c u d v key kind :
  s_user (get_sess n' c) = Some u -> starts_with key "$$" = false ->
  get_value d (perm_key u) = Some v -> v_st v <> VNew ->
  has_permission n' c key (rm_db d (perm_key u)) kind = false.
Proof.
  intros Hu Hk Hv Hs. eapply tombstone_list_denies; eauto.
  - apply (rm_db_persisted d u v Hv Hs).
  - reflexivity.
Qed.

(* ---- the hypothesis u <> "all" is necessary: findings -------------------- *)
Definition all_node : node :=
  mkNode [] [mkSess false (Some "d") (Some "all") None []] Primary 0 "u" "p" "a" 1 [] [] [] [] [] [].
Definition all_db (st : vstate) : db :=
  mkDb [("$$permission_$all", mkV "r a*" 1 0 st 0 0)] [] 0 1 SNone.

(* the list "r a*" of user "all" does not let it write key b ... *)
Example all_before : has_permission all_node 0 "b" (all_db VNew) PWrite = false.
Proof. vm_compute. reflexivity. Qed.
(* ... removing the never-snapshotted list OPENS everything to "all" (absent list = open access) ... *)
Example all_remove_new_opens :
  has_permission all_node 0 "b" (rm_db (all_db VNew) (perm_key "all")) PWrite = true.
Proof. vm_compute. reflexivity. Qed.
(* ... while removing the same list after a snapshot CLOSES everything (tombstone = empty list):
   the effect of `remove $$permission_$all` depends on whether a snapshot happened in between *)
Example all_remove_persisted_closes :
  has_permission all_node 0 "b" (rm_db (all_db VOk) (perm_key "all")) PWrite = false /\
  has_permission all_node 0 "a" (rm_db (all_db VOk) (perm_key "all")) PRead = false.
Proof. vm_compute. split; reflexivity. Qed.
Example absent_all_open :
  has_permission all_node 0 "b" (mkDb [] [] 0 1 SNone) PWrite = true.
Proof. vm_compute. reflexivity. Qed.

(* ====================================================================== *)
(* 4. Handler / protocol level: revocation is immediate                    *)
(* ====================================================================== *)

Lemma nows_app a b : nows (a +++ b) = nows a && nows b.
Proof. induction a as [|x a IH]; cbn [append nows]; auto. rewrite IH. now rewrite andb_assoc. Qed.

Lemma perm_key_tok u : simple_tok u -> simple_tok (perm_key u).
Proof.
  intros (Hne & Hw & Hs). unfold perm_key. split; [|split].
  - discriminate.
  - rewrite nows_app, Hw. reflexivity.
  - apply no_semi_end_app; auto.
Qed.

Lemma parse_remove_list_line u : simple_tok u ->
  parse_request (trim_char nl ("remove $$permission_$" +++ u)) = POk (RqRemove (perm_key u)).
Proof.
  intros Hu. change ("remove $$permission_$" +++ u) with (remove_line (perm_key u)).
  apply parse_remove_line. now apply perm_key_tok.
Qed.

Lemma guard_safe_admin n a k kind dbn d :
  s_auth (get_sess n a) = true -> s_db (get_sess n a) = Some dbn -> get_db n dbn = Some d ->
  starts_with k "$$" = true -> guard_safe n a k kind = GGo dbn d.
Proof.
  intros Ha Hs Hd Hk. unfold guard_safe, guard_db_name, has_permission.
  rewrite Hk, Ha, Hs, Hd. reflexivity.
Qed.

Lemma same_sel_eq s s' : s = s' -> same_sel s s'.
Proof. intros ->. apply same_sel_refl. Qed.

(* the administrator's handler run *)
Lemma admin_remove_handle n a dbn d u :
  s_auth (get_sess n a) = true -> s_db (get_sess n a) = Some dbn -> get_db n dbn = Some d ->
  exists n1, handle n a (RqRemove (perm_key u)) = (n1, ROk) /\
    n_dbs n1 = n_dbs (put_db n dbn (rm_db d (perm_key u))) /\
    forall c, same_sel (get_sess n1 c) (get_sess n c).
Proof.
  intros Ha Hs Hd. unfold handle. cbv zeta.
  rewrite (guard_safe_admin n a (perm_key u) PRemove dbn d Ha Hs Hd (perm_key_secure u)).
  rewrite remove_value_perm. cbv beta iota.
  set (msgs := map _ _). set (n1 := sends _ msgs).
  assert (Hdbs : n_dbs n1 = n_dbs (put_db n dbn (rm_db d (perm_key u)))) by apply dbs_sends.
  assert (Hsess : forall c, same_sel (get_sess n1 c) (get_sess n c)).
  { intros c. apply (sess_sends msgs (put_db n dbn (rm_db d (perm_key u))) c). }
  destruct (is_primary n1); eexists; (split; [reflexivity|]); split; auto.
Qed.

(* one protocol line that parses to a remove (stated for a variable line so that the
   kernel never evaluates the fuel) *)
Lemma step_remove n c line k :
  parse_request (trim_char nl line) = POk (RqRemove k) ->
  step n c line = (let '(n1, r) := handle n c (RqRemove k) in
                   replicate_request n1 (RqRemove k) (s_db (get_sess n c)) r).
Proof. intros H. unfold step. cbn [process]. cbv zeta. rewrite H. reflexivity. Qed.

(* the administrator's protocol line *)
Lemma admin_remove_step n a dbn d u :
  s_auth (get_sess n a) = true -> s_db (get_sess n a) = Some dbn -> get_db n dbn = Some d ->
  simple_tok u ->
  snd (step n a ("remove $$permission_$" +++ u)) = ROk /\
  get_db (fst (step n a ("remove $$permission_$" +++ u))) dbn = Some (rm_db d (perm_key u)) /\
  forall c, same_sel (get_sess (fst (step n a ("remove $$permission_$" +++ u))) c) (get_sess n c).
Proof.
  intros Ha Hs Hd Hu.
  rewrite (step_remove n a _ (perm_key u) (parse_remove_list_line u Hu)).
  destruct (admin_remove_handle n a dbn d u Ha Hs Hd) as (n1 & Hh & Hdbs & Hsess).
  rewrite Hh. cbv iota. unfold replicate_request. rewrite Hs.
  assert (Hhas : has_db n1 dbn = true).
  { rewrite (has_db_eq _ _ _ Hdbs), has_db_put, String.eqb_refl. reflexivity. }
  rewrite Hhas. cbn [negb fst snd]. split; [reflexivity|]. split.
  - rewrite (get_db_eq n1) by apply dbs_replicate_web.
    rewrite (get_db_eq _ _ _ Hdbs). apply get_db_put_same.
  - intros c. eapply same_sel_trans; [|apply Hsess]. apply same_sel_eq. reflexivity.
Qed.

(* C09: after the administrator's remove, EVERY guarded data request of the user's session on
   an ordinary key is answered "permission denied"; the node changes exactly as for any denied
   request ([user_denied]): the refusal is pushed on the session's inbox, nothing else; at the
   protocol level ([user_denied_line]) nothing is replicated either. *)
Theorem revocation_immediate n a c dbn d u :
  s_auth (get_sess n a) = true -> s_db (get_sess n a) = Some dbn -> get_db n dbn = Some d ->
  simple_tok u -> u <> "all" ->
  s_auth (get_sess n c) = false -> s_user (get_sess n c) = Some u -> s_db (get_sess n c) = Some dbn ->
  let n' := fst (step n a ("remove $$permission_$" +++ u)) in
  snd (step n a ("remove $$permission_$" +++ u)) = ROk /\
  get_db n' dbn = Some (rm_db d (perm_key u)) /\
  list_revoked (rm_db d (perm_key u)) u /\
  (forall rq k kind, rq_key_kind rq = Some (k, kind) -> starts_with k "$$" = false ->
     handle n' c rq = (send n' c denied_msg, RError denied_msg)) /\
  (forall line rq k kind, parse_request (trim_char nl line) = POk rq ->
     rq_key_kind rq = Some (k, kind) -> starts_with k "$$" = false ->
     step n' c line = (send n' c denied_msg, RError denied_msg)).
Proof.
  intros Ha Hs Hd Hu Hne Hca Hcu Hcs n'.
  destruct (admin_remove_step n a dbn d u Ha Hs Hd Hu) as (Hr & Hd' & Hsess).
  fold n' in Hd', Hsess. destruct (Hsess c) as (Ea & Eb & Ec & _).
  assert (Hca' : s_auth (get_sess n' c) = false) by congruence.
  assert (Hcs' : s_db (get_sess n' c) = Some dbn) by congruence.
  assert (Hcu' : s_user (get_sess n' c) = Some u) by congruence.
  split; [exact Hr|]. split; [exact Hd'|]. split; [apply remove_list_state|]. split.
  - intros rq k kind Hq Hk.
    apply (user_denied n' c dbn (rm_db d (perm_key u)) rq k kind); auto.
    apply remove_list_revokes; auto.
  - intros line rq k kind Hp Hq Hk.
    apply (user_denied_line n' c dbn (rm_db d (perm_key u)) line rq k kind); auto.
    apply remove_list_revokes; auto.
Qed.

(* the same for any user name when the list had been written to disk (tombstone case) *)
Theorem revocation_immediate_persisted n a c dbn d u v :
  s_auth (get_sess n a) = true -> s_db (get_sess n a) = Some dbn -> get_db n dbn = Some d ->
  simple_tok u -> get_value d (perm_key u) = Some v -> v_st v <> VNew ->
  s_auth (get_sess n c) = false -> s_user (get_sess n c) = Some u -> s_db (get_sess n c) = Some dbn ->
  let n' := fst (step n a ("remove $$permission_$" +++ u)) in
  (exists d' t, get_db n' dbn = Some d' /\ get_value d' (perm_key u) = Some t /\
                v_val t = "<Empty>" /\ v_st t = VDeleted) /\
  (forall rq k kind, rq_key_kind rq = Some (k, kind) -> starts_with k "$$" = false ->
     handle n' c rq = (send n' c denied_msg, RError denied_msg)) /\
  (forall line rq k kind, parse_request (trim_char nl line) = POk rq ->
     rq_key_kind rq = Some (k, kind) -> starts_with k "$$" = false ->
     step n' c line = (send n' c denied_msg, RError denied_msg)).
Proof.
  intros Ha Hs Hd Hu Hv Hst Hca Hcu Hcs n'.
  destruct (admin_remove_step n a dbn d u Ha Hs Hd Hu) as (Hr & Hd' & Hsess).
  fold n' in Hd', Hsess. destruct (Hsess c) as (Ea & Eb & Ec & _).
  assert (Hca' : s_auth (get_sess n' c) = false) by congruence.
  assert (Hcs' : s_db (get_sess n' c) = Some dbn) by congruence.
  assert (Hcu' : s_user (get_sess n' c) = Some u) by congruence.
  split; [|split].
  - do 2 eexists. split; [exact Hd'|]. split; [apply (rm_db_persisted d u v Hv Hst)|split; reflexivity].
  - intros rq k kind Hq Hk.
    apply (user_denied n' c dbn (rm_db d (perm_key u)) rq k kind); auto.
    eapply remove_list_revokes_persisted; eauto.
  - intros line rq k kind Hp Hq Hk.
    apply (user_denied_line n' c dbn (rm_db d (perm_key u)) line rq k kind); auto.
    eapply remove_list_revokes_persisted; eauto.
Qed.

(* the requests named in the task are all covered by [rq_key_kind] *)
Example covered_requests k v ver i :
  rq_key_kind (RqGet k) = Some (k, PRead) /\ rq_key_kind (RqGetSafe k) = Some (k, PRead) /\
  rq_key_kind (RqSet k v ver) = Some (k, PWrite) /\ rq_key_kind (RqRemove k) = Some (k, PRemove) /\
  rq_key_kind (RqIncrement k i) = Some (k, PIncrement) /\ rq_key_kind (RqWatch k) = Some (k, PRead).
Proof. repeat split. Qed.

(* ====================================================================== *)
(* 5. A concrete run                                                       *)
(* ====================================================================== *)
Definition steps (n : node) (c : nat) (ls : list str) : node :=
  fold_left (fun n l => fst (step n c l)) ls n.

(* session 0: the administrator; creates d1, user bob, bob's list, key a *)
Definition rx0 : node := fst (connect (init_node "u" "p" "addr" 1 Primary 0)).
Definition rx1 : node :=
  steps rx0 0 ["auth u p"; "create-db d1 tok"; "use-db d1 tok"; "create-user bob pw";
               "set-permissions bob rw a*"; "set a 1"].
(* session 1: bob *)
Definition rx2 : node := fst (step (fst (connect rx1)) 1 "use-db d1 bob pw").

Definition the_db (n : node) : db := match get_db n "d1" with Some d => d | None => empty_db 0 SNone end.
Definition bob_list (n : node) : option (str * vstate) :=
  match get_value (the_db n) (perm_key "bob") with Some v => Some (v_val v, v_st v) | None => None end.

(* variant A: the list is removed before any snapshot *)
Definition rxA : node := fst (step rx2 0 "remove $$permission_$bob").
(* variant B: snapshot, flush (the entry becomes VOk), then remove *)
Definition rxB0 : node := flush_snapshots (fst (step rx2 0 "snapshot false")).
Definition rxB : node := fst (step rxB0 0 "remove $$permission_$bob").

Example revoke_example :
  (* bob is served before *)
  bob_list rx2 = Some ("rw a*", VNew) /\
  snd (step rx2 1 "get a") = RValue "a" "1" 0 /\
  (* A: the entry is dropped; bob's very next commands are denied *)
  bob_list rxA = None /\
  snd (step rxA 1 "get a") = RError denied_msg /\
  snd (step rxA 1 "set a 2") = RError denied_msg /\
  fst (step rxA 1 "get a") = send rxA 1 denied_msg /\
  (* B: after the flush the entry is VOk; the remove leaves the tombstone "<Empty>" *)
  bob_list rxB0 = Some ("rw a*", VOk) /\
  snd (step rxB0 1 "get a") = RValue "a" "1" 0 /\
  bob_list rxB = Some ("<Empty>", VDeleted) /\
  snd (step rxB 1 "get a") = RError denied_msg /\
  snd (step rxB 1 "set a 2") = RError denied_msg /\
  snd (step rxB 1 "increment a 1") = RError denied_msg /\
  snd (step rxB 1 "remove a") = RError denied_msg /\
  snd (step rxB 1 "watch a") = RError denied_msg /\
  fst (step rxB 1 "get a") = send rxB 1 denied_msg.
Proof. vm_compute. repeat split; reflexivity. Qed.

(* ====================================================================== *)
(* Statements and axiom audit                                              *)
(* ====================================================================== *)
Check empty_text_grants_nothing. Check empty_text_grants_nothing_P.
Check tombstone_list_denies. Check absent_list_denies.
Check remove_list_state. Check remove_list_revokes. Check remove_list_revokes_persisted.
Check parse_remove_list_line. Check admin_remove_step.
Check revocation_immediate. Check revocation_immediate_persisted.
Check revoke_example.
Check all_remove_new_opens. Check all_remove_persisted_closes.
Print Assumptions empty_text_grants_nothing.
Print Assumptions tombstone_list_denies.
Print Assumptions absent_list_denies.
Print Assumptions remove_list_revokes.
Print Assumptions remove_list_revokes_persisted.
Print Assumptions revocation_immediate.
Print Assumptions revocation_immediate_persisted.
Print Assumptions revoke_example.
