From NunDB Require Import Model.Base Model.Pending Model.Parse Model.Node Proofs.AssocLemmas.
From Coq Require Import Sorting.Sorted Sorting.Permutation.
Local Open Scope Z_scope.

(* the client-visible content of a database: live (non-tombstone) values *)
Definition live (d : db) (k : str) : option str :=
  match get_value d k with
  | Some v => if vstate_eqb (v_st v) VDeleted then None else Some (v_val v)
  | None => None
  end.

(* well-formed database: unique keys; tombstones carry the text "<Empty>" *)
Definition wf_db (d : db) : Prop :=
  NoDup (map fst (d_map d)) /\
  forall k v, get_value d k = Some v -> v_st v = VDeleted -> v_val v = "<Empty>".

(* ------------------------------------------------------------------ *)
(* basic facts                                                          *)
(* ------------------------------------------------------------------ *)

Lemma vstate_eqb_spec a b : reflect (a = b) (vstate_eqb a b).
Proof. destruct a, b; cbn; constructor; congruence. Qed.

Lemma upd_state_live v : upd_state v <> VDeleted.
Proof. unfold upd_state; destruct (v_st v); discriminate. Qed.

Lemma upd_state_eqb v : vstate_eqb (upd_state v) VDeleted = false.
Proof. unfold upd_state; destruct (v_st v); reflexivity. Qed.

Lemma gv_put_same d k v : get_value (put_value d k v) k = Some v.
Proof.
  unfold get_value, put_value, db_set_map; cbn [d_map].
  apply get_set_same, String.eqb_spec.
Qed.

Lemma gv_put_other d k k' v : k' <> k -> get_value (put_value d k v) k' = get_value d k'.
Proof.
  intros H. unfold get_value, put_value, db_set_map; cbn [d_map].
  apply get_set_other; auto. apply String.eqb_spec.
Qed.

Lemma gv_del_same d k : get_value (db_set_map d (assoc_del String.eqb k (d_map d))) k = None.
Proof. unfold get_value, db_set_map; cbn [d_map]. apply get_del_same. Qed.

Lemma gv_del_other d k k' : k' <> k ->
  get_value (db_set_map d (assoc_del String.eqb k (d_map d))) k' = get_value d k'.
Proof.
  intros H. unfold get_value, db_set_map; cbn [d_map].
  apply get_del_other; auto. apply String.eqb_spec.
Qed.

Lemma del_keys_incl {A B} (eqb : A -> A -> bool) k x (l : list (A * B)) :
  In x (map fst (assoc_del eqb k l)) -> In x (map fst l).
Proof.
  induction l as [|[k' v'] r IH]; cbn; auto.
  destruct (eqb k k'); cbn; intuition.
Qed.

Lemma nodup_del {A B} (eqb : A -> A -> bool) k (l : list (A * B)) :
  NoDup (map fst l) -> NoDup (map fst (assoc_del eqb k l)).
Proof.
  induction l as [|[k' v'] r IH]; cbn; auto.
  intros H. inversion H as [|? ? Hn Hr]; subst.
  destruct (eqb k k'); cbn; auto.
  constructor; auto. intros Hin. apply Hn. eapply del_keys_incl; eauto.
Qed.

Lemma in_get {B} k (v : B) (l : list (str * B)) :
  NoDup (map fst l) -> In (k, v) l -> assoc_get String.eqb k l = Some v.
Proof.
  induction l as [|[k' v'] r IH]; cbn; [tauto|].
  intros H Hin. inversion H as [|? ? Hn Hr]; subst.
  destruct (String.eqb_spec k k') as [->|Hne].
  - destruct Hin as [E|Hin]; [congruence|].
    exfalso. apply Hn. change k' with (fst (k', v)). now apply in_map.
  - destruct Hin as [E|Hin]; [congruence|]. auto.
Qed.

Lemma get_in' {B} k (v : B) (l : list (str * B)) :
  assoc_get String.eqb k l = Some v -> In (k, v) l.
Proof. apply get_in, String.eqb_spec. Qed.

(* ------------------------------------------------------------------ *)
(* 1. well-formedness                                                   *)
(* ------------------------------------------------------------------ *)

Lemma wf_db_empty id s : wf_db (empty_db id s).
Proof.
  split; cbn.
  - constructor.
  - intros k v H; discriminate.
Qed.

Lemma wf_put d k v : wf_db d -> (v_st v = VDeleted -> v_val v = "<Empty>") -> wf_db (put_value d k v).
Proof.
  intros [Hnd Ht] Hv. split.
  - unfold put_value, db_set_map; cbn [d_map]. apply nodup_set; auto. apply String.eqb_spec.
  - intros k0 v0. destruct (String.eqb_spec k0 k) as [->|Hne].
    + rewrite gv_put_same. intros [= <-]. exact Hv.
    + rewrite gv_put_other by auto. apply Ht.
Qed.

Lemma wf_del d k : wf_db d -> wf_db (db_set_map d (assoc_del String.eqb k (d_map d))).
Proof.
  intros [Hnd Ht]. split.
  - unfold db_set_map; cbn [d_map]. now apply nodup_del.
  - intros k0 v0. destruct (String.eqb_spec k0 k) as [->|Hne].
    + rewrite gv_del_same. discriminate.
    + rewrite gv_del_other by auto. apply Ht.
Qed.

Lemma set_value_wf d ch : wf_db d -> wf_db (fst (fst (set_value d ch))).
Proof.
  intros Hwf. unfold set_value.
  destruct (get_value d (c_key ch)) as [old|].
  - destruct (_ && _); cbn [fst]; auto.
    apply wf_put; auto. cbn [v_st]. intros E. now apply upd_state_live in E.
  - cbn [fst]. apply wf_put; auto. cbn [v_st]. discriminate.
Qed.

Lemma remove_value_wf d key : wf_db d -> wf_db (fst (fst (remove_value d key))).
Proof.
  intros Hwf. unfold remove_value.
  destruct (String.eqb key "$$token"); cbn [fst]; auto.
  destruct (get_value d key) as [v|]; auto.
  destruct (v_st v); try (apply wf_put; auto; cbn [v_val]; reflexivity).
  now apply wf_del.
Qed.

Lemma inc_value_wf d key inc opp : wf_db d -> wf_db (fst (fst (inc_value d key inc opp))).
Proof.
  intros Hwf. unfold inc_value.
  destruct (parse_i32 _) as [c|]; cbn [fst]; auto.
  destruct (_ && _); cbn [fst]; auto.
  apply wf_put; auto.
  destruct (get_value d key) as [v|]; cbn [v_st].
  - intros E. now apply upd_state_live in E.
  - discriminate.
Qed.

(* ------------------------------------------------------------------ *)
(* 2-3. set_value                                                       *)
(* ------------------------------------------------------------------ *)

Lemma set_value_ok d ch d' k v msgs :
  set_value d ch = (d', RSet k v, msgs) ->
  k = c_key ch /\ v = c_val ch /\ live d' (c_key ch) = Some (c_val ch) /\
  forall k', k' <> c_key ch -> get_value d' k' = get_value d k'.
Proof.
  unfold set_value.
  destruct (get_value d (c_key ch)) as [old|].
  - destruct (_ && _); [discriminate|].
    intros [= <- <- <- _]. repeat split; auto.
    + unfold live. rewrite gv_put_same. cbn [v_st v_val]. now rewrite upd_state_eqb.
    + intros k' Hne. now apply gv_put_other.
  - intros [= <- <- <- _]. repeat split; auto.
    + unfold live. rewrite gv_put_same. reflexivity.
    + intros k' Hne. now apply gv_put_other.
Qed.

Lemma set_value_refused d ch d' r msgs :
  set_value d ch = (d', r, msgs) -> (forall k v, r <> RSet k v) ->
  d' = d /\ msgs = [] /\
  exists old, get_value d (c_key ch) = Some old /\
              r = RVersionError (c_key ch) (v_ver old) (c_ver ch) old ch (upd_state old).
Proof.
  unfold set_value.
  destruct (get_value d (c_key ch)) as [old|].
  - destruct (_ && _).
    + intros [= <- <- <-] _. repeat split; auto. exists old; auto.
    + intros [= _ <- _] H. exfalso. eapply H; reflexivity.
  - intros [= _ <- _] H. exfalso. eapply H; reflexivity.
Qed.

(* ------------------------------------------------------------------ *)
(* 4. remove_value                                                      *)
(* ------------------------------------------------------------------ *)

Lemma remove_value_spec d key d' r msgs :
  key <> "$$token" -> remove_value d key = (d', r, msgs) ->
  r = ROk /\ live d' key = None /\ forall k', k' <> key -> get_value d' k' = get_value d k'.
Proof.
  intros Hne. unfold remove_value.
  destruct (String.eqb_spec key "$$token") as [E|_]; [contradiction|].
  intros [= <- <- _]. split; auto.
  unfold live.
  destruct (get_value d key) as [v|] eqn:Hg.
  - destruct (v_st v); try (rewrite gv_put_same; cbn; split; auto; intros; now apply gv_put_other).
    rewrite gv_del_same. split; auto. intros. now apply gv_del_other.
  - rewrite Hg. auto.
Qed.

Lemma remove_token_refused d :
  remove_value d "$$token" = (d, RError "$$token key cannot be removed", []).
Proof. reflexivity. Qed.

(* ------------------------------------------------------------------ *)
(* 5. inc_value                                                         *)
(* ------------------------------------------------------------------ *)

Definition cur_text (d : db) (k : str) : str :=
  match live d k with Some s => s | None => "0" end.

Lemma inc_cur d k :
  match get_value d k with
  | Some v => if vstate_eqb (v_st v) VDeleted then "0" else v_val v
  | None => "0"
  end = cur_text d k.
Proof.
  unfold cur_text, live. destruct (get_value d k) as [v|]; auto.
  destruct (vstate_eqb _ _); auto.
Qed.

Lemma inc_value_spec_ok d k inc opp c :
  parse_i32 (match live d k with Some s => s | None => "0" end) = Some c ->
  -2147483648 <= c + inc <= 2147483647 ->
  exists d' msgs, inc_value d k inc opp = (d', ROk, msgs) /\
    live d' k = Some (Z_to_str (c + inc)) /\
    forall k', k' <> k -> get_value d' k' = get_value d k'.
Proof.
  intros Hp Hr. unfold inc_value. rewrite inc_cur. unfold cur_text. rewrite Hp.
  replace (Z.leb (-2147483648) (c + inc) && Z.leb (c + inc) i32_max) with true
    by (symmetry; apply andb_true_iff; unfold i32_max; split; apply Z.leb_le; lia).
  eexists _, _. split; [reflexivity|]. split.
  - unfold live. rewrite gv_put_same.
    destruct (get_value d k) as [v|]; cbn [v_st v_val]; [now rewrite upd_state_eqb | reflexivity].
  - intros k' Hne. now apply gv_put_other.
Qed.

Lemma inc_value_spec_err d k inc opp :
  (parse_i32 (match live d k with Some s => s | None => "0" end) = None \/
   exists c, parse_i32 (match live d k with Some s => s | None => "0" end) = Some c /\
             ~ (-2147483648 <= c + inc <= 2147483647)) ->
  inc_value d k inc opp = (d, RError "Key is not numeric", []).
Proof.
  intros H. unfold inc_value. rewrite inc_cur. unfold cur_text.
  destruct H as [-> | (c & -> & Hr)]; auto.
  replace (Z.leb (-2147483648) (c + inc) && Z.leb (c + inc) i32_max) with false; auto.
  symmetry. apply andb_false_iff. unfold i32_max.
  rewrite !Z.leb_gt. lia.
Qed.

Theorem inc_value_spec d k inc opp :
  let cur := match live d k with Some s => s | None => "0" end in
  (forall c, parse_i32 cur = Some c -> -2147483648 <= c + inc <= 2147483647 ->
     exists d' msgs, inc_value d k inc opp = (d', ROk, msgs) /\
       live d' k = Some (Z_to_str (c + inc)) /\
       forall k', k' <> k -> get_value d' k' = get_value d k') /\
  ((parse_i32 cur = None \/
    exists c, parse_i32 cur = Some c /\ ~ (-2147483648 <= c + inc <= 2147483647)) ->
   inc_value d k inc opp = (d, RError "Key is not numeric", [])).
Proof.
  cbv zeta. split.
  - intros c. apply inc_value_spec_ok.
  - apply inc_value_spec_err.
Qed.

(* ------------------------------------------------------------------ *)
(* 6. get                                                               *)
(* ------------------------------------------------------------------ *)

Lemma get_spec d k : wf_db d ->
  fst (get_key_value_new d k) = match live d k with Some s => s | None => "<Empty>" end.
Proof.
  intros [_ Ht]. unfold get_key_value_new, live.
  destruct (get_value d k) as [v|] eqn:Hg; cbn [fst]; auto.
  destruct (vstate_eqb_spec (v_st v) VDeleted) as [E|_]; auto.
  eapply Ht; eauto.
Qed.

(* ------------------------------------------------------------------ *)
(* 7. list_keys                                                         *)
(* ------------------------------------------------------------------ *)

Definition sle (a b : str) : Prop := str_leb a b = true.

Lemma str_leb_total a b : str_leb a b = true \/ str_leb b a = true.
Proof.
  revert b. induction a as [|x a IH]; intros [|y b]; cbn; auto.
  destruct (N.ltb_spec (N_of_ascii x) (N_of_ascii y)); auto.
  destruct (N.ltb_spec (N_of_ascii y) (N_of_ascii x)); auto.
Qed.

Lemma str_leb_trans a b c : str_leb a b = true -> str_leb b c = true -> str_leb a c = true.
Proof.
  revert b c. induction a as [|x a IH]; intros [|y b] [|z c]; cbn; auto; try discriminate.
  destruct (N.ltb_spec (N_of_ascii x) (N_of_ascii y)),
           (N.ltb_spec (N_of_ascii y) (N_of_ascii x)),
           (N.ltb_spec (N_of_ascii y) (N_of_ascii z)),
           (N.ltb_spec (N_of_ascii z) (N_of_ascii y)),
           (N.ltb_spec (N_of_ascii x) (N_of_ascii z)),
           (N.ltb_spec (N_of_ascii z) (N_of_ascii x)); auto; try discriminate; try lia.
  apply IH.
Qed.

Lemma insert_sorted_perm x l : Permutation (x :: l) (insert_sorted x l).
Proof.
  induction l as [|y r IH]; cbn; auto.
  destruct (str_leb x y); auto.
  eapply perm_trans; [apply perm_swap|]. now constructor.
Qed.

Lemma sort_strs_perm l : Permutation l (sort_strs l).
Proof.
  induction l as [|x r IH]; cbn; auto.
  eapply perm_trans; [|apply insert_sorted_perm]. now constructor.
Qed.

Lemma insert_sorted_sorted x l : StronglySorted sle l -> StronglySorted sle (insert_sorted x l).
Proof.
  induction l as [|y r IH]; cbn; intros H.
  - repeat constructor.
  - inversion H as [|? ? Hr Hall]; subst.
    destruct (str_leb x y) eqn:E.
    + constructor; auto. constructor; auto.
      eapply Forall_impl; [|exact Hall]. intros z Hz. unfold sle in *. eapply str_leb_trans; eauto.
    + constructor; auto.
      eapply Permutation_Forall; [apply insert_sorted_perm|].
      constructor; auto. unfold sle. destruct (str_leb_total x y); congruence.
Qed.

Lemma sort_strs_sorted l : StronglySorted sle (sort_strs l).
Proof.
  induction l as [|x r IH]; cbn; [constructor|]. now apply insert_sorted_sorted.
Qed.

Lemma nodup_filter_keys {A B} (f : A * B -> bool) (l : list (A * B)) :
  NoDup (map fst l) -> NoDup (map fst (filter f l)).
Proof.
  induction l as [|[k v] r IH]; cbn; auto.
  intros H. inversion H as [|? ? Hn Hr]; subst.
  destruct (f (k, v)); cbn; auto.
  constructor; auto. intros Hin. apply Hn.
  apply in_map_iff in Hin. destruct Hin as (p & <- & Hp).
  apply filter_In in Hp. apply in_map. tauto.
Qed.

Lemma list_keys_spec d p sys k : wf_db d ->
  (In k (list_keys d p sys) <->
   live d k <> None /\ pattern_match k p = true /\ (sys = true \/ starts_with k "$$" = false)).
Proof.
  intros [Hnd _]. unfold list_keys.
  split.
  - intros Hin.
    eapply Permutation_in in Hin; [|apply Permutation_sym, sort_strs_perm].
    apply in_map_iff in Hin. destruct Hin as ([k0 v] & E & Hin). cbn in E. subst k0.
    apply filter_In in Hin. destruct Hin as [Hin Hf]. cbn [fst snd] in Hf.
    apply andb_true_iff in Hf. destruct Hf as [Hf Hp].
    apply andb_true_iff in Hf. destruct Hf as [Hs Hl].
    apply in_get in Hin; auto.
    unfold live, get_value. rewrite Hin.
    destruct (vstate_eqb (v_st v) VDeleted); [discriminate|].
    split; [discriminate|]. split; auto.
    destruct sys; auto. right. cbn [orb] in Hs. destruct (starts_with k "$$"); [discriminate|reflexivity].
  - intros (Hl & Hp & Hs).
    eapply Permutation_in; [apply sort_strs_perm|].
    unfold live in Hl. destruct (get_value d k) as [v|] eqn:Hg; [|congruence].
    apply in_map_iff. exists (k, v). split; auto.
    apply filter_In. split; [now apply get_in'|]. cbn [fst snd].
    rewrite Hp. destruct (vstate_eqb (v_st v) VDeleted); [congruence|].
    destruct Hs as [-> | ->]; cbn; auto. now rewrite orb_true_r.
Qed.

Lemma list_keys_sorted d p sys : wf_db d ->
  StronglySorted (fun a b => str_leb a b = true) (list_keys d p sys) /\ NoDup (list_keys d p sys).
Proof.
  intros [Hnd _]. unfold list_keys. split.
  - apply sort_strs_sorted.
  - eapply Permutation_NoDup; [apply sort_strs_perm|]. now apply nodup_filter_keys.
Qed.

(* ------------------------------------------------------------------ *)
(* 8. compare-and-set (C02)                                             *)
(* ------------------------------------------------------------------ *)

Lemma set_value_present d ch old : get_value d (c_key ch) = Some old ->
  set_value d ch =
  if Z.leb (next_version ch old) (v_ver old) && negb (Z.eqb (c_ver ch) (-2)) then
    (d, RVersionError (c_key ch) (v_ver old) (c_ver ch) old ch (upd_state old), [])
  else
    (put_value d (c_key ch)
       (mkV (c_val ch) (next_version ch old) (c_opp ch) (upd_state old) (v_vaddr old) (v_kaddr old)),
     RSet (c_key ch) (c_val ch), notify_msgs d (c_key ch) (c_val ch) (next_version ch old)).
Proof. intros H. unfold set_value. rewrite H. reflexivity. Qed.

Lemma next_version_plain ch old :
  v_ver old <> -2 -> c_resolve ch = false -> -1 <= c_ver ch ->
  next_version ch old = if Z.eqb (c_ver ch) (-1) then sat_succ (v_ver old) else sat_succ (c_ver ch).
Proof.
  intros Ho Hr Hv. unfold next_version, in_conflict. rewrite Hr.
  destruct (Z.eqb_spec (c_ver ch) (-2)); [lia|].
  destruct (Z.eqb_spec (v_ver old) (-2)); [lia|]. reflexivity.
Qed.

Lemma cas_iff d k old ch :
  get_value d k = Some old -> v_ver old <> -2 -> v_ver old < i32_max ->
  c_key ch = k -> c_resolve ch = false -> -1 <= c_ver ch ->
  ((exists d' msgs, set_value d ch = (d', RSet k (c_val ch), msgs)) <->
   (c_ver ch = -1 \/ v_ver old <= c_ver ch)).
Proof.
  intros Hg Ho Hm <- Hr Hv.
  rewrite (set_value_present _ _ _ Hg), next_version_plain by auto.
  unfold sat_succ, i32_max in *.
  destruct (Z.eqb_spec (c_ver ch) (-2)); [lia|]. cbn [negb]. rewrite andb_true_r.
  destruct (Z.eqb_spec (c_ver ch) (-1)).
  - destruct (Z.ltb_spec (v_ver old) 2147483647); [|lia].
    destruct (Z.leb_spec (v_ver old + 1) (v_ver old)); [lia|].
    split; auto. intros _. eexists _, _. reflexivity.
  - destruct (Z.ltb_spec (c_ver ch) 2147483647).
    + destruct (Z.leb_spec (c_ver ch + 1) (v_ver old)).
      * split; [intros (d' & msgs & [=]) | lia].
      * split; [lia|]. intros _. eexists _, _. reflexivity.
    + destruct (Z.leb_spec 2147483647 (v_ver old)); [lia|].
      split; [lia|]. intros _. eexists _, _. reflexivity.
Qed.

Lemma set_value_inv_present d ch old d' k v msgs :
  get_value d (c_key ch) = Some old -> set_value d ch = (d', RSet k v, msgs) ->
  Z.leb (next_version ch old) (v_ver old) && negb (Z.eqb (c_ver ch) (-2)) = false /\
  d' = put_value d (c_key ch)
         (mkV (c_val ch) (next_version ch old) (c_opp ch) (upd_state old) (v_vaddr old) (v_kaddr old)).
Proof.
  intros Hg. rewrite (set_value_present _ _ _ Hg).
  destruct (_ && _); [discriminate|]. intros H. split; auto. congruence.
Qed.

Lemma nv_arith a o :
  o < i32_max -> -1 <= a ->
  Z.leb (if Z.eqb a (-1) then sat_succ o else sat_succ a) o && negb (Z.eqb a (-2)) = false ->
  (if Z.eqb a (-1) then sat_succ o else sat_succ a) = (if Z.eqb a (-1) then o + 1 else sat_succ a) /\
  o < (if Z.eqb a (-1) then sat_succ o else sat_succ a).
Proof.
  intros Hm Ha. unfold sat_succ, i32_max in *.
  destruct (Z.eqb_spec a (-2)); [lia|]. cbn [negb]. rewrite andb_true_r.
  intros H. apply Z.leb_gt in H. split; [|exact H].
  destruct (Z.eqb_spec a (-1)); auto.
  destruct (Z.ltb_spec o 2147483647); lia.
Qed.

Lemma cas_version d k old ch d' v msgs :
  get_value d k = Some old -> v_ver old <> -2 -> v_ver old < i32_max ->
  c_key ch = k -> c_resolve ch = false -> -1 <= c_ver ch ->
  set_value d ch = (d', RSet k v, msgs) ->
  exists nv, get_value d' k = Some nv /\
    v_ver nv = (if Z.eqb (c_ver ch) (-1) then v_ver old + 1 else sat_succ (c_ver ch)) /\
    v_ver old < v_ver nv.
Proof.
  intros Hg Ho Hm <- Hr Hv Hs.
  destruct (set_value_inv_present _ _ _ _ _ _ _ Hg Hs) as [Hc ->].
  rewrite next_version_plain in * by auto.
  eexists. split; [apply gv_put_same|]. cbn [v_ver].
  now apply nv_arith.
Qed.

Lemma absent_succeeds d ch :
  get_value d (c_key ch) = None ->
  exists d' msgs, set_value d ch = (d', RSet (c_key ch) (c_val ch), msgs) /\
    exists nv, get_value d' (c_key ch) = Some nv /\ v_ver nv = sat_succ (c_ver ch).
Proof.
  intros Hg. unfold set_value. rewrite Hg. eexists _, _. split; [reflexivity|].
  eexists. split; [apply gv_put_same|]. reflexivity.
Qed.

(* ------------------------------------------------------------------ *)
(* 9. versions only grow                                                *)
(* ------------------------------------------------------------------ *)

Inductive dop := DSet (k v : str) (ver : Z) (opp : N) | DRemove (k : str) | DInc (k : str) (i : Z) (opp : N).

Definition db_apply (d : db) (o : dop) : db :=
  match o with
  | DSet k v ver opp => fst (fst (set_value d (mkCh k v ver opp false)))
  | DRemove k => fst (fst (remove_value d k))
  | DInc k i opp => fst (fst (inc_value d k i opp))
  end.

Definition dop_resp (d : db) (o : dop) : resp :=
  match o with
  | DSet k v ver opp => snd (fst (set_value d (mkCh k v ver opp false)))
  | DRemove k => snd (fst (remove_value d k))
  | DInc k i opp => snd (fst (inc_value d k i opp))
  end.

Definition dop_key (o : dop) : str :=
  match o with DSet k _ _ _ => k | DRemove k => k | DInc k _ _ => k end.

(* a reply that reports success *)
Definition resp_ok (r : resp) : bool :=
  match r with RSet _ _ | ROk => true | _ => false end.

(* the only version a plain client write must not carry: -2 marks "in conflict"
   and forces the stored version to -2 *)
Definition dop_ver_ok (o : dop) : Prop :=
  match o with DSet _ _ ver _ => ver <> -2 | _ => True end.

Lemma sat_succ_le_max z : sat_succ z <= i32_max.
Proof. unfold sat_succ, i32_max. destruct (Z.ltb_spec z 2147483647); lia. Qed.

Lemma sat_succ_ge z : z <= i32_max -> z <= sat_succ z.
Proof. unfold sat_succ, i32_max. destruct (Z.ltb_spec z 2147483647); lia. Qed.

Lemma sat_succ_gt z : z < i32_max -> z < sat_succ z.
Proof. unfold sat_succ, i32_max. destruct (Z.ltb_spec z 2147483647); lia. Qed.

Lemma set_value_other d ch k' : k' <> c_key ch ->
  get_value (fst (fst (set_value d ch))) k' = get_value d k'.
Proof.
  intros Hne. unfold set_value.
  destruct (get_value d (c_key ch)); [destruct (_ && _)|]; cbn [fst]; auto using gv_put_other.
Qed.

Lemma remove_value_other d key k' : k' <> key ->
  get_value (fst (fst (remove_value d key))) k' = get_value d k'.
Proof.
  intros Hne. unfold remove_value.
  destruct (String.eqb key "$$token"); cbn [fst]; auto.
  destruct (get_value d key) as [v|]; auto.
  destruct (v_st v); auto using gv_put_other, gv_del_other.
Qed.

Lemma inc_value_other d key inc opp k' : k' <> key ->
  get_value (fst (fst (inc_value d key inc opp))) k' = get_value d k'.
Proof.
  intros Hne. unfold inc_value.
  destruct (parse_i32 _); cbn [fst]; auto.
  destruct (_ && _); cbn [fst]; auto using gv_put_other.
Qed.

Lemma db_apply_other d o k' : k' <> dop_key o -> get_value (db_apply d o) k' = get_value d k'.
Proof.
  destruct o; cbn [db_apply dop_key]; intros H.
  - now apply set_value_other.
  - now apply remove_value_other.
  - now apply inc_value_other.
Qed.

Lemma refused_changes_nothing d o : resp_ok (dop_resp d o) = false -> db_apply d o = d.
Proof.
  destruct o as [k v ver opp | k | k i opp]; cbn [db_apply dop_resp].
  - unfold set_value. destruct (get_value d _); [destruct (_ && _)|]; cbn; auto; discriminate.
  - unfold remove_value. destruct (String.eqb k "$$token"); cbn; auto; discriminate.
  - unfold inc_value. destruct (parse_i32 _); [destruct (_ && _)|]; cbn; auto; discriminate.
Qed.

Lemma refused_remove_is_token d k : resp_ok (dop_resp d (DRemove k)) = false -> k = "$$token".
Proof.
  cbn [dop_resp]. unfold remove_value.
  destruct (String.eqb_spec k "$$token"); cbn; auto; discriminate.
Qed.

Lemma set_step d ch k old nw :
  c_ver ch <> -2 -> get_value d k = Some old ->
  get_value (fst (fst (set_value d ch))) k = Some nw ->
  v_ver old <= v_ver nw /\
  (resp_ok (snd (fst (set_value d ch))) = true -> c_key ch = k -> v_ver old < v_ver nw).
Proof.
  intros Hv Hg. destruct (String.eqb_spec k (c_key ch)) as [->|Hne].
  - rewrite (set_value_present _ _ _ Hg).
    destruct (Z.eqb_spec (c_ver ch) (-2)); [contradiction|]. cbn [negb]. rewrite andb_true_r.
    destruct (Z.leb_spec (next_version ch old) (v_ver old)); cbn [fst snd].
    + rewrite Hg. intros [= <-]. split; [lia|]. cbn. discriminate.
    + rewrite gv_put_same. intros [= <-]. cbn [v_ver]. split; [lia|auto].
  - rewrite set_value_other by auto. rewrite Hg. intros [= <-]. split; [lia|]. intros _ E. congruence.
Qed.

Lemma remove_step d key k old nw :
  get_value d k = Some old ->
  get_value (fst (fst (remove_value d key))) k = Some nw ->
  v_ver old <= i32_max ->
  v_ver old <= v_ver nw /\
  (v_ver old < i32_max -> resp_ok (snd (fst (remove_value d key))) = true -> key = k -> v_ver old < v_ver nw).
Proof.
  intros Hg. destruct (String.eqb_spec k key) as [->|Hne].
  - unfold remove_value. destruct (String.eqb key "$$token"); cbn [fst snd].
    + rewrite Hg. intros [= <-] Hmx. split; [lia|]. cbn. discriminate.
    + rewrite Hg.
      destruct (v_st old);
        try (rewrite gv_put_same; intros [= <-] Hmx; cbn [v_ver]; split;
             [now apply sat_succ_ge | intros; now apply sat_succ_gt]).
      rewrite gv_del_same. discriminate.
  - rewrite remove_value_other by auto. rewrite Hg. intros [= <-] Hmx. split; [lia|]. intros _ _ E. congruence.
Qed.

Lemma inc_step d key inc opp k old nw :
  get_value d k = Some old ->
  get_value (fst (fst (inc_value d key inc opp))) k = Some nw ->
  v_ver old <= i32_max ->
  v_ver old <= v_ver nw /\
  (v_ver old < i32_max -> resp_ok (snd (fst (inc_value d key inc opp))) = true -> key = k -> v_ver old < v_ver nw).
Proof.
  intros Hg. destruct (String.eqb_spec k key) as [->|Hne].
  - unfold inc_value. rewrite Hg.
    destruct (parse_i32 _); cbn [fst snd].
    + destruct (_ && _); cbn [fst snd].
      * rewrite gv_put_same. intros [= <-] Hmx. cbn [v_ver]. split;
          [now apply sat_succ_ge | intros; now apply sat_succ_gt].
      * rewrite Hg. intros [= <-] Hmx. split; [lia|]. cbn. discriminate.
    + rewrite Hg. intros [= <-] Hmx. split; [lia|]. cbn. discriminate.
  - rewrite inc_value_other by auto. rewrite Hg. intros [= <-] Hmx. split; [lia|]. intros _ _ E. congruence.
Qed.

(* the general one-step fact: the only side condition is "no client write carries -2" *)
Lemma version_step d k old o nw :
  dop_ver_ok o -> get_value d k = Some old -> get_value (db_apply d o) k = Some nw ->
  v_ver old <= i32_max ->
  v_ver old <= v_ver nw /\
  (v_ver old < i32_max -> resp_ok (dop_resp d o) = true -> dop_key o = k -> v_ver old < v_ver nw).
Proof.
  destruct o as [k0 v ver opp | k0 | k0 i opp]; cbn [dop_ver_ok db_apply dop_resp dop_key]; intros Hok Hg Hn Hmx.
  - destruct (set_step d (mkCh k0 v ver opp false) k old nw) as [H1 H2]; auto.
  - now apply (remove_step d k0 k old nw).
  - now apply (inc_step d k0 i opp k old nw).
Qed.

(* why a client version of -2 is excluded: it is accepted unconditionally and lowers the
   stored version to -2 *)
Example set_minus2_lowers_version :
  let d := fst (fst (set_value (empty_db 0 SNone) (mkCh "k" "a" 5 1 false))) in
  let d' := db_apply d (DSet "k" "b" (-2) 2) in
  option_map v_ver (get_value d "k") = Some 6 /\ option_map v_ver (get_value d' "k") = Some (-2).
Proof. vm_compute. auto. Qed.

Lemma ver_ok_of_bound o : (forall k' v ver opp, o = DSet k' v ver opp -> -1 <= ver) -> dop_ver_ok o.
Proof.
  destruct o; cbn; auto. intros H. specialize (H _ _ _ _ eq_refl). lia.
Qed.

Theorem version_monotone d k old o nw :
  get_value d k = Some old -> v_ver old <> -2 -> v_ver old < i32_max ->
  (forall k' v ver opp, o = DSet k' v ver opp -> -1 <= ver) ->
  get_value (db_apply d o) k = Some nw -> v_ver old <= v_ver nw.
Proof.
  intros Hg _ Hm Hb Hn. eapply version_step; eauto using ver_ok_of_bound. lia.
Qed.

Theorem version_strict d k old o nw :
  get_value d k = Some old -> v_ver old <> -2 -> v_ver old < i32_max ->
  (forall k' v ver opp, o = DSet k' v ver opp -> -1 <= ver) ->
  get_value (db_apply d o) k = Some nw ->
  db_apply d o <> d -> dop_key o = k -> v_ver old < v_ver nw.
Proof.
  intros Hg _ Hm Hb Hn Hd Hk.
  eapply version_step; eauto using ver_ok_of_bound; try lia.
  destruct (resp_ok (dop_resp d o)) eqn:E; auto.
  apply refused_changes_nothing in E. contradiction.
Qed.

(* stored versions never exceed i32::MAX once they are below it *)
Lemma next_version_le_max ch old :
  c_resolve ch = false -> v_ver old <= i32_max -> next_version ch old <= i32_max.
Proof.
  intros Hr Hm. unfold next_version, in_conflict. rewrite Hr.
  destruct (Z.eqb_spec (c_ver ch) (-2)) as [->|]; [unfold i32_max; lia|].
  destruct (Z.eqb (v_ver old) (-2)); auto.
  destruct (Z.eqb (c_ver ch) (-1)); apply sat_succ_le_max.
Qed.

Lemma version_bound_step d k old o nw :
  get_value d k = Some old -> v_ver old <= i32_max ->
  get_value (db_apply d o) k = Some nw -> v_ver nw <= i32_max.
Proof.
  intros Hg Hm. destruct (String.eqb_spec k (dop_key o)) as [->|Hne].
  2:{ rewrite db_apply_other by auto. rewrite Hg. now intros [= <-]. }
  destruct o as [k0 v ver opp | k0 | k0 i opp]; cbn [db_apply dop_key] in *.
  - rewrite (set_value_present d (mkCh k0 v ver opp false) old Hg). cbn [c_key].
    destruct (_ && _); cbn [fst].
    + rewrite Hg. now intros [= <-].
    + rewrite gv_put_same. intros [= <-]. cbn [v_ver]. now apply next_version_le_max.
  - unfold remove_value. destruct (String.eqb k0 "$$token"); cbn [fst].
    + rewrite Hg. now intros [= <-].
    + rewrite Hg. destruct (v_st old);
        try (rewrite gv_put_same; intros [= <-]; cbn [v_ver]; apply sat_succ_le_max).
      rewrite gv_del_same. discriminate.
  - unfold inc_value. rewrite Hg. destruct (parse_i32 _); cbn [fst].
    + destruct (_ && _); cbn [fst].
      * rewrite gv_put_same. intros [= <-]. cbn [v_ver]. apply sat_succ_le_max.
      * rewrite Hg. now intros [= <-].
    + rewrite Hg. now intros [= <-].
Qed.

(* sequences: the key stays in the map after every step *)
Fixpoint run_ok (k : str) (d : db) (ops : list dop) : Prop :=
  match ops with
  | [] => True
  | o :: r => dop_ver_ok o /\ get_value (db_apply d o) k <> None /\ run_ok k (db_apply d o) r
  end.

Theorem versions_monotone_seq k ops : forall d old,
  run_ok k d ops -> get_value d k = Some old -> v_ver old <= i32_max ->
  exists nw, get_value (fold_left db_apply ops d) k = Some nw /\ v_ver old <= v_ver nw.
Proof.
  induction ops as [|o r IH]; cbn [fold_left run_ok]; intros d old Hr Hg Hmx.
  - exists old. split; auto. lia.
  - destruct Hr as (Hok & Hp & Hr).
    destruct (get_value (db_apply d o) k) as [mid|] eqn:Hm; [|congruence].
    destruct (IH _ _ Hr Hm (version_bound_step _ _ _ _ _ Hg Hmx Hm)) as (nw & Hn & Hle).
    exists nw. split; auto.
    destruct (version_step _ _ _ _ _ Hok Hg Hm Hmx) as [H1 _]. lia.
Qed.

(* boolean checker for the side conditions of a run *)
Fixpoint run_okb (k : str) (d : db) (ops : list dop) : bool :=
  match ops with
  | [] => true
  | o :: r =>
      match o with DSet _ _ ver _ => negb (Z.eqb ver (-2)) | _ => true end &&
      match get_value (db_apply d o) k with Some _ => true | None => false end &&
      run_okb k (db_apply d o) r
  end.

Lemma run_okb_ok k ops : forall d, run_okb k d ops = true -> run_ok k d ops.
Proof.
  induction ops as [|o r IH]; cbn [run_okb run_ok]; intros d H; auto.
  apply andb_true_iff in H. destruct H as [H H3].
  apply andb_true_iff in H. destruct H as [H1 H2].
  repeat split; auto.
  - destruct o; cbn; auto. destruct (Z.eqb_spec ver (-2)); [discriminate|auto].
  - destruct (get_value (db_apply d o) k); [discriminate|discriminate H2].
Qed.

(* the run in the form of the brief: every pre-state version is neither -2 nor i32::MAX,
   every client version is >= -1; then the version grows by at least the number of
   successful operations on the key *)
Fixpoint run_strict (k : str) (d : db) (ops : list dop) : Prop :=
  match ops with
  | [] => True
  | o :: r =>
      (forall v, get_value d k = Some v -> v_ver v <> -2 /\ v_ver v < i32_max) /\
      (forall k' v ver opp, o = DSet k' v ver opp -> -1 <= ver) /\
      get_value (db_apply d o) k <> None /\ run_strict k (db_apply d o) r
  end.

Fixpoint successes (k : str) (d : db) (ops : list dop) : Z :=
  match ops with
  | [] => 0
  | o :: r => (if String.eqb (dop_key o) k && resp_ok (dop_resp d o) then 1 else 0)
              + successes k (db_apply d o) r
  end.

Theorem versions_strict_seq k ops : forall d old,
  run_strict k d ops -> get_value d k = Some old ->
  exists nw, get_value (fold_left db_apply ops d) k = Some nw /\
             v_ver old + successes k d ops <= v_ver nw.
Proof.
  induction ops as [|o r IH]; cbn [fold_left run_strict successes]; intros d old Hr Hg.
  - exists old. split; auto. lia.
  - destruct Hr as (Hpre & Hb & Hp & Hr).
    destruct (Hpre _ Hg) as [_ Hmax].
    destruct (get_value (db_apply d o) k) as [mid|] eqn:Hm; [|congruence].
    destruct (IH _ _ Hr Hm) as (nw & Hn & Hle).
    exists nw. split; auto.
    assert (Hmx : v_ver old <= i32_max) by lia.
    destruct (version_step _ _ _ _ _ (ver_ok_of_bound _ Hb) Hg Hm Hmx) as [H1 H2].
    destruct (String.eqb_spec (dop_key o) k) as [E|_]; cbn [andb]; [|lia].
    destruct (resp_ok (dop_resp d o)); [|lia].
    specialize (H2 Hmax eq_refl E). lia.
Qed.

(* ------------------------------------------------------------------ *)
(* 10. C01: the database refines a plain map over whole histories       *)
(* ------------------------------------------------------------------ *)

Inductive qop := QMut (o : dop) | QGet (k : str) | QKeys (p : str) (sys : bool).
Inductive qout := OMut (ok : bool) | OGet (s : str) | OKeys (l : list str).

(* implementation run *)
Definition impl_step (d : db) (q : qop) : db * qout :=
  match q with
  | QMut o => (db_apply d o, OMut (resp_ok (dop_resp d o)))
  | QGet k => (d, OGet (fst (get_key_value_new d k)))
  | QKeys p sys => (d, OKeys (list_keys d p sys))
  end.

Fixpoint impl_run (d : db) (qs : list qop) : db * list qout :=
  match qs with
  | [] => (d, [])
  | q :: r => let '(d1, o) := impl_step d q in
              let '(d2, os) := impl_run d1 r in (d2, o :: os)
  end.

(* specification: a plain map *)
Definition smap := str -> option str.
Definition upd (m : smap) (k : str) (v : option str) : smap :=
  fun k' => if String.eqb k' k then v else m k'.

Definition entry_text (m : smap) (k : str) : str := match m k with Some s => s | None => "0" end.
Definition entry_int (m : smap) (k : str) : Z :=
  match parse_i32 (entry_text m k) with Some c => c | None => 0 end.

(* the map after a mutation whose success flag was [ok] *)
Definition spec_mut (m : smap) (o : dop) (ok : bool) : smap :=
  if ok then
    match o with
    | DSet k v _ _ => upd m k (Some v)
    | DRemove k => upd m k None
    | DInc k i _ => upd m k (Some (Z_to_str (entry_int m k + i)))
    end
  else m.

Definition spec_next (m : smap) (q : qop) (o : qout) : smap :=
  match q, o with
  | QMut op, OMut ok => spec_mut m op ok
  | _, _ => m
  end.

(* which outputs the specification allows in state [m].  The success flag of a
   versioned write is left free (property 8 decides it); an increment succeeds exactly
   when the entry is an i32 and the sum fits; a removal is refused only for "$$token". *)
Definition spec_allows (m : smap) (q : qop) (o : qout) : Prop :=
  match q, o with
  | QMut (DSet _ _ _ _), OMut _ => True
  | QMut (DRemove k), OMut ok => ok = true <-> k <> "$$token"
  | QMut (DInc k i _), OMut ok =>
      ok = true <-> exists c, parse_i32 (entry_text m k) = Some c /\ -2147483648 <= c + i <= 2147483647
  | QGet k, OGet s => s = match m k with Some s => s | None => "<Empty>" end
  | QKeys p sys, OKeys l =>
      StronglySorted (fun a b => str_leb a b = true) l /\ NoDup l /\
      forall k, In k l <-> m k <> None /\ pattern_match k p = true /\ (sys = true \/ starts_with k "$$" = false)
  | _, _ => False
  end.

Fixpoint spec_run (m : smap) (qs : list qop) (os : list qout) : Prop :=
  match qs, os with
  | [], [] => True
  | q :: qs', o :: os' => spec_allows m q o /\ spec_run (spec_next m q o) qs' os'
  | _, _ => False
  end.

Fixpoint spec_final (m : smap) (qs : list qop) (os : list qout) : smap :=
  match qs, os with
  | q :: qs', o :: os' => spec_final (spec_next m q o) qs' os'
  | _, _ => m
  end.

Lemma live_put_same d k v : live (put_value d k v) k = if vstate_eqb (v_st v) VDeleted then None else Some (v_val v).
Proof. unfold live. now rewrite gv_put_same. Qed.

Lemma live_other d d' k : get_value d' k = get_value d k -> live d' k = live d k.
Proof. unfold live. now intros ->. Qed.

(* one mutation step against the map *)
Lemma mut_step d m o :
  (forall k, live d k = m k) ->
  spec_allows m (QMut o) (OMut (resp_ok (dop_resp d o))) /\
  forall k, live (db_apply d o) k = spec_mut m o (resp_ok (dop_resp d o)) k.
Proof.
  intros Hm.
  destruct (resp_ok (dop_resp d o)) eqn:Hok.
  2:{ split.
      - destruct o as [k v ver opp | k | k i opp]; cbn [spec_allows]; auto.
        + pose proof (refused_remove_is_token _ _ Hok). split; [discriminate|congruence].
        + split; [discriminate|]. intros (c & Hp & Hr). exfalso.
          cbn [dop_resp] in Hok. unfold entry_text in Hp. rewrite <- Hm in Hp.
          destruct (inc_value_spec_ok d k i opp c Hp Hr) as (d' & msgs & E & _).
          rewrite E in Hok. discriminate.
      - intros k. rewrite refused_changes_nothing by auto. cbn [spec_mut]. apply Hm. }
  destruct o as [k v ver opp | k | k i opp]; cbn [spec_allows spec_mut db_apply dop_resp] in *.
  - split; auto. intros k'.
    destruct (set_value d (mkCh k v ver opp false)) as [[d' r] msgs] eqn:E. cbn [fst snd] in *.
    destruct r; try discriminate.
    1:{ exfalso. destruct (set_value_refused _ _ _ _ _ E) as (_ & _ & old & _ & Hr); [|discriminate Hr].
        intros; discriminate. }
    destruct (set_value_ok _ _ _ _ _ _ E) as (-> & -> & Hl & Ho). cbn [c_key c_val] in *.
    unfold upd. destruct (String.eqb_spec k' k) as [->|Hne]; auto.
    rewrite <- Hm. apply live_other. auto.
  - destruct (String.eqb_spec k "$$token") as [->|Hne].
    + rewrite remove_token_refused in Hok. discriminate.
    + split; [tauto|]. intros k'.
      destruct (remove_value d k) as [[d' r] msgs] eqn:E. cbn [fst snd] in *.
      destruct (remove_value_spec _ _ _ _ _ Hne E) as (_ & Hl & Ho).
      unfold upd. destruct (String.eqb_spec k' k) as [->|Hne']; auto.
      rewrite <- Hm. apply live_other. auto.
  - destruct (parse_i32 (entry_text m k)) as [c|] eqn:Hp.
    2:{ exfalso. unfold entry_text in Hp. rewrite <- Hm in Hp.
        rewrite inc_value_spec_err in Hok by auto. discriminate. }
    destruct (Z_le_dec (-2147483648) (c + i)) as [H1|H1];
      [destruct (Z_le_dec (c + i) 2147483647) as [H2|H2]|].
    2,3: exfalso; unfold entry_text in Hp; rewrite <- Hm in Hp;
         rewrite inc_value_spec_err in Hok; [discriminate | right; exists c; split; auto; lia].
    split.
    + split; auto. intros _. exists c. split; auto.
    + intros k'. unfold entry_int. rewrite Hp.
      unfold entry_text in Hp. rewrite <- Hm in Hp.
      destruct (inc_value_spec_ok d k i opp c Hp (conj H1 H2)) as (d' & msgs & E & Hl & Ho).
      rewrite E. cbn [fst].
      unfold upd. destruct (String.eqb_spec k' k) as [->|Hne']; auto.
      rewrite <- Hm. apply live_other. auto.
Qed.

Lemma qstep_refines d m q :
  wf_db d -> (forall k, live d k = m k) ->
  wf_db (fst (impl_step d q)) /\
  spec_allows m q (snd (impl_step d q)) /\
  forall k, live (fst (impl_step d q)) k = spec_next m q (snd (impl_step d q)) k.
Proof.
  intros Hwf Hm. destruct q as [o | k | p sys]; cbn [impl_step fst snd spec_next].
  - split; [|now apply mut_step].
    destruct o; cbn [db_apply]; auto using set_value_wf, remove_value_wf, inc_value_wf.
  - split; auto. split; auto. cbn [spec_allows]. rewrite get_spec by auto. now rewrite Hm.
  - split; auto. split; auto. cbn [spec_allows].
    destruct (list_keys_sorted d p sys Hwf) as [Hs Hn].
    split; [exact Hs|]. split; [exact Hn|].
    intros k. rewrite <- Hm. now apply list_keys_spec.
Qed.

Lemma C01_refines_gen ops : forall d m,
  wf_db d -> (forall k, live d k = m k) ->
  spec_run m ops (snd (impl_run d ops)) /\
  forall k, live (fst (impl_run d ops)) k = spec_final m ops (snd (impl_run d ops)) k.
Proof.
  induction ops as [|q r IH]; intros d m Hwf Hm; cbn [impl_run].
  - cbn. auto.
  - destruct (qstep_refines d m q Hwf Hm) as (Hwf1 & Ha & Hm1).
    destruct (impl_step d q) as [d1 o]. cbn [fst snd] in *.
    specialize (IH d1 _ Hwf1 Hm1).
    destruct (impl_run d1 r) as [d2 os]. cbn [fst snd spec_run spec_final] in *.
    tauto.
Qed.

(* headline: every history of mutations, reads and key listings on a well-formed database
   is a history of the plain map started from its live content, and the final contents agree *)
Theorem C01_refines ops d :
  wf_db d ->
  spec_run (live d) ops (snd (impl_run d ops)) /\
  forall k, live (fst (impl_run d ops)) k = spec_final (live d) ops (snd (impl_run d ops)) k.
Proof. intros Hwf. apply C01_refines_gen; auto. Qed.

Corollary C01_refines_empty ops id s :
  spec_run (fun _ => None) ops (snd (impl_run (empty_db id s) ops)) /\
  forall k, live (fst (impl_run (empty_db id s) ops)) k =
            spec_final (fun _ => None) ops (snd (impl_run (empty_db id s) ops)) k.
Proof. apply C01_refines_gen; auto using wf_db_empty. Qed.

(* ------------------------------------------------------------------ *)
(* 11. C19: newer-strategy databases accept every write                 *)
(* ------------------------------------------------------------------ *)

Lemma get_db_put_sess n c s x : get_db (put_sess n c s) x = get_db n x.
Proof. reflexivity. Qed.

Lemma get_db_send n c m x : get_db (send n c m) x = get_db n x.
Proof. reflexivity. Qed.

Lemma get_db_sends l : forall n x, get_db (sends n l) x = get_db n x.
Proof.
  unfold sends. induction l as [|p r IH]; cbn [fold_left]; intros n x; auto.
  rewrite IH. apply get_db_send.
Qed.

Lemma get_db_put_same n x d : get_db (put_db n x d) x = Some d.
Proof.
  unfold get_db, put_db, n_set_dbs; cbn [n_dbs]. apply get_set_same, String.eqb_spec.
Qed.

Lemma get_db_set_clock n c x : get_db (n_set_clock n c) x = get_db n x.
Proof. reflexivity. Qed.

Lemma nv_resolve k v id old :
  v_ver old <> -2 -> v_ver old < i32_max ->
  next_version (mkCh k v (v_ver old) id true) old = v_ver old + 1.
Proof.
  intros Ho Hm. unfold next_version, in_conflict, sat_succ; cbn [c_ver c_resolve].
  destruct (Z.eqb_spec (v_ver old) (-2)); [lia|].
  destruct (Z.ltb_spec (v_ver old) i32_max); lia.
Qed.

Lemma stored_post d k val nv opp old :
  get_value d k = Some old -> v_ver old <= nv ->
  let d' := put_value d k (mkV val nv opp (upd_state old) (v_vaddr old) (v_kaddr old)) in
  live d' k = Some val /\
  (forall old nw, get_value d k = Some old -> get_value d' k = Some nw -> v_ver old <= v_ver nw) /\
  (forall k', k' <> k -> get_value d' k' = get_value d k').
Proof.
  intros Hg Hle d'. subst d'. split; [|split].
  - rewrite live_put_same. cbn [v_st v_val]. now rewrite upd_state_eqb.
  - intros o nw. rewrite Hg, gv_put_same. intros [= <-] [= <-]. exact Hle.
  - intros k' Hne. now apply gv_put_other.
Qed.

(* counterexample to "the reply value is the live value" when the kept old value is a
   tombstone: the write is older (version 3 < 5, op id 5 < 10), the reply is
   [RSet "k" "<Empty>"], nothing changes, and the key stays deleted *)
Definition cx_db : db := mkDb [("k", mkV "<Empty>" 5 10 VDeleted 0 0)] [] 0 1 SNewer.
Definition cx_node : node := put_db (init_node "u" "p" "a" 1 Primary 0) "d" cx_db.
Definition cx_ch : change := mkCh "k" "x" 3 5 false.

Example newer_tombstone_cx :
  get_db cx_node "d" = Some cx_db /\ d_strat cx_db = SNewer /\
  c_resolve cx_ch = false /\ -1 <= c_ver cx_ch /\ c_ver cx_ch < i32_max /\
  apply_change cx_node "d" cx_ch = (cx_node, RSet "k" "<Empty>") /\
  live cx_db "k" = None.
Proof. vm_compute. repeat split; intros; discriminate. Qed.

Lemma newer_apply n dbn d ch :
  get_db n dbn = Some d -> d_strat d = SNewer -> c_resolve ch = false -> -1 <= c_ver ch ->
  (forall old, get_value d (c_key ch) = Some old -> v_ver old <> -2 /\ v_ver old < i32_max) ->
  exists n' v d',
    apply_change n dbn ch = (n', RSet (c_key ch) v) /\
    get_db n' dbn = Some d' /\
    (forall old nw, get_value d (c_key ch) = Some old -> get_value d' (c_key ch) = Some nw ->
                    v_ver old <= v_ver nw) /\
    (forall k', k' <> c_key ch -> get_value d' k' = get_value d k') /\
    ((v = c_val ch /\ live d' (c_key ch) = Some v) \/
     (exists old, get_value d (c_key ch) = Some old /\ v = v_val old /\ d' = d /\ n' = n)).
Proof.
  intros Hdb Hs Hr Hv Hold. unfold apply_change. rewrite Hdb.
  destruct (get_value d (c_key ch)) as [old|] eqn:Hg.
  - destruct (Hold _ eq_refl) as [Ho Hm].
    rewrite (set_value_present _ _ _ Hg).
    destruct (Z.leb (next_version ch old) (v_ver old) && negb (Z.eqb (c_ver ch) (-2))) eqn:C.
    + cbv beta iota zeta. rewrite Hs.
      destruct (N.ltb (v_opp old) (c_opp ch)).
      * unfold tick. cbv beta iota zeta.
        rewrite (set_value_present d (mkCh (c_key ch) (c_val ch) (v_ver old) (n_clock n) true) old Hg).
        rewrite nv_resolve by auto.
        replace (Z.leb (v_ver old + 1) (v_ver old)) with false by (symmetry; apply Z.leb_gt; lia).
        cbn [andb c_key c_val c_opp].
        eexists _, _, _. split; [reflexivity|].
        split; [rewrite get_db_sends; apply get_db_put_same|].
        destruct (stored_post d (c_key ch) (c_val ch) (v_ver old + 1) (n_clock n) old Hg) as (H1 & H2 & H3); [lia|].
        rewrite Hg in H2. split; [exact H2|]. split; [exact H3|]. left. split; auto.
      * exists n, (v_val old), d. repeat split; auto.
        -- intros o nw [= <-] H. rewrite Hg in H. injection H as <-. lia.
        -- right. exists old. auto.
    + cbv beta iota zeta.
      eexists _, _, _. split; [reflexivity|].
      split; [rewrite get_db_sends; apply get_db_put_same|].
      apply andb_false_iff in C.
      assert (Hlt : v_ver old <= next_version ch old).
      { destruct C as [C|C]; [apply Z.leb_gt in C; lia|].
        destruct (Z.eqb_spec (c_ver ch) (-2)); [lia|discriminate]. }
      destruct (stored_post d (c_key ch) (c_val ch) (next_version ch old) (c_opp ch) old Hg Hlt) as (H1 & H2 & H3).
      rewrite Hg in H2. split; [exact H2|]. split; [exact H3|]. left. split; auto.
  - assert (E : set_value d ch =
                (put_value d (c_key ch) (mkV (c_val ch) (sat_succ (c_ver ch)) (c_opp ch) VNew 0 0),
                 RSet (c_key ch) (c_val ch), notify_msgs d (c_key ch) (c_val ch) (sat_succ (c_ver ch)))).
    { unfold set_value. now rewrite Hg. }
    rewrite E. cbv beta iota zeta.
    eexists _, _, _. split; [reflexivity|].
    split; [rewrite get_db_sends; apply get_db_put_same|].
    repeat split.
    + intros o nw. discriminate.
    + intros k' Hne. now apply gv_put_other.
    + left. split; auto. now rewrite live_put_same.
Qed.

Theorem newer_never_refused n dbn d ch :
  get_db n dbn = Some d -> d_strat d = SNewer -> c_resolve ch = false ->
  -1 <= c_ver ch -> c_ver ch < i32_max ->
  (forall old, get_value d (c_key ch) = Some old -> v_ver old <> -2 /\ v_ver old < i32_max) ->
  exists n' v d',
    apply_change n dbn ch = (n', RSet (c_key ch) v) /\
    get_db n' dbn = Some d' /\
    ((forall old, get_value d (c_key ch) = Some old -> v_st old <> VDeleted) ->
     live d' (c_key ch) = Some v) /\
    (forall old nw, get_value d (c_key ch) = Some old -> get_value d' (c_key ch) = Some nw ->
                    v_ver old <= v_ver nw) /\
    (forall k', k' <> c_key ch -> get_value d' k' = get_value d k').
Proof.
  intros Hdb Hs Hr Hv _ Hold.
  destruct (newer_apply n dbn d ch Hdb Hs Hr Hv Hold) as (n' & v & d' & Ha & Hd & Hm & Hf & Hc).
  exists n', v, d'. repeat split; auto.
  intros Hnt. destruct Hc as [[_ Hl] | (old & Hg & -> & -> & _)]; auto.
  unfold live. rewrite Hg.
  destruct (vstate_eqb_spec (v_st old) VDeleted) as [E|_]; auto.
  exfalso. eapply Hnt; eauto.
Qed.

Theorem newer_reply_value n dbn d ch n' v :
  get_db n dbn = Some d -> d_strat d = SNewer -> c_resolve ch = false ->
  -1 <= c_ver ch -> c_ver ch < i32_max ->
  (forall old, get_value d (c_key ch) = Some old -> v_ver old <> -2 /\ v_ver old < i32_max) ->
  apply_change n dbn ch = (n', RSet (c_key ch) v) ->
  exists d', get_db n' dbn = Some d' /\
    ((v = c_val ch /\ live d' (c_key ch) = Some v) \/
     (exists old, get_value d (c_key ch) = Some old /\ v = v_val old /\ d' = d /\ n' = n)).
Proof.
  intros Hdb Hs Hr Hv _ Hold Happ.
  destruct (newer_apply n dbn d ch Hdb Hs Hr Hv Hold) as (n2 & v2 & d' & Ha & Hd & _ & _ & Hc).
  rewrite Happ in Ha. injection Ha as -> ->.
  exists d'. split; auto.
Qed.
