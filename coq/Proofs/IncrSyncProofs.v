(* IncrSyncProofs.v -- the incremental catch-up a primary sends to a rejoining node
   (Cluster.incr_sync_lines = get_pendding_opps_since): coverage, exactness, one line
   per key, order, and the writer-side invariant that makes the log decodable. *)
From NunDB Require Import Model.Base Model.Pending Model.Parse Model.Node Model.Oplog Model.Cluster.
From NunDB Require Import Proofs.AssocLemmas Proofs.OplogProofs.
From Coq Require Import Lia ZifyBool ZifyN ZifyNat Sorted Permutation.
Local Open Scope N_scope.

(* ------------------------------------------------------------------ *)
(* 0. small list facts                                                  *)

Lemma in_assoc_set_nodup {A B} (eqb : A -> A -> bool)
  (eqb_spec : forall a b, reflect (a = b) (eqb a b)) (k0 : A) (v : B) :
  forall m, NoDup (map fst m) -> forall k h, In (k, h) (assoc_set eqb k0 v m) ->
    (k = k0 /\ h = v) \/ (k <> k0 /\ In (k, h) m).
Proof.
  induction m as [|[k' v'] r IH]; intros Hnd k h Hin; cbn [assoc_set] in Hin.
  - destruct Hin as [[= <- <-]|[]]. now left.
  - cbn [map fst] in Hnd. inversion Hnd as [|a l Hnotin Hnd']; subst.
    destruct (eqb_spec k0 k') as [->|Hne].
    + destruct Hin as [[= <- <-]|Hin]; [now left|].
      right. split; [|now right].
      intros ->. apply Hnotin. apply (in_map fst) in Hin. exact Hin.
    + destruct Hin as [[= <- <-]|Hin].
      * right. split; [congruence|now left].
      * destruct (IH Hnd' k h Hin) as [H|[H1 H2]]; [now left|].
        right. split; [exact H1|now right].
Qed.

Lemma in_nodup_get {A B} (eqb : A -> A -> bool)
  (eqb_spec : forall a b, reflect (a = b) (eqb a b)) :
  forall (m : list (A * B)), NoDup (map fst m) -> forall k h, In (k, h) m -> assoc_get eqb k m = Some h.
Proof.
  induction m as [|[k' v'] r IH]; intros Hnd k h Hin; [destruct Hin|].
  cbn [map fst] in Hnd. inversion Hnd as [|a l Hnotin Hnd']; subst.
  cbn [assoc_get]. destruct Hin as [[= <- <-]|Hin].
  - destruct (eqb_spec k' k'); congruence.
  - destruct (eqb_spec k k') as [->|Hne].
    + exfalso. apply Hnotin. apply (in_map fst) in Hin. exact Hin.
    + now apply IH.
Qed.

(* ------------------------------------------------------------------ *)
(* 1. the lines, structured                                             *)

Inductive sline :=
| SLSet (dbn k v : str)
| SLRemove (dbn k : str)
| SLCreate (dbn : str)
| SLSnap (dbn : str).

Definition render (n : node) (s : sline) : str :=
  match s with
  | SLSet dbn k v => "replicate " +++ dbn +++ " " +++ k +++ " " +++ v
  | SLRemove dbn k => "replicate-remove " +++ dbn +++ " " +++ k
  | SLCreate dbn => create_db_line n dbn
  | SLSnap dbn => "replicate-snapshot " +++ dbn
  end.

(* the line one log record is turned into; None = unwrap() panic *)
Definition sline_of (x : cnode) (r : oprec) : option sline :=
  let n := cn_node x in
  match name_of_id (n_idmap n) (r_db r) with
  | None => None
  | Some dbn =>
      if N.eqb (r_op r) 0 then
        match key_of_id (cn_keymap x) (r_key r), get_db n dbn with
        | Some k, Some d => Some (SLSet dbn k (fst (get_key_value_new d k)))
        | _, _ => None
        end
      else if N.eqb (r_op r) 1 then
        match key_of_id (cn_keymap x) (r_key r) with
        | Some k => Some (SLRemove dbn k)
        | None => None
        end
      else if N.eqb (r_op r) 2 then
        match get_db n dbn with Some _ => Some (SLCreate dbn) | None => None end
      else Some (SLSnap dbn)
  end.

Definition istep (x : cnode) (acc : option (list str)) (h : okey * ohit) : option (list str) :=
  match acc with
  | None => None
  | Some ls =>
      match sline_of x (h_rec (snd h)) with
      | Some sl => Some (ls ++ [render (cn_node x) sl])
      | None => None
      end
  end.

Definition sort_hits (hits : list (okey * ohit)) : list (okey * ohit) := fold_right insert_hit [] hits.

Lemma fold_left_ext {A B} (f g : A -> B -> A) :
  (forall a b, f a b = g a b) -> forall l a, fold_left f l a = fold_left g l a.
Proof.
  intros H. induction l as [|b l IH]; intros a; [reflexivity|].
  cbn [fold_left]. rewrite H. apply IH.
Qed.

Lemma incr_sync_lines_unfold x since :
  incr_sync_lines x since =
  match query_all [] (cn_log x) since with
  | None => None
  | Some hits => fold_left (istep x) (sort_hits hits) (Some [])
  end.
Proof.
  unfold incr_sync_lines. destruct (query_all [] (cn_log x) since) as [hits|]; [|reflexivity].
  unfold sort_hits. apply fold_left_ext.
  intros acc h. unfold istep, sline_of. destruct acc as [ls|]; [|reflexivity].
  cbv zeta. destruct (name_of_id (n_idmap (cn_node x)) (r_db (h_rec (snd h)))) as [dbn|]; [|reflexivity].
  destruct (N.eqb (r_op (h_rec (snd h))) 0).
  { destruct (key_of_id (cn_keymap x) (r_key (h_rec (snd h)))); [|reflexivity].
    destruct (get_db (cn_node x) dbn); reflexivity. }
  destruct (N.eqb (r_op (h_rec (snd h))) 1).
  { destruct (key_of_id (cn_keymap x) (r_key (h_rec (snd h)))); reflexivity. }
  destruct (N.eqb (r_op (h_rec (snd h))) 2).
  { destruct (get_db (cn_node x) dbn); reflexivity. }
  reflexivity.
Qed.

Definition line_rel (x : cnode) (h : okey * ohit) (sl : sline) : Prop :=
  sline_of x (h_rec (snd h)) = Some sl.

Lemma fold_istep_ok x : forall l sls acc, Forall2 (line_rel x) l sls ->
  fold_left (istep x) l (Some acc) = Some (acc ++ map (render (cn_node x)) sls).
Proof.
  intros l sls acc H. revert acc. induction H as [|h sl l sls Hh Hrest IH]; intros acc.
  - cbn. now rewrite app_nil_r.
  - cbn [fold_left map]. unfold istep at 2. unfold line_rel in Hh. rewrite Hh.
    rewrite IH. rewrite <- app_assoc. reflexivity.
Qed.

Lemma lines_exist x : forall l, (forall h, In h l -> sline_of x (h_rec (snd h)) <> None) ->
  exists sls, Forall2 (line_rel x) l sls.
Proof.
  induction l as [|h l IH]; intros H.
  - exists []. constructor.
  - destruct IH as [sls Hsls]; [intros h' Hin; apply H; now right|].
    destruct (sline_of x (h_rec (snd h))) as [sl|] eqn:E.
    + exists (sl :: sls). constructor; [exact E|exact Hsls].
    + exfalso. apply (H h); [now left|exact E].
Qed.

Lemma Forall2_in_l {A B} (R : A -> B -> Prop) : forall l l', Forall2 R l l' ->
  forall a, In a l -> exists b, In b l' /\ R a b.
Proof.
  induction 1 as [|a0 b0 l l' H0 H IH]; intros a Hin; [destruct Hin|].
  destruct Hin as [<-|Hin].
  - exists b0. split; [now left|exact H0].
  - destruct (IH a Hin) as (b & Hb & Hr). exists b. split; [now right|exact Hr].
Qed.

Lemma Forall2_in_r {A B} (R : A -> B -> Prop) : forall l l', Forall2 R l l' ->
  forall b, In b l' -> exists a, In a l /\ R a b.
Proof.
  induction 1 as [|a0 b0 l l' H0 H IH]; intros b Hin; [destruct Hin|].
  destruct Hin as [<-|Hin].
  - exists a0. split; [now left|exact H0].
  - destruct (IH b Hin) as (a & Ha & Hr). exists a. split; [now right|exact Hr].
Qed.

(* ------------------------------------------------------------------ *)
(* 2. insert_hit is an insertion sort on h_pos                          *)

Definition ple (a b : okey * ohit) : Prop := h_pos (snd a) <= h_pos (snd b).

Lemma insert_hit_perm h : forall l, Permutation (insert_hit h l) (h :: l).
Proof.
  induction l as [|y r IH]; cbn [insert_hit]; [apply Permutation_refl|].
  destruct (N.leb (h_pos (snd h)) (h_pos (snd y))); [apply Permutation_refl|].
  eapply perm_trans; [apply perm_skip; exact IH|apply perm_swap].
Qed.

Lemma sort_hits_perm : forall l, Permutation (sort_hits l) l.
Proof.
  induction l as [|h l IH]; [apply Permutation_refl|].
  unfold sort_hits in *. cbn [fold_right].
  eapply perm_trans; [apply insert_hit_perm|]. now apply perm_skip.
Qed.

Lemma insert_hit_sorted h : forall l, StronglySorted ple l -> StronglySorted ple (insert_hit h l).
Proof.
  induction l as [|y r IH]; intros Hs; cbn [insert_hit].
  - constructor; constructor.
  - inversion Hs as [|y' r' Hsr Hfa]; subst.
    destruct (N.leb_spec (h_pos (snd h)) (h_pos (snd y))) as [Hle|Hgt].
    + constructor; [exact Hs|]. constructor; [exact Hle|].
      rewrite Forall_forall in *. intros z Hz. specialize (Hfa z Hz). unfold ple in *. lia.
    + constructor; [apply IH; exact Hsr|].
      rewrite Forall_forall in *. intros z Hz.
      apply (Permutation_in _ (insert_hit_perm h r)) in Hz. destruct Hz as [<-|Hz].
      * unfold ple. lia.
      * now apply Hfa.
Qed.

Lemma sort_hits_sorted : forall l, StronglySorted ple (sort_hits l).
Proof.
  induction l as [|h l IH]; [constructor|].
  unfold sort_hits in *. cbn [fold_right]. now apply insert_hit_sorted.
Qed.

(* ------------------------------------------------------------------ *)
(* 3. what the linear scan leaves in the map                            *)

Definition nokey (k : okey) (l : list oprec) : Prop := forall r, In r l -> kof r <> k.

Lemma scan_snoc_pos : forall l x c m,
  scan (l ++ [x]) c m = assoc_set okey_eqb (kof x) (mkHit x (c + N.of_nat (length l) + 1)) (scan l c m).
Proof.
  induction l as [|y l IH]; intros x c m; cbn [app scan length].
  - unfold kof. f_equal. f_equal. lia.
  - rewrite IH. f_equal. f_equal. lia.
Qed.

Lemma scan_nodup : forall l c m, NoDup (map fst m) -> NoDup (map fst (scan l c m)).
Proof.
  induction l as [|y l IH]; intros c m H; cbn [scan]; [exact H|].
  apply IH. now apply (nodup_set okey_eqb okey_eqb_spec).
Qed.

Lemma scan_in : forall l c m, NoDup (map fst m) -> forall k h, In (k, h) (scan l c m) ->
  (In (k, h) m /\ nokey k l) \/
  (exists l1 l2, l = l1 ++ h_rec h :: l2 /\ kof (h_rec h) = k /\ nokey k l2 /\
                 h_pos h = c + N.of_nat (length l1) + 1).
Proof.
  induction l as [|x l IH] using rev_ind; intros c m Hnd k h Hin.
  - left. split; [exact Hin|]. intros r [].
  - rewrite scan_snoc_pos in Hin.
    apply (in_assoc_set_nodup okey_eqb okey_eqb_spec) in Hin; [|now apply scan_nodup].
    destruct Hin as [[-> ->]|[Hne Hin]].
    + right. exists l, []. cbn [h_rec h_pos]. split; [reflexivity|]. split; [reflexivity|].
      split; [intros r []|reflexivity].
    + destruct (IH c m Hnd k h Hin) as [[Hm Hno]|(l1 & l2 & -> & Hk & Hno & Hpos)].
      * left. split; [exact Hm|]. intros r Hr. apply in_app_or in Hr.
        destruct Hr as [Hr|[<-|[]]]; [now apply Hno|congruence].
      * right. exists l1, (l2 ++ [x]). split; [now rewrite <- app_assoc|].
        split; [exact Hk|]. split; [|exact Hpos].
        intros r Hr. apply in_app_or in Hr.
        destruct Hr as [Hr|[<-|[]]]; [now apply Hno|congruence].
Qed.

(* ------------------------------------------------------------------ *)
(* 4. the hits of a query over the node's single log file               *)

Lemma query_all_single f since : query_all [] f since = query_file f since [].
Proof. unfold query_all. cbn [app query_files]. destruct (query_file f since []); reflexivity. Qed.

Theorem query_hits_spec f since : sorted_times f = true ->
  exists hits pre suf, query_all [] f since = Some hits /\ f = pre ++ suf /\
    NoDup (map fst hits) /\
    (forall k r, spec_last f since k = Some r -> exists h, In (k, h) hits /\ h_rec h = r) /\
    (forall k h, In (k, h) hits -> exists l1 l2, suf = l1 ++ h_rec h :: l2 /\ kof (h_rec h) = k /\
                                     nokey k l2 /\ h_pos h = N.of_nat (length l1) + 1) /\
    (hits = [] \/ exists sp, search f since = Found sp /\ suf = skipn (N.to_nat (scan_start f since sp)) f).
Proof.
  intros Hs.
  destruct (query_all_complete [] f since Hs) as (m & Hq & Hcomplete).
  change (all_records [] f) with f in Hcomplete.
  exists m. pose proof Hq as Hq'. rewrite query_all_single in Hq'. unfold query_file in Hq'.
  destruct (search f since) as [sp| | |] eqn:Es; try discriminate.
  - injection Hq' as Hm.
    set (s := N.to_nat (scan_start f since sp)) in *.
    exists (firstn s f), (skipn s f).
    split; [exact Hq|]. split; [symmetry; apply firstn_skipn|].
    assert (Hnd : NoDup (map fst m)) by (rewrite <- Hm; apply scan_nodup; constructor).
    split; [exact Hnd|]. split.
    + intros k r Hk. destruct (Hcomplete k r Hk) as (h & Hg & Hr).
      exists h. split; [|exact Hr]. now apply (get_in okey_eqb okey_eqb_spec).
    + split; [|right; exists sp; split; reflexivity].
      intros k h Hin. rewrite <- Hm in Hin.
      apply scan_in in Hin; [|constructor].
      destruct Hin as [[[] _]|(l1 & l2 & H1 & H2 & H3 & H4)].
      exists l1, l2. repeat split; try assumption.
  - injection Hq' as Hm. exists f, []. split; [exact Hq|]. split; [now rewrite app_nil_r|].
    subst m. split; [constructor|]. split.
    + intros k r Hk. destruct (Hcomplete k r Hk) as (h & Hg & _). discriminate.
    + split; [intros k h []|now left].
Qed.

Definition hits_spec (f : ofile) (since : N) (hits : omap) (pre suf : list oprec) : Prop :=
  query_all [] f since = Some hits /\ f = pre ++ suf /\
  NoDup (map fst hits) /\
  (forall k r, spec_last f since k = Some r -> exists h, In (k, h) hits /\ h_rec h = r) /\
  (forall k h, In (k, h) hits -> exists l1 l2, suf = l1 ++ h_rec h :: l2 /\ kof (h_rec h) = k /\
                                   nokey k l2 /\ h_pos h = N.of_nat (length l1) + 1) /\
  (hits = [] \/ exists sp, search f since = Found sp /\ suf = skipn (N.to_nat (scan_start f since sp)) f).

Lemma hits_in_log f since hits pre suf : hits_spec f since hits pre suf ->
  forall k h, In (k, h) hits -> In (h_rec h) f /\ kof (h_rec h) = k.
Proof.
  intros (_ & Hf & _ & _ & Hstr & _) k h Hin.
  destruct (Hstr k h Hin) as (l1 & l2 & Hsuf & Hk & _). split; [|exact Hk].
  rewrite Hf, Hsuf. apply in_or_app. right. apply in_or_app. right. now left.
Qed.

(* ------------------------------------------------------------------ *)
(* 5. the structure of the answer                                       *)

(* the hypotheses of goal 1: every record of the log can be decoded *)
Definition recs_decodable (x : cnode) : Prop :=
  forall r, In r (cn_log x) ->
    (exists dbn, name_of_id (n_idmap (cn_node x)) (r_db r) = Some dbn /\ get_db (cn_node x) dbn <> None) /\
    (r_op r <= 1 -> exists k, key_of_id (cn_keymap x) (r_key r) = Some k).

Lemma decodable_sline x r : recs_decodable x -> In r (cn_log x) -> sline_of x r <> None.
Proof.
  intros Hd Hin. destruct (Hd r Hin) as [(dbn & Hn & Hdb) Hk].
  unfold sline_of. rewrite Hn.
  destruct (get_db (cn_node x) dbn) as [d|] eqn:Ed; [|congruence].
  destruct (N.eqb_spec (r_op r) 0) as [E0|E0].
  { destruct Hk as [k Hk]; [lia|]. rewrite Hk. discriminate. }
  destruct (N.eqb_spec (r_op r) 1) as [E1|E1].
  { destruct Hk as [k Hk]; [lia|]. rewrite Hk. discriminate. }
  destruct (N.eqb (r_op r) 2); discriminate.
Qed.

Theorem incr_sync_struct x since :
  sorted_times (cn_log x) = true -> recs_decodable x ->
  exists hits pre suf sls,
    hits_spec (cn_log x) since hits pre suf /\
    Forall2 (line_rel x) (sort_hits hits) sls /\
    incr_sync_lines x since = Some (map (render (cn_node x)) sls).
Proof.
  intros Hs Hd.
  destruct (query_hits_spec (cn_log x) since Hs) as (hits & pre & suf & Hspec).
  fold (hits_spec (cn_log x) since hits pre suf) in Hspec.
  destruct (lines_exist x (sort_hits hits)) as [sls Hsls].
  { intros [k h] Hin. apply (Permutation_in _ (sort_hits_perm hits)) in Hin.
    cbn [snd]. apply decodable_sline; [exact Hd|].
    apply (hits_in_log _ _ _ _ _ Hspec k h Hin). }
  exists hits, pre, suf, sls. split; [exact Hspec|]. split; [exact Hsls|].
  rewrite incr_sync_lines_unfold. destruct Hspec as (Hq & _). rewrite Hq.
  now rewrite (fold_istep_ok x _ sls []).
Qed.

(* ------------------------------------------------------------------ *)
(* 6. goal 1: coverage                                                  *)

Lemma spec_last_exists l since r : In r l -> since <= r_time r ->
  exists r', spec_last l since (kof r) = Some r'.
Proof.
  intros Hin Hge. destruct (spec_last l since (kof r)) as [r'|] eqn:E; [now exists r'|].
  pose proof (spec_last_none since (kof r) l E r Hin eq_refl). lia.
Qed.

(* What holds of an ARBITRARY decodable log: the (db,key) of every record at or after
   [since] is represented in the answer by the line of the LAST record carrying that
   (db id, key id) pair.  The pair does not include the operation, so if a create-db or a
   snapshot record shares the pair (third and fourth case) the key's update is not sent.
   The writer now files those records under reserved key ids ([marker_create],
   [marker_snapshot]), which excludes this: see [incr_sync_covers_fixed]. *)
Theorem incr_sync_covers_general x since :
  sorted_times (cn_log x) = true -> recs_decodable x ->
  exists ls, incr_sync_lines x since = Some ls /\
    forall r dbn k, In r (cn_log x) -> since <= r_time r ->
      name_of_id (n_idmap (cn_node x)) (r_db r) = Some dbn ->
      key_of_id (cn_keymap x) (r_key r) = Some k ->
      exists r', spec_last (cn_log x) since (r_db r, r_key r) = Some r' /\
        ((r_op r' = 0 /\ exists d, get_db (cn_node x) dbn = Some d /\
             In ("replicate " +++ dbn +++ " " +++ k +++ " " +++ fst (get_key_value_new d k)) ls)
         \/ (r_op r' = 1 /\ In ("replicate-remove " +++ dbn +++ " " +++ k) ls)
         \/ (r_op r' = 2 /\ In (create_db_line (cn_node x) dbn) ls)
         \/ (2 < r_op r' /\ In ("replicate-snapshot " +++ dbn) ls)).
Proof.
  intros Hs Hd.
  destruct (incr_sync_struct x since Hs Hd) as (hits & pre & suf & sls & Hspec & Hsls & Hls).
  exists (map (render (cn_node x)) sls). split; [exact Hls|].
  intros r dbn k Hin Hge Hname Hkey.
  destruct (spec_last_exists _ _ _ Hin Hge) as [r' Hr'].
  exists r'. split; [exact Hr'|].
  pose proof (spec_last_some since _ _ _ Hr') as (Hin' & Hge' & Hkof).
  unfold kof in Hkof. injection Hkof as Hdb' Hkey'.
  destruct Hspec as (_ & _ & _ & Hcompl & _).
  destruct (Hcompl _ _ Hr') as (h & Hh & Hrec).
  apply (Permutation_in _ (Permutation_sym (sort_hits_perm hits))) in Hh.
  destruct (Forall2_in_l _ _ _ Hsls _ Hh) as (sl & Hsl & Hrel).
  unfold line_rel in Hrel. cbn [snd] in Hrel. rewrite Hrec in Hrel.
  apply (in_map (render (cn_node x))) in Hsl.
  unfold sline_of in Hrel. rewrite Hdb', Hname, Hkey', Hkey in Hrel.
  destruct (N.eqb_spec (r_op r') 0) as [E0|E0].
  { left. split; [exact E0|].
    destruct (get_db (cn_node x) dbn) as [d|]; [|discriminate].
    injection Hrel as <-. exists d. split; [reflexivity|exact Hsl]. }
  destruct (N.eqb_spec (r_op r') 1) as [E1|E1].
  { right. left. split; [exact E1|]. injection Hrel as <-. exact Hsl. }
  destruct (N.eqb_spec (r_op r') 2) as [E2|E2].
  { right. right. left. split; [exact E2|].
    destruct (get_db (cn_node x) dbn) as [d|]; [|discriminate].
    injection Hrel as <-. exact Hsl. }
  right. right. right. split; [lia|]. injection Hrel as <-. exact Hsl.
Qed.

(* Goal 1 as asked, under the hypothesis that no create-db / snapshot record at or after
   [since] shares the record's (db id, key id) pair.  [incr_sync_covers_fixed] discharges
   this hypothesis for logs produced by the (repaired) writer. *)
Theorem incr_sync_covers x since :
  sorted_times (cn_log x) = true -> recs_decodable x ->
  exists ls, incr_sync_lines x since = Some ls /\
    forall r dbn k, In r (cn_log x) -> since <= r_time r -> r_op r <= 1 ->
      name_of_id (n_idmap (cn_node x)) (r_db r) = Some dbn ->
      key_of_id (cn_keymap x) (r_key r) = Some k ->
      (forall r2, In r2 (cn_log x) -> since <= r_time r2 ->
                  r_db r2 = r_db r -> r_key r2 = r_key r -> r_op r2 <= 1) ->
      exists r', spec_last (cn_log x) since (r_db r, r_key r) = Some r' /\
        ((r_op r' = 0 /\ exists d, get_db (cn_node x) dbn = Some d /\
             In ("replicate " +++ dbn +++ " " +++ k +++ " " +++ fst (get_key_value_new d k)) ls)
         \/ (r_op r' = 1 /\ In ("replicate-remove " +++ dbn +++ " " +++ k) ls)).
Proof.
  intros Hs Hd. destruct (incr_sync_covers_general x since Hs Hd) as (ls & Hls & Hcov).
  exists ls. split; [exact Hls|].
  intros r dbn k Hin Hge _ Hname Hkey Hnocoll.
  destruct (Hcov r dbn k Hin Hge Hname Hkey) as (r' & Hr' & Hcases).
  exists r'. split; [exact Hr'|].
  pose proof (spec_last_some since _ _ _ Hr') as (Hin' & Hge' & Hkof).
  unfold kof in Hkof. injection Hkof as Hdb' Hkey'.
  pose proof (Hnocoll r' Hin' Hge' Hdb' Hkey') as Hop.
  destruct Hcases as [H|[H|[[H _]|[H _]]]]; [now left|now right|lia|lia].
Qed.

(* ------------------------------------------------------------------ *)
(* 7. goal 5: the writer keeps the log decodable                        *)

(* keys_map hands out the ids 0, 1, 2, ... in order of first use *)
Definition keymap_ok (km : list (str * N)) : Prop :=
  map snd km = map N.of_nat (seq 0 (length km)).

Lemma keymap_ok_ids km : keymap_ok km -> forall k id, In (k, id) km -> id < N.of_nat (length km).
Proof.
  unfold keymap_ok. intros H k id Hin. apply (in_map snd) in Hin. cbn [snd] in Hin.
  rewrite H in Hin. apply in_map_iff in Hin. destruct Hin as (i & <- & Hi).
  apply in_seq in Hi. lia.
Qed.

Lemma keymap_ok_snoc km key : keymap_ok km -> keymap_ok (km ++ [(key, N.of_nat (length km))]).
Proof.
  unfold keymap_ok. intros H. rewrite map_app, app_length. cbn [length map snd].
  rewrite Nat.add_1_r, seq_S, map_app, H. reflexivity.
Qed.

Lemma keymap_ok_inj : forall km, keymap_ok km -> forall k1 k2 id,
  In (k1, id) km -> In (k2, id) km -> k1 = k2.
Proof.
  induction km as [|[k0 id0] km IH] using rev_ind; intros Hok k1 k2 id H1 H2; [destruct H1|].
  assert (Hok' : keymap_ok km /\ id0 = N.of_nat (length km)).
  { unfold keymap_ok in *. rewrite map_app, app_length in Hok. cbn [length map snd] in Hok.
    rewrite Nat.add_1_r, seq_S, map_app in Hok. cbn [map] in Hok.
    apply app_inj_tail in Hok. exact Hok. }
  destruct Hok' as [Hok' ->].
  apply in_app_or in H1. apply in_app_or in H2.
  destruct H1 as [H1|[H1|[]]]; destruct H2 as [H2|[H2|[]]].
  - eapply IH; eauto.
  - injection H2 as <- <-. pose proof (keymap_ok_ids km Hok' _ _ H1). lia.
  - injection H1 as <- <-. pose proof (keymap_ok_ids km Hok' _ _ H2). lia.
  - congruence.
Qed.

Lemma key_of_id_in : forall km id k, key_of_id km id = Some k -> In (k, id) km.
Proof.
  unfold key_of_id. intros km id k H.
  destruct (filter (fun p => N.eqb (snd p) id) km) as [|[k' id'] rest] eqn:E; [discriminate|].
  injection H as ->.
  assert (Hin : In (k, id') (filter (fun p => N.eqb (snd p) id) km)) by (rewrite E; now left).
  apply filter_In in Hin. destruct Hin as [Hin Heq]. cbn [snd] in Heq.
  apply N.eqb_eq in Heq. now subst.
Qed.

Lemma key_of_id_some : forall km id k, In (k, id) km -> exists k', key_of_id km id = Some k'.
Proof.
  unfold key_of_id. intros km id k Hin.
  assert (Hf : In (k, id) (filter (fun p => N.eqb (snd p) id) km)).
  { apply filter_In. split; [exact Hin|]. cbn [snd]. apply N.eqb_refl. }
  destruct (filter (fun p => N.eqb (snd p) id) km) as [|[k' id'] rest]; [destruct Hf|].
  now exists k'.
Qed.

(* with the id discipline, an id decodes to the key it was handed out for *)
Lemma key_of_id_exact km id k : keymap_ok km -> In (k, id) km -> key_of_id km id = Some k.
Proof.
  intros Hok Hin. destruct (key_of_id_some km id k Hin) as [k' Hk'].
  rewrite Hk'. f_equal. apply key_of_id_in in Hk'. eapply keymap_ok_inj; eauto.
Qed.

Lemma key_of_id_app km id k extra : key_of_id km id = Some k -> key_of_id (km ++ extra) id = Some k.
Proof.
  unfold key_of_id. rewrite filter_app.
  destruct (filter (fun p => N.eqb (snd p) id) km) as [|[k' id'] rest]; [discriminate|].
  intros H. exact H.
Qed.

(* key_id: what it returns and what it does to the map *)
Lemma key_id_spec x key x1 kid : key_id x key = (x1, kid) ->
  cn_node x1 = cn_node x /\ cn_log x1 = cn_log x /\
  In (key, kid) (cn_keymap x1) /\
  (exists extra, cn_keymap x1 = cn_keymap x ++ extra) /\
  (keymap_ok (cn_keymap x) -> keymap_ok (cn_keymap x1)).
Proof.
  unfold key_id. destruct (assoc_get String.eqb key (cn_keymap x)) as [id|] eqn:E; intros [= <- <-].
  - split; [reflexivity|]. split; [reflexivity|].
    split; [now apply (get_in String.eqb String.eqb_spec)|].
    split; [exists []; now rewrite app_nil_r|auto].
  - cbn [cn_node cn_log cn_keymap]. split; [reflexivity|]. split; [reflexivity|].
    split; [apply in_or_app; right; now left|].
    split; [eexists; reflexivity|apply keymap_ok_snoc].
Qed.

Theorem key_id_keeps_keymap_ok x key x1 kid :
  keymap_ok (cn_keymap x) -> key_id x key = (x1, kid) -> keymap_ok (cn_keymap x1).
Proof. intros Hok H. now apply (key_id_spec x key x1 kid H). Qed.

Theorem key_id_decodes x key x1 kid :
  keymap_ok (cn_keymap x) -> key_id x key = (x1, kid) ->
  key_of_id (cn_keymap x1) kid = Some key.
Proof.
  intros Hok H. destruct (key_id_spec x key x1 kid H) as (_ & _ & Hin & _ & Hok').
  apply key_of_id_exact; auto.
Qed.

(* every database of the node has its id in id_name_db_map, under the name of a database *)
Definition idmap_covers (n : node) : Prop :=
  forall dbn d, get_db n dbn = Some d ->
    exists dbn', name_of_id (n_idmap n) (d_id d) = Some dbn' /\ get_db n dbn' <> None.

Definition times_le (f : ofile) (id : N) : Prop := forall r, In r f -> r_time r <= id.

(* the invariant: the two hypotheses of goal 1, the id discipline of keys_map and the
   coverage of id_name_db_map *)
Definition decodable (x : cnode) : Prop :=
  sorted_times (cn_log x) = true /\ recs_decodable x /\
  keymap_ok (cn_keymap x) /\ idmap_covers (cn_node x).

Lemma sorted_times_snoc : forall f r, sorted_times f = true -> times_le f (r_time r) ->
  sorted_times (f ++ [r]) = true.
Proof.
  induction f as [|a f IH]; intros r Hs Hle; [reflexivity|].
  destruct f as [|b f'].
  - cbn. rewrite andb_true_r. apply N.leb_le. apply Hle. now left.
  - change ((a :: b :: f') ++ [r]) with (a :: (b :: f') ++ [r]).
    cbn [sorted_times app] in *. apply andb_true_iff in Hs. destruct Hs as [H1 H2].
    apply andb_true_iff. split; [exact H1|].
    apply (IH r H2). intros r0 Hr0. apply Hle. now right.
Qed.

Lemma decodable_append x x1 rec dbn d :
  decodable x ->
  cn_node x1 = cn_node x -> cn_log x1 = cn_log x ->
  (exists extra, cn_keymap x1 = cn_keymap x ++ extra) ->
  keymap_ok (cn_keymap x1) ->
  times_le (cn_log x) (r_time rec) ->
  get_db (cn_node x) dbn = Some d -> r_db rec = d_id d ->
  (r_op rec <= 1 -> exists k, key_of_id (cn_keymap x1) (r_key rec) = Some k) ->
  decodable (log_append x1 rec).
Proof.
  intros (Hs & Hd & Hkm & Hid) Hnode Hlog [extra Hextra] Hkm1 Hle Hdb Hrdb Hkey.
  unfold decodable, recs_decodable, log_append. cbn [cn_log cn_node cn_keymap]. rewrite Hnode, Hlog.
  split; [now apply sorted_times_snoc|]. split; [|split; [exact Hkm1|exact Hid]].
  intros r Hin.
  apply in_app_or in Hin. destruct Hin as [Hin|[<-|[]]].
  - destruct (Hd r Hin) as [H1 H2]. split; [exact H1|].
    intros Hop. destruct (H2 Hop) as [k Hk]. exists k. rewrite Hextra. now apply key_of_id_app.
  - split; [|exact Hkey]. rewrite Hrdb. exact (Hid dbn d Hdb).
Qed.

Lemma db_id_of_some n dbn i : db_id_of n dbn = Some i -> exists d, get_db n dbn = Some d /\ d_id d = i.
Proof. unfold db_id_of. destruct (get_db n dbn) as [d|]; [|discriminate]. intros [= <-]. now exists d. Qed.

Lemma snapshot_fold_keeps id : forall names x0 r0 x' r',
  decodable x0 -> times_le (cn_log x0) id ->
  fold_left (fun (acc : cnode * option N) nm =>
               let '(x0, r0) := acc in
               match db_id_of (cn_node x0) nm with
               | Some d => (log_append x0 (mkRec id marker_snapshot d 3), r0)
               | None => (x0, None)
               end) names (x0, r0) = (x', r') ->
  decodable x' /\ times_le (cn_log x') id.
Proof.
  induction names as [|nm names IH]; intros x0 r0 x' r' Hd Hle H; cbn [fold_left] in H.
  - injection H as <- _. now split.
  - destruct (db_id_of (cn_node x0) nm) as [i|] eqn:Ei.
    + destruct (db_id_of_some _ _ _ Ei) as (d & Hdb & Hdi).
      apply IH in H; [exact H| |].
      * apply (decodable_append x0 x0 _ nm d); auto.
        -- exists []. now rewrite app_nil_r.
        -- apply Hd.
        -- cbn [r_op]. lia.
      * unfold log_append. cbn [cn_log]. intros r Hr. apply in_app_or in Hr.
        destruct Hr as [Hr|[<-|[]]]; [now apply Hle|cbn [r_time]; lia].
    + apply IH in H; [exact H|exact Hd|exact Hle].
Qed.

Definition logged_request (rq : request) : Prop :=
  match rq with
  | RqReplicateSet _ _ _ _ | RqReplicateRemove _ _ | RqReplicateIncrement _ _ _
  | RqCreateDb _ _ _ | RqReplicateSnapshot _ _ => True
  | _ => False
  end.

(* Goal 5.  "On an existing database" is the result [Some id]: repl_oplog answers None
   ("Missing DB Id") exactly when a named database does not exist. *)
Theorem repl_oplog_keeps_decodable x rq id x' :
  decodable x -> logged_request rq -> times_le (cn_log x) id ->
  repl_oplog x rq id = (x', Some id) ->
  decodable x' /\ times_le (cn_log x') id.
Proof.
  intros Hd Hrq Hle H.
  assert (Hle_app : forall x1 rec, cn_log x1 = cn_log x -> r_time rec = id ->
                                   times_le (cn_log (log_append x1 rec)) id).
  { intros x1 rec Hl Ht r Hr. unfold log_append in Hr. cbn [cn_log] in Hr. rewrite Hl in Hr.
    apply in_app_or in Hr. destruct Hr as [Hr|[<-|[]]]; [now apply Hle|lia]. }
  assert (Hkeyed : forall dbn key op, op <= 1 ->
            (let '(x1, kid) := key_id x key in
             match db_id_of (cn_node x) dbn with
             | Some d => (log_append x1 (mkRec id kid d op), Some id)
             | None => (x1, None)
             end) = (x', Some id) -> decodable x' /\ times_le (cn_log x') id).
  { intros dbn key op Hop Hk. destruct (key_id x key) as [x1 kid] eqn:Ek.
    destruct (key_id_spec x key x1 kid Ek) as (Hn1 & Hl1 & Hin1 & Hext & Hok1).
    destruct (db_id_of (cn_node x) dbn) as [i|] eqn:Ei; [|discriminate].
    injection Hk as <-. destruct (db_id_of_some _ _ _ Ei) as (d & Hdb & Hdi).
    split; [|now apply Hle_app].
    apply (decodable_append x x1 _ dbn d); auto.
    - apply Hok1, Hd.
    - intros _. cbn [r_key]. eapply key_of_id_some; eauto. }
  destruct rq; try (destruct Hrq); unfold repl_oplog in H.
  - (* RqReplicateRemove *) eapply (Hkeyed _ _ 1); [lia|exact H].
  - (* RqReplicateIncrement *) eapply (Hkeyed _ _ 0); [lia|exact H].
  - (* RqReplicateSet *) eapply (Hkeyed _ _ 0); [lia|exact H].
  - (* RqCreateDb *)
    destruct (db_id_of (cn_node x) name) as [i|] eqn:Ei; [|discriminate].
    injection H as <-. destruct (db_id_of_some _ _ _ Ei) as (d & Hdb & Hdi).
    split; [|now apply Hle_app].
    apply (decodable_append x x _ name d); auto.
    + exists []. now rewrite app_nil_r.
    + apply Hd.
    + cbn [r_op]. lia.
  - (* RqReplicateSnapshot *)
    eapply snapshot_fold_keeps; eauto.
Qed.

(* the new record decodes to exactly the key that was written *)
Theorem repl_oplog_set_record x dbn key v ver id x' :
  keymap_ok (cn_keymap x) ->
  repl_oplog x (RqReplicateSet dbn key v ver) id = (x', Some id) ->
  exists d kid, get_db (cn_node x) dbn = Some d /\
    cn_log x' = cn_log x ++ [mkRec id kid (d_id d) 0] /\
    key_of_id (cn_keymap x') kid = Some key.
Proof.
  intros Hok H. unfold repl_oplog in H.
  destruct (key_id x key) as [x1 kid] eqn:Ek.
  destruct (key_id_spec x key x1 kid Ek) as (Hn1 & Hl1 & _).
  destruct (db_id_of (cn_node x) dbn) as [i|] eqn:Ei; [|discriminate].
  injection H as <-. destruct (db_id_of_some _ _ _ Ei) as (d & Hdb & <-).
  exists d, kid. split; [exact Hdb|]. unfold log_append. cbn [cn_log cn_keymap].
  split; [now rewrite Hl1|]. now apply (key_id_decodes x key x1 kid).
Qed.

(* ------------------------------------------------------------------ *)
(* 8. goal 6: a concrete run                                            *)

(* executable checkers for the hypotheses *)
Definition rec_decodable_b (x : cnode) (r : oprec) : bool :=
  match name_of_id (n_idmap (cn_node x)) (r_db r) with
  | Some dbn => match get_db (cn_node x) dbn with Some _ => true | None => false end
  | None => false
  end &&
  (negb (N.leb (r_op r) 1) ||
   match key_of_id (cn_keymap x) (r_key r) with Some _ => true | None => false end).

Lemma recs_decodable_check x : forallb (rec_decodable_b x) (cn_log x) = true -> recs_decodable x.
Proof.
  intros H r Hin. rewrite forallb_forall in H. specialize (H r Hin).
  unfold rec_decodable_b in H. apply andb_true_iff in H. destruct H as [H1 H2]. split.
  - destruct (name_of_id (n_idmap (cn_node x)) (r_db r)) as [dbn|]; [|discriminate].
    exists dbn. split; [reflexivity|]. destruct (get_db (cn_node x) dbn); [discriminate|discriminate].
  - intros Hop. destruct (N.leb_spec (r_op r) 1) as [_|Hgt]; [|lia]. cbn [negb orb] in H2.
    destruct (key_of_id (cn_keymap x) (r_key r)) as [k|]; [now exists k|discriminate].
Qed.

Definition idmap_covers_b (n : node) : bool :=
  forallb (fun p => match name_of_id (n_idmap n) (d_id (snd p)) with
                    | Some nm => match get_db n nm with Some _ => true | None => false end
                    | None => false
                    end) (n_dbs n).

Lemma idmap_covers_check n : idmap_covers_b n = true -> idmap_covers n.
Proof.
  intros H dbn d Hdb. unfold idmap_covers_b in H. rewrite forallb_forall in H.
  apply (get_in String.eqb String.eqb_spec) in Hdb. specialize (H _ Hdb). cbn [snd] in H.
  destruct (name_of_id (n_idmap n) (d_id d)) as [nm|]; [|discriminate].
  exists nm. split; [reflexivity|]. destruct (get_db n nm); discriminate.
Qed.

(* a primary, one client; every command goes through the request handler (Node.step) and
   the replication thread (poll_repl -> repl_one -> repl_oplog) *)
Definition run_cmds (x : cnode) (sid : nat) (cmds : list str) : cnode :=
  fold_left (fun x c => poll_repl (cn_set_node x (fst (step (cn_node x) sid c)))) cmds x.

Definition ex_start : cnode * nat :=
  let x0 := init_cnode "user" "pwd" "n1" 1 Primary 100 in
  let '(n, c) := connect (cn_node x0) in (cn_set_node x0 n, c).

Definition ex : cnode :=
  run_cmds (fst ex_start) (snd ex_start)
    ["auth user pwd"; "create-db d1 tok"; "use-db d1 tok";
     "set k0 a"; "set k1 b"; "set k2 c"; "remove k1"; "set k0 a2"; "snapshot false"; "set k3 d"].

Example ex_log :
  cn_log ex = [mkRec 104 marker_create 1 2;     (* create-db d1 : reserved key id *)
               mkRec 107 0 1 0;                 (* set k0 *)
               mkRec 109 1 1 0;                 (* set k1 *)
               mkRec 111 2 1 0;                 (* set k2 *)
               mkRec 112 1 1 1;                 (* remove k1 *)
               mkRec 114 0 1 0;                 (* set k0 *)
               mkRec 115 marker_snapshot 1 3;   (* snapshot d1 : reserved key id *)
               mkRec 117 3 1 0]                 (* set k3 *)
  /\ cn_keymap ex = [("k0", 0); ("k1", 1); ("k2", 2); ("k3", 3)]
  /\ n_idmap (cn_node ex) = [(0, "$admin"); (1, "d1")].
Proof. vm_compute. repeat split. Qed.

Example ex_decodable : decodable ex.
Proof.
  split; [vm_compute; reflexivity|]. split; [apply recs_decodable_check; vm_compute; reflexivity|].
  split; [vm_compute; reflexivity|apply idmap_covers_check; vm_compute; reflexivity].
Qed.

(* the joiner was last in step at 110: everything from "set k2 c" on happened while it was away *)
Example ex_lines :
  incr_sync_lines ex 110 =
  Some ["replicate d1 k2 c"; "replicate-remove d1 k1"; "replicate d1 k0 a2";
        "replicate-snapshot d1"; "replicate d1 k3 d"].
Proof. vm_compute. reflexivity. Qed.

(* Before the repair of the writer (create-db filed under key id 1, snapshot under key id 2)
   the snapshot record (115) replaced "set k2 c" (111, key id 2) in the query result and
   the joiner got no line for k2.  With the reserved key ids the update is sent. *)
Example covers_fixed_example :
  let r := mkRec 111 2 1 0 in
  In r (cn_log ex) /\ 110 <= r_time r /\ r_op r <= 1 /\
  name_of_id (n_idmap (cn_node ex)) (r_db r) = Some "d1" /\
  key_of_id (cn_keymap ex) (r_key r) = Some "k2" /\
  (exists d, get_db (cn_node ex) "d1" = Some d /\ fst (get_key_value_new d "k2") = "c") /\
  spec_last (cn_log ex) 110 (r_db r, r_key r) = Some r /\
  exists ls, incr_sync_lines ex 110 = Some ls /\ In "replicate d1 k2 c" ls.
Proof.
  cbv zeta.
  split; [rewrite (proj1 ex_log); cbn; tauto|].
  split; [cbn; lia|]. split; [cbn; lia|].
  split; [vm_compute; reflexivity|]. split; [vm_compute; reflexivity|].
  split.
  { destruct (get_db (cn_node ex) "d1") as [d|] eqn:E; [|vm_compute in E; discriminate].
    exists d. split; [reflexivity|].
    assert (H : option_map (fun d => fst (get_key_value_new d "k2")) (get_db (cn_node ex) "d1") = Some "c")
      by (vm_compute; reflexivity).
    rewrite E in H. cbn [option_map] in H. now injection H. }
  split; [vm_compute; reflexivity|].
  eexists. split; [apply ex_lines|]. now left.
Qed.

(* likewise "remove k1" (key id 1) no longer displaces the create-db record of d1: a joiner
   that was away since 104 is sent "create-db d1 tok" first *)
Example create_db_line_kept_example :
  In (mkRec 104 marker_create 1 2) (cn_log ex) /\
  create_db_line (cn_node ex) "d1" = "create-db d1 tok" /\
  incr_sync_lines ex 104 =
  Some ["create-db d1 tok"; "replicate d1 k2 c"; "replicate-remove d1 k1"; "replicate d1 k0 a2";
        "replicate-snapshot d1"; "replicate d1 k3 d"].
Proof. split; [rewrite (proj1 ex_log); now left|]. split; vm_compute; reflexivity. Qed.

(* goal 5 at work: one more write keeps the invariant *)
Example ex_next_decodable :
  decodable (fst (repl_oplog ex (RqReplicateSet "d1" "k9" "z" (-1)) 200)).
Proof.
  destruct (repl_oplog ex (RqReplicateSet "d1" "k9" "z" (-1)) 200) as [x' o] eqn:E.
  assert (Ho : o = Some 200) by (apply (f_equal snd) in E; vm_compute in E; congruence).
  subst o. cbn [fst].
  apply (repl_oplog_keeps_decodable ex (RqReplicateSet "d1" "k9" "z" (-1)) 200 x' ex_decodable I); [|exact E].
  intros r Hr. rewrite (proj1 ex_log) in Hr. cbn [In] in Hr.
  repeat (destruct Hr as [<-|Hr]; [cbn [r_time]; lia|]). destruct Hr.
Qed.

(* ------------------------------------------------------------------ *)
(* 9. goal 2: exactness -- where the scan starts                        *)

Section Stale.
Variable f : ofile.
Variable since : N.
Hypothesis Hs : sortedP f.
Local Notation n := (N.of_nat (length f)).

(* the three ways the binary search ends with Found: past the end, on a record that is
   not older than [since], or -- the "read_all" exit -- on record 1 although it is older *)
Definition pfound (sp : N) : Prop :=
  n <= sp \/ since <= tm f sp \/
  (sp = 1 /\ tm f 1 < since /\ forall j, 2 <= j -> j < n -> since < tm f j).

Lemma found_shape st sp : inv f since st -> search_step f since st = inr (Found sp) -> pfound sp.
Proof.
  destruct st as [mn mx sp0 last]. intros [Hlo Hhi Hn Heqmn Heqmx Hup Hlow Hlast] Hstep.
  cbn [s_min s_max s_seek s_last] in *.
  unfold search_step in Hstep. cbn [s_min s_max s_seek s_last] in Hstep.
  pose proof (tm_mono f Hs) as Hmono.
  destruct (nth_time_cases f sp0) as [[Hlt Ent]|[Hge Ent]]; rewrite Ent in Hstep;
    cbv beta iota zeta in Hstep.
  - destruct (N.ltb mx mn) eqn:E1; [discriminate|].
    match type of Hstep with (if ?c then _ else _) = _ => destruct c eqn:E2 end.
    + injection Hstep as <-. unfold pfound.
      destruct (N.leb_spec since (tm f sp0)) as [Hle|Hgt]; [right; left; exact Hle|].
      right. right. assert (Hsp : sp0 = 1) by lia. subst sp0.
      assert (Hm : (mn = 0 /\ mx = 1) \/ (mn = 1 /\ mx = 2)) by lia.
      destruct Hm as [[-> ->]|[-> ->]].
      * exfalso. destruct Hup as [Hup|Hup]; lia.
      * split; [reflexivity|]. split; [exact Hgt|]. intros j Hj2 Hjn.
        destruct Hup as [Hup|Hup]; [lia|]. pose proof (Hmono 2 j Hj2 Hjn). lia.
    + repeat match type of Hstep with (if ?c then _ else _) = _ => destruct c end; discriminate.
  - destruct (N.ltb mx mn) eqn:E1; [discriminate|].
    match type of Hstep with (if ?c then _ else _) = _ => destruct c eqn:E2 end.
    + injection Hstep as <-. left. exact Hge.
    + repeat match type of Hstep with (if ?c then _ else _) = _ => destruct c end; discriminate.
Qed.

Lemma loop_found : forall fuel st sp, inv f since st -> search_loop fuel f since st = Found sp -> pfound sp.
Proof.
  induction fuel as [|fuel IH]; intros st sp Hinv H; cbn [search_loop] in H; [discriminate|].
  pose proof (step_ok f since Hs st Hinv) as Hstep.
  destruct (search_step f since st) as [st'|r] eqn:E.
  - destruct Hstep as [Hinv' _]. eapply IH; eauto.
  - subst r. eapply found_shape; eauto.
Qed.

Lemma search_found_shape sp : search f since = Found sp -> pfound sp.
Proof. unfold search. apply loop_found. apply inv_init. Qed.

Lemma walk_back_eq : forall j i r, (walk_back f since j <= i < j)%nat ->
  nth_error f i = Some r -> r_time r = since.
Proof.
  induction j as [|j IH]; intros i r Hi Hnth; cbn [walk_back] in Hi; [lia|].
  destruct (nth_error f j) as [rj|] eqn:Ej; [|lia].
  destruct (N.eqb_spec (r_time rj) since) as [Et|Et]; [|lia].
  destruct (Nat.eq_dec i j) as [->|Hne]; [congruence|]. apply (IH i r); [lia|exact Hnth].
Qed.

(* every record from the scan start on is at or after [since] -- except that the scan may
   start on record 1 although it is older, and then no record carries exactly [since] *)
Lemma suffix_fresh sp : search f since = Found sp -> forall i r, nth_error f i = Some r ->
  scan_start f since sp <= N.of_nat i ->
  since <= r_time r \/ (i = 1%nat /\ forall r0, In r0 f -> r_time r0 <> since).
Proof.
  intros Hfound i r Hnth Hi. pose proof (search_found_shape sp Hfound) as Hp.
  assert (Hil : (i < length f)%nat) by (apply nth_error_Some; congruence).
  unfold scan_start in Hi.
  destruct (nth_time_cases f sp) as [[Hlt Esp]|[Hge Esp]]; rewrite Esp in Hi; [|lia].
  destruct (nth_of_lt f sp Hlt) as (rs & Hrs & Htm).
  destruct (N.eqb_spec (tm f sp) since) as [Et|Et].
  - left. destruct (Nat.lt_ge_cases i (N.to_nat sp)) as [Hlt'|Hge'].
    + pose proof (walk_back_eq (N.to_nat sp) i r ltac:(lia) Hnth). lia.
    + pose proof (sortedP_nth f Hs _ _ _ _ Hrs Hnth Hge'). lia.
  - destruct Hp as [Hp|[Hp|(Hsp1 & Hlt1 & Hp)]]; [lia| |].
    + left. pose proof (sortedP_nth f Hs (N.to_nat sp) i rs r Hrs Hnth ltac:(lia)). lia.
    + subst sp. destruct (Nat.eq_dec i 1) as [->|Hne].
      * right. split; [reflexivity|]. intros r0 Hin0.
        apply In_nth_error in Hin0. destruct Hin0 as [j Hj].
        assert (Hjl : (j < length f)%nat) by (apply nth_error_Some; congruence).
        rewrite <- (tm_nth f j r0 Hj).
        destruct (Nat.le_gt_cases j 1) as [Hj1|Hj2].
        -- pose proof (tm_mono f Hs (N.of_nat j) 1 ltac:(lia) ltac:(lia)). lia.
        -- pose proof (Hp (N.of_nat j) ltac:(lia) ltac:(lia)). lia.
      * left. rewrite <- (tm_nth f i r Hnth).
        pose proof (Hp (N.of_nat i) ltac:(lia) ltac:(lia)). lia.
Qed.

End Stale.

Lemma in_skipn_nth {A} : forall s (l : list A) a, In a (skipn s l) ->
  exists i, (s <= i)%nat /\ nth_error l i = Some a.
Proof.
  induction s as [|s IH]; intros l a Hin.
  - apply In_nth_error in Hin. destruct Hin as [i Hi]. exists i. split; [lia|exact Hi].
  - destruct l as [|b l]; [destruct Hin|]. cbn [skipn] in Hin.
    destruct (IH l a Hin) as (i & Hi & Hn). exists (S i). split; [lia|exact Hn].
Qed.

Lemma hits_fresh f since hits pre suf : sorted_times f = true -> hits_spec f since hits pre suf ->
  forall k h, In (k, h) hits ->
    since <= r_time (h_rec h) \/
    (nth_error f 1 = Some (h_rec h) /\ forall r0, In r0 f -> r_time r0 <> since).
Proof.
  intros Hs Hspec k h Hin. pose proof Hspec as (_ & _ & _ & _ & Hstr & Hsuf).
  destruct Hsuf as [->|(sp & Hfound & Hsuf)]; [destruct Hin|].
  destruct (Hstr k h Hin) as (l1 & l2 & Hdec & _).
  assert (Hin' : In (h_rec h) suf) by (rewrite Hdec; apply in_or_app; right; now left).
  rewrite Hsuf in Hin'. apply in_skipn_nth in Hin'. destruct Hin' as (i & Hi & Hnth).
  destruct (suffix_fresh f since (sorted_times_sortedP f Hs) sp Hfound i _ Hnth ltac:(lia)) as [H|[-> H]].
  - now left.
  - right. split; [exact Hnth|exact H].
Qed.

(* spec_last from a decomposition *)
Lemma spec_last_decomp since l1 r l2 : since <= r_time r -> nokey (kof r) l2 ->
  spec_last (l1 ++ r :: l2) since (kof r) = Some r.
Proof.
  intros Hge Hno. rewrite spec_last_app.
  change (r :: l2) with ([r] ++ l2). rewrite spec_last_app.
  destruct (spec_last l2 since (kof r)) as [r2|] eqn:E2.
  - exfalso. apply spec_last_some in E2. destruct E2 as (Hin & _ & Hk). now apply (Hno r2 Hin).
  - assert (E1 : spec_last [r] since (kof r) = Some r).
    { unfold spec_last. cbn [fold_left].
      destruct (N.leb_spec since (r_time r)) as [_|Hlt]; [|lia]. cbn [andb].
      fold (kof r). destruct (okey_eqb_spec (kof r) (kof r)); congruence. }
    now rewrite E1.
Qed.

(* Goal 2, as far as it is true.  Every line is the line of a record of the log which is
   the LAST record of its (db id, key id) pair; that record is at or after [since] -- or it
   is record number 1 (the second record) of the log, in which case no record of the log
   carries the time [since] exactly (see [only_touched_refuted]). *)
Theorem incr_sync_only_touched x since ls :
  sorted_times (cn_log x) = true -> recs_decodable x -> incr_sync_lines x since = Some ls ->
  exists sls, ls = map (render (cn_node x)) sls /\
    forall sl, In sl sls -> exists r l1 l2,
      cn_log x = l1 ++ r :: l2 /\ nokey (kof r) l2 /\ sline_of x r = Some sl /\
      (since <= r_time r \/
       (nth_error (cn_log x) 1 = Some r /\ forall r0, In r0 (cn_log x) -> r_time r0 <> since)).
Proof.
  intros Hs Hd Hls.
  destruct (incr_sync_struct x since Hs Hd) as (hits & pre & suf & sls & Hspec & Hsls & Hls').
  rewrite Hls in Hls'. injection Hls' as ->.
  exists sls. split; [reflexivity|]. intros sl Hsl.
  destruct (Forall2_in_r _ _ _ Hsls _ Hsl) as ([k h] & Hin & Hrel).
  apply (Permutation_in _ (sort_hits_perm hits)) in Hin.
  unfold line_rel in Hrel. cbn [snd] in Hrel.
  pose proof (hits_fresh _ _ _ _ _ Hs Hspec k h Hin) as Hfresh.
  destruct Hspec as (_ & Hf & _ & _ & Hstr & _).
  destruct (Hstr k h Hin) as (l1 & l2 & Hdec & Hk & Hno & _).
  exists (h_rec h), (pre ++ l1), l2. split; [now rewrite Hf, Hdec, <- app_assoc|].
  split; [now rewrite Hk|]. split; [exact Hrel|exact Hfresh].
Qed.

(* exactness proper, in the normal situation: the joiner's last operation time is the
   time of some record of the primary's log.  Then every line is the line of the record
   [spec_last] designates, i.e. of a record at or after [since]. *)
Theorem incr_sync_only_touched_exact x since ls :
  sorted_times (cn_log x) = true -> recs_decodable x -> incr_sync_lines x since = Some ls ->
  (exists r0, In r0 (cn_log x) /\ r_time r0 = since) ->
  exists sls, ls = map (render (cn_node x)) sls /\
    forall sl, In sl sls -> exists r,
      In r (cn_log x) /\ since <= r_time r /\
      spec_last (cn_log x) since (kof r) = Some r /\ sline_of x r = Some sl.
Proof.
  intros Hs Hd Hls (r0 & Hr0 & Ht0).
  destruct (incr_sync_only_touched x since ls Hs Hd Hls) as (sls & Hmap & Hall).
  exists sls. split; [exact Hmap|]. intros sl Hsl.
  destruct (Hall sl Hsl) as (r & l1 & l2 & Hdec & Hno & Hline & [Hge|[_ Hnone]]).
  - exists r. split; [rewrite Hdec; apply in_or_app; right; now left|].
    split; [exact Hge|]. split; [|exact Hline]. rewrite Hdec. now apply spec_last_decomp.
  - exfalso. now apply (Hnone r0 Hr0).
Qed.

(* Goal 2 as asked is FALSE: a three-record log, the joiner's time strictly between the
   second and the third record: the second record's key is sent although it did not change *)
Definition ex3 : cnode :=
  run_cmds (fst ex_start) (snd ex_start)
    ["auth user pwd"; "create-db d1 tok"; "use-db d1 tok"; "set k0 a"; "set k1 b"].

Example only_touched_refuted :
  cn_log ex3 = [mkRec 104 marker_create 1 2; mkRec 107 0 1 0; mkRec 109 1 1 0] /\
  decodable ex3 /\
  incr_sync_lines ex3 108 = Some ["replicate d1 k0 a"; "replicate d1 k1 b"] /\
  spec_last (cn_log ex3) 108 (1, 0) = None.
Proof.
  split; [vm_compute; reflexivity|]. split.
  { split; [vm_compute; reflexivity|]. split; [apply recs_decodable_check; vm_compute; reflexivity|].
    split; [vm_compute; reflexivity|apply idmap_covers_check; vm_compute; reflexivity]. }
  split; vm_compute; reflexivity.
Qed.

(* ------------------------------------------------------------------ *)
(* 10. goal 3: at most one line per (database, key)                     *)

Definition sl_key (sl : sline) : option (str * str) :=
  match sl with
  | SLSet d k _ | SLRemove d k => Some (d, k)
  | _ => None
  end.

(* the (database, key) pairs the replicate / replicate-remove lines are about, in order *)
Definition touched (sls : list sline) : list (str * str) :=
  flat_map (fun sl => match sl_key sl with Some dk => [dk] | None => [] end) sls.

Lemma sline_of_key x r sl d k : sline_of x r = Some sl -> sl_key sl = Some (d, k) ->
  name_of_id (n_idmap (cn_node x)) (r_db r) = Some d /\ key_of_id (cn_keymap x) (r_key r) = Some k.
Proof.
  unfold sline_of. intros H Hk.
  destruct (name_of_id (n_idmap (cn_node x)) (r_db r)) as [dbn|]; [|discriminate].
  destruct (N.eqb (r_op r) 0).
  { destruct (key_of_id (cn_keymap x) (r_key r)) as [k'|]; [|discriminate].
    destruct (get_db (cn_node x) dbn); [|discriminate].
    injection H as <-. cbn [sl_key] in Hk. injection Hk as -> ->. now split. }
  destruct (N.eqb (r_op r) 1).
  { destruct (key_of_id (cn_keymap x) (r_key r)) as [k'|]; [|discriminate].
    injection H as <-. cbn [sl_key] in Hk. injection Hk as -> ->. now split. }
  destruct (N.eqb (r_op r) 2).
  { destruct (get_db (cn_node x) dbn); [|discriminate]. injection H as <-. discriminate. }
  injection H as <-. discriminate.
Qed.

Lemma in_touched sls dk : In dk (touched sls) -> exists sl, In sl sls /\ sl_key sl = Some dk.
Proof.
  unfold touched. intros H. apply in_flat_map in H. destruct H as (sl & Hsl & Hin).
  exists sl. split; [exact Hsl|]. destruct (sl_key sl) as [dk'|]; [|destruct Hin].
  destruct Hin as [<-|[]]. reflexivity.
Qed.

(* the ids that occur in the log decode injectively *)
Definition decode_inj (x : cnode) : Prop :=
  forall r1 r2 d k, In r1 (cn_log x) -> In r2 (cn_log x) ->
    name_of_id (n_idmap (cn_node x)) (r_db r1) = Some d ->
    name_of_id (n_idmap (cn_node x)) (r_db r2) = Some d ->
    key_of_id (cn_keymap x) (r_key r1) = Some k ->
    key_of_id (cn_keymap x) (r_key r2) = Some k ->
    r_db r1 = r_db r2 /\ r_key r1 = r_key r2.

Lemma touched_nodup x : decode_inj x -> forall l sls, Forall2 (line_rel x) l sls ->
  NoDup (map fst l) ->
  (forall k h, In (k, h) l -> In (h_rec h) (cn_log x) /\ kof (h_rec h) = k) ->
  NoDup (touched sls).
Proof.
  intros Hinj l sls H. induction H as [|[k0 h0] sl l sls Hh Hrest IH]; intros Hnd Hlog.
  - constructor.
  - cbn [map fst] in Hnd. inversion Hnd as [|a b Hnotin Hnd']; subst.
    assert (IH' : NoDup (touched sls)).
    { apply IH; [exact Hnd'|]. intros k h Hin. apply Hlog. now right. }
    unfold touched. cbn [flat_map]. fold (touched sls).
    destruct (sl_key sl) as [[d k]|] eqn:Ek; [|exact IH'].
    cbn [app]. constructor; [|exact IH'].
    intros Hin. apply in_touched in Hin. destruct Hin as (sl' & Hsl' & Hk').
    destruct (Forall2_in_r _ _ _ Hrest _ Hsl') as ([k1 h1] & Hin1 & Hrel1).
    unfold line_rel in Hh, Hrel1. cbn [snd] in Hh, Hrel1.
    destruct (sline_of_key _ _ _ _ _ Hh Ek) as [Hn0 Hk0].
    destruct (sline_of_key _ _ _ _ _ Hrel1 Hk') as [Hn1 Hk1].
    destruct (Hlog k0 h0 (or_introl eq_refl)) as [Hl0 Hkof0].
    destruct (Hlog k1 h1 (or_intror Hin1)) as [Hl1 Hkof1].
    destruct (Hinj _ _ d k Hl0 Hl1 Hn0 Hn1 Hk0 Hk1) as [E1 E2].
    apply Hnotin. apply (in_map fst) in Hin1. cbn [fst] in Hin1.
    replace k0 with k1; [exact Hin1|]. rewrite <- Hkof0, <- Hkof1. unfold kof. congruence.
Qed.

Theorem incr_sync_one_line_per_key x since ls :
  sorted_times (cn_log x) = true -> recs_decodable x -> decode_inj x ->
  incr_sync_lines x since = Some ls ->
  exists sls, ls = map (render (cn_node x)) sls /\ NoDup (touched sls).
Proof.
  intros Hs Hd Hinj Hls.
  destruct (incr_sync_struct x since Hs Hd) as (hits & pre & suf & sls & Hspec & Hsls & Hls').
  rewrite Hls in Hls'. injection Hls' as ->.
  exists sls. split; [reflexivity|].
  apply (touched_nodup x Hinj (sort_hits hits) sls Hsls).
  - destruct Hspec as (_ & _ & Hnd & _).
    apply (Permutation_NoDup (l := map fst hits)); [|exact Hnd].
    apply Permutation_map. apply Permutation_sym. apply sort_hits_perm.
  - intros k h Hin. apply (Permutation_in _ (sort_hits_perm hits)) in Hin.
    apply (hits_in_log _ _ _ _ _ Hspec k h Hin).
Qed.

(* the injectivity hypothesis follows from the writer's discipline: distinct key names
   have distinct ids (keymap_ok gives the converse), database ids name distinct databases *)
Lemma decode_inj_from_maps x :
  NoDup (map fst (cn_keymap x)) ->
  (forall i1 i2 d, name_of_id (n_idmap (cn_node x)) i1 = Some d ->
                   name_of_id (n_idmap (cn_node x)) i2 = Some d -> i1 = i2) ->
  decode_inj x.
Proof.
  intros Hnd Hdb r1 r2 d k _ _ Hn1 Hn2 Hk1 Hk2. split; [eapply Hdb; eauto|].
  apply key_of_id_in in Hk1. apply key_of_id_in in Hk2.
  pose proof (in_nodup_get String.eqb String.eqb_spec _ Hnd _ _ Hk1) as G1.
  pose proof (in_nodup_get String.eqb String.eqb_spec _ Hnd _ _ Hk2) as G2.
  congruence.
Qed.

(* ------------------------------------------------------------------ *)
(* 11. goal 4: the lines are in log order of the last records           *)

Lemma last_decomp_unique (k : okey) : forall l1 m1 r r' (l2 m2 : list oprec),
  l1 ++ r :: l2 = m1 ++ r' :: m2 -> kof r = k -> kof r' = k -> nokey k l2 -> nokey k m2 ->
  length l1 = length m1.
Proof.
  induction l1 as [|a l1 IH]; intros m1 r r' l2 m2 Heq Hk Hk' Hno Hno'.
  - destruct m1 as [|b m1]; [reflexivity|]. cbn [app] in Heq. injection Heq as -> ->.
    exfalso. apply (Hno r'); [apply in_or_app; right; now left|exact Hk'].
  - destruct m1 as [|b m1]; cbn [app] in Heq.
    + injection Heq as -> <-.
      exfalso. apply (Hno' r); [apply in_or_app; right; now left|exact Hk].
    + injection Heq as -> Heq. cbn [length]. f_equal. eapply IH; eauto.
Qed.

Lemma ssorted_app_tail {A} (R : A -> A -> Prop) : forall u b w,
  StronglySorted R (u ++ b :: w) -> Forall (R b) w.
Proof.
  induction u as [|a u IH]; intros b w H; cbn [app] in H; inversion H; subst; [assumption|].
  now apply IH.
Qed.

Lemma sorted_before : forall S a b, StronglySorted ple S -> In a S -> In b S ->
  h_pos (snd a) < h_pos (snd b) -> exists s1 s2 s3, S = s1 ++ a :: s2 ++ b :: s3.
Proof.
  intros S a b Hs Ha Hb Hlt.
  destruct (in_split _ _ Hb) as (u & w & ->).
  apply in_app_or in Ha. destruct Ha as [Ha|[Ha|Ha]].
  - destruct (in_split _ _ Ha) as (s1 & s2 & ->).
    exists s1, s2, w. now rewrite <- app_assoc.
  - subst a. lia.
  - pose proof (ssorted_app_tail _ _ _ _ Hs) as Hfa. rewrite Forall_forall in Hfa.
    specialize (Hfa a Ha). unfold ple in Hfa. lia.
Qed.

Theorem incr_sync_order x since ls :
  sorted_times (cn_log x) = true -> recs_decodable x -> incr_sync_lines x since = Some ls ->
  forall l1 ra l2 rb l3,
    cn_log x = l1 ++ ra :: l2 ++ rb :: l3 ->
    since <= r_time ra ->
    nokey (kof ra) (l2 ++ rb :: l3) ->       (* ra is the last record of its (db,key) *)
    nokey (kof rb) l3 ->                      (* rb is the last record of its (db,key) *)
    exists sla slb p1 p2 p3,
      sline_of x ra = Some sla /\ sline_of x rb = Some slb /\
      ls = p1 ++ render (cn_node x) sla :: p2 ++ render (cn_node x) slb :: p3.
Proof.
  intros Hs Hd Hls l1 ra l2 rb l3 Hlog Hgea Hnoa Hnob.
  destruct (incr_sync_struct x since Hs Hd) as (hits & pre & suf & sls & Hspec & Hsls & Hls').
  rewrite Hls in Hls'. injection Hls' as ->.
  assert (Hgeb : since <= r_time rb).
  { pose proof (sorted_times_sortedP _ Hs) as Hsp. rewrite Hlog in Hsp.
    apply sortedP_app in Hsp. destruct Hsp as (_ & Hsp & _).
    inversion Hsp as [|a b _ Hfa]; subst. rewrite Forall_forall in Hfa.
    assert (Hin : In rb (l2 ++ rb :: l3)) by (apply in_or_app; right; now left).
    specialize (Hfa rb Hin). unfold tle in Hfa. lia. }
  assert (Hla : spec_last (cn_log x) since (kof ra) = Some ra)
    by (rewrite Hlog; now apply spec_last_decomp).
  assert (Hlog' : cn_log x = (l1 ++ ra :: l2) ++ rb :: l3)
    by (rewrite Hlog, <- app_assoc; reflexivity).
  assert (Hlb : spec_last (cn_log x) since (kof rb) = Some rb)
    by (rewrite Hlog'; now apply spec_last_decomp).
  pose proof Hspec as (_ & Hf & _ & Hcompl & Hstr & _).
  destruct (Hcompl _ _ Hla) as (ha & Hina & Hreca).
  destruct (Hcompl _ _ Hlb) as (hb & Hinb & Hrecb).
  destruct (Hstr _ _ Hina) as (a1 & a2 & Hdeca & Hka & Hnoa' & Hposa).
  destruct (Hstr _ _ Hinb) as (b1 & b2 & Hdecb & Hkb & Hnob' & Hposb).
  rewrite Hreca in *. rewrite Hrecb in *.
  assert (Ea : length (pre ++ a1) = length l1).
  { apply (last_decomp_unique (kof ra) _ _ ra ra a2 (l2 ++ rb :: l3)); auto.
    rewrite <- app_assoc, <- Hdeca, <- Hf. exact Hlog. }
  assert (Eb : length (pre ++ b1) = length (l1 ++ ra :: l2)).
  { apply (last_decomp_unique (kof rb) _ _ rb rb b2 l3); auto.
    rewrite <- app_assoc, <- Hdecb, <- Hf. exact Hlog'. }
  rewrite app_length in Ea. rewrite app_length in Eb. rewrite (app_length l1) in Eb. cbn [length] in Eb.
  assert (Hlt : h_pos (snd (kof ra, ha)) < h_pos (snd (kof rb, hb))) by (cbn [snd]; lia).
  apply (Permutation_in _ (Permutation_sym (sort_hits_perm hits))) in Hina.
  apply (Permutation_in _ (Permutation_sym (sort_hits_perm hits))) in Hinb.
  destruct (sorted_before _ _ _ (sort_hits_sorted hits) Hina Hinb Hlt) as (s1 & s2 & s3 & HS).
  rewrite HS in Hsls.
  apply Forall2_app_inv_l in Hsls. destruct Hsls as (t1 & t' & _ & Hsls & ->).
  inversion Hsls as [|? sla ? t'' Hra Hsls']; subst.
  apply Forall2_app_inv_l in Hsls'. destruct Hsls' as (t2 & t3' & _ & Hsls' & ->).
  inversion Hsls' as [|? slb ? t3 Hrb _]; subst.
  unfold line_rel in Hra, Hrb. cbn [snd] in Hra, Hrb. try rewrite Hreca in Hra. try rewrite Hrecb in Hrb.
  exists sla, slb, (map (render (cn_node x)) t1), (map (render (cn_node x)) t2), (map (render (cn_node x)) t3).
  split; [exact Hra|]. split; [exact Hrb|].
  rewrite map_app. cbn [map]. rewrite map_app. reflexivity.
Qed.

(* ------------------------------------------------------------------ *)
(* 12. the reserved key ids of create-db / snapshot records             *)

(* the writer files create-db records under [marker_create] and snapshot records under
   [marker_snapshot], and nothing else with an operation code above 1 *)
Definition meta_keys (f : ofile) : Prop :=
  forall r, In r f -> 2 <= r_op r -> r_key r = marker_create \/ r_key r = marker_snapshot.

Lemma meta_keys_snoc f r : meta_keys f ->
  (2 <= r_op r -> r_key r = marker_create \/ r_key r = marker_snapshot) ->
  meta_keys (f ++ [r]).
Proof.
  intros H Hr r0 Hin. apply in_app_or in Hin. destruct Hin as [Hin|[<-|[]]]; [now apply H|exact Hr].
Qed.

Lemma snapshot_fold_meta id : forall names x0 o x' o',
  meta_keys (cn_log x0) ->
  fold_left (fun (acc : cnode * option N) nm =>
               let '(x0, r0) := acc in
               match db_id_of (cn_node x0) nm with
               | Some d => (log_append x0 (mkRec id marker_snapshot d 3), r0)
               | None => (x0, None)
               end) names (x0, o) = (x', o') ->
  meta_keys (cn_log x').
Proof.
  induction names as [|nm names IH]; intros x0 o x' o' Hm H; cbn [fold_left] in H.
  - injection H as <- _. exact Hm.
  - destruct (db_id_of (cn_node x0) nm) as [d|]; [|eapply IH; eauto].
    eapply IH; [|exact H]. unfold log_append. cbn [cn_log].
    apply meta_keys_snoc; [exact Hm|]. intros _. right. reflexivity.
Qed.

Theorem repl_oplog_keeps_meta_keys x rq id x' o :
  meta_keys (cn_log x) -> repl_oplog x rq id = (x', o) -> meta_keys (cn_log x').
Proof.
  intros Hm H.
  assert (Hkeyed : forall dbn key op, op <= 1 ->
            (let '(x1, kid) := key_id x key in
             match db_id_of (cn_node x) dbn with
             | Some d => (log_append x1 (mkRec id kid d op), Some id)
             | None => (x1, None)
             end) = (x', o) -> meta_keys (cn_log x')).
  { intros dbn key op Hop Hk. destruct (key_id x key) as [x1 kid] eqn:Ek.
    destruct (key_id_spec x key x1 kid Ek) as (_ & Hl1 & _).
    destruct (db_id_of (cn_node x) dbn) as [i|]; injection Hk as <- _.
    - unfold log_append. cbn [cn_log]. rewrite Hl1. apply meta_keys_snoc; [exact Hm|].
      cbn [r_op]. lia.
    - now rewrite Hl1. }
  destruct rq; unfold repl_oplog in H;
    try (injection H as <- _; exact Hm).
  - eapply (Hkeyed _ _ 1); [lia|exact H].
  - eapply (Hkeyed _ _ 0); [lia|exact H].
  - eapply (Hkeyed _ _ 0); [lia|exact H].
  - destruct (db_id_of (cn_node x) name) as [i|]; injection H as <- _; [|exact Hm].
    unfold log_append. cbn [cn_log]. apply meta_keys_snoc; [exact Hm|]. intros _. now left.
  - eapply snapshot_fold_meta; eauto.
Qed.

(* every key whose id is below the reserved ids is covered unconditionally *)
Theorem incr_sync_covers_safe_keys x since :
  sorted_times (cn_log x) = true -> recs_decodable x -> meta_keys (cn_log x) ->
  exists ls, incr_sync_lines x since = Some ls /\
    forall r dbn k, In r (cn_log x) -> since <= r_time r -> r_op r <= 1 ->
      r_key r < marker_snapshot ->
      name_of_id (n_idmap (cn_node x)) (r_db r) = Some dbn ->
      key_of_id (cn_keymap x) (r_key r) = Some k ->
      exists r', spec_last (cn_log x) since (r_db r, r_key r) = Some r' /\
        ((r_op r' = 0 /\ exists d, get_db (cn_node x) dbn = Some d /\
             In ("replicate " +++ dbn +++ " " +++ k +++ " " +++ fst (get_key_value_new d k)) ls)
         \/ (r_op r' = 1 /\ In ("replicate-remove " +++ dbn +++ " " +++ k) ls)).
Proof.
  intros Hs Hd Hm. destruct (incr_sync_covers x since Hs Hd) as (ls & Hls & Hcov).
  exists ls. split; [exact Hls|].
  intros r dbn k Hin Hge Hop Hlt Hname Hkey.
  apply (Hcov r dbn k Hin Hge Hop Hname Hkey).
  intros r2 Hin2 _ _ Hkey2.
  destruct (N.le_gt_cases (r_op r2) 1) as [Hle|Hgt]; [exact Hle|].
  exfalso.
  destruct (Hm r2 Hin2 ltac:(lia)) as [E|E]; rewrite E in Hkey2;
    unfold marker_create, marker_snapshot in *; lia.
Qed.

(* Goal 1 as originally stated, for the repaired writer: under the writer's invariants
   ([decodable], [meta_keys]) and as long as keys_map has not reached the reserved ids,
   no panic, and every key written or removed at or after [since] has its line, chosen by
   the last record of the key at or after [since].  No per-record hypothesis. *)
Theorem incr_sync_covers_fixed x since :
  decodable x -> meta_keys (cn_log x) ->
  N.of_nat (length (cn_keymap x)) < marker_snapshot ->
  exists ls, incr_sync_lines x since = Some ls /\
    forall r, In r (cn_log x) -> since <= r_time r -> r_op r <= 1 ->
      exists dbn k r',
        name_of_id (n_idmap (cn_node x)) (r_db r) = Some dbn /\
        key_of_id (cn_keymap x) (r_key r) = Some k /\
        spec_last (cn_log x) since (r_db r, r_key r) = Some r' /\
        ((r_op r' = 0 /\ exists d, get_db (cn_node x) dbn = Some d /\
             In ("replicate " +++ dbn +++ " " +++ k +++ " " +++ fst (get_key_value_new d k)) ls)
         \/ (r_op r' = 1 /\ In ("replicate-remove " +++ dbn +++ " " +++ k) ls)).
Proof.
  intros (Hs & Hd & Hkm & _) Hm Hlen.
  destruct (incr_sync_covers_safe_keys x since Hs Hd Hm) as (ls & Hls & Hcov).
  exists ls. split; [exact Hls|].
  intros r Hin Hge Hop.
  destruct (Hd r Hin) as [(dbn & Hname & _) Hk]. destruct (Hk Hop) as [k Hkey].
  assert (Hlt : r_key r < marker_snapshot).
  { pose proof (keymap_ok_ids _ Hkm _ _ (key_of_id_in _ _ _ Hkey)). lia. }
  destruct (Hcov r dbn k Hin Hge Hop Hlt Hname Hkey) as (r' & Hr' & Hcases).
  exists dbn, k, r'. repeat split; assumption.
Qed.

(* the length bound is an invariant as long as fewer than 2^64 - 2 distinct key names
   are ever used: key_id adds at most one entry *)
Lemma key_id_length x key x1 kid : key_id x key = (x1, kid) ->
  (length (cn_keymap x1) <= S (length (cn_keymap x)))%nat.
Proof.
  unfold key_id. destruct (assoc_get String.eqb key (cn_keymap x)); intros [= <- _].
  - lia.
  - cbn [cn_keymap]. rewrite app_length. cbn [length]. lia.
Qed.

Lemma sync_lines_incr x since : since <> 0 -> sync_lines x since = incr_sync_lines x since.
Proof. intros H. unfold sync_lines. destruct (N.eqb_spec since 0); congruence. Qed.

Example ex_meta_keys : meta_keys (cn_log ex).
Proof.
  intros r Hr. rewrite (proj1 ex_log) in Hr. cbn [In] in Hr.
  repeat (destruct Hr as [<-|Hr];
          [cbn [r_op r_key]; intros Hop; first [lia | now left | now right]|]).
  destruct Hr.
Qed.

(* the hypotheses of [incr_sync_covers_fixed] hold of the concrete run, so it applies *)
Example ex_covers_fixed :
  exists ls, incr_sync_lines ex 110 = Some ls /\
    forall r, In r (cn_log ex) -> 110 <= r_time r -> r_op r <= 1 ->
      exists dbn k r',
        name_of_id (n_idmap (cn_node ex)) (r_db r) = Some dbn /\
        key_of_id (cn_keymap ex) (r_key r) = Some k /\
        spec_last (cn_log ex) 110 (r_db r, r_key r) = Some r' /\
        ((r_op r' = 0 /\ exists d, get_db (cn_node ex) dbn = Some d /\
             In ("replicate " +++ dbn +++ " " +++ k +++ " " +++ fst (get_key_value_new d k)) ls)
         \/ (r_op r' = 1 /\ In ("replicate-remove " +++ dbn +++ " " +++ k) ls)).
Proof.
  apply (incr_sync_covers_fixed ex 110 ex_decodable ex_meta_keys).
  vm_compute. reflexivity.
Qed.
