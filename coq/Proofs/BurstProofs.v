(* BurstProofs.v -- property C14: every client operation causes a bounded burst of
   messages on the links, then silence.  Proved on the cluster model (Model/Cluster.v) for
   any schedule of the events
     primary replication thread / link delivery / reply delivery / secondary replication thread
   after one client write on the primary of a formed cluster (ConvergeProofs.Formed). *)
From NunDB Require Import Model.Base Model.Pending Model.Parse Model.Node Model.Oplog Model.Cluster
  Proofs.AssocLemmas Proofs.PendingProofs Proofs.DbProofs Proofs.ClusterProofs Proofs.ConvergeProofs.
Local Open Scope N_scope.

(* ================================================================== *)
(* Part A.  Accounting of [c_cross], independent of any invariant       *)
(* ================================================================== *)
Lemma cross_flush c nm : c_cross (flush_outboxes c nm) = c_cross c.
Proof. unfold flush_outboxes. destruct (get_cn c nm); reflexivity. Qed.

Lemma cross_sync c : c_cross (sync_clocks c) = c_cross c.
Proof. reflexivity. Qed.

(* a poll of a replication thread moves no line over a link *)
Lemma cross_poll c nm : c_cross (poll_repl_c c nm) = c_cross c.
Proof.
  unfold poll_repl_c, poll_repl_c_raw. destruct (get_cn (sync_clocks c) nm); [rewrite cross_flush|]; reflexivity.
Qed.

(* a delivery that happens counts exactly 1 *)
Lemma cross_deliver c i c' : deliver c i = Some c' -> c_cross c' = c_cross c + 1.
Proof.
  unfold deliver, deliver_raw. destruct (nth_error (c_links (sync_clocks c)) i) as [l|]; [|discriminate].
  destruct (negb (l_open l)); [discriminate|].
  destruct (match l_hs l with
            | h :: r => (Some h, r, l_q l)
            | [] => match l_q l with m :: r => (Some m, [], r) | [] => (None, [], []) end
            end) as [[line hs'] q'].
  destruct line as [ln|]; [|discriminate].
  destruct (get_cn (sync_clocks c) (l_to l)) as [x|]; [|discriminate].
  destruct (step (cn_node x) (l_server l) ln) as [n1 r].
  destruct (drain _ _) as [n3 inbox].
  intros [= <-]. rewrite cross_flush. reflexivity.
Qed.

(* a reply line counts 0 when it is "ok" and 1 otherwise *)
Lemma cross_reply c i c' : reply c i = Some c' ->
  exists l ln rest, nth_error (c_links c) i = Some l /\ l_replies l = ln :: rest /\
    c_cross c' = c_cross c + (if String.eqb ln "ok" then 0 else 1).
Proof.
  unfold reply, reply_raw. change (c_links (sync_clocks c)) with (c_links c).
  destruct (nth_error (c_links c) i) as [l|]; [|discriminate].
  destruct (l_replies l) as [|ln rest] eqn:Er; [discriminate|].
  destruct (get_cn (sync_clocks c) (l_from l)) as [x|]; [|discriminate].
  intros H. exists l, ln, rest. split; auto. split; auto.
  destruct (String.eqb ln "ok").
  - injection H as <-. cbn. lia.
  - destruct (step (cn_node x) (l_reader l) ln) as [n1 r]. destruct (drain n1 (l_reader l)) as [n2 ib].
    injection H as <-. rewrite cross_flush. reflexivity.
Qed.

(* the restricted events: no client write *)
Definition bev_ok (Ss : list str) (e : cev) : Prop :=
  match e with
  | EvPollRepl => True
  | EvDeliver s | EvReply s | EvPollS s => In s Ss
  | _ => False
  end.

Lemma bev_ev_ok Ss e : bev_ok Ss e -> ev_ok Ss e.
Proof. destruct e; cbn; tauto. Qed.

Lemma cross_mono P cidx lk Ss c e : bev_ok Ss e -> c_cross c <= c_cross (cstep P cidx lk c e).
Proof.
  destruct e as [k v | k | k i | | S | S | S]; cbn [bev_ok cstep]; try tauto; intros _.
  - rewrite cross_poll. lia.
  - destruct (deliver c (lk S)) as [c'|] eqn:E; cbn [opt_or]; [|lia]. rewrite (cross_deliver _ _ _ E). lia.
  - destruct (reply c (lk S)) as [c'|] eqn:E; cbn [opt_or]; [|lia].
    destruct (cross_reply _ _ _ E) as (l & ln & rest & _ & _ & ->). lia.
  - rewrite cross_poll. lia.
Qed.

Lemma cross_mono_run P cidx lk Ss evs : forall c, Forall (bev_ok Ss) evs -> c_cross c <= c_cross (run P cidx lk c evs).
Proof.
  induction evs as [|e evs IH]; intros c H; cbn [run fold_left]; [lia|].
  inversion H as [|? ? He Hr]; subst. specialize (IH (cstep P cidx lk c e) Hr).
  pose proof (cross_mono P cidx lk Ss c e He). unfold run in IH. lia.
Qed.

(* ---- sums ------------------------------------------------------------ *)
Fixpoint sumN (l : list N) : N := match l with [] => 0 | a :: r => a + sumN r end.

Lemma sumN_ext_in {A} (f g : A -> N) l : (forall x, In x l -> f x = g x) -> sumN (map f l) = sumN (map g l).
Proof.
  induction l as [|a l IH]; intros H; cbn; auto. rewrite (H a) by now left. rewrite IH; auto.
  intros x Hx. apply H. now right.
Qed.

Lemma sumN_const {A} (f : A -> N) k l : (forall x, In x l -> f x = k) -> sumN (map f l) = k * N.of_nat (length l).
Proof.
  induction l as [|a l IH]; intros H; cbn [map sumN length]; [lia|].
  rewrite IH by (intros x Hx; apply H; now right). rewrite (H a) by now left. lia.
Qed.

Lemma sumN_zero {A} (f : A -> N) l : sumN (map f l) = 0 -> forall x, In x l -> f x = 0.
Proof.
  induction l as [|a l IH]; cbn [map sumN]; intros H x [].
  - subst. lia.
  - apply IH; auto. lia.
Qed.

Lemma sumN_upd (f g : str -> N) S d d' l : NoDup l -> In S l ->
  (forall S', In S' l -> S' <> S -> f S' = g S') -> f S + d = g S + d' ->
  sumN (map f l) + d = sumN (map g l) + d'.
Proof.
  induction l as [|a l IH]; intros Hnd Hin Hoth Hs; [destruct Hin|].
  inversion Hnd as [|? ? Hna Hnd']; subst. cbn [map sumN].
  destruct (string_dec a S) as [->|Hne].
  - rewrite (sumN_ext_in f g l).
    + lia.
    + intros x Hx. apply Hoth; [now right|]. intros ->. contradiction.
  - destruct Hin as [->|Hin]; [congruence|].
    rewrite (Hoth a) by (auto; now left).
    assert (E : sumN (map f l) + d = sumN (map g l) + d').
    { apply IH; auto. intros S' HS'. apply Hoth. now right. }
    lia.
Qed.

(* ---- the pending table outside one op id -------------------------------- *)
Definition others (id : N) (s : pstate) : pstate := filter (fun p => negb (N.eqb (fst p) id)) s.

Lemma others_set id m s : others id (assoc_set N.eqb id m s) = others id s.
Proof.
  induction s as [|[k v] s IH]; cbn [assoc_set others filter fst].
  - rewrite N.eqb_refl. reflexivity.
  - destruct (N.eqb_spec id k) as [->|Hne]; cbn [filter fst].
    + rewrite N.eqb_refl. reflexivity.
    + fold (others id (assoc_set N.eqb id m s)). fold (others id s). now rewrite IH.
Qed.

Lemma others_del id s : others id (assoc_del N.eqb id s) = others id s.
Proof.
  induction s as [|[k v] s IH]; cbn [assoc_del others filter fst]; auto.
  destruct (N.eqb_spec id k) as [->|Hne]; cbn [filter fst].
  - rewrite N.eqb_refl. cbn [negb]. exact IH.
  - fold (others id (assoc_del N.eqb id s)). fold (others id s). now rewrite IH.
Qed.

Lemma others_register id s req m : others id (fst (register s id req m)) = others id s.
Proof. unfold register. destruct (assoc_get N.eqb id s); cbn [fst]; apply others_set. Qed.

Lemma others_acknowledge id s m : others id (fst (acknowledge s id m)) = others id s.
Proof.
  unfold acknowledge. destruct (assoc_get N.eqb id s) as [pm|]; auto.
  destruct (ack_msg pm m) as [m' r]. destruct r; [destruct (full_ack m')|]; cbn [fst];
    auto using others_set, others_del.
Qed.

Lemma others_reg_all id req ts : forall s, others id (reg_all s id req ts) = others id s.
Proof.
  unfold reg_all. induction ts as [|t ts IH]; intros s; cbn [fold_left]; auto.
  rewrite IH. apply others_register.
Qed.

Lemma others_ack_all id acks : forall s, others id (ack_all s id acks) = others id s.
Proof.
  unfold ack_all. induction acks as [|t ts IH]; intros s; cbn [fold_left]; auto.
  rewrite IH. apply others_acknowledge.
Qed.

Lemma others_not_pending id s : is_pending s id = false -> others id s = s.
Proof.
  unfold is_pending. induction s as [|[k v] s IH]; cbn [assoc_get others filter fst]; auto.
  destruct (N.eqb_spec id k) as [->|Hne].
  - discriminate.
  - intros H. destruct (N.eqb_spec k id) as [->|_]; [congruence|]. cbn [negb]. fold (others id s). now rewrite IH.
Qed.

Lemma ack_all_snoc p id acks a : ack_all p id (acks ++ [a]) = fst (acknowledge (ack_all p id acks) id a).
Proof. unfold ack_all. rewrite fold_left_app. reflexivity. Qed.

(* ================================================================== *)
(* Part B.  The potential function and the burst invariant              *)
(* ================================================================== *)
Definition nonok (l : list str) : N :=
  N.of_nat (length (filter (fun s => negb (String.eqb s "ok")) l)).

Section Burst.
Variables (P dbn : str) (Ss : list str) (cidx : nat) (lk : str -> nat).
Hypothesis Hdbn : simple_tok dbn.
Hypothesis HPS : ~ In P Ss.
Hypothesis HSs : forall S, In S Ss -> simple_tok S.
Hypothesis HND : NoDup Ss.

Local Notation PW := (PInvW P dbn Ss cidx).
Local Notation SW := (SInvW P dbn lk).
Local Notation stp := (cstep P cidx lk).
Local Notation rn := (run P cidx lk).

Definition link_of (c : cluster) (S : str) : option link := nth_error (c_links c) (lk S).

(* weight of what is still owed on behalf of secondary [S]: every line in flight towards it
   counts 2 (the delivery and the acknowledgement it will cause), every non-"ok" reply line
   waiting on the link counts 1 *)
Definition wS (c : cluster) (S : str) : N :=
  2 * N.of_nat (length (inflight P lk c S)) +
  match link_of c S with Some l => nonok (l_replies l) | None => 0 end.

Definition Phi (c : cluster) : N := c_cross c + sumN (map (wS c) Ss).

(* quiescent and no reply line waiting on any link P -> S *)
Definition silent (c : cluster) : Prop :=
  quiescent P Ss lk c /\ forall S l, In S Ss -> link_of c S = Some l -> l_replies l = [].

Lemma silent_Phi c : silent c -> Phi c = c_cross c.
Proof.
  intros [Hq Hr]. unfold Phi. rewrite (sumN_const (wS c) 0 Ss); [lia|].
  intros S HS. unfold wS. rewrite (Hq S HS). destruct (link_of c S) as [l|] eqn:E; [|reflexivity].
  rewrite (Hr S l HS E). reflexivity.
Qed.

Lemma length_lines l : length (lines dbn l) = length l.
Proof. unfold lines. apply map_length. Qed.

Lemma inflight_wit c xp dp rq b S xs l ds qs : PW c xp dp rq b [] -> SW c dp rq S xs l ds qs -> In S Ss ->
  inflight P lk c S = lines dbn (qs ++ rq).
Proof.
  intros HP H HS. unfold inflight.
  rewrite (si_link _ _ _ _ _ _ _ _ _ _ _ H), (pi_get _ _ _ _ _ _ _ _ _ _ HP), (pi_mem _ _ _ _ _ _ _ _ _ _ HP S HS),
    (si_q _ _ _ _ _ _ _ _ _ _ _ H), (pi_repl _ _ _ _ _ _ _ _ _ _ HP).
  cbn [lines map app]. now rewrite lines_app.
Qed.

Lemma wS_wit c xp dp rq b S xs l ds qs : PW c xp dp rq b [] -> SW c dp rq S xs l ds qs -> In S Ss ->
  wS c S = 2 * N.of_nat (length (qs ++ rq)) + nonok (l_replies l).
Proof.
  intros HP H HS. unfold wS. rewrite (inflight_wit c xp dp rq b S xs l ds qs HP H HS), length_lines.
  unfold link_of. rewrite (si_link _ _ _ _ _ _ _ _ _ _ _ H). reflexivity.
Qed.

Lemma Phi_same c c' : c_cross c' = c_cross c -> (forall S, In S Ss -> wS c' S = wS c S) -> Phi c' = Phi c.
Proof. intros Hc Hw. unfold Phi. rewrite Hc. f_equal. now apply sumN_ext_in. Qed.

Lemma Phi_move c c' S d d' : In S Ss ->
  (forall S', In S' Ss -> S' <> S -> wS c' S' = wS c S') ->
  wS c' S + d = wS c S + d' -> c_cross c' + d' = c_cross c + d -> Phi c' = Phi c.
Proof.
  intros HS Hoth Hs Hc. unfold Phi.
  pose proof (sumN_upd (wS c') (wS c) S d d' Ss HND HS Hoth Hs). lia.
Qed.

Lemma wS_sync c S : wS (sync_clocks c) S = wS c S.
Proof.
  unfold wS, inflight, link_of. change (c_links (sync_clocks c)) with (c_links c).
  rewrite get_sync. destruct (get_cn c P); reflexivity.
Qed.

Lemma Phi_sync c : Phi (sync_clocks c) = Phi c.
Proof. apply Phi_same; auto using wS_sync. Qed.

(* flushing a secondary's outboxes keeps the primary and every link P -> S' *)
Lemma SW_flush_S c1 S xs dp rq S' xs' l' ds' qs' :
  get_cn c1 S = Some xs -> In S Ss -> In S' Ss -> SW c1 dp rq S' xs' l' ds' qs' ->
  exists xs'', SW (flush_outboxes c1 S) dp rq S' xs'' l' ds' qs'.
Proof.
  intros Hg HSin HS' H'.
  assert (Hl : nth_error (c_links (flush_outboxes c1 S)) (lk S') = Some l').
  { rewrite (flush_links c1 S xs _ Hg), (si_link _ _ _ _ _ _ _ _ _ _ _ H'). rewrite flush_link_other; auto.
    rewrite (si_from _ _ _ _ _ _ _ _ _ _ _ H'). intros E. apply (S_ne_P P Ss HPS S HSin). auto. }
  destruct (string_dec S' S) as [->|Hne].
  - assert (xs' = xs) by (pose proof (si_get _ _ _ _ _ _ _ _ _ _ _ H') as E; rewrite Hg in E; congruence). subst xs'.
    exists (cn_set_node xs (clean_members (cn_node xs))).
    destruct H'. constructor; auto. now apply flush_get_same.
  - exists xs'. apply (SInvW_ext P dbn lk c1); auto.
    + now apply (flush_get_other _ _ _ _ Hg).
    + rewrite Hl. symmetry. apply (si_link _ _ _ _ _ _ _ _ _ _ _ H').
Qed.

Lemma PW_flush_S c1 S xs xp dp rq b : get_cn c1 S = Some xs -> In S Ss ->
  PW c1 xp dp rq b [] -> PW (flush_outboxes c1 S) xp dp rq b [].
Proof.
  intros Hg HSin HP. apply (PInvW_ext P dbn Ss cidx c1); auto.
  apply (flush_get_other _ _ _ _ Hg). intros E. apply (S_ne_P P Ss HPS S HSin). auto.
Qed.

(* ---- the invariant ------------------------------------------------------ *)
Section Inv.
(* the operation in flight, the target value of the potential, the primary's pending table
   before the write, and a flag: when [A] holds the reader-side sessions of the links are
   authenticated at the primary and the primary's member table names only P and Ss *)
Variables (id : N) (o : dop) (K : N) (p0 : pstate) (A : Prop).

Definition rep_ok (S : str) (ops : list (N * dop)) (reps : list str) (acked : Prop) : Prop :=
  (ops = [(id, o)] /\ reps = [] /\ ~ acked) \/
  (ops = [] /\ reps = [ack_text id S; "ok"] /\ ~ acked) \/
  (ops = [] /\ (reps = ["ok"] \/ reps = []) /\ acked).

Lemma rep_ok_iff S ops reps a a' : (a <-> a') -> rep_ok S ops reps a -> rep_ok S ops reps a'.
Proof. unfold rep_ok. tauto. Qed.

Definition pend_ok (xp : cnode) (rq : list (N * dop)) (acks : list str) : Prop :=
  (rq = [(id, o)] /\ acks = [] /\ n_pending (cn_node xp) = p0) \/
  (rq = [] /\ exists nP, NoDup (map fst (n_members nP)) /\ n_pending nP = p0 /\ n_addr nP = P /\
      map fst (n_members nP) = map fst (n_members (cn_node xp)) /\
      n_pending (cn_node xp) = ack_all (n_pending (fan_out nP id (op_req dbn o) false)) id acks).

Definition BInv (c : cluster) : Prop :=
  exists xp dp rq b acks,
    PW c xp dp rq b [] /\ (rq = [(id, o)] \/ rq = []) /\ id < 2 ^ 64 /\
    (forall S, In S Ss -> exists xs l ds qs,
        SW c dp rq S xs l ds qs /\ rep_ok S (qs ++ rq) (l_replies l) (In S acks) /\
        (A -> s_auth (get_sess (cn_node xp) (l_reader l)) = true)) /\
    Phi c = K /\
    (A -> (forall nm, In nm (map fst (n_members (cn_node xp))) -> nm = P \/ In nm Ss) /\
          is_pending p0 id = false /\ pend_ok xp rq acks).

Lemma BInv_Inv c : BInv c -> Inv P dbn Ss cidx lk c.
Proof.
  intros (xp & dp & rq & b & acks & HP & _ & _ & HS & _).
  exists xp, dp, rq, b. split; auto. intros S HSin.
  destruct (HS S HSin) as (xs & l & ds & qs & H & _). exists xs, l, ds, qs. exact H.
Qed.

Lemma BInv_sync c : BInv c -> BInv (sync_clocks c).
Proof.
  intros (xp & dp & rq & b & acks & HP & Hrq & Hid & HS & HPhi & HA).
  exists (reclock (maxclock c) xp), dp, rq, b, acks.
  split; [now apply PInvW_sync|]. split; auto. split; auto. split; [|split].
  - intros S HSin. destruct (HS S HSin) as (xs & l & ds & qs & H & Hr & Ha).
    exists (reclock (maxclock c) xs), l, ds, qs. split; [now apply SInvW_sync|]. split; auto.
  - now rewrite Phi_sync.
  - intros a. destruct (HA a) as (H1 & H2 & H3). split; [exact H1|]. split; auto.
Qed.

(* ---- the primary's replication thread ------------------------------------ *)
Lemma PW_poll_nil c xp dp b : PW c xp dp [] b [] ->
  PW (put_cn c P (poll_repl xp)) (poll_repl xp) dp [] b [] /\
  cn_node (poll_repl xp) = n_set_repl (cn_node xp) [].
Proof.
  intros HP.
  assert (E : poll_repl xp = cn_set_node xp (n_set_repl (cn_node xp) [])).
  { unfold poll_repl. rewrite (pi_repl _ _ _ _ _ _ _ _ _ _ HP). reflexivity. }
  rewrite E. split; [|reflexivity].
  destruct HP as [Pget Pdead Prole Paddr Pnd Pmem Prepl Pwf Ppend Pids Pdb Pstrat Psess].
  constructor; auto. apply get_put_same.
Qed.

Lemma PW_poll1 c xp dp b : PW c xp dp [(id, o)] b [] -> id < 2 ^ 64 ->
  PW (put_cn c P (poll_repl xp)) (poll_repl xp) dp [] (id + 1) [(id, o)] /\
  cn_node (poll_repl xp) = fan_out (n_set_repl (cn_node xp) []) id (op_req dbn o) false.
Proof.
  intros HP Hid.
  set (x0 := cn_set_node xp (n_set_repl (cn_node xp) [])).
  assert (E : poll_repl xp = repl_one x0 (rp_line id (op_req dbn o))).
  { unfold poll_repl. rewrite (pi_repl _ _ _ _ _ _ _ _ _ _ HP). reflexivity. }
  rewrite E.
  pose proof (pi_wf _ _ _ _ _ _ _ _ _ _ HP) as Hwf. cbn [map snd] in Hwf. inversion Hwf as [|? ? Ho _]; subst.
  pose proof (pi_ids _ _ _ _ _ _ _ _ _ _ HP) as Hids. cbn [map fst ids_from] in Hids. destruct Hids as [Hle Hclk].
  assert (Hdead : cn_dead x0 = false) by apply (pi_dead _ _ _ _ _ _ _ _ _ _ HP).
  assert (Hrole : n_role (cn_node x0) = Primary) by apply (pi_role _ _ _ _ _ _ _ _ _ _ HP).
  assert (Hnd : NoDup (map fst (n_members (cn_node x0)))) by apply (pi_nd _ _ _ _ _ _ _ _ _ _ HP).
  assert (Hdb : get_db (cn_node x0) dbn = Some dp) by apply (pi_db _ _ _ _ _ _ _ _ _ _ HP).
  assert (Hpb : pend_below (n_pending (cn_node x0)) b) by apply (pi_pend _ _ _ _ _ _ _ _ _ _ HP).
  destruct (repl_one_primary dbn x0 dp id o b Hdbn Ho Hid Hdead Hrole Hnd Hdb Hpb Hle) as (A1 & A2 & A3 & A4 & A5).
  assert (Hoid : snd (repl_oplog x0 (op_rq dbn o) id) <> None).
  { destruct o; cbn [op_rq repl_oplog]; destruct (key_id x0 k); unfold db_id_of; rewrite Hdb; cbn; discriminate. }
  destruct (leader_repl_one x0 id (op_req dbn o) (op_rq dbn o)) as [Hn _];
    auto using op_req_ne, op_req_semi, op_req_parse.
  { rewrite Hrole. discriminate. }
  change ("rp " +++ N_to_str id +++ " " +++ op_req dbn o) with (rp_line id (op_req dbn o)) in Hn.
  rewrite Hrole in Hn. cbn [fan_all] in Hn.
  set (x' := repl_one x0 (rp_line id (op_req dbn o))) in *.
  split; [|exact Hn].
  destruct HP as [Pget Pdead Prole Paddr Pnd Pmem Prepl Pwf Ppend Pids Pdb Pstrat Psess]. constructor; auto.
  - apply get_put_same.
  - rewrite (fs_role _ _ A3). exact Prole.
  - rewrite (fs_addr _ _ A3). exact Paddr.
  - rewrite (fs_keys _ _ A3). exact Pnd.
  - intros S HSin. apply (A5 S []).
    + apply (Pmem S HSin).
    + cbn. rewrite Paddr. now apply (S_ne_P P Ss HPS).
    + reflexivity.
  - rewrite (fs_repl _ _ A3). reflexivity.
  - constructor.
  - cbn [map ids_from]. rewrite (fs_clock _ _ A3). exact Hclk.
  - unfold get_db. rewrite (fs_dbs _ _ A3). exact Pdb.
  - unfold sid_of, get_sess. rewrite A2, (fs_sess _ _ A3). exact Psess.
Qed.

Lemma get_sess_clean n s : get_sess (clean_members n) s = get_sess n s.
Proof. reflexivity. Qed.

Lemma BInv_pollP c : BInv c -> BInv (poll_repl_c_raw c P).
Proof.
  intros (xp & dp & rq & b & acks & HP & Hrq & Hid & HS & HPhi & HA).
  unfold poll_repl_c_raw. rewrite (pi_get _ _ _ _ _ _ _ _ _ _ HP).
  set (x' := poll_repl xp). set (c1 := put_cn c P x').
  set (xp' := cn_set_node x' (clean_members (cn_node x'))).
  assert (HX : exists b', PW c1 x' dp [] b' rq /\ n_sess (cn_node x') = n_sess (cn_node xp) /\
             map fst (n_members (cn_node x')) = map fst (n_members (cn_node xp)) /\
             (pend_ok xp rq acks -> pend_ok xp' [] acks)).
  { destruct Hrq as [-> | ->].
    - destruct (PW_poll1 c xp dp b HP Hid) as [HPp Hn]. fold x' in HPp, Hn. fold c1 in HPp.
      pose proof (fan_out_spec (n_set_repl (cn_node xp) []) id (op_req dbn o) false (pi_nd _ _ _ _ _ _ _ _ _ _ HP)) as Hfs.
      cbv zeta in Hfs. rewrite <- Hn in Hfs. destruct Hfs as (_ & Hkeys & _ & _ & _ & Hsess & _).
      exists (id + 1). split; [exact HPp|]. split; [exact Hsess|]. split; [exact Hkeys|].
      intros [(_ & Ha & Hp) | (Hcontra & _)]; [|discriminate Hcontra].
      right. split; [reflexivity|]. exists (n_set_repl (cn_node xp) []).
      split; [apply (pi_nd _ _ _ _ _ _ _ _ _ _ HP)|]. split; [exact Hp|]. split; [apply (pi_addr _ _ _ _ _ _ _ _ _ _ HP)|].
      split.
      + unfold xp'. cbn [cn_set_node cn_node]. rewrite clean_keys, Hkeys. reflexivity.
      + change (n_pending (cn_node xp')) with (n_pending (cn_node x')). rewrite Hn, Ha. reflexivity.
    - destruct (PW_poll_nil c xp dp b HP) as [HPp Hn]. fold x' in HPp, Hn. fold c1 in HPp.
      exists b. split; [exact HPp|]. rewrite Hn. split; [reflexivity|]. split; [reflexivity|].
      intros [(Hcontra & _) | (_ & nP & N1 & N2 & N3 & N4 & N5)]; [discriminate Hcontra|].
      right. split; [reflexivity|]. exists nP. split; auto. split; auto. split; auto. split.
      + unfold xp'. cbn [cn_set_node cn_node]. rewrite clean_keys, Hn. exact N4.
      + change (n_pending (cn_node xp')) with (n_pending (cn_node x')). rewrite Hn. exact N5. }
  destruct HX as (b' & HPp & Hsess & Hkeys & Hpk).
  assert (HidB : Forall (fun i => i < 2 ^ 64) (map fst rq)).
  { destruct Hrq as [-> | ->]; repeat constructor; auto. }
  assert (HtrB : forall ds (qs : list (N * dop)), dbrel dp (fold_left db_apply (map snd qs ++ map snd rq) ds) ->
            dbrel dp (fold_left db_apply (map snd (qs ++ rq) ++ map snd (@nil (N * dop))) ds)).
  { intros ds qs Hrel. rewrite map_app. cbn [map]. now rewrite app_nil_r. }
  destruct (P_event_strong P dbn Ss cidx lk HPS c1 x' dp rq dp [] b' rq HPp
              (pi_wf _ _ _ _ _ _ _ _ _ _ HP) HidB HtrB) as [HB1 HB2].
  fold xp' in HB1.
  assert (HSnew : forall S, In S Ss -> exists xs l ds qs,
            SW c dp rq S xs l ds qs /\ rep_ok S (qs ++ rq) (l_replies l) (In S acks) /\
            (A -> s_auth (get_sess (cn_node xp) (l_reader l)) = true) /\
            SW (flush_outboxes c1 P) dp [] S xs
               (mkLink (l_from l) (l_to l) (l_hs l) (l_q l ++ lines dbn rq) (l_server l) (l_reader l) (l_replies l) (l_open l) (l_sent l) (l_back l))
               ds (qs ++ rq)).
  { intros S HSin. destruct (HS S HSin) as (xs & l & ds & qs & H & Hr & Ha).
    exists xs, l, ds, qs. split; auto. split; auto. split; auto.
    apply HB2; auto. apply (SInvW_ext P dbn lk c); auto. apply get_put_other. now apply (S_ne_P P Ss HPS). }
  exists xp', dp, [], b', acks.
  split; [exact HB1|]. split; [now right|]. split; [exact Hid|]. split; [|split].
  - intros S HSin. destruct (HSnew S HSin) as (xs & l & ds & qs & H & Hr & Ha & Hn).
    eexists xs, _, ds, (qs ++ rq). split; [exact Hn|]. cbn [l_replies l_reader].
    split; [now rewrite app_nil_r|].
    intros a. unfold xp'. cbn [cn_set_node cn_node]. rewrite get_sess_clean. unfold get_sess. rewrite Hsess. now apply Ha.
  - rewrite <- HPhi. apply Phi_same; [rewrite cross_flush; reflexivity|].
    intros S HSin. destruct (HSnew S HSin) as (xs & l & ds & qs & H & Hr & Ha & Hn).
    rewrite (wS_wit _ _ _ _ _ _ _ _ _ _ HB1 Hn HSin), (wS_wit _ _ _ _ _ _ _ _ _ _ HP H HSin).
    cbn [l_replies]. now rewrite app_nil_r.
  - intros a. destruct (HA a) as (H1 & H2 & H3). split; [|split; auto].
    intros nm Hnm. apply H1. unfold xp' in Hnm. cbn [cn_set_node cn_node] in Hnm. rewrite clean_keys, Hkeys in Hnm. exact Hnm.
Qed.

(* ---- a secondary's replication thread -------------------------------------- *)
Lemma BInv_pollS c S : BInv c -> In S Ss -> BInv (poll_repl_c_raw c S).
Proof.
  intros (xp & dp & rq & b & acks & HP & Hrq & Hid & HS & HPhi & HA) HSin.
  destruct (HS S HSin) as (xs & l & ds & qs & H & Hr & Ha).
  unfold poll_repl_c_raw. rewrite (si_get _ _ _ _ _ _ _ _ _ _ _ H).
  pose proof (secondary_poll_repl_node xs (si_role _ _ _ _ _ _ _ _ _ _ _ H)) as Hnode.
  set (c1 := put_cn c S (poll_repl xs)).
  assert (Hg1 : get_cn c1 S = Some (poll_repl xs)) by apply get_put_same.
  assert (HP1 : PW c1 xp dp rq b []).
  { apply (PInvW_ext P dbn Ss cidx c); auto. apply get_put_other. intros E'. apply (S_ne_P P Ss HPS S HSin). auto. }
  assert (HS1 : forall S', In S' Ss -> exists xs0 xs' l' ds' qs',
            SW c dp rq S' xs0 l' ds' qs' /\ SW (flush_outboxes c1 S) dp rq S' xs' l' ds' qs' /\
            rep_ok S' (qs' ++ rq) (l_replies l') (In S' acks) /\
            (A -> s_auth (get_sess (cn_node xp) (l_reader l')) = true)).
  { intros S' HS'. destruct (string_dec S' S) as [->|Hne'].
    - assert (H1 : SW c1 dp rq S (poll_repl xs) l ds qs).
      { destruct H as [G1 G2 G3 G4 G5 G6 G7 G8 G9 G10 G11 G12 G13 G14 G15 G16 G17 G18 G19].
        constructor; auto; try (rewrite Hnode; assumption). }
      destruct (SW_flush_S c1 S (poll_repl xs) dp rq S _ l ds qs Hg1 HSin HSin H1) as (xs'' & H2).
      exists xs, xs'', l, ds, qs. auto.
    - destruct (HS S' HS') as (xs' & l' & ds' & qs' & H' & Hr' & Ha').
      assert (H1 : SW c1 dp rq S' xs' l' ds' qs').
      { apply (SInvW_ext P dbn lk c); auto. now apply get_put_other. }
      destruct (SW_flush_S c1 S (poll_repl xs) dp rq S' _ l' ds' qs' Hg1 HSin HS' H1) as (xs'' & H2).
      exists xs', xs'', l', ds', qs'. auto. }
  assert (HP2 : PW (flush_outboxes c1 S) xp dp rq b []) by (apply (PW_flush_S c1 S (poll_repl xs)); auto).
  exists xp, dp, rq, b, acks.
  split; [exact HP2|]. split; auto. split; auto. split; [|split; auto].
  - intros S' HS'. destruct (HS1 S' HS') as (xs0 & xs' & l' & ds' & qs' & H0 & H2 & Hr' & Ha').
    exists xs', l', ds', qs'. auto.
  - rewrite <- HPhi. apply Phi_same; [rewrite cross_flush; reflexivity|].
    intros S' HS'. destruct (HS1 S' HS') as (xs0 & xs' & l' & ds' & qs' & H0 & H2 & Hr' & Ha').
    rewrite (wS_wit _ _ _ _ _ _ _ _ _ _ HP2 H2 HS'), (wS_wit _ _ _ _ _ _ _ _ _ _ HP H0 HS'). reflexivity.
Qed.

(* ---- one line delivered to a secondary ---------------------------------------- *)
Lemma nonok_ack S : nonok [ack_text id S; "ok"] = 1.
Proof. reflexivity. Qed.

Lemma BInv_deliver c S c' : BInv c -> In S Ss -> deliver_raw c (lk S) = Some c' -> BInv c'.
Proof.
  intros (xp & dp & rq & b & acks & HP & Hrq & Hid & HS & HPhi & HA) HSin E'.
  destruct (HS S HSin) as (xs & l & ds & qs & H & Hr & Ha).
  destruct qs as [|[id' o'] qs'].
  { exfalso. unfold deliver_raw in E'.
    rewrite (si_link _ _ _ _ _ _ _ _ _ _ _ H), (si_open _ _ _ _ _ _ _ _ _ _ _ H),
      (si_hs _ _ _ _ _ _ _ _ _ _ _ H), (si_q _ _ _ _ _ _ _ _ _ _ _ H) in E'. discriminate E'. }
  assert (Hshape : id' = id /\ o' = o /\ qs' = [] /\ rq = [] /\ l_replies l = [] /\ ~ In S acks).
  { destruct Hr as [(Hops & Hreps & Hnack) | [(Hops & _) | (Hops & _)]]; try discriminate Hops.
    cbn [app] in Hops. injection Hops as -> -> Hops. apply app_eq_nil in Hops as [-> ->]. repeat split; auto. }
  destruct Hshape as (-> & -> & -> & -> & Hreps & Hnack).
  pose proof (si_wf _ _ _ _ _ _ _ _ _ _ _ H) as Hwf. cbn [map snd] in Hwf.
  assert (Ho : op_wf o) by (inversion Hwf; assumption).
  set (sv := l_server l) in *. set (n := cn_node xs) in *.
  destruct (secondary_step n sv dbn ds id o Hdbn Ho Hid (si_auth _ _ _ _ _ _ _ _ _ _ _ H) (si_sdb _ _ _ _ _ _ _ _ _ _ _ H)
              (si_inbox _ _ _ _ _ _ _ _ _ _ _ H) (si_db _ _ _ _ _ _ _ _ _ _ _ H) (si_strat _ _ _ _ _ _ _ _ _ _ _ H)
              (si_watch _ _ _ _ _ _ _ _ _ _ _ H)) as (o' & Hso & Hf & Hclk & Hdb & Hin & Hne).
  destruct (step n sv (rp_line id (op_req dbn o))) as [n1 r] eqn:Estep. cbn [fst snd] in *.
  set (n2 := send n1 sv ("ok " +++ nlS)).
  set (n3 := put_sess n2 sv (mkSess (s_auth (get_sess n2 sv)) (s_db (get_sess n2 sv)) (s_user (get_sess n2 sv)) (s_member (get_sess n2 sv)) [])).
  set (l' := mkLink (l_from l) S [] (lines dbn []) sv (l_reader l)
               (l_replies l ++ split_lines (s_inbox (get_sess n2 sv))) true (l_sent l + 1) (l_back l)).
  set (c1 := mkCl (c_nodes (put_cn c S (cn_set_node xs n3))) (list_update (c_links c) (lk S) l') (c_cross c + 1)).
  assert (E : deliver_raw c (lk S) = Some (flush_outboxes c1 S)).
  { unfold deliver_raw. rewrite (si_link _ _ _ _ _ _ _ _ _ _ _ H), (si_open _ _ _ _ _ _ _ _ _ _ _ H),
      (si_hs _ _ _ _ _ _ _ _ _ _ _ H), (si_q _ _ _ _ _ _ _ _ _ _ _ H). cbn [negb lines map fst snd].
    rewrite (si_to _ _ _ _ _ _ _ _ _ _ _ H), (si_get _ _ _ _ _ _ _ _ _ _ _ H). fold sv. fold n. rewrite Estep.
    assert (Hst : match r with RError msg => "error " +++ msg +++ " " +++ nlS | _ => "ok " +++ nlS end = "ok " +++ nlS)
      by (destruct r; auto; exfalso; eapply Hne; reflexivity).
    rewrite Hst. reflexivity. }
  rewrite E in E'. injection E' as <-.
  assert (Hrange : (sv < length (n_sess n))%nat) by (apply auth_in_range, (si_auth _ _ _ _ _ _ _ _ _ _ _ H)).
  assert (Hrange1 : (sv < length (n_sess n1))%nat) by (rewrite (fr_len _ _ Hf); exact Hrange).
  assert (Hf2 : frame n1 n2) by apply frame_send.
  assert (Hf3 : frame n2 n3) by (apply frame_put_sess; reflexivity).
  assert (Hfall : frame n n3) by (eapply frame_trans; [exact Hf|eapply frame_trans; eauto]).
  assert (Hinb : s_inbox (get_sess n2 sv) = [ack_text id S +++ " " +++ nlS; "ok " +++ nlS]).
  { unfold n2. rewrite get_sess_send_same by exact Hrange1. cbn [sess_push s_inbox]. rewrite Hin.
    unfold n. rewrite (si_addr _ _ _ _ _ _ _ _ _ _ _ H). reflexivity. }
  assert (Hs3 : get_sess n3 sv = mkSess (s_auth (get_sess n2 sv)) (s_db (get_sess n2 sv)) (s_user (get_sess n2 sv)) (s_member (get_sess n2 sv)) []).
  { apply get_sess_put_same. rewrite (fr_len _ _ Hf2). exact Hrange1. }
  destruct (sattr_sdb _ _ (fr_sess _ _ Hfall sv)) as [Hsdb3 Hauth3].
  assert (Hrep' : l_replies l' = [ack_text id S; "ok"]).
  { unfold l'. cbn [l_replies]. rewrite Hreps, Hinb, (split_lines_ack id S (HSs S HSin)). reflexivity. }
  assert (Hg1 : get_cn c1 S = Some (cn_set_node xs n3)) by apply (get_put_same c S).
  assert (HP1 : PW c1 xp dp [] b []).
  { apply (PInvW_ext P dbn Ss cidx c); auto. apply (get_put_other c S). intros E'. apply (S_ne_P P Ss HPS S HSin). auto. }
  assert (HS_S : SW c1 dp [] S (cn_set_node xs n3) l' (db_apply ds o') []).
  { constructor; cbn [cn_set_node cn_node l_from l_to l_open l_hs l_q l_server l_replies]; auto.
    all: try change (l_server l') with sv; try change (l_from l') with (l_from l).
    + change (n_role n3) with (n_role n1). rewrite (fr_role _ _ Hf). apply (si_role _ _ _ _ _ _ _ _ _ _ _ H).
    + change (n_addr n3) with (n_addr n1). rewrite (fr_addr _ _ Hf). apply (si_addr _ _ _ _ _ _ _ _ _ _ _ H).
    + destruct (db_apply_meta ds o') as (-> & _). apply (si_strat _ _ _ _ _ _ _ _ _ _ _ H).
    + unfold c1. cbn [c_links]. apply nth_error_update_same. apply nth_error_Some.
      rewrite (si_link _ _ _ _ _ _ _ _ _ _ _ H). discriminate.
    + apply (si_from _ _ _ _ _ _ _ _ _ _ _ H).
    + constructor.
    + constructor.
    + rewrite Hauth3. apply (si_auth _ _ _ _ _ _ _ _ _ _ _ H).
    + rewrite Hsdb3. apply (si_sdb _ _ _ _ _ _ _ _ _ _ _ H).
    + rewrite Hs3. reflexivity.
    + apply no_watch_apply, (si_watch _ _ _ _ _ _ _ _ _ _ _ H).
    + rewrite Hrep'.
      constructor; [right; exists id, S; apply ack_text_parse; auto|constructor; [left; reflexivity|constructor]].
    + pose proof (si_rel _ _ _ _ _ _ _ _ _ _ _ H) as Hrel. cbn [map fst snd app fold_left] in Hrel.
      cbn [map app fold_left].
      eapply dbrel_trans; [exact Hrel|].
      apply db_apply_rel; [apply dbrel_refl|exact Hso]. }
  assert (HS1 : forall S', In S' Ss -> exists xs0 l0 ds0 qs0 xs' l1 ds1 qs1,
            SW c dp [] S' xs0 l0 ds0 qs0 /\ SW (flush_outboxes c1 S) dp [] S' xs' l1 ds1 qs1 /\
            rep_ok S' (qs1 ++ []) (l_replies l1) (In S' acks) /\
            (A -> s_auth (get_sess (cn_node xp) (l_reader l1)) = true) /\
            (S' <> S -> l1 = l0 /\ qs1 = qs0) /\ (S' = S -> l0 = l /\ qs0 = [(id, o)] /\ l1 = l' /\ qs1 = [])).
  { intros S' HS'. destruct (string_dec S' S) as [->|Hne'].
    - destruct (SW_flush_S c1 S (cn_set_node xs n3) dp [] S _ l' _ [] Hg1 HSin HSin HS_S) as (xs'' & H2).
      exists xs, l, ds, [(id, o)], xs'', l', (db_apply ds o'), []. split; [exact H|]. split; [exact H2|].
      split; [right; left; cbn [app]; rewrite Hrep'; auto|].
      split; [exact Ha|]. split; [congruence|auto].
    - destruct (HS S' HS') as (xs' & l0 & ds' & qs' & H' & Hr' & Ha').
      assert (H1 : SW c1 dp [] S' xs' l0 ds' qs').
      { apply (SInvW_ext P dbn lk c); auto.
        - now apply (get_put_other c S).
        - unfold c1. cbn [c_links]. apply nth_error_update_other. intros El. apply Hne'.
          eapply (lk_inj P dbn lk c); eauto. }
      destruct (SW_flush_S c1 S (cn_set_node xs n3) dp [] S' _ l0 ds' qs' Hg1 HSin HS' H1) as (xs'' & H2).
      exists xs', l0, ds', qs', xs'', l0, ds', qs'. split; auto. split; auto. split; auto. split; auto.
      split; [auto|congruence]. }
  assert (HP2 : PW (flush_outboxes c1 S) xp dp [] b []) by (apply (PW_flush_S c1 S (cn_set_node xs n3)); auto).
  exists xp, dp, [], b, acks.
  split; [exact HP2|]. split; auto. split; auto. split; [|split; auto].
  - intros S' HS'. destruct (HS1 S' HS') as (xs0 & l0 & ds0 & qs0 & xs' & l1 & ds1 & qs1 & H0 & H2 & Hr' & Ha' & _).
    exists xs', l1, ds1, qs1. auto.
  - rewrite <- HPhi. apply (Phi_move c (flush_outboxes c1 S) S 1 0 HSin).
    + intros S' HS' Hne'. destruct (HS1 S' HS') as (xs0 & l0 & ds0 & qs0 & xs' & l1 & ds1 & qs1 & H0 & H2 & _ & _ & Hd & _).
      destruct (Hd Hne') as [-> ->].
      rewrite (wS_wit _ _ _ _ _ _ _ _ _ _ HP2 H2 HS'), (wS_wit _ _ _ _ _ _ _ _ _ _ HP H0 HS'). reflexivity.
    + destruct (HS1 S HSin) as (xs0 & l0 & ds0 & qs0 & xs' & l1 & ds1 & qs1 & H0 & H2 & _ & _ & _ & Hd).
      destruct (Hd eq_refl) as (-> & -> & -> & ->).
      rewrite (wS_wit _ _ _ _ _ _ _ _ _ _ HP2 H2 HSin), (wS_wit _ _ _ _ _ _ _ _ _ _ HP H0 HSin).
      rewrite Hrep', Hreps, nonok_ack. reflexivity.
    + rewrite cross_flush. unfold c1. cbn [c_cross]. lia.
Qed.

(* ---- one reply line delivered to the primary ------------------------------------ *)
Lemma reply_step_auth n rd ln i nm : parse_request (trim_char nl ln) = POk (RqAcknowledge i nm) ->
  s_auth (get_sess n rd) = true ->
  fst (step n rd ln) = n_set_pending n (fst (acknowledge (n_pending n) i nm)).
Proof.
  intros Hp Hau. unfold step. rewrite (process_plain _ _ _ _ (RqAcknowledge i nm)) by (auto; discriminate).
  change (handle n rd (RqAcknowledge i nm)) with
    (if negb (s_auth (get_sess n rd)) then (n, not_auth)
     else (n_set_pending n (fst (acknowledge (n_pending n) i nm)), ROk)).
  rewrite Hau. cbn [negb]. apply rr_ack_fst.
Qed.

Lemma SW_relink c c1 dp rq S xs l ds qs l1 : SW c dp rq S xs l ds qs ->
  get_cn c1 S = get_cn c S -> nth_error (c_links c1) (lk S) = Some l1 ->
  l_from l1 = P -> l_to l1 = l_to l -> l_hs l1 = l_hs l -> l_q l1 = l_q l ->
  l_server l1 = l_server l -> l_open l1 = l_open l -> Forall harmless (l_replies l1) ->
  SW c1 dp rq S xs l1 ds qs.
Proof.
  intros H E1 E2 F1 F2 F3 F4 F5 F6 F7.
  destruct H as [G1 G2 G3 G4 G5 G6 G7 G8 G9 G10 G11 G12 G13 G14 G15 G16 G17 G18 G19].
  constructor; auto; try congruence; rewrite F5; assumption.
Qed.

Lemma BInv_reply c S c' : BInv c -> In S Ss -> reply_raw c (lk S) = Some c' -> BInv c'.
Proof.
  intros (xp & dp & rq & b & acks & HP & Hrq & Hid & HS & HPhi & HA) HSin E'.
  destruct (HS S HSin) as (xs & l & ds & qs & H & Hr & Ha).
  assert (Hlen : (lk S < length (c_links c))%nat).
  { apply nth_error_Some. rewrite (si_link _ _ _ _ _ _ _ _ _ _ _ H). discriminate. }
  assert (Hnone : l_replies l = [] -> False).
  { intros Hreps. unfold reply_raw in E'. rewrite (si_link _ _ _ _ _ _ _ _ _ _ _ H), Hreps in E'. discriminate E'. }
  assert (HSP : S <> P) by (apply (S_ne_P P Ss HPS S HSin)).
  destruct Hr as [(Hops & Hreps & Hnack) | [(Hops & Hreps & Hnack) | (Hops & Hreps & Hack)]]; [tauto| |].
  - (* "ack <id> <S>" *)
    apply app_eq_nil in Hops as [-> ->].
    assert (Hparse : parse_request (trim_char nl (ack_text id S)) = POk (RqAcknowledge id S)).
    { apply ack_text_parse; auto. }
    set (n := cn_node xp) in *. set (rd := l_reader l) in *.
    destruct (step n rd (ack_text id S)) as [n1 r0] eqn:Estep.
    pose proof (reply_step n rd (ack_text id S) id S Hparse) as Hn1. rewrite Estep in Hn1. cbn [fst] in Hn1.
    set (n2 := put_sess n1 rd (mkSess (s_auth (get_sess n1 rd)) (s_db (get_sess n1 rd)) (s_user (get_sess n1 rd)) (s_member (get_sess n1 rd)) [])).
    set (l' := mkLink P (l_to l) (l_hs l) (l_q l) (l_server l) (l_reader l) ["ok"] (l_open l) (l_sent l) (l_back l + 1)).
    set (c1 := mkCl (c_nodes (put_cn c P (cn_set_node xp n2))) (list_update (c_links c) (lk S) l') (c_cross c + 1)).
    assert (E : reply_raw c (lk S) = Some (flush_outboxes c1 P)).
    { unfold reply_raw. rewrite (si_link _ _ _ _ _ _ _ _ _ _ _ H), Hreps, (si_from _ _ _ _ _ _ _ _ _ _ _ H), (pi_get _ _ _ _ _ _ _ _ _ _ HP).
      change (String.eqb (ack_text id S) "ok") with false. cbv iota. fold n. fold rd. rewrite Estep. reflexivity. }
    rewrite E in E'. injection E' as <-.
    assert (Hf12 : frame n1 n2) by (apply frame_put_sess; reflexivity).
    assert (Hpb : pend_below (n_pending n1) b).
    { destruct Hn1 as [->| ->]; [apply (pi_pend _ _ _ _ _ _ _ _ _ _ HP)|].
      cbn [n_pending n_set_pending]. intros i Hi. apply is_pending_ack in Hi. now apply (pi_pend _ _ _ _ _ _ _ _ _ _ HP). }
    assert (Hsame : n_role n1 = n_role n /\ n_addr n1 = n_addr n /\ n_members n1 = n_members n /\
                    n_repl n1 = n_repl n /\ n_clock n1 = n_clock n /\ n_dbs n1 = n_dbs n /\ n_sess n1 = n_sess n).
    { destruct Hn1 as [->| ->]; repeat split; reflexivity. }
    destruct Hsame as (S1 & S2 & S3 & S4 & S5 & S6 & S7).
    assert (Hsat : forall s, sattr (get_sess n2 s) = sattr (get_sess n s)).
    { intros s. rewrite (fr_sess _ _ Hf12). unfold get_sess. now rewrite S7. }
    assert (HPu : PW c1 (cn_set_node xp n2) dp [] b []).
    { apply (PInvW_upd P dbn Ss cidx c c1 xp dp [] b [] n2); auto.
      + apply (get_put_same c P).
      + change (n_repl n2) with (n_repl n1). rewrite S4. apply (pi_repl _ _ _ _ _ _ _ _ _ _ HP).
      + constructor.
      + change (n_clock n2) with (n_clock n1). rewrite S5. apply (pi_ids _ _ _ _ _ _ _ _ _ _ HP).
      + change (get_db n2 dbn) with (get_db n1 dbn). unfold get_db. rewrite S6. apply (pi_db _ _ _ _ _ _ _ _ _ _ HP).
      + apply (pi_strat _ _ _ _ _ _ _ _ _ _ HP). }
    assert (Htr : forall ds0 (qs0 : list (N * dop)), dbrel dp (fold_left db_apply (map snd qs0 ++ map snd (@nil (N * dop))) ds0) ->
              dbrel dp (fold_left db_apply (map snd (qs0 ++ []) ++ map snd (@nil (N * dop))) ds0)).
    { intros ds0 qs0 Hrel. rewrite (app_nil_r qs0). exact Hrel. }
    destruct (P_event_strong P dbn Ss cidx lk HPS c1 (cn_set_node xp n2) dp [] dp [] b [] HPu
                (Forall_nil _) (Forall_nil _) Htr) as [HB1 HB2].
    set (xp' := cn_set_node (cn_set_node xp n2) (clean_members (cn_node (cn_set_node xp n2)))) in *.
    assert (HS1 : forall S', In S' Ss -> exists xs0 l0 ds0 qs0 lX,
              SW c dp [] S' xs0 l0 ds0 qs0 /\
              SW (flush_outboxes c1 P) dp [] S' xs0
                 (mkLink (l_from lX) (l_to lX) (l_hs lX) (l_q lX ++ lines dbn []) (l_server lX) (l_reader lX) (l_replies lX) (l_open lX) (l_sent lX) (l_back lX))
                 ds0 (qs0 ++ []) /\
              rep_ok S' (qs0 ++ []) (l_replies l0) (In S' acks) /\
              (A -> s_auth (get_sess n (l_reader l0)) = true) /\ l_reader lX = l_reader l0 /\
              (S' <> S -> lX = l0) /\ (S' = S -> l0 = l /\ qs0 = [] /\ lX = l')).
    { intros S' HS'. destruct (string_dec S' S) as [->|Hne'].
      - assert (H1 : SW c1 dp [] S xs l' ds []).
        { apply (SW_relink c c1 dp [] S xs l ds [] l' H); auto.
          - apply (get_put_other c P). exact HSP.
          - unfold c1. cbn [c_links]. now apply nth_error_update_same.
          - cbn [l_replies]. constructor; [left; reflexivity|constructor]. }
        exists xs, l, ds, [], l'. split; [exact H|]. split; [apply HB2; auto|].
        split; [right; left; rewrite Hreps; auto|]. split; [exact Ha|]. split; [reflexivity|]. split; [congruence|auto].
      - destruct (HS S' HS') as (xs' & l0 & ds' & qs' & H' & Hr' & Ha').
        assert (H1 : SW c1 dp [] S' xs' l0 ds' qs').
        { apply (SInvW_ext P dbn lk c); auto.
          - apply (get_put_other c P). now apply (S_ne_P P Ss HPS).
          - unfold c1. cbn [c_links]. apply nth_error_update_other. intros El. apply Hne'.
            eapply (lk_inj P dbn lk c); eauto. }
        exists xs', l0, ds', qs', l0. split; auto. split; [apply HB2; auto|]. split; auto. split; auto.
        split; auto. split; [auto|congruence]. }
    exists xp', dp, [], b, (acks ++ [S]).
    split; [exact HB1|]. split; [now right|]. split; [exact Hid|]. split; [|split].
    + intros S' HS'. destruct (HS1 S' HS') as (xs0 & l0 & ds0 & qs0 & lX & H0 & H2 & Hr' & Ha' & Hrd & Hd1 & Hd2).
      eexists xs0, _, ds0, (qs0 ++ []). split; [exact H2|]. cbn [l_replies l_reader]. split; [|].
      * destruct (string_dec S' S) as [->|Hne'].
        -- destruct (Hd2 eq_refl) as (-> & -> & ->). right; right. split; [reflexivity|].
           split; [left; reflexivity|]. apply in_or_app. right. now left.
        -- rewrite (Hd1 Hne'). rewrite app_nil_r. apply (rep_ok_iff S' _ _ (In S' acks)); auto.
           rewrite in_app_iff. cbn [In]. intuition congruence.
      * intros a. unfold xp'. cbn [cn_set_node cn_node]. rewrite get_sess_clean, Hrd.
        destruct (sattr_sdb _ _ (Hsat (l_reader l0))) as [_ ->]. now apply Ha'.
    + rewrite <- HPhi. apply (Phi_move c (flush_outboxes c1 P) S 1 0 HSin).
      * intros S' HS' Hne'. destruct (HS1 S' HS') as (xs0 & l0 & ds0 & qs0 & lX & H0 & H2 & _ & _ & _ & Hd1 & _).
        rewrite (Hd1 Hne') in H2.
        rewrite (wS_wit _ _ _ _ _ _ _ _ _ _ HB1 H2 HS'), (wS_wit _ _ _ _ _ _ _ _ _ _ HP H0 HS'). cbn [l_replies].
        now rewrite !app_nil_r.
      * destruct (HS1 S HSin) as (xs0 & l0 & ds0 & qs0 & lX & H0 & H2 & _ & _ & _ & _ & Hd2).
        destruct (Hd2 eq_refl) as (-> & -> & ->).
        rewrite (wS_wit _ _ _ _ _ _ _ _ _ _ HB1 H2 HSin), (wS_wit _ _ _ _ _ _ _ _ _ _ HP H0 HSin). cbn [l_replies l'].
        rewrite Hreps, nonok_ack. reflexivity.
      * rewrite cross_flush. unfold c1. cbn [c_cross]. lia.
    + intros a. destruct (HA a) as (H1 & H2 & H3). split; [|split; auto].
      * intros nm Hnm. apply H1. unfold xp' in Hnm. cbn [cn_set_node cn_node] in Hnm. rewrite clean_keys in Hnm.
        change (n_members n2) with (n_members n1) in Hnm. rewrite S3 in Hnm. exact Hnm.
      * destruct H3 as [(Hcontra & _) | (_ & nP & N1 & N2 & N3 & N4 & N5)]; [discriminate Hcontra|].
        right. split; [reflexivity|]. exists nP. split; auto. split; auto. split; auto. split.
        -- unfold xp'. cbn [cn_set_node cn_node]. rewrite clean_keys. change (n_members n2) with (n_members n1).
           rewrite S3. exact N4.
        -- change (n_pending (cn_node xp')) with (n_pending n1).
           pose proof (reply_step_auth n rd (ack_text id S) id S Hparse (Ha a)) as Hau. rewrite Estep in Hau. cbn [fst] in Hau.
           rewrite Hau. cbn [n_pending n_set_pending]. fold n in N5. rewrite N5. symmetry. apply ack_all_snoc.
  - (* "ok" *)
    destruct Hreps as [Hreps|Hreps]; [|tauto].
    apply app_eq_nil in Hops as [-> ->].
    set (l0 := mkLink P (l_to l) (l_hs l) (l_q l) (l_server l) (l_reader l) [] (l_open l) (l_sent l) (l_back l)).
    assert (E : reply_raw c (lk S) = Some (set_link c (lk S) l0)).
    { unfold reply_raw. rewrite (si_link _ _ _ _ _ _ _ _ _ _ _ H), Hreps, (si_from _ _ _ _ _ _ _ _ _ _ _ H), (pi_get _ _ _ _ _ _ _ _ _ _ HP).
      reflexivity. }
    rewrite E in E'. injection E' as <-.
    set (c1 := set_link c (lk S) l0).
    assert (HP1 : PW c1 xp dp [] b []) by (apply (PInvW_ext P dbn Ss cidx c); auto).
    assert (HS1 : forall S', In S' Ss -> exists xs0 l1 ds0 qs0 lX,
              SW c dp [] S' xs0 l1 ds0 qs0 /\ SW c1 dp [] S' xs0 lX ds0 qs0 /\
              rep_ok S' (qs0 ++ []) (l_replies lX) (In S' acks) /\
              (A -> s_auth (get_sess (cn_node xp) (l_reader lX)) = true) /\
              nonok (l_replies lX) = nonok (l_replies l1)).
    { intros S' HS'. destruct (string_dec S' S) as [->|Hne'].
      - exists xs, l, ds, [], l0. split; [exact H|]. split.
        + apply (SW_relink c c1 dp [] S xs l ds [] l0 H); auto.
          * now apply links_set_same.
          * constructor.
        + split; [right; right; cbn [l_replies l0]; auto|]. split; [exact Ha|]. rewrite Hreps. reflexivity.
      - destruct (HS S' HS') as (xs' & l1 & ds' & qs' & H' & Hr' & Ha').
        exists xs', l1, ds', qs', l1. split; auto. split; [|auto].
        apply (SInvW_ext P dbn lk c); auto.
        apply links_set_other. intros El. apply Hne'. eapply (lk_inj P dbn lk c); eauto. }
    exists xp, dp, [], b, acks.
    split; [exact HP1|]. split; auto. split; auto. split; [|split; auto].
    + intros S' HS'. destruct (HS1 S' HS') as (xs0 & l1 & ds0 & qs0 & lX & H0 & H2 & Hr' & Ha' & _).
      exists xs0, lX, ds0, qs0. auto.
    + rewrite <- HPhi. apply Phi_same; [reflexivity|].
      intros S' HS'. destruct (HS1 S' HS') as (xs0 & l1 & ds0 & qs0 & lX & H0 & H2 & _ & _ & Hno).
      rewrite (wS_wit _ _ _ _ _ _ _ _ _ _ HP1 H2 HS'), (wS_wit _ _ _ _ _ _ _ _ _ _ HP H0 HS'), Hno. reflexivity.
Qed.

(* ---- one event / any list of events ------------------------------------------- *)
Lemma BInv_step c e : BInv c -> bev_ok Ss e -> BInv (stp c e).
Proof.
  intros HI He. destruct e as [k v | k | k i | | S | S | S]; cbn [bev_ok cstep] in *; try tauto.
  - unfold poll_repl_c. apply BInv_pollP, BInv_sync, HI.
  - unfold deliver. destruct (deliver_raw (sync_clocks c) (lk S)) as [c'|] eqn:E; cbn [opt_or]; auto.
    apply (BInv_deliver (sync_clocks c) S c'); auto using BInv_sync.
  - unfold reply. destruct (reply_raw (sync_clocks c) (lk S)) as [c'|] eqn:E; cbn [opt_or]; auto.
    apply (BInv_reply (sync_clocks c) S c'); auto using BInv_sync.
  - unfold poll_repl_c. apply BInv_pollS; auto using BInv_sync.
Qed.

Lemma BInv_run evs : forall c, BInv c -> Forall (bev_ok Ss) evs -> BInv (rn c evs).
Proof.
  induction evs as [|e evs IH]; intros c HI Hok; cbn [run fold_left]; auto.
  inversion Hok as [|? ? He Hok']; subst. apply IH; auto using BInv_step.
Qed.

Lemma BInv_Phi c : BInv c -> Phi c = K.
Proof. intros (xp & dp & rq & b & acks & _ & _ & _ & _ & HPhi & _). exact HPhi. Qed.

(* ---- silence is stable ------------------------------------------------------------ *)
Lemma poll_replies c nm i :
  option_map l_replies (nth_error (c_links (poll_repl_c c nm)) i) = option_map l_replies (nth_error (c_links c) i).
Proof.
  unfold poll_repl_c, poll_repl_c_raw. destruct (get_cn (sync_clocks c) nm) as [x|] eqn:E; [|reflexivity].
  rewrite (flush_links _ nm (poll_repl x) i) by apply get_put_same.
  change (c_links (put_cn (sync_clocks c) nm (poll_repl x))) with (c_links c).
  destruct (nth_error (c_links c) i) as [l|]; [|reflexivity]. cbn [option_map]. f_equal.
  unfold flush_link. destruct (l_open l && String.eqb (l_from l) nm); [|reflexivity].
  destruct (assoc_get String.eqb (l_to l) (n_members (cn_node (poll_repl x)))) as [[r q]|]; [|reflexivity].
  destruct (is_nosender q); reflexivity.
Qed.

Lemma silent_links c S l : silent c -> In S Ss -> link_of c S = Some l -> l_q l = [] /\ l_replies l = [].
Proof.
  intros [Hq Hr] HSin Hl. split; [|eauto].
  specialize (Hq S HSin). unfold inflight in Hq. unfold link_of in Hl. rewrite Hl in Hq.
  now apply app_eq_nil in Hq as [Hq _].
Qed.

Lemma silent_no_move c S : BInv c -> silent c -> In S Ss ->
  deliver c (lk S) = None /\ reply c (lk S) = None.
Proof.
  intros (xp & dp & rq & b & acks & HP & _ & _ & HS & _) Hsil HSin.
  destruct (HS S HSin) as (xs & l & ds & qs & H & _).
  destruct (silent_links c S l Hsil HSin (si_link _ _ _ _ _ _ _ _ _ _ _ H)) as [Hlq Hrep].
  split.
  - unfold deliver, deliver_raw. change (c_links (sync_clocks c)) with (c_links c).
    rewrite (si_link _ _ _ _ _ _ _ _ _ _ _ H), (si_open _ _ _ _ _ _ _ _ _ _ _ H), (si_hs _ _ _ _ _ _ _ _ _ _ _ H), Hlq.
    reflexivity.
  - unfold reply, reply_raw. change (c_links (sync_clocks c)) with (c_links c).
    rewrite (si_link _ _ _ _ _ _ _ _ _ _ _ H), Hrep. reflexivity.
Qed.

Lemma silent_poll c nm : BInv c -> silent c -> BInv (poll_repl_c c nm) -> silent (poll_repl_c c nm).
Proof.
  intros HI Hsil HI'.
  pose proof (BInv_Phi _ HI) as H1. pose proof (BInv_Phi _ HI') as H2.
  rewrite (silent_Phi c Hsil) in H1. unfold Phi in H2. rewrite cross_poll in H2.
  assert (Hz : sumN (map (wS (poll_repl_c c nm)) Ss) = 0) by lia.
  split.
  - intros S HSin. pose proof (sumN_zero _ _ Hz S HSin) as Hw. unfold wS in Hw.
    destruct (inflight P lk (poll_repl_c c nm) S); [reflexivity|cbn [length] in Hw; lia].
  - intros S l HSin Hl. pose proof (poll_replies c nm (lk S)) as Hp. unfold link_of in Hl. rewrite Hl in Hp.
    destruct (nth_error (c_links c) (lk S)) as [l0|] eqn:E0; [|discriminate Hp].
    cbn [option_map] in Hp. injection Hp as ->. destruct Hsil as [_ Hr]. apply (Hr S l0 HSin E0).
Qed.

Lemma silent_step c e : BInv c -> silent c -> bev_ok Ss e -> silent (stp c e) /\ c_cross (stp c e) = c_cross c.
Proof.
  intros HI Hsil He. pose proof (BInv_step c e HI He) as HI'.
  destruct e as [k v | k | k i | | S | S | S]; cbn [bev_ok cstep] in *; try tauto.
  - split; [now apply silent_poll|apply cross_poll].
  - destruct (silent_no_move c S HI Hsil He) as [-> _]. auto.
  - destruct (silent_no_move c S HI Hsil He) as [_ ->]. auto.
  - split; [now apply silent_poll|apply cross_poll].
Qed.

Lemma silent_run evs : forall c, BInv c -> silent c -> Forall (bev_ok Ss) evs ->
  silent (rn c evs) /\ c_cross (rn c evs) = c_cross c.
Proof.
  induction evs as [|e evs IH]; intros c HI Hsil Hok; cbn [run fold_left]; auto.
  inversion Hok as [|? ? He Hok']; subst.
  destruct (silent_step c e HI Hsil He) as [Hs1 Hc1].
  destruct (IH (stp c e) (BInv_step c e HI He) Hs1 Hok') as [Hs2 Hc2]. unfold run in *. split; auto. congruence.
Qed.

(* ---- at silence every targeted member has acknowledged ------------------------------ *)
Lemma silent_pending c : BInv c -> silent c -> A ->
  exists xp, get_cn c P = Some xp /\ n_pending (cn_node xp) = p0.
Proof.
  intros (xp & dp & rq & b & acks & HP & Hrq & Hid & HS & HPhi & HA) Hsil a.
  exists xp. split; [apply (pi_get _ _ _ _ _ _ _ _ _ _ HP)|].
  destruct (HA a) as (H1 & H2 & [(_ & _ & Hp) | (-> & nP & N1 & N2 & N3 & N4 & N5)]); [exact Hp|].
  assert (Hacked : forall S, In S Ss -> In S acks).
  { intros S HSin. destruct (HS S HSin) as (xs & l & ds & qs & H & Hr & _).
    destruct Hsil as [Hq Hrp]. specialize (Hq S HSin).
    rewrite (inflight_wit c xp dp [] b S xs l ds qs HP H HSin) in Hq.
    assert (Hops : qs ++ [] = []) by (destruct (qs ++ []); [reflexivity|discriminate Hq]).
    pose proof (Hrp S l HSin (si_link _ _ _ _ _ _ _ _ _ _ _ H)) as Hrep.
    destruct Hr as [(Ho & _) | [(_ & Hr & _) | (_ & _ & Hk)]]; [rewrite Hops in Ho; discriminate Ho|rewrite Hrep in Hr; discriminate Hr|exact Hk]. }
  set (pF := n_pending (fan_out nP id (op_req dbn o) false)) in *.
  assert (Hfresh : is_pending (n_pending nP) id = false) by (rewrite N2; exact H2).
  assert (Hnp : is_pending (ack_all pF id acks) id = false).
  { destruct (is_pending (ack_all pF id acks) id) eqn:Ep; [|reflexivity]. exfalso.
    apply (fan_out_pending_iff nP id (op_req dbn o) false acks N1 Hfresh) in Ep as (m & Hm & Hnm).
    apply Hnm, Hacked.
    unfold targets in Hm. apply (in_targets_of _ _ _ _ N1) in Hm as (r & q & Hg & Hne & _).
    assert (Hin : In m (map fst (n_members nP))).
    { apply (get_in _ String.eqb_spec) in Hg. apply (in_map fst) in Hg. exact Hg. }
    rewrite N4 in Hin. destruct (H1 m Hin) as [->|]; [|assumption]. congruence. }
  rewrite N5. rewrite <- (others_not_pending id _ Hnp), others_ack_all. unfold pF.
  rewrite (fan_out_exact nP id (op_req dbn o) false N1). cbn [n_pending n_set_members n_set_pending].
  rewrite others_reg_all, N2. now apply others_not_pending.
Qed.

End Inv.

(* ================================================================== *)
(* Part C.  From a formed cluster: one client write                     *)
(* ================================================================== *)
Lemma Formed_strong c : Formed P dbn Ss cidx lk c ->
  exists xp dp b, PW c xp dp [] b [] /\
    forall S, In S Ss -> exists xs l ds, SW c dp [] S xs l ds [] /\ l_replies l = [].
Proof.
  intros (xp & dp & F1 & F2 & F3 & F4 & F5 & F6 & F7 & F8 & F9 & F10 & F11 & FS).
  exists xp, dp, (n_clock (cn_node xp)). split.
  - constructor; cbn [lines map ids_from]; auto; try lia; try (now constructor).
  - intros S HSin. destruct (FS S HSin) as (xs & l & ds & G1 & G2 & G3 & G4 & G5 & G6 & G7 & G8 & G9 & G10 & G11 & G12 & G13 & G14 & G15 & G16 & G17).
    exists xs, l, ds. split; [|exact G13]. constructor; cbn [lines map app fold_left]; auto; try (now constructor).
    rewrite G13. constructor.
Qed.

(* P's pending-operation table *)
Definition pending_of (c : cluster) : pstate :=
  match get_cn c P with Some xp => n_pending (cn_node xp) | None => [] end.

(* the extra facts needed to follow the pending table: the primary's member table names only P
   and the secondaries Ss, and the reader-side session of every link P -> S is authenticated
   at P (it is: open_link creates it authenticated) *)
Definition Closed (c : cluster) : Prop :=
  exists xp, get_cn c P = Some xp /\
    (forall nm, In nm (map fst (n_members (cn_node xp))) -> nm = P \/ In nm Ss) /\
    (forall S l, In S Ss -> link_of c S = Some l -> s_auth (get_sess (cn_node xp) (l_reader l)) = true).

(* the accepted write: the invariant starts with potential c_cross c + 2 * |Ss| *)
Lemma BInv_init c w B :
  Formed P dbn Ss cidx lk c -> cop_ok w -> cl_bound c B -> B + 2 <= 2 ^ 64 ->
  resp_ok (snd (client_cmd c P cidx (cop_line w))) = true ->
  exists id o, BInv id o (c_cross c + 2 * N.of_nat (length Ss)) (pending_of c) (Closed c)
                 (fst (client_cmd c P cidx (cop_line w))).
Proof.
  intros HF Hok HB HB64 Hresp.
  destruct (Formed_strong c HF) as (xp & dp & b & HP & HS).
  unfold client_cmd in *. set (cs := sync_clocks c) in *.
  pose proof (PInvW_sync _ _ _ _ _ _ _ _ _ _ HP) as HPs. fold cs in HPs.
  set (xps := reclock (maxclock c) xp) in *.
  pose proof (cl_bound_sync c B HB) as HBs. fold cs in HBs.
  pose proof (cl_bound_get _ _ _ _ HBs (pi_get _ _ _ _ _ _ _ _ _ _ HPs)) as HBp.
  unfold client_cmd_raw in *. rewrite (pi_get _ _ _ _ _ _ _ _ _ _ HPs) in *. fold (sid_of cidx xps) in *.
  assert (Hprim : is_primary (cn_node xps) = true) by (unfold is_primary; now rewrite (pi_role _ _ _ _ _ _ _ _ _ _ HPs)).
  pose proof (primary_step (cn_node xps) (sid_of cidx xps) w dbn dp Hok Hprim (pi_sess _ _ _ _ _ _ _ _ _ _ HPs)
                (pi_db _ _ _ _ _ _ _ _ _ _ HPs) (pi_strat _ _ _ _ _ _ _ _ _ _ HPs)) as Hst.
  cbv zeta in Hst. destruct (step (cn_node xps) (sid_of cidx xps) (cop_line w)) as [n1 r]. cbn [fst snd] in *.
  rewrite Hresp in Hst. destruct Hst as (Hf & Hclk & opp & id & Hwf & Hrok & Hdb & Hrepl & Hid).
  set (o := cop_dop w opp) in *.
  set (c1 := put_cn cs P (cn_set_node xps n1)).
  pose proof (pi_ids _ _ _ _ _ _ _ _ _ _ HPs) as Hib. cbn [map ids_from] in Hib.
  assert (HP1 : PW c1 (cn_set_node xps n1) (db_apply dp o) [(id, o)] b []).
  { apply (PInvW_upd P dbn Ss cidx cs c1 xps dp [] b [] n1); auto; try apply Hf.
    - apply get_put_same.
    - rewrite (fr_pending _ _ Hf). apply (pi_pend _ _ _ _ _ _ _ _ _ _ HPs).
    - rewrite Hrepl, (pi_repl _ _ _ _ _ _ _ _ _ _ HPs). reflexivity.
    - constructor; auto.
    - cbn [map fst ids_from]. lia.
    - destruct (db_apply_meta dp o) as (-> & _). apply (pi_strat _ _ _ _ _ _ _ _ _ _ HPs). }
  assert (HtrA : forall ds (qs : list (N * dop)), dbrel dp (fold_left db_apply (map snd qs ++ map snd (@nil (N * dop))) ds) ->
            dbrel (db_apply dp o) (fold_left db_apply (map snd (qs ++ []) ++ map snd [(id, o)]) ds)).
  { intros ds qs Hrel. rewrite app_nil_r in *. cbn [map snd]. rewrite fold_left_app. cbn [fold_left].
    apply db_apply_rel; auto using same_op_refl. }
  destruct (P_event_strong P dbn Ss cidx lk HPS c1 (cn_set_node xps n1) dp [] (db_apply dp o) [(id, o)] b [] HP1
              (Forall_nil _) (Forall_nil _) HtrA) as [HA1 HA2].
  set (cA := flush_outboxes c1 P) in *.
  set (xA := cn_set_node (cn_set_node xps n1) (clean_members (cn_node (cn_set_node xps n1)))) in *.
  assert (HSnew : forall S, In S Ss -> exists xs l ds,
            SW c dp [] S xs l ds [] /\ l_replies l = [] /\
            SW cA (db_apply dp o) [(id, o)] S (reclock (maxclock c) xs)
               (mkLink (l_from l) (l_to l) (l_hs l) (l_q l ++ lines dbn []) (l_server l) (l_reader l) (l_replies l) (l_open l) (l_sent l) (l_back l))
               ds ([] ++ [])).
  { intros S HSin. destruct (HS S HSin) as (xs & l & ds & H & Hrep). exists xs, l, ds. split; auto. split; auto.
    apply HA2; auto. apply (SInvW_ext P dbn lk cs).
    - apply SInvW_sync. exact H.
    - apply get_put_other. now apply (S_ne_P P Ss HPS).
    - reflexivity. }
  assert (Hp0 : pending_of c = n_pending (cn_node xp)).
  { unfold pending_of. now rewrite (pi_get _ _ _ _ _ _ _ _ _ _ HP). }
  exists id, o. exists xA, (db_apply dp o), [(id, o)], b, [].
  split; [exact HA1|]. split; [now left|]. split; [lia|]. split; [|split].
  - intros S HSin. destruct (HSnew S HSin) as (xs & l & ds & H & Hrep & Hn).
    eexists _, _, ds, ([] ++ []). split; [exact Hn|]. cbn [l_replies l_reader].
    split; [left; rewrite Hrep; cbn; auto|].
    intros (xp1 & Hg & _ & Hau). rewrite (pi_get _ _ _ _ _ _ _ _ _ _ HP) in Hg. injection Hg as <-.
    unfold xA. cbn [cn_set_node cn_node]. rewrite get_sess_clean.
    destruct (sattr_sdb _ _ (fr_sess _ _ Hf (l_reader l))) as [_ ->].
    apply (Hau S l HSin). apply (si_link _ _ _ _ _ _ _ _ _ _ _ H).
  - unfold Phi. rewrite (sumN_const (wS cA) 2 Ss).
    + unfold cA. rewrite cross_flush. reflexivity.
    + intros S HSin. destruct (HSnew S HSin) as (xs & l & ds & H & Hrep & Hn).
      rewrite (wS_wit _ _ _ _ _ _ _ _ _ _ HA1 Hn HSin). cbn [l_replies]. rewrite Hrep. reflexivity.
  - intros (xp1 & Hg & Hmem & _). rewrite (pi_get _ _ _ _ _ _ _ _ _ _ HP) in Hg. injection Hg as <-.
    split; [|split].
    + intros nm Hnm. apply Hmem. unfold xA in Hnm. cbn [cn_set_node cn_node] in Hnm.
      rewrite clean_keys, (fr_members _ _ Hf) in Hnm. exact Hnm.
    + rewrite Hp0. destruct (is_pending (n_pending (cn_node xp)) id) eqn:Ep; [|reflexivity]. exfalso.
      pose proof (pi_pend _ _ _ _ _ _ _ _ _ _ HPs id Ep). lia.
    + left. split; [reflexivity|]. split; [reflexivity|].
      change (n_pending (cn_node xA)) with (n_pending n1). rewrite (fr_pending _ _ Hf). symmetry. exact Hp0.
Qed.

(* a refused write: nothing is in flight, the potential is c_cross c *)
Lemma BInv_refused c w :
  Formed P dbn Ss cidx lk c -> cop_ok w ->
  resp_ok (snd (client_cmd c P cidx (cop_line w))) = false ->
  BInv 0 (DRemove "") (c_cross c) [] False (fst (client_cmd c P cidx (cop_line w))) /\
  silent (fst (client_cmd c P cidx (cop_line w))) /\
  c_cross (fst (client_cmd c P cidx (cop_line w))) = c_cross c.
Proof.
  intros HF Hok Hresp.
  destruct (Formed_strong c HF) as (xp & dp & b & HP & HS).
  unfold client_cmd in *. set (cs := sync_clocks c) in *.
  pose proof (PInvW_sync _ _ _ _ _ _ _ _ _ _ HP) as HPs. fold cs in HPs.
  set (xps := reclock (maxclock c) xp) in *.
  unfold client_cmd_raw in *. rewrite (pi_get _ _ _ _ _ _ _ _ _ _ HPs) in *. fold (sid_of cidx xps) in *.
  assert (Hprim : is_primary (cn_node xps) = true) by (unfold is_primary; now rewrite (pi_role _ _ _ _ _ _ _ _ _ _ HPs)).
  pose proof (primary_step (cn_node xps) (sid_of cidx xps) w dbn dp Hok Hprim (pi_sess _ _ _ _ _ _ _ _ _ _ HPs)
                (pi_db _ _ _ _ _ _ _ _ _ _ HPs) (pi_strat _ _ _ _ _ _ _ _ _ _ HPs)) as Hst.
  cbv zeta in Hst. destruct (step (cn_node xps) (sid_of cidx xps) (cop_line w)) as [n1 r]. cbn [fst snd] in *.
  rewrite Hresp in Hst. destruct Hst as (Hf & Hclk & Hdb & Hrepl).
  set (c1 := put_cn cs P (cn_set_node xps n1)).
  pose proof (pi_ids _ _ _ _ _ _ _ _ _ _ HPs) as Hib. cbn [map ids_from] in Hib.
  assert (HP1 : PW c1 (cn_set_node xps n1) dp [] b []).
  { apply (PInvW_upd P dbn Ss cidx cs c1 xps dp [] b [] n1); auto; try apply Hf.
    - apply get_put_same.
    - rewrite (fr_pending _ _ Hf). apply (pi_pend _ _ _ _ _ _ _ _ _ _ HPs).
    - rewrite Hrepl. apply (pi_repl _ _ _ _ _ _ _ _ _ _ HPs).
    - constructor.
    - cbn [map fst ids_from]. lia.
    - apply (pi_strat _ _ _ _ _ _ _ _ _ _ HPs). }
  assert (HtrA : forall ds (qs : list (N * dop)), dbrel dp (fold_left db_apply (map snd qs ++ map snd (@nil (N * dop))) ds) ->
            dbrel dp (fold_left db_apply (map snd (qs ++ []) ++ map snd (@nil (N * dop))) ds)).
  { intros ds qs Hrel. rewrite (app_nil_r qs). exact Hrel. }
  destruct (P_event_strong P dbn Ss cidx lk HPS c1 (cn_set_node xps n1) dp [] dp [] b [] HP1
              (Forall_nil _) (Forall_nil _) HtrA) as [HA1 HA2].
  set (cA := flush_outboxes c1 P) in *.
  set (xA := cn_set_node (cn_set_node xps n1) (clean_members (cn_node (cn_set_node xps n1)))) in *.
  assert (HSnew : forall S, In S Ss -> exists xs l ds,
            l_replies l = [] /\
            SW cA dp [] S (reclock (maxclock c) xs)
               (mkLink (l_from l) (l_to l) (l_hs l) (l_q l ++ lines dbn []) (l_server l) (l_reader l) (l_replies l) (l_open l) (l_sent l) (l_back l))
               ds ([] ++ [])).
  { intros S HSin. destruct (HS S HSin) as (xs & l & ds & H & Hrep). exists xs, l, ds. split; auto.
    apply HA2; auto. apply (SInvW_ext P dbn lk cs).
    - apply SInvW_sync. exact H.
    - apply get_put_other. now apply (S_ne_P P Ss HPS).
    - reflexivity. }
  assert (Hw : forall S, In S Ss -> wS cA S = 0).
  { intros S HSin. destruct (HSnew S HSin) as (xs & l & ds & Hrep & Hn).
    rewrite (wS_wit _ _ _ _ _ _ _ _ _ _ HA1 Hn HSin). cbn [l_replies]. rewrite Hrep. reflexivity. }
  assert (Hcross : c_cross cA = c_cross c) by (unfold cA; rewrite cross_flush; reflexivity).
  split; [|split; [|exact Hcross]].
  - exists xA, dp, [], b, Ss.
    split; [exact HA1|]. split; [now right|]. split; [reflexivity|]. split; [|split; [|tauto]].
    + intros S HSin. destruct (HSnew S HSin) as (xs & l & ds & Hrep & Hn).
      eexists _, _, ds, ([] ++ []). split; [exact Hn|]. cbn [l_replies l_reader].
      split; [right; right; rewrite Hrep; cbn; auto|tauto].
    + unfold Phi. rewrite (sumN_const (wS cA) 0 Ss) by exact Hw. lia.
  - split.
    + intros S HSin. specialize (Hw S HSin). unfold wS in Hw.
      destruct (inflight P lk cA S); [reflexivity|cbn [length] in Hw; lia].
    + intros S l1 HSin Hl. destruct (HSnew S HSin) as (xs & l & ds & Hrep & Hn).
      unfold link_of in Hl. rewrite (si_link _ _ _ _ _ _ _ _ _ _ _ Hn) in Hl. injection Hl as <-. exact Hrep.
Qed.

(* ================================================================== *)
(* Part D.  The theorems (inside the section)                           *)
(* ================================================================== *)
Section Thms.
Variables (c : cluster) (w : cop) (B : N) (evs : list cev).
Hypothesis HF : Formed P dbn Ss cidx lk c.
Hypothesis Hok : cop_ok w.
Hypothesis Hev : Forall (bev_ok Ss) evs.

Let c0 := fst (client_cmd c P cidx (cop_line w)).
Let final := rn c0 evs.

Theorem burst_exact_sec : cl_bound c B -> B + 2 <= 2 ^ 64 ->
  resp_ok (snd (client_cmd c P cidx (cop_line w))) = true ->
  silent final -> c_cross final = c_cross c + 2 * N.of_nat (length Ss).
Proof.
  intros HB HB64 Hresp Hsil.
  destruct (BInv_init c w B HF Hok HB HB64 Hresp) as (id & o & HI).
  pose proof (BInv_run _ _ _ _ _ evs _ HI Hev) as HIf. fold c0 final in HIf.
  rewrite <- (silent_Phi final Hsil). exact (BInv_Phi _ _ _ _ _ _ HIf).
Qed.

(* the potential is the same after every prefix of the schedule *)
Theorem potential_invariant_sec : cl_bound c B -> B + 2 <= 2 ^ 64 ->
  resp_ok (snd (client_cmd c P cidx (cop_line w))) = true ->
  Phi final = c_cross c + 2 * N.of_nat (length Ss).
Proof.
  intros HB HB64 Hresp.
  destruct (BInv_init c w B HF Hok HB HB64 Hresp) as (id & o & HI).
  pose proof (BInv_run _ _ _ _ _ evs _ HI Hev) as HIf. exact (BInv_Phi _ _ _ _ _ _ HIf).
Qed.

Theorem then_silence_sec : cl_bound c B -> B + 2 <= 2 ^ 64 ->
  resp_ok (snd (client_cmd c P cidx (cop_line w))) = true ->
  silent final ->
  (forall S, In S Ss -> deliver final (lk S) = None /\ reply final (lk S) = None) /\
  (forall e, bev_ok Ss e -> c_cross (stp final e) = c_cross final) /\
  (forall evs', Forall (bev_ok Ss) evs' ->
     silent (rn final evs') /\ c_cross (rn final evs') = c_cross final).
Proof.
  intros HB HB64 Hresp Hsil.
  destruct (BInv_init c w B HF Hok HB HB64 Hresp) as (id & o & HI).
  pose proof (BInv_run _ _ _ _ _ evs _ HI Hev) as HIf. fold c0 final in HIf.
  split; [|split].
  - intros S HSin. eapply silent_no_move; eauto.
  - intros e He. eapply silent_step; eauto.
  - intros evs' Hev'. eapply silent_run; eauto.
Qed.

Theorem pending_cleared_sec : cl_bound c B -> B + 2 <= 2 ^ 64 ->
  resp_ok (snd (client_cmd c P cidx (cop_line w))) = true ->
  Closed c -> silent final -> pending_of final = pending_of c.
Proof.
  intros HB HB64 Hresp Hcl Hsil.
  destruct (BInv_init c w B HF Hok HB HB64 Hresp) as (id & o & HI).
  pose proof (BInv_run _ _ _ _ _ evs _ HI Hev) as HIf. fold c0 final in HIf.
  destruct (silent_pending _ _ _ _ _ final HIf Hsil Hcl) as (xp & Hg & Hp).
  unfold pending_of at 1. now rewrite Hg.
Qed.

Theorem refused_sec : resp_ok (snd (client_cmd c P cidx (cop_line w))) = false ->
  c_cross final = c_cross c /\ silent final /\
  forall S l, In S Ss -> link_of final S = Some l -> l_q l = [] /\ l_replies l = [].
Proof.
  intros Hresp. destruct (BInv_refused c w HF Hok Hresp) as (HI & Hsil & Hc). fold c0 in HI, Hsil, Hc.
  destruct (silent_run _ _ _ _ _ evs c0 HI Hsil Hev) as [Hs Hcr]. fold final in Hs, Hcr.
  split; [congruence|]. split; [exact Hs|].
  intros S l HSin Hl. eapply silent_links; eauto.
Qed.

End Thms.
End Burst.

(* ================================================================== *)
(* Part E.  Property C14, closed statements                             *)
(* ================================================================== *)
(* Setting: [Formed P dbn Ss cidx lk c] (one primary, secondaries Ss, links established, nothing
   in flight), the secondaries are pairwise distinct, one client write [w] at P, then ANY
   schedule [evs] of  EvPollRepl / EvDeliver S / EvReply S / EvPollS S  (S in Ss). *)

(* 1. at silence exactly one line went to every secondary and exactly one acknowledgement came
      back from each: c_cross grew by 2 * |Ss| *)
Theorem C14_burst_exact P dbn Ss cidx lk c w B evs :
  simple_tok dbn -> (forall S, In S Ss -> simple_tok S) -> NoDup Ss ->
  Formed P dbn Ss cidx lk c -> cop_ok w -> cl_bound c B -> B + 2 <= 2 ^ 64 ->
  resp_ok (snd (client_cmd c P cidx (cop_line w))) = true ->
  Forall (bev_ok Ss) evs ->
  let final := run P cidx lk (fst (client_cmd c P cidx (cop_line w))) evs in
  silent P Ss lk final ->
  c_cross final = c_cross c + 2 * N.of_nat (length Ss).
Proof.
  intros Hd HS Hnd HF Hok HB HB64 Hresp Hev final Hsil.
  apply (burst_exact_sec P dbn Ss cidx lk Hd (Formed_P_not_sec _ _ _ _ _ _ HF) HS Hnd c w B evs); auto.
Qed.

(* the potential function: lines that crossed + 2 per line in flight + 1 per waiting non-ok reply
   is the same after every schedule, silent or not *)
Theorem C14_potential_invariant P dbn Ss cidx lk c w B evs :
  simple_tok dbn -> (forall S, In S Ss -> simple_tok S) -> NoDup Ss ->
  Formed P dbn Ss cidx lk c -> cop_ok w -> cl_bound c B -> B + 2 <= 2 ^ 64 ->
  resp_ok (snd (client_cmd c P cidx (cop_line w))) = true ->
  Forall (bev_ok Ss) evs ->
  Phi P Ss lk (run P cidx lk (fst (client_cmd c P cidx (cop_line w))) evs) =
  c_cross c + 2 * N.of_nat (length Ss).
Proof.
  intros Hd HS Hnd HF Hok HB HB64 Hresp Hev.
  apply (potential_invariant_sec P dbn Ss cidx lk Hd (Formed_P_not_sec _ _ _ _ _ _ HF) HS Hnd c w B evs); auto.
Qed.

(* the burst is bounded at every moment of every schedule, not only at silence *)
Theorem C14_burst_bounded_anytime P dbn Ss cidx lk c w B evs :
  simple_tok dbn -> (forall S, In S Ss -> simple_tok S) -> NoDup Ss ->
  Formed P dbn Ss cidx lk c -> cop_ok w -> cl_bound c B -> B + 2 <= 2 ^ 64 ->
  resp_ok (snd (client_cmd c P cidx (cop_line w))) = true ->
  Forall (bev_ok Ss) evs ->
  c_cross (run P cidx lk (fst (client_cmd c P cidx (cop_line w))) evs) <= c_cross c + 2 * N.of_nat (length Ss).
Proof.
  intros Hd HS Hnd HF Hok HB HB64 Hresp Hev.
  pose proof (C14_potential_invariant P dbn Ss cidx lk c w B evs Hd HS Hnd HF Hok HB HB64 Hresp Hev) as H.
  unfold Phi in H. lia.
Qed.

Corollary C14_burst_bounded P dbn Ss cidx lk c w B evs :
  simple_tok dbn -> (forall S, In S Ss -> simple_tok S) -> NoDup Ss ->
  Formed P dbn Ss cidx lk c -> cop_ok w -> cl_bound c B -> B + 2 <= 2 ^ 64 ->
  resp_ok (snd (client_cmd c P cidx (cop_line w))) = true ->
  Forall (bev_ok Ss) evs ->
  let final := run P cidx lk (fst (client_cmd c P cidx (cop_line w))) evs in
  silent P Ss lk final ->
  c_cross final - c_cross c <= 1 + 2 * N.of_nat (length Ss).
Proof.
  intros Hd HS Hnd HF Hok HB HB64 Hresp Hev final Hsil.
  pose proof (C14_burst_exact P dbn Ss cidx lk c w B evs Hd HS Hnd HF Hok HB HB64 Hresp Hev Hsil) as H.
  fold final in H. lia.
Qed.

(* 2. then silence: in the silent state no delivery and no reply is possible, every further event
      leaves c_cross unchanged, and the state stays silent under any further schedule *)
Theorem C14_then_silence P dbn Ss cidx lk c w B evs :
  simple_tok dbn -> (forall S, In S Ss -> simple_tok S) -> NoDup Ss ->
  Formed P dbn Ss cidx lk c -> cop_ok w -> cl_bound c B -> B + 2 <= 2 ^ 64 ->
  resp_ok (snd (client_cmd c P cidx (cop_line w))) = true ->
  Forall (bev_ok Ss) evs ->
  let final := run P cidx lk (fst (client_cmd c P cidx (cop_line w))) evs in
  silent P Ss lk final ->
  (forall S, In S Ss -> deliver final (lk S) = None /\ reply final (lk S) = None) /\
  (forall e, bev_ok Ss e -> c_cross (cstep P cidx lk final e) = c_cross final) /\
  (forall evs', Forall (bev_ok Ss) evs' ->
     silent P Ss lk (run P cidx lk final evs') /\ c_cross (run P cidx lk final evs') = c_cross final).
Proof.
  intros Hd HS Hnd HF Hok HB HB64 Hresp Hev final Hsil.
  apply (then_silence_sec P dbn Ss cidx lk Hd (Formed_P_not_sec _ _ _ _ _ _ HF) HS Hnd c w B evs); auto.
Qed.

(* 3. at silence the primary's pending-operation table is exactly what it was before the write:
      every secondary acknowledged and the entry of the write's op id was removed with the last
      acknowledgement.  Needs [Closed]: see the counterexample [pending_needs_closed] below. *)
Theorem C14_pending_cleared P dbn Ss cidx lk c w B evs :
  simple_tok dbn -> (forall S, In S Ss -> simple_tok S) -> NoDup Ss ->
  Formed P dbn Ss cidx lk c -> cop_ok w -> cl_bound c B -> B + 2 <= 2 ^ 64 ->
  resp_ok (snd (client_cmd c P cidx (cop_line w))) = true ->
  Forall (bev_ok Ss) evs -> Closed P Ss lk c ->
  let final := run P cidx lk (fst (client_cmd c P cidx (cop_line w))) evs in
  silent P Ss lk final ->
  pending_of P final = pending_of P c.
Proof.
  intros Hd HS Hnd HF Hok HB HB64 Hresp Hev Hcl final Hsil.
  apply (pending_cleared_sec P dbn Ss cidx lk Hd (Formed_P_not_sec _ _ _ _ _ _ HF) HS Hnd c w B evs); auto.
Qed.

(* 4. a refused write sends nothing, whatever the schedule: no line crosses a link, no link queue
      and no reply queue ever holds a line.  (No NoDup hypothesis: duplicates in Ss are removed
      first; nothing here counts the secondaries.) *)
Lemma Formed_sub P dbn Ss Ss' cidx lk c : (forall S, In S Ss' -> In S Ss) ->
  Formed P dbn Ss cidx lk c -> Formed P dbn Ss' cidx lk c.
Proof.
  intros Hsub (xp & dp & F1 & F2 & F3 & F4 & F5 & F6 & F7 & F8 & F9 & F10 & F11 & FS).
  exists xp, dp. repeat (split; [assumption|]). split; [auto|]. repeat (split; [assumption|]). auto.
Qed.

Lemma bev_ok_sub Ss Ss' e : (forall S, In S Ss -> In S Ss') -> bev_ok Ss e -> bev_ok Ss' e.
Proof. intros H. destruct e; cbn; auto. Qed.

Lemma silent_sub P Ss Ss' lk c : (forall S, In S Ss' -> In S Ss) -> silent P Ss lk c -> silent P Ss' lk c.
Proof. intros H [H1 H2]. split; [intros S HS; apply H1; auto|intros S l HS; apply H2; auto]. Qed.

Theorem C14_refused_write_sends_nothing P dbn Ss cidx lk c w evs :
  simple_tok dbn -> (forall S, In S Ss -> simple_tok S) ->
  Formed P dbn Ss cidx lk c -> cop_ok w ->
  resp_ok (snd (client_cmd c P cidx (cop_line w))) = false ->
  Forall (bev_ok Ss) evs ->
  let final := run P cidx lk (fst (client_cmd c P cidx (cop_line w))) evs in
  c_cross final = c_cross c /\ silent P Ss lk final /\
  forall S l, In S Ss -> link_of lk final S = Some l -> l_q l = [] /\ l_replies l = [].
Proof.
  intros Hd HS HF Hok Hresp Hev final.
  set (Ss' := nodup string_dec Ss).
  assert (Hin : forall S, In S Ss' <-> In S Ss) by (intros S; apply nodup_In).
  assert (HF' : Formed P dbn Ss' cidx lk c) by (apply (Formed_sub P dbn Ss); [intros S; apply Hin|exact HF]).
  assert (Hev' : Forall (bev_ok Ss') evs).
  { eapply Forall_impl; [|exact Hev]. intros e. apply bev_ok_sub. intros S; apply Hin. }
  destruct (refused_sec P dbn Ss' cidx lk Hd (Formed_P_not_sec _ _ _ _ _ _ HF')
              (fun S H => HS S (proj1 (Hin S) H)) (NoDup_nodup string_dec Ss) c w evs HF' Hok Hev' Hresp) as (H1 & H2 & H3).
  split; [exact H1|]. split.
  - apply (silent_sub P Ss'); [intros S; apply Hin|exact H2].
  - intros S l HSin. apply H3. now apply Hin.
Qed.

(* ================================================================== *)
(* Part F.  Non-vacuity and counterexamples                             *)
(* ================================================================== *)
(* the concrete 3-node cluster of ConvergeProofs, one write, a fixed settle-like schedule *)
Definition bx_w : cop := CSet "k" "v1".
Notation bx_c0 := (fst (client_cmd ex_c "p1" 0 (cop_line bx_w))) (only parsing).
Definition bx_sched : list cev :=
  [EvPollRepl; EvDeliver "s1"; EvDeliver "s2"; EvReply "s1"; EvReply "s1"; EvReply "s2"; EvReply "s2";
   EvPollS "s1"; EvPollS "s2"].
Notation bx_final := (run "p1" 0 ex_lk bx_c0 bx_sched) (only parsing).

Lemma bx_sched_ok : Forall (bev_ok ["s1"; "s2"]) bx_sched.
Proof. unfold bx_sched. repeat (apply Forall_cons; [cbn; tauto|]). apply Forall_nil. Qed.

Lemma bx_tok_dbn : simple_tok "d".
Proof. solve_tok. Qed.
Lemma bx_tok_Ss : forall S, In S ["s1"; "s2"] -> simple_tok S.
Proof. intros S [<-|[<-|[]]]; solve_tok. Qed.
Lemma bx_nodup : NoDup ["s1"; "s2"].
Proof. repeat constructor; cbn; intuition discriminate. Qed.
Lemma bx_w_ok : cop_ok bx_w.
Proof. split; solve_tok. Qed.
Lemma bx_bound : 24 + 2 <= 2 ^ 64.
Proof. vm_compute. intros H; discriminate H. Qed.

Example burst_example_silent : silent "p1" ["s1"; "s2"] ex_lk bx_final.
Proof.
  split.
  - intros S [<-|[<-|[]]]; vm_compute; reflexivity.
  - intros S l [<-|[<-|[]]] Hl; vm_compute in Hl; injection Hl as <-; reflexivity.
Qed.

(* computed: 44 lines had crossed before the write, 48 = 44 + 2 * 2 after the burst ... *)
Example burst_example_computed : c_cross ex_c = 44 /\ c_cross bx_final = 48.
Proof. vm_compute. auto. Qed.

(* ... and that is what the theorem says *)
Example burst_example_exact : c_cross bx_final = c_cross ex_c + 2 * N.of_nat (length ["s1"; "s2"]).
Proof.
  apply (C14_burst_exact "p1" "d" ["s1"; "s2"] 0 ex_lk ex_c bx_w 24 bx_sched).
  - exact bx_tok_dbn.
  - exact bx_tok_Ss.
  - exact bx_nodup.
  - exact formed_example.
  - exact bx_w_ok.
  - exact ex_bound.
  - exact bx_bound.
  - exact formed_write_accepted.
  - exact bx_sched_ok.
  - exact burst_example_silent.
Qed.

(* then it stays: more polls, deliveries, replies change nothing *)
Definition bx_more : list cev :=
  [EvDeliver "s1"; EvReply "s2"; EvPollRepl; EvPollS "s2"; EvDeliver "s2"; EvReply "s1"; EvPollRepl].
Example burst_example_stays :
  c_cross (run "p1" 0 ex_lk bx_final bx_more) = 48 /\ silent "p1" ["s1"; "s2"] ex_lk (run "p1" 0 ex_lk bx_final bx_more).
Proof.
  destruct (C14_then_silence "p1" "d" ["s1"; "s2"] 0 ex_lk ex_c bx_w 24 bx_sched
              bx_tok_dbn bx_tok_Ss bx_nodup formed_example bx_w_ok ex_bound bx_bound formed_write_accepted
              bx_sched_ok burst_example_silent) as (_ & _ & H).
  destruct (H bx_more) as [H1 H2].
  { unfold bx_more. repeat (apply Forall_cons; [cbn; tauto|]). apply Forall_nil. }
  split; [|exact H1]. rewrite H2. vm_compute. reflexivity.
Qed.

(* the extra hypothesis of C14_pending_cleared holds on the example *)
Example closed_example : Closed "p1" ["s1"; "s2"] ex_lk ex_c.
Proof.
  eexists. split; [vm_compute; reflexivity|]. split.
  - intros nm Hnm. vm_compute in Hnm. destruct Hnm as [<-|[<-|[]]]; right; cbn; auto.
  - intros S l [<-|[<-|[]]] Hl; vm_compute in Hl; injection Hl as <-; reflexivity.
Qed.

Example burst_example_pending : pending_of "p1" bx_final = pending_of "p1" ex_c.
Proof.
  apply (C14_pending_cleared "p1" "d" ["s1"; "s2"] 0 ex_lk ex_c bx_w 24 bx_sched).
  - exact bx_tok_dbn.
  - exact bx_tok_Ss.
  - exact bx_nodup.
  - exact formed_example.
  - exact bx_w_ok.
  - exact ex_bound.
  - exact bx_bound.
  - exact formed_write_accepted.
  - exact bx_sched_ok.
  - exact closed_example.
  - exact burst_example_silent.
Qed.

(* in between the table does hold the operation: after the poll and one acknowledgement *)
Example burst_example_pending_midway :
  is_pending (pending_of "p1" (run "p1" 0 ex_lk bx_c0 [EvPollRepl; EvDeliver "s1"; EvReply "s1"])) 25 = true /\
  pending_of "p1" ex_c = [].
Proof. vm_compute. auto. Qed.

(* a refused write (the reserved key cannot be removed) *)
Example refused_example :
  resp_ok (snd (client_cmd ex_c "p1" 0 (cop_line (CRem "$$token")))) = false /\
  c_cross (run "p1" 0 ex_lk (fst (client_cmd ex_c "p1" 0 (cop_line (CRem "$$token")))) bx_sched) = c_cross ex_c.
Proof.
  assert (H : resp_ok (snd (client_cmd ex_c "p1" 0 (cop_line (CRem "$$token")))) = false) by (vm_compute; reflexivity).
  split; [exact H|].
  assert (Hk : cop_ok (CRem "$$token")) by (cbn; solve_tok).
  exact (proj1 (C14_refused_write_sends_nothing "p1" "d" ["s1"; "s2"] 0 ex_lk ex_c (CRem "$$token") bx_sched
           bx_tok_dbn bx_tok_Ss formed_example Hk H bx_sched_ok)).
Qed.

(* ---- why [NoDup Ss] ----------------------------------------------------------------
   [Formed] only speaks about the members of Ss, so it also holds of a list that names a
   secondary twice; the burst is then 2 per DISTINCT secondary, not 2 * length Ss *)
Example burst_needs_nodup :
  let Ss := ["s1"; "s1"] in
  let sched := [EvPollRepl; EvDeliver "s1"; EvReply "s1"; EvReply "s1"; EvPollS "s1"] in
  let final := run "p1" 0 ex_lk bx_c0 sched in
  Formed "p1" "d" Ss 0 ex_lk ex_c /\ Forall (bev_ok Ss) sched /\ silent "p1" Ss ex_lk final /\
  c_cross final = c_cross ex_c + 2 /\ c_cross final <> c_cross ex_c + 2 * N.of_nat (length Ss).
Proof.
  cbv zeta. split; [|split; [|split; [|split]]].
  - apply (Formed_sub "p1" "d" ["s1"; "s2"]); [|exact formed_example]. cbn. tauto.
  - repeat (apply Forall_cons; [cbn; tauto|]). apply Forall_nil.
  - split.
    + intros S [<-|[<-|[]]]; vm_compute; reflexivity.
    + intros S l [<-|[<-|[]]] Hl; vm_compute in Hl; injection Hl as <-; reflexivity.
  - vm_compute. reflexivity.
  - vm_compute. intros H; discriminate H.
Qed.

(* ---- why [Closed] for the pending table ----------------------------------------------
   with Ss = ["s1"] the cluster is still formed (s2 is simply not looked at), the schedule
   reaches silence with respect to Ss, the burst is 2 = 2 * |Ss| as C14_burst_exact says, but
   the primary's member table also names s2: the operation was registered for s2 as well and
   stays pending for ever (s2 never receives its line in this schedule) *)
Example pending_needs_closed :
  let Ss := ["s1"] in
  let sched := [EvPollRepl; EvDeliver "s1"; EvReply "s1"; EvReply "s1"; EvPollS "s1"] in
  let final := run "p1" 0 ex_lk bx_c0 sched in
  Formed "p1" "d" Ss 0 ex_lk ex_c /\ Forall (bev_ok Ss) sched /\ silent "p1" Ss ex_lk final /\
  c_cross final = c_cross ex_c + 2 * N.of_nat (length Ss) /\
  pending_of "p1" ex_c = [] /\ is_pending (pending_of "p1" final) 25 = true /\
  ~ Closed "p1" Ss ex_lk ex_c.
Proof.
  cbv zeta. split; [|split; [|split; [|split; [|split; [|split]]]]].
  - apply (Formed_sub "p1" "d" ["s1"; "s2"]); [|exact formed_example]. cbn. tauto.
  - repeat (apply Forall_cons; [cbn; tauto|]). apply Forall_nil.
  - split.
    + intros S [<-|[]]; vm_compute; reflexivity.
    + intros S l [<-|[]] Hl; vm_compute in Hl; injection Hl as <-; reflexivity.
  - vm_compute. reflexivity.
  - vm_compute. reflexivity.
  - vm_compute. reflexivity.
  - intros (xp & Hg & Hm & _). vm_compute in Hg. injection Hg as <-.
    destruct (Hm "s2") as [E|[E|[]]]; try discriminate E. vm_compute. auto.
Qed.

(* ---- the statements --------------------------------------------------------------- *)
Check C14_burst_exact.
Check C14_burst_bounded.
Check C14_burst_bounded_anytime.
Check C14_potential_invariant.
Check C14_then_silence.
Check C14_pending_cleared.
Check C14_refused_write_sends_nothing.
Print Assumptions C14_burst_exact.
Print Assumptions C14_then_silence.
Print Assumptions C14_pending_cleared.
Print Assumptions C14_refused_write_sends_nothing.
