(* Proofs about Model/Pending.v (property C15). *)
From NunDB Require Import Model.Base Model.Pending Proofs.AssocLemmas.

Local Open Scope N_scope.
Local Notation Nspec := N.eqb_spec.
Local Notation Sspec := String.eqb_spec.

(* ------------------------------------------------------------------ *)
(* 1. Invariant that needs no assumption on the history                 *)
(* ------------------------------------------------------------------ *)

Fixpoint nfalse (l : list (str * bool)) : N :=
  match l with
  | [] => 0
  | (_, b) :: r => (if b then 0 else 1) + nfalse r
  end.

Lemma nfalse_set_false l k :
  nfalse (assoc_set String.eqb k false l) =
  match assoc_get String.eqb k l with
  | Some false => nfalse l
  | _ => nfalse l + 1
  end.
Proof.
  induction l as [|[k' b] r IH]; cbn [assoc_set assoc_get nfalse].
  - lia.
  - destruct (String.eqb k k') eqn:E; cbn [nfalse].
    + destruct b; lia.
    + rewrite IH. destruct (assoc_get String.eqb k r) as [[|]|]; lia.
Qed.

Lemma nfalse_set_true l k :
  nfalse (assoc_set String.eqb k true l) + (match assoc_get String.eqb k l with
                                             | Some false => 1 | _ => 0 end) = nfalse l.
Proof.
  induction l as [|[k' b] r IH]; cbn [assoc_set assoc_get nfalse].
  - lia.
  - destruct (String.eqb k k') eqn:E; cbn [nfalse].
    + destruct b; lia.
    + destruct (assoc_get String.eqb k r) as [[|]|]; lia.
Qed.

Definition Ginv (m : pmsg) : Prop :=
  (p_ack m + nfalse (p_reps m) <= p_rep m)%N /\ (p_ack m < p_rep m)%N.

Definition SInv (s : pstate) : Prop :=
  forall id m, assoc_get N.eqb id s = Some m -> Ginv m.

Lemma replicated_ginv m node :
  (p_ack m + nfalse (p_reps m) <= p_rep m)%N -> Ginv (replicated m node).
Proof.
  unfold Ginv, replicated; cbn [p_ack p_rep p_reps]. intros H.
  rewrite nfalse_set_false. destruct (assoc_get String.eqb node (p_reps m)) as [[|]|]; lia.
Qed.

Lemma SInv_step s e : SInv s -> SInv (fst (pstep s e)).
Proof.
  intros HI. destruct e as [id msg node | id node]; cbn [pstep].
  - unfold register. destruct (assoc_get N.eqb id s) as [m|] eqn:G; cbn [fst];
      intros id' m' G'; destruct (N.eq_dec id' id) as [->|Hn].
    + rewrite (get_set_same _ Nspec) in G'. injection G' as <-.
      apply replicated_ginv. apply (HI _ _ G).
    + rewrite (get_set_other _ Nspec) in G' by assumption. eauto.
    + rewrite (get_set_same _ Nspec) in G'. injection G' as <-.
      apply replicated_ginv. cbn. lia.
    + rewrite (get_set_other _ Nspec) in G' by assumption. eauto.
  - unfold acknowledge. destruct (assoc_get N.eqb id s) as [m|] eqn:G; cbn [fst]; [|exact HI].
    pose proof (HI _ _ G) as [Hle Hlt].
    unfold ack_msg. pose proof (nfalse_set_true (p_reps m) node) as Hs.
    destruct (assoc_get String.eqb node (p_reps m)) as [[|]|] eqn:Gn.
    + (* duplicate *) cbn [fst]. intros id' m' G'. destruct (N.eq_dec id' id) as [->|Hn].
      * rewrite (get_set_same _ Nspec) in G'. injection G' as <-. split; assumption.
      * rewrite (get_set_other _ Nspec) in G' by assumption. eauto.
    + (* counted *) unfold full_ack; cbn [p_rep p_ack].
      destruct (N.eqb_spec (p_rep m) (p_ack m + 1)) as [Heq|Hneq]; cbn [fst];
        intros id' m' G'; destruct (N.eq_dec id' id) as [->|Hn].
      * now rewrite (get_del_same _ ) in G'.
      * rewrite (get_del_other _ Nspec) in G' by assumption. eauto.
      * rewrite (get_set_same _ Nspec) in G'. injection G' as <-.
        unfold Ginv; cbn [p_ack p_rep p_reps]. lia.
      * rewrite (get_set_other _ Nspec) in G' by assumption. eauto.
    + (* foreign *) cbn [fst]. intros id' m' G'. destruct (N.eq_dec id' id) as [->|Hn].
      * rewrite (get_set_same _ Nspec) in G'. injection G' as <-.
        unfold Ginv; cbn [p_ack p_rep p_reps]. lia.
      * rewrite (get_set_other _ Nspec) in G' by assumption. eauto.
Qed.

Lemma SInv_run_from s evs : SInv s -> SInv (fold_left (fun s e => fst (pstep s e)) evs s).
Proof.
  revert s. induction evs as [|e r IH]; cbn [fold_left]; intros s H; [exact H|].
  apply IH. now apply SInv_step.
Qed.

Theorem counts_inv evs id m :
  assoc_get N.eqb id (prun evs) = Some m ->
  (p_ack m <= p_rep m)%N /\ (p_ack m < p_rep m)%N /\ (p_ack m + nfalse (p_reps m) <= p_rep m)%N.
Proof.
  intros G. assert (H : SInv (prun evs)).
  { apply SInv_run_from. intros ? ? G0. discriminate. }
  destruct (H _ _ G) as [H1 H2]. repeat split; lia.
Qed.

(* ------------------------------------------------------------------ *)
(* 2. Acks that change nothing                                          *)
(* ------------------------------------------------------------------ *)

Lemma ack_unknown_noop s id node :
  assoc_get N.eqb id s = None -> acknowledge s id node = (s, false).
Proof. unfold acknowledge. now intros ->. Qed.

Lemma ack_duplicate_noop s id node m :
  assoc_get N.eqb id s = Some m ->
  assoc_get String.eqb node (p_reps m) = Some true ->
  acknowledge s id node = (s, false).
Proof.
  intros G Gn. unfold acknowledge, ack_msg. rewrite G, Gn.
  now rewrite (set_same_id _ _ _ _ G).
Qed.

(* counters of every op, and the set of pending ops *)
Definition counters (s : pstate) : list (N * (N * N)) :=
  map (fun '(id, m) => (id, (p_rep m, p_ack m))) s.

Lemma counters_set s id m m' :
  assoc_get N.eqb id s = Some m -> p_rep m' = p_rep m -> p_ack m' = p_ack m ->
  counters (assoc_set N.eqb id m' s) = counters s.
Proof.
  intros G Hr Ha. induction s as [|[k v] r IH]; cbn [assoc_get] in G; try discriminate.
  cbn [assoc_set]. destruct (N.eqb id k) eqn:E.
  - injection G as ->. cbn [counters map]. now rewrite Hr, Ha.
  - cbn [counters map]. f_equal. now apply IH.
Qed.

Lemma ack_foreign_noop s id node m :
  assoc_get N.eqb id s = Some m ->
  assoc_get String.eqb node (p_reps m) = None ->
  snd (acknowledge s id node) = false /\
  counters (fst (acknowledge s id node)) = counters s.
Proof.
  intros G Gn. unfold acknowledge, ack_msg. rewrite G, Gn. cbn [fst snd]. split; auto.
  now apply (counters_set _ _ m).
Qed.

(* ------------------------------------------------------------------ *)
(* 3. Refinement of the abstract spec for well-formed histories         *)
(* ------------------------------------------------------------------ *)

Section Rel.
Context {V W : Type} (P : V -> W -> Prop).
Definition rel (s : list (N * V)) (t : list (N * W)) : Prop :=
  Forall2 (fun a b => fst a = fst b /\ P (snd a) (snd b)) s t.

Lemma rel_get s t id : rel s t ->
  match assoc_get N.eqb id s, assoc_get N.eqb id t with
  | None, None => True
  | Some v, Some w => P v w
  | _, _ => False
  end.
Proof.
  induction 1 as [|[k v] [k' w] s t [Hk Hp] _ IH]; cbn in *; auto.
  subst k'. destruct (N.eqb id k); auto.
Qed.

Lemma rel_set s t id v w : rel s t -> P v w ->
  rel (assoc_set N.eqb id v s) (assoc_set N.eqb id w t).
Proof.
  induction 1 as [|[k v0] [k' w0] s t [Hk Hp] Hr IH]; cbn in *; intros Hvw.
  - constructor; [split; auto | constructor].
  - subst k'. destruct (N.eqb id k).
    + constructor; [split; auto | exact Hr].
    + constructor; [split; auto | apply IH; exact Hvw].
Qed.

Lemma rel_del s t id : rel s t -> rel (assoc_del N.eqb id s) (assoc_del N.eqb id t).
Proof.
  induction 1 as [|[k v0] [k' w0] s t [Hk Hp] Hr IH]; cbn in *.
  - constructor.
  - subst k'. destruct (N.eqb id k); auto. constructor; [split; auto | exact IH].
Qed.

Lemma rel_length s t : rel s t -> List.length s = List.length t.
Proof. induction 1; cbn; auto. Qed.
End Rel.

Definition Rm (m : pmsg) (l : list str) : Prop :=
  l <> [] /\ NoDup l /\
  (forall n, mem_str n l = true <-> assoc_get String.eqb n (p_reps m) = Some false) /\
  (p_ack m + N.of_nat (List.length l) = p_rep m)%N.

Lemma mem_str_in n l : mem_str n l = true <-> In n l.
Proof.
  unfold mem_str. rewrite existsb_exists. split.
  - intros [x [Hin E]]. apply String.eqb_eq in E. now subst.
  - intros H. exists n. split; auto. apply String.eqb_refl.
Qed.

Lemma mem_str_app n l x : mem_str n (l ++ [x]) = mem_str n l || String.eqb n x.
Proof. unfold mem_str. rewrite existsb_app. cbn. now rewrite orb_false_r. Qed.

Lemma del_str_mem n x l : mem_str n (del_str x l) = negb (String.eqb x n) && mem_str n l.
Proof.
  apply eq_iff_eq_true. rewrite andb_true_iff, !mem_str_in. unfold del_str.
  rewrite filter_In. tauto.
Qed.

Lemma del_str_notin x l : ~ In x l -> del_str x l = l.
Proof.
  induction l as [|y r IH]; cbn; auto. intros H.
  destruct (Sspec x y) as [->|Hn]; cbn.
  - exfalso. apply H. now left.
  - f_equal. apply IH. intros Hin. apply H. now right.
Qed.

Lemma del_str_length x l : NoDup l -> In x l ->
  S (List.length (del_str x l)) = List.length l.
Proof.
  induction 1 as [|y r Hnin Hnd IH]; [intros []|].
  intros Hin. change (del_str x (y :: r)) with
    (if negb (String.eqb x y) then y :: del_str x r else del_str x r).
  destruct (Sspec x y) as [->|Hn]; cbn [negb].
  - rewrite del_str_notin by assumption. reflexivity.
  - destruct Hin as [E|Hin]; [congruence|]. cbn [List.length]. f_equal. now apply IH.
Qed.

Lemma del_str_nodup x l : NoDup l -> NoDup (del_str x l).
Proof. apply NoDup_filter. Qed.

Definition wf_ok (t : sstate) (e : pev) : bool :=
  match e with
  | Reg id _ node => negb (mem_str node (outstanding t id))
  | Ack _ _ => true
  end.

Definition out_ok (t : sstate) (e : pev) (o : pout) : Prop :=
  match e, o with
  | Ack id node, OAck b => b = snd (sack t id node)
  | Reg id msg node, OReg txt =>
      exists msg0, txt = message_to_replicate id msg0 /\
                   (outstanding t id = [] -> msg0 = msg)
  | _, _ => False
  end.

Lemma outstanding_rel s t id : rel Rm s t ->
  match assoc_get N.eqb id s with
  | Some m => Rm m (outstanding t id)
  | None => outstanding t id = []
  end.
Proof.
  intros H. pose proof (rel_get Rm s t id H) as G. unfold outstanding.
  destruct (assoc_get N.eqb id s), (assoc_get N.eqb id t); tauto.
Qed.

Lemma sim_step s t e : rel Rm s t -> wf_ok t e = true ->
  rel Rm (fst (pstep s e)) (sstep t e) /\ out_ok t e (snd (pstep s e)).
Proof.
  intros HR Hwf. destruct e as [id msg node | id node]; cbn [pstep sstep].
  - (* register *)
    cbn [wf_ok] in Hwf. apply negb_true_iff in Hwf.
    unfold register, sreg. rewrite Hwf.
    pose proof (outstanding_rel s t id HR) as Ho.
    destruct (assoc_get N.eqb id s) as [m|] eqn:G; cbn [fst snd].
    + destruct Ho as (Hne & Hnd & Hiff & Hcnt). split.
      * apply rel_set; auto. unfold Rm, replicated; cbn [p_ack p_rep p_reps].
        split; [now destruct (outstanding t id)|]. split.
        { apply nodup_snoc; auto. intros Hin. apply mem_str_in in Hin. congruence. }
        split.
        { intros n. rewrite mem_str_app. destruct (Sspec n node) as [->|Hn].
          - rewrite orb_true_r, (get_set_same _ Sspec). tauto.
          - rewrite orb_false_r, (get_set_other _ Sspec) by assumption. apply Hiff. }
        { rewrite app_length; cbn. lia. }
      * exists (p_msg m). split; auto. intros E. now rewrite E in Hne.
    + rewrite Ho. cbn [app]. split.
      * apply rel_set; auto. unfold Rm, replicated; cbn [p_ack p_rep p_reps assoc_set].
        split; [discriminate|]. split; [repeat constructor; cbn; tauto|]. split.
        { intros n. cbn. rewrite orb_false_r. destruct (Sspec n node); split; congruence. }
        { cbn. lia. }
      * exists msg. split; auto.
  - (* acknowledge *)
    unfold acknowledge, sack.
    pose proof (outstanding_rel s t id HR) as Ho.
    destruct (assoc_get N.eqb id s) as [m|] eqn:G.
    + destruct Ho as (Hne & Hnd & Hiff & Hcnt).
      unfold ack_msg. destruct (assoc_get String.eqb node (p_reps m)) as [[|]|] eqn:Gn.
      * (* duplicate *)
        assert (Hm : mem_str node (outstanding t id) = false).
        { destruct (mem_str node (outstanding t id)) eqn:E; auto.
          apply Hiff in E. congruence. }
        rewrite Hm. cbn [fst snd]. split; [|cbn [out_ok]; unfold sack; now rewrite Hm].
        now rewrite (set_same_id _ _ _ _ G).
      * (* counted *)
        assert (Hm : mem_str node (outstanding t id) = true) by now apply Hiff.
        rewrite Hm. unfold full_ack; cbn [p_rep p_ack].
        pose proof (del_str_length node _ Hnd (proj1 (mem_str_in _ _) Hm)) as Hlen.
        destruct (del_str node (outstanding t id)) as [|x l'] eqn:Ed.
        -- cbn in Hlen.
           replace (p_rep m =? p_ack m + 1)%N with true
             by (symmetry; apply N.eqb_eq; lia).
           cbn [fst snd]. split; [|cbn [out_ok]; unfold sack; now rewrite Hm, Ed]. now apply rel_del.
        -- replace (p_rep m =? p_ack m + 1)%N with false
             by (symmetry; apply N.eqb_neq; cbn [List.length] in Hlen; lia).
           cbn [fst snd]. split; [|cbn [out_ok]; unfold sack; now rewrite Hm, Ed]. apply rel_set; auto.
           unfold Rm; cbn [p_ack p_rep p_reps]. rewrite <- Ed.
           split; [rewrite Ed; discriminate|]. split; [now apply del_str_nodup|]. split.
           { intros n. rewrite del_str_mem. destruct (Sspec node n) as [<-|Hn]; cbn.
             - rewrite (get_set_same _ Sspec). split; congruence.
             - rewrite (get_set_other _ Sspec) by congruence. apply Hiff. }
           { rewrite Ed. cbn [List.length] in *. lia. }
      * (* foreign *)
        assert (Hm : mem_str node (outstanding t id) = false).
        { destruct (mem_str node (outstanding t id)) eqn:E; auto.
          apply Hiff in E. congruence. }
        rewrite Hm. cbn [fst snd]. split; [|cbn [out_ok]; unfold sack; now rewrite Hm].
        assert (Et : assoc_set N.eqb id (outstanding t id) t = t).
        { apply set_same_id. unfold outstanding. destruct (assoc_get N.eqb id t) eqn:Gt; auto.
          pose proof (rel_get Rm s t id HR) as Hg. rewrite G, Gt in Hg. tauto. }
        rewrite <- Et.
        apply rel_set; auto. unfold Rm; cbn [p_ack p_rep p_reps].
        repeat split; auto.
        -- intros Hin. apply Hiff in Hin.
           destruct (Sspec n node) as [->|Hn]; [congruence|].
           now rewrite (get_set_other _ Sspec).
        -- intros Hg. destruct (Sspec n node) as [->|Hn].
           ++ rewrite (get_set_same _ Sspec) in Hg. discriminate.
           ++ rewrite (get_set_other _ Sspec) in Hg by assumption. now apply Hiff.
    + rewrite Ho. cbn [mem_str existsb fst snd]. split; auto.
      cbn [out_ok]. unfold sack. now rewrite Ho.
Qed.

Lemma sim_run_from evs : forall s t, rel Rm s t -> wf_from t evs = true ->
  rel Rm (fold_left (fun s e => fst (pstep s e)) evs s) (fold_left sstep evs t).
Proof.
  induction evs as [|e r IH]; cbn [fold_left wf_from]; intros s t HR Hwf; [exact HR|].
  apply andb_true_iff in Hwf as [H1 H2].
  apply IH; [|exact H2]. apply sim_step; auto.
Qed.

Theorem refines evs : wf evs = true -> rel Rm (prun evs) (srun evs).
Proof. intros H. apply sim_run_from; [constructor | exact H]. Qed.

Definition is_nil {A} (l : list A) : bool := match l with [] => true | _ => false end.

Theorem pending_iff evs id : wf evs = true ->
  is_pending (prun evs) id = negb (is_nil (outstanding (srun evs) id)).
Proof.
  intros H. pose proof (outstanding_rel _ _ id (refines evs H)) as Ho.
  unfold is_pending. destruct (assoc_get N.eqb id (prun evs)).
  - destruct Ho as (Hne & _). now destruct (outstanding (srun evs) id).
  - now rewrite Ho.
Qed.

Theorem pending_count_spec evs : wf evs = true ->
  pending_count (prun evs) = List.length (srun evs).
Proof. intros H. apply (rel_length Rm), refines, H. Qed.

Lemma rel_all_nil s t : rel Rm s t -> (forall id, outstanding t id = []) -> s = [].
Proof.
  intros HR Hall. destruct HR as [|[k m] [k' l] s t [Hk (Hne & _)] _]; auto.
  cbn in *. subst k'. specialize (Hall k). unfold outstanding in Hall. cbn in Hall.
  rewrite N.eqb_refl in Hall. congruence.
Qed.

Theorem drained evs : wf evs = true ->
  (forall id, outstanding (srun evs) id = []) -> prun evs = [].
Proof. intros H Hall. eapply rel_all_nil; [apply refines, H | exact Hall]. Qed.

Lemma wf_from_app evs1 : forall t evs2,
  wf_from t (evs1 ++ evs2) = wf_from t evs1 && wf_from (fold_left sstep evs1 t) evs2.
Proof.
  induction evs1 as [|e r IH]; cbn [app wf_from fold_left]; intros t evs2; auto.
  now rewrite IH, andb_assoc.
Qed.

Theorem outputs_refine evs e : wf (evs ++ [e]) = true ->
  out_ok (srun evs) e (snd (pstep (prun evs) e)).
Proof.
  unfold wf. rewrite wf_from_app. intros H. apply andb_true_iff in H as [H1 H2].
  cbn [wf_from] in H2. rewrite andb_true_r in H2.
  apply sim_step; [now apply refines | exact H2].
Qed.

(* ---- the spec means what it says -------------------------------------- *)
Lemma outstanding_set t id l id' :
  outstanding (assoc_set N.eqb id l t) id' = if N.eqb id' id then l else outstanding t id'.
Proof.
  unfold outstanding. destruct (N.eqb_spec id' id) as [->|Hn].
  - now rewrite (get_set_same _ Nspec).
  - now rewrite (get_set_other _ Nspec).
Qed.

Lemma outstanding_del t id id' :
  outstanding (assoc_del N.eqb id t) id' = if N.eqb id' id then [] else outstanding t id'.
Proof.
  unfold outstanding. destruct (N.eqb_spec id' id) as [->|Hn].
  - now rewrite get_del_same.
  - now rewrite (get_del_other _ Nspec).
Qed.

Lemma spec_reg t id node id' n :
  mem_str n (outstanding (sreg t id node) id') =
  mem_str n (outstanding t id') || (N.eqb id' id && String.eqb n node).
Proof.
  unfold sreg. rewrite outstanding_set. destruct (N.eqb_spec id' id) as [->|Hn]; cbn.
  - destruct (mem_str node (outstanding t id)) eqn:E.
    + destruct (Sspec n node) as [->|]; [now rewrite E | now rewrite orb_false_r].
    + apply mem_str_app.
  - now rewrite orb_false_r.
Qed.

Lemma spec_ack t id node id' n :
  mem_str n (outstanding (fst (sack t id node)) id') =
  mem_str n (outstanding t id') && negb (N.eqb id' id && String.eqb n node).
Proof.
  unfold sack. destruct (mem_str node (outstanding t id)) eqn:E.
  - assert (H : forall l, outstanding
        (fst (match l with [] => (assoc_del N.eqb id t, true)
                         | _ :: _ => (assoc_set N.eqb id l t, true) end)) id'
        = if N.eqb id' id then l else outstanding t id').
    { intros [|x l]; cbn [fst]; [rewrite outstanding_del | rewrite outstanding_set]; reflexivity. }
    rewrite H. destruct (N.eqb_spec id' id) as [->|Hn]; cbn.
    + rewrite del_str_mem, (String.eqb_sym node n). apply andb_comm.
    + now rewrite andb_true_r.
  - cbn [fst]. destruct (N.eqb_spec id' id) as [->|Hn]; cbn; [|now rewrite andb_true_r].
    destruct (Sspec n node) as [->|]; cbn; [now rewrite E | now rewrite andb_true_r].
Qed.
